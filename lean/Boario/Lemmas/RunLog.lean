/-
  Lemmas on `Records.runLog`: a prefix of successful steps writes exactly its own rows.
-/
import Boario.Records

namespace Boario.Records

variable {V : Type}

/-- `k` successful steps with values `vals t`, starting at row `t0` -/
def okRunFrom (vals : Nat → Rec → V) (t0 k : Nat) : List ((Rec → V) × StepEnd) :=
  (List.range' t0 k).map fun t => (vals t, StepEnd.ok)

/-- the log after `k` successful steps from row `t0` -/
def okLog (c : Cfg) (vals : Nat → Rec → V) (t0 k : Nat) (log : Log V) : Log V :=
  fun r row => if t0 ≤ row ∧ row < t0 + k ∧ tracked c r = true then some (vals row r) else log r row

theorem runLog_okRunFrom_append (c : Cfg) (vals : Nat → Rec → V) (k : Nat) :
    ∀ (t0 : Nat) (log : Log V) (rest : List ((Rec → V) × StepEnd)),
    runLog c (okRunFrom vals t0 k ++ rest) t0 log = runLog c rest (t0 + k) (okLog c vals t0 k log) := by
  induction k with
  | zero =>
    intro t0 log rest
    have : okLog c vals t0 0 log = log := by
      funext r row
      simp only [okLog]
      rw [if_neg]; omega
    simp [okRunFrom, this]
  | succ k ih =>
    intro t0 log rest
    have h1 : okRunFrom vals t0 (k + 1) = (vals t0, StepEnd.ok) :: okRunFrom vals (t0 + 1) k := by
      simp [okRunFrom, List.range'_succ]
    rw [h1, List.cons_append]
    simp only [runLog]
    rw [ih]
    have h2 : okLog c vals (t0 + 1) k (writeStep c t0 (vals t0) StepEnd.ok log) = okLog c vals t0 (k + 1) log := by
      funext r row
      simp only [okLog, writeStep, written]
      by_cases h : row = t0
      · subst h
        by_cases ht : tracked c r = true <;> simp [ht]
      · by_cases ht : tracked c r = true
        · simp only [ht, h, and_true, if_false]
          congr 1
          apply propext
          omega
        · simp [ht]
    rw [h2]
    congr 1
    omega

theorem writeStep_congr (c c' : Cfg) (h : c.registerStocks = c'.registerStocks) (t : Nat)
    (v : Rec → V) (e : StepEnd) (log : Log V) : writeStep c t v e log = writeStep c' t v e log := by
  have ht : ∀ r, tracked c r = tracked c' r := fun r => by simp only [tracked, h]
  funext r row
  simp only [writeStep, ht]

theorem runLog_congr (c c' : Cfg) (h : c.registerStocks = c'.registerStocks)
    (steps : List ((Rec → V) × StepEnd)) : ∀ (t : Nat) (log : Log V),
    runLog c steps t log = runLog c' steps t log := by
  induction steps with
  | nil => intro t log; rfl
  | cons p rest ih =>
    intro t log
    obtain ⟨v, e⟩ := p
    cases e <;> simp only [runLog, writeStep_congr c c' h, ih]

theorem runLog_untracked (c : Cfg) (r : Rec) (hr : tracked c r = false)
    (steps : List ((Rec → V) × StepEnd)) : ∀ (t : Nat) (log : Log V),
    (∀ row, log r row = none) → ∀ row, (runLog c steps t log).1 r row = none := by
  induction steps with
  | nil => intro t log hl row; exact hl row
  | cons p rest ih =>
    intro t log hl row
    obtain ⟨v, e⟩ := p
    have hw : ∀ row, writeStep c t v e log r row = none := by
      intro row; simp [writeStep, hr, hl]
    cases e
    · simp only [runLog]; exact ih _ _ hw row
    · simp only [runLog]; exact hw row
    · simp only [runLog]; exact hw row

end Boario.Records
