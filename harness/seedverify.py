"""Confirm a seeded change in a scratch worktree of /repo's HEAD: patch applies, the test suite still
passes with it, the demonstration fails with it and passes without it.  Then store it under
/verif/seeded/<name>/ (patch.diff, demo.py, meta.json)."""
import json, shutil, subprocess, sys
from pathlib import Path

def sh(c, cwd=None, timeout=1800):
    return subprocess.run(c, shell=True, cwd=cwd, capture_output=True, text=True, timeout=timeout)

def main(src, name):
    src = Path(src)
    wt = Path("/tmp/wt/verify")
    if wt.exists():
        sh(f"git -C /repo worktree remove --force {wt}")
    r = sh(f"git -C /repo worktree add --detach {wt} HEAD")
    assert r.returncode == 0, r.stderr
    out = {"name": name}
    try:
        (wt / "seed" / "x").mkdir(parents=True)
        shutil.copy(src / "demo.py", wt / "seed" / "x" / "demo.py")
        r = sh(f"/venv/bin/python seed/x/demo.py", cwd=wt)
        out["demo_without"] = r.returncode
        r = sh(f"git apply --3way {src/'patch.diff'} || git apply {src/'patch.diff'}", cwd=wt)
        out["applies"] = r.returncode == 0
        if not out["applies"]:
            out["apply_err"] = r.stderr[-500:]
            return out
        sh("git reset -q", cwd=wt)
        r = sh("/venv/bin/python -m pytest -q -p no:cacheprovider --timeout=900 -n 8 2>&1 | tail -1", cwd=wt)
        out["tests"] = r.stdout.strip()
        r = sh(f"/venv/bin/python seed/x/demo.py", cwd=wt)
        out["demo_with"] = r.returncode
        out["demo_with_tail"] = r.stdout.strip().splitlines()[-3:]
        r = sh("git diff -- boario", cwd=wt)
        ok = out["demo_without"] == 0 and out["demo_with"] == 1 and " passed" in out["tests"] and "failed" not in out["tests"]
        out["confirmed"] = ok
        if ok:
            dst = Path("/verif/seeded") / name
            dst.mkdir(parents=True, exist_ok=True)
            (dst / "patch.diff").write_text(r.stdout)
            shutil.copy(src / "demo.py", dst / "demo.py")
            meta = json.loads((src / "meta.json").read_text())
            meta["confirmed_by_me"] = {"base": sh("git -C /repo rev-parse --short HEAD").stdout.strip(),
                                       "tests_with_change": out["tests"], "demo_without_change_exit": 0, "demo_with_change_exit": 1,
                                       "ran": ["git apply patch.diff (scratch worktree of /repo HEAD)", "pytest -n 8 (whole suite)", "demo.py with and without the change"]}
            (dst / "meta.json").write_text(json.dumps(meta, indent=1))
    finally:
        sh(f"git -C /repo worktree remove --force {wt}")
    return out

if __name__ == "__main__":
    print(json.dumps(main(sys.argv[1], sys.argv[2]), indent=1))
