"""Per-property configuration of `./check`: which theorems are owed, which correspondence obligations
and oracles decide the property, which scenario streams feed it."""

LEVEL_TEXT = {}

# theorem names (in namespace Boario) each property owes; every one must exist in the built
# environment, be free of sorry, and depend on standard axioms only.
THEOREMS = {
    "C03": ["production_feasible_reach", "production_branches_agree", "production_nonneg", "production_le_demand", "production_le_capacity",
            "production_le_stock_support", "production_eq_min3", "production_tight"],
    "C04": ["Gen.slice_table", "Gen.slices_plain", "Gen.orders_columns", "Gen.final_demand_columns", "Gen.rebuild_part_columns", "Gen.rebuild_parts_split", "Gen.resize_keeps_orders_and_final_demand", "Gen.delivery_columns", "Gen.writer_is_layout", "Gen.reader_is_layout", "Gen.code_writer_reader_agree", "Layout.writer_reader_agree", "Layout.blocks_inside", "Layout.blocks_disjoint", "Layout.blocks_cover", "Layout.blocks_partition", "deliveries_sum", "deliveries_same_ratio_orders", "deliveries_same_ratio_fd", "deliveries_reb_length",
            "deliveries_same_ratio_reb", "deliveries_le_asked", "fd_unmet_eq", "fd_unmet_range", "reb_prod_eq"],
    "C05": ["stock_nonneg_reach_inv", "no_crash_real_inputs", "stock_update", "stock_negative_crashes", "stock_nonneg_distribute", "infinite_never_binds",
            "production_ignores_infinite", "stock_nonneg_step", "loop_stops_on_crash", "stock_nonneg_reach",
            "Gen.monotony_never_incremented", "loop_crash_stepwise"],
    "C06": ["mkParams_shareSpec", "orders_no_internal", "orders_nonneg", "orders_eq", "orders_sum_noalt", "orders_sum_alt",
            "orders_only_initial_suppliers", "shares_noalt", "shares_alt", "need_eq", "gap_nonneg"],
    "C07": ["capital_ingest", "lost_is_sum_of_active", "lost_ignores_inactive", "delta_eq", "delta_range", "delta_zero_unaffected",
            "arb_is_max", "excess_loss_rejected", "capacity_nonneg", "eventsPre_delta"],
    "C01": ["init_at_equilibrium", "equilibrium_step", "equilibrium_step_needs_capital_nonneg", "equilibrium_forever", "equilibrium_loop"],
    "C08": ["rebuild_conservation", "rebuild_split", "rebuild_total_industry", "rebuild_total", "rebuild_split_house", "rebuild_total_house",
            "only_rebuilding_sectors", "only_rebuilding_sectors_house", "rebuild_presented", "rebuild_presented_house",
            "settle_nonneg", "settle_exact", "settle_on_grid", "settle_le", "settle_le_first", "settle_zero", "damage_eq",
            "rebuild_antitone_reach"],
    "C13": ["conv_eq", "conversion_uniform", "reexpression_invariant", "capacity_homogeneous", "production_homogeneous",
            "overprod_homogeneous", "deliveries_homogeneous", "orders_homogeneous_same_branch", "gapOpen_homogeneous",
            "deltaCap_homogeneous", "isClose_scale_of_decisive", "isClose_not_unit_free", "roundDec_unit", "unit_change_step",
            "unit_hyps_step", "unit_change_run", "scale_run_dimensionless", "mkParams_scale", "initEcon_scale", "trackerInit_unit",
            "trackerInit_curveHomog", "unit_change_simulation", "closeAgree_of_decisive", "closeAgree_of_exact"],
    "C18": ["psi_one_params", "psi_one_step", "psi_one_run", "alt_share_eq_fixed_share", "alt_eq_noalt", "alt_ne_noalt_zero_capacity",
            "alt_noalt_event_free_run", "alt_noalt_event_free_loop"],
    "C09": ["damage_before_recovery", "wake_ledgers", "damage_after", "arb_after", "finished_when_zero", "finished_no_loss",
            "linear_range", "convexe_range", "linear_antitone", "convexe_antitone", "linear_zero_at_tau", "linear_zero_after_tau",
            "linear_finished_at_tau", "rounded_range", "rounded_close", "concave_shape",
            "run_same_events", "recovery_trajectory", "arbitrary_trajectory", "linear_finished_run",
            "recovery_trajectory_dt", "arbitrary_trajectory_dt", "linear_finished_run_dt"],
    "C10": ["lifecycle_status", "lifecycle_same_event", "post_status", "status_edges", "status_kind_step", "status_timeline_step",
            "status_timeline", "shock_in_force", "pending_invisible", "prefix_event_free",
            "onScheduleDt_one", "status_timeline_step_dt", "status_timeline_dt", "shock_in_force_dt", "prefix_event_free_dt"],
    "C11": ["no_internal_error", "ids_lifecycle", "ids_receive", "demand_own_block", "other_blocks_empty", "credit_own_block",
            "finished_no_more", "aggregates_perm", "rebuild_total_perm", "perm_observables_step_partial", "perm_invariant_run",
            "Layout.writer_reader_agree", "Layout.blocks_inside", "Layout.blocks_disjoint", "Layout.blocks_cover", "Layout.blocks_partition",
            "Gen.slice_table", "Gen.slices_plain", "Gen.orders_columns", "Gen.final_demand_columns", "Gen.rebuild_part_columns", "Gen.rebuild_parts_split", "Gen.resize_keeps_orders_and_final_demand", "Gen.delivery_columns", "Gen.writer_is_layout", "Gen.reader_is_layout", "Gen.code_writer_reader_agree"],
    "C20": ["psi_above_one_rejected", "schedule_outside_horizon_rejected", "excess_capital_rejected", "negative_capacity_rejected",
            "event_tau_rejected", "event_schedule_rejected", "event_negative_impact_rejected", "event_empty_impact_rejected", "event_excess_loss_rejected", "event_shares_rejected", "event_negative_share_rejected", "event_nonpositive_factor_rejected", "event_accepted", "event_accepted_rebuild", "tracker_init_ok_accepted", "params_ok", "init_econ_ok", "tracker_init_ok", "inv_step", "step_quantities_nonneg", "no_silent_failure", "inv_reach"],
    "C02": ["specDemand_eq", "step_refines_spec", "nextStep_econ", "Records.phase_order"],
    "C19": ["lifecycle_shift", "recoverOne_shift", "eventsPost_shift", "eventsPre_shift", "shift_step", "overprod_identity_at_rest",
            "shift_step_early", "shift_run_partial", "equilibrium_step_exact", "shift_invariance", "Gen.monotony_never_incremented",
            "equilibrium_step_exact_dt", "shift_invariance_dt", "shift_invariance_of_dt"],
    "C12": ["Impact.distribute_sum", "Impact.distribute_pos", "Impact.distribute_equal", "Impact.distribute_proportional", "Impact.distribute_support",
            "Impact.reject_nonpositive_impact", "Impact.reject_empty_selection", "Impact.reject_missing_weight", "Impact.reject_negative_entry",
            "Impact.reject_negative_weight", "Impact.regions_sectors_sum", "Impact.regions_sectors_product"],
    "C15": ["Labels.canon_sorted", "Labels.canon_perm_self", "Labels.canon_perm", "Labels.values_perm", "Labels.canonTable_perm",
            "Labels.widen_perm", "Labels.widen_get", "Labels.ingest_factors"],
    "C16": ["Records.rows_faithful", "Records.rows_fill", "Records.untracked_never_written", "Records.storage_independent",
            "Records.early_stop_intact", "Records.crash_row", "Records.run_time", "Records.stepwise_eq_loop", "Gen.monotony_never_incremented", "Gen.loop_range", "loop_eq_stepwise", "loop_crash_stepwise", "Records.phase_order", "Records.one_write_per_record", "Records.guards_complete",
            "Records.helpers_write_own_row", "Records.specs_bijective", "Records.writes_after_their_phase"],
    "C17": ["Storage.run_function", "Storage.isolation", "Storage.fresh_defaults_distinct", "Storage.shared_default_breaks_isolation",
            "Storage.ingest_preserves", "Storage.event_reusable", "Storage.defaults_safe"],
    "C14": ["alpha_bounds_reach", "Records.phase_order", "alpha_bounds", "alpha_increase_only_if_scarce", "alpha_increase_amount", "alpha_no_increase_when_met",
            "alpha_drift_to_base", "alpha_bound_needs_rate_le_one"],
}

# Lean modules holding them
MODULES = {pid: [f"Boario.Properties.{pid}"] for pid in THEOREMS}
MODULES["C19"] = ["Boario.Properties.C19", "Boario.Properties.C19Run", "Boario.Properties.C19Dt", "Boario.Properties.LoopThm"]
MODULES["C16"] = ["Boario.Properties.C16", "Boario.Properties.LoopThm"]
MODULES["C02"] = ["Boario.Properties.C02", "Boario.Properties.PhaseOrder"]
MODULES["C14"] = ["Boario.Properties.C14", "Boario.Properties.PhaseOrder", "Boario.Properties.Reach"]
MODULES["C03"] = ["Boario.Properties.C03", "Boario.Properties.Reach"]
MODULES["C05"] = ["Boario.Properties.C05", "Boario.Properties.Reach", "Boario.Properties.LoopThm"]
MODULES["C07"] = ["Boario.Properties.C07", "Boario.Properties.Reach"]
MODULES["C08"] = ["Boario.Properties.C08", "Boario.Properties.Reach"]
MODULES["C06"] = ["Boario.Properties.C06", "Boario.Properties.Reach"]
MODULES["C11"] = ["Boario.Properties.C11", "Boario.Properties.C11Run", "Boario.Properties.LayoutThm", "Boario.Properties.Slices"]
MODULES["C13"] = ["Boario.Properties.C13", "Boario.Properties.C13Run"]
MODULES["C09"] = ["Boario.Properties.C09", "Boario.Properties.C09Run", "Boario.Properties.C09Dt"]
MODULES["C10"] = ["Boario.Properties.C10", "Boario.Properties.C10Dt"]
MODULES["C18"] = ["Boario.Properties.C18", "Boario.Properties.C18Run"]
MODULES["C04"] = ["Boario.Properties.C04", "Boario.Properties.LayoutThm", "Boario.Properties.Slices"]


# non-vacuity witnesses (Properties/NonVacuity.lean): concrete inputs meeting the hypotheses of the property theorems
NONVACUITY = {
    "C01": ["Gen.monotony_never_incremented", "loop_eq_stepwise", "NV.tb0_valid", "NV.cfgPsi_valid", "NV.cfgBase_valid", "NV.capital_nonneg", "NV.rest_1000"],
    "C03": ["NV.param_hyps"], "C06": ["NV.param_hyps"], "C14": ["NV.param_hyps"],
    "C08": ["NV.evReb_rebuildHyp"], "C09": ["NV.fresh_trackers"], "C10": ["Gen.monotony_never_incremented", "NV.first_step_ok"],
    "C11": ["NV.init_inv"], "C13": ["NV.unit_change_hyps", "NV.closeAgree_initial"],
    "C19": ["NV.shift_40"], "C20": ["NV.events_accepted", "NV.init_inv", "NV.param_hyps", "NV.negShare_rejected", "NV.negShare_negative_demand"],
}
# the demand total read by production / overproduction / orders is the row sum of the demand matrix (Properties/Coherence.lean)
for _pid in ("C03", "C14", "C06"):
    THEOREMS[_pid] = THEOREMS[_pid] + ["init_coherent", "step_coherent", "eventsPre_coherent", "coherent_reach"]
    MODULES[_pid] = MODULES[_pid] + ["Boario.Properties.Coherence"]
# element-wise formulas of the source = the model's definitions (Properties/Formulas.lean over the regenerated Gen/Formulas.lean)
FORMULAS = {
    "C14": ["Gen.overprod_is_code", "Gen.overprodPhase_is_code"],
    "C02": ["Gen.overprod_is_code", "Gen.capacity_is_code", "Gen.capNegative_is_code", "Gen.xOpt_is_code", "Gen.cons_is_code",
            "Gen.production_max_is_code", "Gen.ordersFrom_is_code", "Gen.needWith_is_code"],
    "C03": ["Gen.xOpt_is_code", "Gen.capacity_is_code", "Gen.cons_is_code", "Gen.cons_base_is_code", "Gen.production_max_is_code",
            "Gen.production_is_code", "Gen.productionPhase_is_code"],
    "C18": ["Gen.cons_is_code", "Gen.cons_base_is_code", "Gen.zProd_is_code", "Gen.altShare_is_code", "Gen.ordersFrom_is_code", "Gen.gapOpen_is_code"],
    "C06": ["Gen.needWith_is_code", "Gen.zProd_is_code", "Gen.altShare_is_code", "Gen.ordersFrom_is_code", "Gen.gapOpen_is_code", "Gen.goal_is_code", "Gen.ordersOpen_is_code"],
    "C04": ["Gen.deliverCell_is_code", "Gen.deliveries_are_code"],
    "C05": ["Gen.stockUse_is_code", "Gen.stockUpdated_is_code", "Gen.deliveries_are_code"],
    "C08": ["Gen.subBlock_is_code", "Gen.deliverCell_is_code", "Gen.settle_indus_is_code", "Gen.settle_house_is_code", "Gen.settle_same_rule",
            "Gen.presented_is_code"],
    "C11": ["Gen.presented_is_code", "Gen.settle_same_rule", "Gen.capital_aggregation_is_code", "Gen.arbitrary_aggregation_is_code"],
    "C13": ["Gen.convert_impact_is_code", "Gen.convert_house_is_code", "Gen.convert_same_rule", "Gen.trackerInit_damage_is_code"],
    "C07": ["Gen.capacity_is_code", "Gen.trackerInit_damage_is_code", "Gen.capital_aggregation_is_code", "Gen.arbitrary_aggregation_is_code",
            "Gen.active_iff_listed", "Gen.deltaCap_is_code"],
    "C10": ["Gen.capital_aggregation_is_code", "Gen.arbitrary_aggregation_is_code"],
    "C09": ["Gen.linear_is_code", "Gen.convexe_is_code", "Gen.convexe_scaled_is_code", "Gen.cellwise_linear_is_code",
            "Gen.cellwise_convexe_is_code", "Gen.cellwise_convexe_scaled_is_code", "Gen.arbitrary_aggregation_is_code"],
    "C20": ["Gen.capNegative_is_code"],
}
# status transitions of the source = the model's wake / advance (Properties/LifecycleThm.lean over the regenerated Gen/Lifecycle.lean)
for _pid in ("C10", "C09", "C11", "C19"):
    THEOREMS[_pid] = THEOREMS[_pid] + ["Gen.lifecycle_skeleton", "Gen.wake_guard_is_code", "Gen.advance_guard_is_code", "Gen.wake_is_code",
                                       "Gen.advance_head_is_code"]
    MODULES[_pid] = MODULES[_pid] + ["Boario.Properties.LifecycleThm"]

# what recover() evaluates and how ledgers are rounded (Properties/RecoverThm.lean over the regenerated Gen/Recover.lean)
for _pid in ("C09", "C13", "C10", "C08"):
    THEOREMS[_pid] = THEOREMS[_pid] + ["Gen.recover_ledgers_is_code", "Gen.recover_elapsed_is_code", "Gen.recover_precision_is_code",
                                       "Gen.precision_sources_is_code"]
    MODULES[_pid] = MODULES[_pid] + ["Boario.Properties.RecoverThm"]

# one Lean module per topic, so that a changed formula only breaks the theorems about it
FORMULA_MODULE = {
    "Gen.overprod_is_code": "FormulasOverprod", "Gen.overprodPhase_is_code": "FormulasOverprod",
    "Gen.production_is_code": "FormulasProduction", "Gen.productionPhase_is_code": "FormulasProduction",
    "Gen.capacity_is_code": "FormulasProduction", "Gen.capNegative_is_code": "FormulasProduction", "Gen.xOpt_is_code": "FormulasProduction",
    "Gen.cons_is_code": "FormulasProduction", "Gen.cons_base_is_code": "FormulasProduction", "Gen.production_max_is_code": "FormulasProduction",
    "Gen.deliverCell_is_code": "FormulasDistribute", "Gen.deliveries_are_code": "FormulasDistribute", "Gen.stockUse_is_code": "FormulasDistribute",
    "Gen.stockUpdated_is_code": "FormulasDistribute", "Gen.subBlock_is_code": "FormulasDistribute",
    "Gen.needWith_is_code": "FormulasOrders", "Gen.zProd_is_code": "FormulasOrders", "Gen.altShare_is_code": "FormulasOrders",
    "Gen.ordersFrom_is_code": "FormulasOrders", "Gen.gapOpen_is_code": "FormulasOrders", "Gen.goal_is_code": "FormulasOrders", "Gen.ordersOpen_is_code": "FormulasOrders",
    "Gen.settle_indus_is_code": "FormulasLedger", "Gen.settle_house_is_code": "FormulasLedger", "Gen.settle_same_rule": "FormulasLedger",
    "Gen.presented_is_code": "FormulasLedger",
    "Gen.convert_impact_is_code": "FormulasUnits", "Gen.convert_house_is_code": "FormulasUnits", "Gen.convert_same_rule": "FormulasUnits",
    "Gen.trackerInit_damage_is_code": "FormulasUnits",
    "Gen.capital_aggregation_is_code": "FormulasDamage", "Gen.arbitrary_aggregation_is_code": "FormulasDamage",
    "Gen.active_iff_listed": "FormulasDamage", "Gen.deltaCap_is_code": "FormulasDamage",
    "Gen.linear_is_code": "FormulasCurves", "Gen.convexe_is_code": "FormulasCurves", "Gen.convexe_scaled_is_code": "FormulasCurves",
    "Gen.cellwise_linear_is_code": "FormulasCurves", "Gen.cellwise_convexe_is_code": "FormulasCurves",
    "Gen.cellwise_convexe_scaled_is_code": "FormulasCurves",
}
for _pid, _names in FORMULAS.items():
    THEOREMS[_pid] = THEOREMS[_pid] + _names
    for _n in _names:
        _m = "Boario.Properties." + FORMULA_MODULE[_n]
        if _m not in MODULES[_pid]:
            MODULES[_pid] = MODULES[_pid] + [_m]
for _pid, _names in NONVACUITY.items():
    THEOREMS[_pid] = THEOREMS[_pid] + [n for n in _names if n not in THEOREMS[_pid]]
    MODULES[_pid] = MODULES[_pid] + ["Boario.Properties.NonVacuity"] + (["Boario.Properties.LoopThm"] if _pid in ("C01", "C10") else [])

# scenario streams: (stream name, number of scenarios quick, thorough)
STREAMS = {
    "C02": [("shocked", 14, 200), ("shortage", 10, 150), ("multi", 8, 100), ("mild", 6, 80), ("crash", 4, 60), ("earlydt", 8, 80), ("large", 2, 12)],
    "C19": [("early", 16, 160), ("multi", 8, 80), ("negfd", 6, 40), ("earlydt", 8, 80)],
    "C09": [("recover", 32, 400), ("multi", 8, 100), ("earlydt", 8, 80), ("handover", 6, 60)],
    "C10": [("multi", 18, 200), ("recover", 10, 100), ("rebuild", 10, 100), ("earlydt", 8, 80), ("handover", 6, 60)],
    "C11": [("multi", 24, 300), ("rebuild", 8, 100), ("finishing", 8, 80), ("handover", 4, 60), ("large", 2, 12)],
    "C20": [("shocked", 10, 100), ("shortage", 6, 80), ("crash", 8, 80), ("multi", 6, 80), ("eventfree", 4, 60), ("excess", 8, 40),
            ("earlydt", 8, 60), ("finishing", 4, 40), ("blackout", 6, 60), ("starve", 6, 40), ("sudden", 4, 40), ("fastrebuild", 5, 40), ("large", 2, 12)],
    "C01": [("eventfree", 40, 400)],
    "C08": [("rebuild", 26, 300), ("multi", 10, 100), ("earlydt", 8, 80), ("finishing", 6, 60), ("fastrebuild", 4, 40), ("large", 2, 12)],
    "C13": [("units", 22, 200), ("finishing", 6, 60)],
    "C18": [("shocked", 12, 120), ("shortage", 6, 60), ("eventfree", 6, 60)],
    "C03": [("shortage", 16, 300), ("shocked", 10, 200), ("multi", 6, 80), ("finishing", 8, 80), ("starve", 6, 40), ("large", 2, 12)],
    "C04": [("shocked", 16, 300), ("shortage", 10, 200), ("tinyind", 6, 60), ("multi", 8, 100), ("rebuild", 6, 80), ("finishing", 8, 80), ("large", 2, 12)],
    "C05": [("shocked", 10, 200), ("shortage", 8, 150), ("crash", 8, 150), ("starve", 8, 60), ("mild", 6, 100), ("sudden", 8, 80), ("large", 2, 12)],
    "C06": [("shocked", 16, 300), ("shortage", 12, 200), ("mild", 14, 200), ("blackout", 4, 40), ("large", 2, 12)],
    "C07": [("shocked", 20, 400), ("excess", 10, 100), ("handover", 8, 80), ("rebuild", 6, 60), ("multi", 4, 40), ("large", 2, 12)],
    "C14": [("shocked", 20, 300), ("shortage", 16, 200), ("earlydt", 10, 100), ("large", 2, 12)],
}

# phases whose correspondence obligations can fail this property's check
PHASES = {
    "C02": ["events_pre", "overprod", "production", "distribute", "events_post", "orders"],
    "C19": ["events_pre", "overprod", "events_post"],
    "C09": ["events_pre", "events_post"],
    "C10": ["events_pre", "events_post"],
    "C11": ["events_pre", "distribute", "events_post"],
    "C20": ["events_pre", "production", "distribute", "orders"],
    "C01": ["events_pre", "overprod", "production", "distribute", "events_post", "orders"],
    "C08": ["events_pre", "events_post"],
    "C13": ["events_pre", "events_post"],
    "C18": ["production", "orders"],
    "C03": ["production"],
    "C04": ["distribute", "events_post"],        # events_post: each rebuilding event is credited with the deliveries of its own block
    "C05": ["distribute"],
    "C06": ["orders"],
    "C07": ["events_pre", "events_post"],
    "C14": ["overprod"],
}

# per-step oracles (names in harness.oracles.PER_STEP) and per-run oracles
STEP_ORACLES = {pid: [pid] for pid in ("C03", "C04", "C05", "C06", "C07", "C14")}
STEP_ORACLES.update({"C04": ["C04", "C08"], "C02": ["C02"], "C20": ["C20"], "C08": ["C08"], "C09": ["C09", "C10", "C07"], "C10": ["C10", "C07"], "C11": ["C11", "C08"]})

# records a property is about: what the simulation reports for them must be the model's value at each step
REPORTED = {"C01": ["production_realised", "overproduction", "final_demand_unmet", "intermediate_demand"],
            "C03": ["production_realised", "production_capacity"], "C04": ["final_demand_unmet", "rebuild_prod"],
            "C06": ["intermediate_demand"], "C07": ["productive_capital_to_recover", "production_capacity"],
            "C08": ["rebuild_demand", "rebuild_prod", "productive_capital_to_recover"], "C09": ["productive_capital_to_recover"],
            "C10": ["productive_capital_to_recover", "production_capacity"], "C14": ["overproduction"], "C02": ["production_realised", "overproduction", "final_demand_unmet"],
            "C05": ["production_realised"], "C11": ["rebuild_demand", "rebuild_prod"], "C20": ["production_realised", "final_demand_unmet", "overproduction"]}

# per-run oracles, construction obligations, paired-run oracles (names resolved in harness/runner.py)
RUN_ORACLES = {"C01": ["c01"], "C05": ["c05_run"], "C20": ["c05_run_c20"], "C07": ["c07_capital"], "C08": ["c08_init"], "C11": ["c11_run"]}
INIT_OBLIGATIONS = {"C01": ["mkparams"], "C02": ["mkparams"], "C03": ["mkparams"], "C06": ["mkparams"], "C07": ["mkparams", "trackerinit"], "C08": ["trackerinit"], "C13": ["trackerinit"], "C18": ["mkparams"]}
PAIRED = {"C01": ["long_loop_c01", "table_reuse"], "C05": ["c05_loop", "long_loop_c05", "numeric_labels"], "C10": ["c10_prefix", "long_loop", "c11_order_c10", "copy_midrun", "pure_manual", "subclass_events"], "C08": ["event_reuse", "copy_midrun_c08"],
          "C09": ["event_reuse_c09", "copy_midrun_c09", "pure_manual_c09", "c11_order_c09"], "C14": ["c19_periodic_c14", "pure_manual_c14"], "C02": ["copy_midrun_c02", "pure_manual_c02"], "C04": ["copy_midrun_c04", "fd_rescale"], "C06": ["copy_midrun_c06"], "C20": ["c05_loop_c20"], "C11": ["c11_order", "long_loop_c11", "event_reuse_c11", "copy_midrun_c11"], "C13": ["c13_units", "long_loop_c13"], "C18": ["c18_variants", "c18_orders"],
          "C19": ["c19_shift", "c19_late", "c19_periodic", "pure_manual_c19"], "C17": ["c17_determinism"]}

# what a property says about a recorded quantity relies on the record being written under its own name's guard, after its
# phase (theorems over the regenerated next_step skeleton, Properties/C16.lean)
for _pid in REPORTED:
    for _t in ("Records.guards_complete", "Records.writes_after_their_phase", "Records.one_write_per_record"):
        if _t not in THEOREMS[_pid]:
            THEOREMS[_pid] = THEOREMS[_pid] + [_t]
    if "Boario.Properties.C16" not in MODULES[_pid]:
        MODULES[_pid] = MODULES[_pid] + ["Boario.Properties.C16"]

# no result depends on what freed memory holds (Properties/MaskedThm.lean over the regenerated Gen/Masked.lean: masked ufuncs
# write into initialised arrays, raw allocations are filled first)
for _pid in ("C17", "C20"):
    THEOREMS[_pid] = THEOREMS[_pid] + ["Masked.deterministic_iff", "Masked.missing_out_reads_memory", "Gen.masked_calls_inventory",
                                       "Gen.masked_calls_initialised", "Gen.masked_calls_deterministic", "Gen.raw_allocs_filled",
                                       "Gen.raw_allocs_deterministic"]
    MODULES[_pid] = MODULES[_pid] + ["Boario.Properties.MaskedThm"]

# properties whose Lean side includes tables regenerated from the source on every run
GEN = {"C16": True, "C17": True, "C02": True, "C14": True, "C04": True, "C11": True, "C05": True, "C19": True, "C01": True, "C10": True,
       "C03": True, "C07": True, "C09": True, "C20": True}
GEN.update({_pid: True for _pid in REPORTED})
GEN.update({_pid: True for _pid in FORMULAS})

NONTRIVIAL = {
    "C12": ("weights", "non-uniform weights or an invalid input"),
    "C15": ("permuted", "a permutation different from the identity on every labelled axis"),
    "C16": ("tracked", "a tracked record with at least one simulated row"),
    "C17": ("alive", "a history with at least two simulations alive"),
    "C02": ("active", "a step with shortage, rationing, a stock change or a ledger change"),
    "C19": ("after", "a step at or after the first occurrence"),
    "C09": ("recovering", "a step in which a recovering event's damage changes"),
    "C10": ("boundary", "a step in which some event changes status or ledger"),
    "C11": ("overlap", "a step with at least two events simultaneously active"),
    "C20": ("any", "every simulated step (finiteness and sign of the whole state are checked after every phase)"),
    "C01": ("sparse", "a scenario whose table has an unused input, a zero-output industry, an infinite inventory, or psi = 1 (every step counted)"),
    "C08": ("ledger moves", "a step in which a reconstruction ledger changes"),
    "C13": ("emf != mf", "a step of a scenario with an event whose monetary factor differs from the model's"),
    "C18": ("shocked", "a step of a shocked paired run"),
    "C03": ("production.shortage", "a step in which some input binds or capacity is below demand"),
    "C04": ("rationing", "a step in which production is below total demand for some supplier"),
    "C05": ("distribute.update", "a step in which inventories really change (or the run crashes)"),
    "C06": ("orders.open", "a step with a positive inventory gap"),
    "C07": ("delta>0", "a step with a positive capacity loss"),
    "C14": ("alpha moves", "a step in which some overproduction factor changes"),
}

TITLES = {}

_NOTE = ("Trusted: Lean kernel; the hand-written model and theorem statements; the Python correspondence harness "
         "(relative 1e-9 per phase, ties of the model's threshold tests accepted) whose generator bounds what it sees. "
         "Not verified: float rounding, NumPy/pandas primitives, overflow.")

CLAIMS = {
    "C12": {"text": "Theorems distribute_sum, distribute_pos, distribute_equal, distribute_proportional, distribute_support, regions_sectors_sum / _product and the rejections (non-positive scalar, empty selection, missing weight, negative entry or weight), for every scalar, affected set and weight vector (association lists of any length). The three constructors are run on generated labelled inputs (equal, exact, superset-indexed, unsorted, unnormalised weights; one invalid feature at a time) and compared with the model's executable definitions.",
            "note": _NOTE, "technique": "Lean 4 theorems + differential correspondence of the three impact constructors"},
    "C15": {"text": "Theorems canon_perm (every ordering of a labelled input has the same canonical form), canon_sorted, canon_perm_self, values_perm, canonTable_perm (rows and columns of a table), widen_perm / widen_get (label-based widening), ingest_factors (anything computed from the canonical form is independent of the order). Partial: bit-identity is a statement about floats; it follows only if the implementation does no arithmetic before canonicalising, which is what the check establishes dynamically: arrays ingested from permuted inputs must equal the canonical arrays exactly, and whole runs on permuted inputs are compared bit for bit.",
            "note": _NOTE, "technique": "Lean 4 theorems (partial, see text) + exact ingestion correspondence + bitwise paired runs on permuted inputs"},
    "C16": {"text": "Theorems on the record-layer model, for every step length dt (rows are indexed by temporal unit: step j writes row j*dt, rows in between keep the fill value): rows_faithful, rows_fill, run_time, stepwise_eq_loop (a run is its first i steps continued by the others: one step at a time = loop), untracked_never_written, storage_independent (the log does not depend on which records are files), early_stop_intact, crash_row; and on tables REGENERATED from the source on every run: phase_order (the control statements of next_step - phase calls, the t > 1 guard, the try / except RuntimeError around distribution and ledgers, the increment - in order; two record writes that follow the same phase may be listed in any order), one_write_per_record, guards_complete (each write guard tests its own name against files then memory), helpers_write_own_row, specs_bijective, writes_after_their_phase. Partial: that memmap files read back equal the memory and that the JSON artefacts describe the run is library / OS behaviour, checked by reading back on generated runs (record subsets x register_stocks x loop / manual x stopping point).",
            "note": _NOTE + " The translator harness/translate.py (Python ast) is trusted to extract the statements of next_step and the record tables faithfully; unknown syntax is emitted as `unknown` items, which makes the theorems fail.",
            "technique": "Lean 4 theorems on a record-layer model + `rfl`/`decide` theorems on tables regenerated from the source by a translator + read-back of every record and JSON artefact"},
    "C17": {"text": "Theorems run_function (the model is a function of its inputs), isolation (on a key -> file world: with pairwise distinct keys a simulation reads back exactly its own rows whatever else is constructed or run), fresh_defaults_distinct, shared_default_breaks_isolation (witness of the repaired defect), ingest_preserves and event_reusable (copy-before-mutate leaves caller objects unchanged), defaults_safe (`decide` on the default-argument table REGENERATED from the source: no default is a call evaluated at definition time, no mutable default is mutated), masked_calls_deterministic / raw_allocs_filled (over the REGENERATED table of masked ufunc calls and raw allocations: no result cell can expose what freed memory holds; dynamic side: the same run with NaN blocks left in the allocator, bitwise). Partial: that the Python code follows the copying discipline and allocates keys per instance is a fact about object identity at run time, established only dynamically (deep snapshots of caller objects, interleaved histories of live simulations compared bitwise with isolated runs, Event reuse, later edits of the caller's containers leaving built objects unchanged).",
            "note": _NOTE + " The translator harness/translate.py is trusted for the default-argument table.",
            "technique": "Lean 4 theorems on storage / ownership models + `decide` on a regenerated default-argument table + dynamic isolation and snapshot checks"},
    "C02": {"text": "Theorem step_refines_spec: whatever the code-shaped model computes in one step satisfies ArioSpec, the documented ARIO equations written one per field with sums and no masks, caches or branches (overproduction rule, capacity, optimal and actual production with the tightest real input, proportional rationing, inventory resupply with the permitted skip, unmet final demand, reconstruction deliveries, order rule with both share variants); nextStep_econ ties it to the whole step, specDemand_eq to the cached demand. The tie to the code is the correspondence itself: every phase, every output, every cell (delivery matrix via the hook) on every explored step, ties of the threshold tests accepted; plus an independent NumPy transliteration of the documentation as oracle.",
            "note": _NOTE, "technique": "Lean 4 refinement theorem (code-shaped model vs equation-shaped spec) + per-step correspondence of all six phases"},
    "C19": {"text": "Theorem shift_invariance: for every valid table and configuration, every event set (all pending at t = 0, occurrences and durations >= 1), every shift k and every horizon n, the run with all events delayed by k, observed from step k on, is the original run delayed by k - exactly, in the rational model, by induction over the run. It chains equilibrium_step_exact (an event-free step at the initial equilibrium returns exactly the same state), C10's invisibility of pending events, shift_step (from the third step on the step map commutes with the shift: the event layer only sees t - occ), shift_step_early + overprod_identity_at_rest (skipping the overproduction module for the first two steps is harmless at rest) and shift_run_partial. 'To within rounding' for the implementation is checked on paired runs of the real code (every event delayed by k = 1..12, first occurrences 1..3).",
            "note": _NOTE, "technique": "Lean 4 theorems (simulation relation under a time shift, induction over the run) + paired runs of the real code"},
    "C09": {"text": "Run level (C09Run): recovery_trajectory / arbitrary_trajectory (in every run from t = 0, after k steps the ledger of a recovering event is its initial damage until occ + dur, then the rounded recovery function at the number of recovery steps completed, or none once the rounded curve has been all-zero), linear_finished_run. Per step: theorems damage_before_recovery, damage_after / arb_after (damage in force = rounded recovery function at the elapsed time, for built-ins and user callables alike), finished_when_zero, finished_no_loss, range / antitonicity of the three rational built-ins, linear_zero_at_tau, linear_finished_at_tau, rounded_range / rounded_close, concave_shape (for any monotone g; that k^e is such a g is a fact about real powers outside the rational model). Schedule statements for step length 1. recover_events compared per step on all four curves.",
            "note": _NOTE, "technique": "Lean 4 theorems + per-step correspondence of EventTracker.recover (concave: raw curve values taken from the code, rounding modelled)"},
    "C10": {"text": "For every step length (C10Dt): status_timeline_dt, status_timeline_step_dt, shock_in_force_dt, prefix_event_free_dt (steps at times 0, dt, 2dt, ...: pending iff t < occ + dt, happening iff occ + dt <= t < occ + dur + dt, later stage afterwards; in force during the step at time t iff occ <= t). For dt = 1: theorems lifecycle_status, status_edges, status_kind_step, status_timeline_step and status_timeline (induction over the run: pending / happening / later stage exactly on schedule), shock_in_force, pending_invisible, prefix_event_free (the run with events equals the run without before the earliest occurrence), for step length 1. The life-cycle phase and ledgers compared per step; prefix checked bitwise on paired runs.",
            "note": _NOTE, "technique": "Lean 4 theorems (induction over steps, simulation of the event-free run) + per-step correspondence of the event phases + paired runs"},
    "C11": {"text": "Theorems no_internal_error (from the well-formedness invariant, preserved by every step: C20's inv_step), ids_lifecycle / ids_receive (block ids of rebuilding events stay distinct and in range, also when events finish), demand_own_block, other_blocks_empty, credit_own_block, finished_no_more, aggregates_perm, rebuild_total_perm, the Layout theorems (writer and reader address the same columns; blocks disjoint and covering) together with the regenerated slice table of the source (Gen/Slices.lean; writer_is_layout, reader_is_layout, code_writer_reader_agree: the column expressions of update_rebuild_demand and rebuild_prod_*_event are those ranges for all sizes), and perm_invariant_run: two simulations that differ only by the order of their event list have, after any number of steps, the same observable state (everything the records expose, and the same events with the same ledgers, block ids aside) and one run succeeds iff the other does - by a simulation relation preserved by every phase, induction over the run. 'Beyond rounding' for the implementation and the three ways of adding events are checked on paired runs (shuffled lists at 1e-9, adding modes bitwise).",
            "note": _NOTE, "technique": "Lean 4 theorems (invariant by induction; simulation relation up to block renaming for order independence) + per-step correspondence of the whole event layer + paired runs"},
    "C20": {"text": "Theorems: the documented rejections that are decision logic of the model (psi above 1, schedule outside the horizon, capital loss above the stock, negative capacity); the numeric rejections of the event constructors incl. a negative rebuilding share and a non-positive rebuilding factor (event_*_rejected; event_accepted_rebuild, tracker_init_ok_accepted: an accepted rebuilding event starts with non-negative ledgers); params_ok / init_econ_ok / tracker_init_ok (constructors establish well-formedness); masked_calls_deterministic / raw_allocs_filled over the regenerated table of masked ufunc calls (no NaN from recycled memory); inv_step and inv_reach (every physical quantity stays non-negative along every run); no_silent_failure (a step ends in ok, the crashed flag or a documented rejection, never another exception). Partial: float overflow is outside the model; the validators that live in pandas/pymrio plumbing (incomplete table, unknown labels, wrong types, record names) are exercised by a malformed-input stream against the real constructors, not modelled.",
            "note": _NOTE, "technique": "Lean 4 theorems (invariant by induction) + per-step correspondence + malformed-input stream on the real validators + finiteness/sign oracle on every state"},
    "C01": {"text": "Theorems init_at_equilibrium, equilibrium_step, equilibrium_forever (induction over steps), equilibrium_loop: for every balanced non-negative table with non-negative value added, of any size and sparsity (zero-output industries, unused inputs), and every accepted configuration, the event-free run reproduces the equilibrium exactly in the rational model and never rejects, crashes or fails; equilibrium_step_needs_capital_nonneg shows the capital hypothesis is necessary. mkParams and all six phases are compared with the code on event-free runs.",
            "note": _NOTE, "technique": "Lean 4 theorems (fixed point + induction) + correspondence of construction and of every phase on event-free runs"},
    "C08": {"text": "Theorems rebuild_total/_split (creation, any number of rebuilding sectors), rebuild_presented, settle_* (one ledger cell: non-negative, exact up to half a quantum, antitone on the grid), damage_eq, rebuild_antitone_reach (any sequence of deliveries), only_rebuilding_sectors; tracker construction and the ledger phases compared per step. Hypothesis: every (rebuilding sector, affected industry) pair has a supplier (known finding F13 otherwise).",
            "note": _NOTE, "technique": "Lean 4 theorems + correspondence of EventTracker construction and ledger updates"},
    "C13": {"text": "Theorems conversion_uniform, reexpression_invariant (same ledgers for the same event in any unit), and homogeneity of capacity, production, overproduction, deliveries, orders (same closeness branch), inventory gap and capacity-loss share. Run level (Properties/C13Run.lean): unit_change_run / unit_change_simulation - the same economy expressed in a unit 10^k times smaller (table x 10^k, model factor / 10^k, same events) gives, after any number of steps, exactly the scaled state (the ledgers keep k fewer decimals: the quantum is the same amount of money, roundDec_unit), and scale_run_dimensionless - any positive factor when no event carries a monetary ledger - both under the explicit hypothesis CloseAgree that the two allclose tests of each step take the same branch in both units (closeAgree_of_decisive / closeAgree_of_exact give sufficient conditions; isClose_not_unit_free shows the hypothesis cannot be dropped: NumPy's absolute tolerance 1e-8 is not a monetary amount). Partial: for a common factor that is not a unit change the decimal quantum does not follow, so whole-run scaling holds only to within rounding; that residue, and the float implementation of all of the above, is checked on paired runs of the real code (events in other units, table x {8, 1e3, 1e6}, unit change by 10^3 / 10^6), not proved.",
            "note": _NOTE, "technique": "Lean 4 theorems (partial, see text) + correspondence of tracker construction + paired runs across units and scales"},
    "C18": {"text": "Theorems psi_one_params (both classes get identical parameters when psi = 1 and the restoration time is one step, hence psi_one_step/_run), alt_share_eq_fixed_share and alt_eq_noalt (uniform non-zero relative capacity), alt_ne_noalt_zero_capacity (boundary witness), alt_noalt_event_free_run / _loop (the event-free runs of the two variants coincide at every step). Bit-identity of the implementation (x1.0 exact in IEEE-754) is checked on paired runs, not proved.",
            "note": _NOTE, "technique": "Lean 4 theorems + paired runs (base vs psi=1, alt vs noalt) compared bitwise / at 1e-9"},
    "C03": {"text": "Theorems production_nonneg / _le_demand / _le_capacity / _le_stock_support / _eq_min3 / _tight / _branches_agree hold for every table size, parameter value and state (Lean 4, no bound); the production phase of the model is checked against calc_production on every explored step.",
            "note": _NOTE, "technique": "Lean 4 theorems on an exact-rational model + per-step correspondence of calc_production"},
    "C04": {"text": "Theorems deliveries_sum / _same_ratio_* / _le_asked / fd_unmet_eq / fd_unmet_range / reb_prod_eq for every demand matrix with any number of rebuilding blocks; the full delivery matrix (hook) is compared cell by cell on every explored step. Column arithmetic: Gen/Slices.lean is REGENERATED from the source on every run (every column slice and np.zeros shape of the functions addressing the combined demand / delivery matrix, as expressions in n_regions, n_sectors, n_fd_cat, number of rebuilding events, event id) and proved equal to the ranges of Boario.Layout for all sizes (slice_table, orders_columns, final_demand_columns, rebuild_part_columns, rebuild_parts_split, resize_keeps_orders_and_final_demand, delivery_columns, writer_is_layout, reader_is_layout, code_writer_reader_agree).",
            "note": _NOTE, "technique": "Lean 4 theorems + per-step correspondence of distribute_production (delivery matrix via hook)"},
    "C05": {"text": "Theorems stock_update, stock_negative_crashes, stock_nonneg_distribute/_step/_reach (induction over the loop), loop_stops_on_crash, infinite_never_binds, production_ignores_infinite; stock update, skip and crash path compared with the code per step.",
            "note": _NOTE, "technique": "Lean 4 theorems (invariant by induction over steps) + per-step correspondence of distribute_production"},
    "C06": {"text": "Theorems orders_sum_noalt/_alt, orders_only_initial_suppliers, shares_noalt/_alt, orders_nonneg, orders_no_internal, need_eq, gap_nonneg for both classes and variants; calc_orders compared per step incl. both allclose branches.",
            "note": _NOTE, "technique": "Lean 4 theorems + per-step correspondence of calc_orders"},
    "C07": {"text": "Theorems delta_eq, delta_range, delta_zero_unaffected, lost_is_sum_of_active, arb_is_max, excess_loss_rejected, capacity_nonneg, eventsPre_delta; the capacity-loss update of _check_happening_events compared per step, capital ingestion checked by oracle.",
            "note": _NOTE, "technique": "Lean 4 theorems + per-step correspondence of the event/capacity update"},
    "C14": {"text": "Theorems alpha_bounds, alpha_increase_only_if_scarce, alpha_increase_amount, alpha_no_increase_when_met, alpha_drift_to_base; calc_overproduction compared per step.",
            "note": _NOTE, "technique": "Lean 4 theorems + per-step correspondence of calc_overproduction"},
}

NOT_CLAIMED = {}
