/-
  Helper lemmas for the run-level C19: at the constructed equilibrium every phase of `nextStep` gives
  back *the same record* (not only an equilibrium), pending trackers go through a step unchanged, and
  the overproduction module is the identity on the state the event phase leaves while no event has
  ended yet.
-/
import Boario.Lemmas.Equilibrium
import Boario.Lemmas.Prefix
import Boario.Properties.C19

set_option linter.unusedSectionVars false

namespace Boario
variable {d : Dims}

/-! ### the economy: every phase is the identity on `initEcon p` -/

section
variable {p : Params d} (hp : EqParams p)
include hp

theorem initEcon_eqEcon : EqEcon p (initEcon p) := by
  refine
    { prod := fun _ => rfl, stock := fun _ _ _ => rfl, orders := fun _ _ => rfl, fd := fun _ _ => rfl
      reb := rfl, dTot := ?_, alpha := fun _ => rfl, delta := fun _ => rfl, unmet := fun _ => rfl }
  intro f
  show rowTot p.Z0 p.Y0 [] f = p.x0 f
  rw [hp.balanced f]
  simp [rowTot, rebTot, sumList]

theorem overprodPhase_initEcon : overprodPhase p (initEcon p) = initEcon p := by
  have he := initEcon_eqEcon hp
  have h : overprod p (initEcon p).alpha (initEcon p).dTot (initEcon p).prod = (initEcon p).alpha := by
    funext f
    exact overprod_identity_at_rest p _ _ _ f hp.base_ge_one rfl (by rw [he.dTot, he.prod])
  unfold overprodPhase
  rw [h]

theorem productionPhase_initEcon : productionPhase p (initEcon p) = .ok (initEcon p) := by
  have he := initEcon_eqEcon hp
  have h : production p (initEcon p).stock
      (xOpt p (initEcon p).dTot (initEcon p).deltaTot (initEcon p).alpha) = (initEcon p).prod := by
    funext f
    rw [he.xOpt_eq hp]
    unfold production
    rw [if_neg (he.not_anyConstraint hp)]
    rfl
  unfold productionPhase
  rw [if_neg (he.not_capNegative hp), h]

theorem distribute_initEcon : distribute p (initEcon p) = .ok (initEcon p) := by
  have he := initEcon_eqEcon hp
  have h : fdUnmetOf (initEcon p) (deliveries (initEcon p)) = (initEcon p).fdUnmet := by
    funext f
    show fdUnmetOf (initEcon p) (deliveries (initEcon p)) f = 0
    unfold fdUnmetOf
    simp only [he.deliver_fd hp, he.fd, sub_self]
    rw [sumFd_eq_sum_prod]
    simp
  unfold distribute
  rw [if_pos (he.addUseClose hp)]
  show Outcome.ok { initEcon p with fdUnmet := fdUnmetOf (initEcon p) (deliveries (initEcon p)) } = _
  rw [h]

theorem ordersFinish_initEcon (gap : Fin d.n → Ind d → Rat) (hg : ∀ s f, gap s f = 0) :
    ordersFinish p (initEcon p) gap = .ok (initEcon p) := by
  have he := initEcon_eqEcon hp
  have ho : ordersFrom p (initEcon p) gap = p.Z0 :=
    funext fun i => funext fun j => he.ordersFrom_eq hp gap hg i j
  unfold ordersFinish
  simp only
  rw [ho, if_neg]
  · rfl
  · rintro ⟨r, s, r', s', h⟩
    exact absurd (hp.z_nonneg _ _) (not_le.2 h)

theorem orders_initEcon : orders p (initEcon p) = .ok (initEcon p) := by
  have he := initEcon_eqEcon hp
  unfold orders
  rw [if_neg (he.not_capNegative hp)]
  split_ifs
  · exact ordersFinish_initEcon hp _ fun _ _ => rfl
  · exact ordersFinish_initEcon hp _ (he.gap_zero hp)

end

/-! ### the trackers: pending ones go through the ledger phase unchanged -/

theorem map_eq_self {α : Type} (f : α → α) (l : List α) (h : ∀ a ∈ l, f a = a) : l.map f = l := by
  conv_rhs => rw [← List.map_id l]
  exact List.map_congr_left h

theorem receiveAll_pending (rp : List (RebBlock d)) (trs : List (Tracker d))
    (h : ∀ tr ∈ trs, tr.status = .pending) : receiveAll rp trs = trs := by
  unfold receiveAll
  have h1 : trs.map (receiveOne rp) = trs := by
    apply map_eq_self
    intro tr htr
    unfold receiveOne
    rw [if_neg (by rw [h tr htr]; decide)]
  rw [h1]
  have h2 : releasedIds trs = [] := by
    unfold releasedIds
    rw [List.filterMap_eq_nil_iff]
    intro tr htr
    rw [if_neg (by rw [h tr htr]; decide)]
  unfold compactIds
  simp only [h2]
  apply map_eq_self
  intro tr htr
  rw [if_neg (by rw [h tr htr]; decide)]
  rcases tr with ⟨kind, occ, dur, tau, factor, prec, cI, cH, status, dmg0, dmg, hdmg0, hdmg, arb0, arb,
    remI, remH, rid⟩
  cases rid <;> rfl

theorem recoverAll_pending (t : Nat) (trs : List (Tracker d))
    (h : ∀ tr ∈ trs, tr.status = .pending) : recoverAll t trs = trs := by
  unfold recoverAll
  apply map_eq_self
  intro tr htr
  unfold recoverOne
  rw [if_pos (by rw [h tr htr]; decide)]

/-! ### the exact equilibrium step -/

theorem deltaTotOf_zero (p : Params d) : deltaTotOf p (fun _ => 0) (fun _ => 0) = fun _ => 0 := by
  funext i; simp [deltaTotOf, deltaCap, safeDiv]

theorem eventsPre_idle_exact (s : Sim d) (hK : ∀ f, 0 ≤ s.p.K f)
    (hd : s.econ.deltaTot = fun _ => 0)
    (hp : ∀ tr ∈ s.trackers, tr.status = .pending) (ho : ∀ tr ∈ s.trackers, s.t < tr.occ) :
    eventsPre s = .ok s := by
  have hl := lifecycle_idle s.t s.dt s.trackers s.nBlocks hp ho
  obtain ⟨h1, h2, h3⟩ := pending_lost s.trackers hp
  have hx : ¬ lostExceeds s.p (fun _ => 0) := by
    rintro ⟨r, t, h⟩
    exact absurd (hK (r, t)) (not_le.2 h)
  unfold eventsPre
  simp only [hl, h1, h2, h3, deltaTotOf_zero, if_neg hx, Bool.false_eq_true, if_false, ne_eq,
    not_true_eq_false]
  rw [← hd]

theorem equilibrium_step_exact_gen {p : Params d} (hp : EqParams p) (hK : ∀ f, 0 ≤ p.K f) (s : Sim d)
    (hsp : s.p = p) (he : s.econ = initEcon s.p) (hnb : s.nBlocks = 0) (hdt : s.dt = 1)
    (hidle : ∀ tr ∈ s.trackers, tr.status = .pending ∧ s.t < tr.occ) :
    nextStep s = .ok { s with t := s.t + 1 } := by
  obtain ⟨p', dt, econ, trackers, nBlocks, t⟩ := s
  simp only at hsp he hnb hdt hidle
  subst hsp he hnb hdt
  have h1 := eventsPre_idle_exact (⟨p', 1, initEcon p', trackers, 0, t⟩ : Sim d) hK rfl
    (fun tr h => (hidle tr h).1) (fun tr h => (hidle tr h).2)
  have h2 : productionPhase p' (if 1 < t then overprodPhase p' (initEcon p') else initEcon p')
      = .ok (initEcon p') := by
    rw [overprodPhase_initEcon hp, ite_self]
    exact productionPhase_initEcon hp
  have h := nextStep_of_phases _ _ _ _ _ h1 h2 (distribute_initEcon hp) (orders_initEcon hp)
  rw [h]
  simp only
  rw [receiveAll_pending _ _ (fun tr h => (hidle tr h).1),
    recoverAll_pending _ _ (fun tr h => (hidle tr h).1)]

/-! ### runs -/

theorem runN_add (a b : Nat) (s : Sim d) : runN (a + b) s = (runN a s).bind (runN b) := by
  induction a generalizing s with
  | zero => simp [runN]
  | succ a ih =>
    rw [Nat.add_right_comm]
    simp only [runN]
    cases nextStep s with
    | ok s' => exact ih s'
    | crashed _ => rfl
    | rejected => rfl
    | internal => rfl

/-- while every event is pending and not due within the next `j` steps, `j` steps at the constructed
    equilibrium only move the clock -/
theorem equilibrium_run_exact {p : Params d} (hp : EqParams p) (hK : ∀ f, 0 ≤ p.K f) (j : Nat) :
    ∀ (s : Sim d), s.p = p → s.econ = initEcon s.p → s.nBlocks = 0 → s.dt = 1 →
      (∀ tr ∈ s.trackers, tr.status = .pending ∧ s.t + j ≤ tr.occ) →
      runN j s = some { s with t := s.t + j } := by
  induction j with
  | zero => intro s _ _ _ _ _; rfl
  | succ j ih =>
    intro s hsp he hnb hdt hidle
    simp only [runN]
    rw [equilibrium_step_exact_gen hp hK s hsp he hnb hdt
      (fun tr h => ⟨(hidle tr h).1, by have := (hidle tr h).2; omega⟩)]
    simp only
    rw [ih { s with t := s.t + 1 } hsp he hnb hdt
      (fun tr h => ⟨(hidle tr h).1, by have := (hidle tr h).2; show s.t + 1 + j ≤ tr.occ; omega⟩)]
    simp only [Nat.add_assoc, Nat.add_comm 1 j]

/-! ### the overproduction module before any event ends -/

theorem advance_noop (t : Nat) : ∀ (trs : List (Tracker d)) (nb : Nat),
    (∀ tr ∈ trs, ¬ (tr.status = .happening ∧ tr.occ + tr.dur ≤ t)) → advance t trs nb = (trs, nb)
  | [], nb, _ => rfl
  | tr :: rest, nb, h => by
    unfold advance
    rw [if_neg (h tr (List.mem_cons_self ..)),
      advance_noop t rest nb fun a ha => h a (List.mem_cons_of_mem _ ha)]

/-- no event has ended yet: the life-cycle phase only wakes trackers -/
theorem lifecycle_early (t dt : Nat) (trs : List (Tracker d)) (nb : Nat)
    (h : ∀ tr ∈ trs, tr.status = .pending ∧ t < tr.occ + tr.dur) :
    lifecycle t dt trs nb = (trs.map (wake t dt), nb) := by
  unfold lifecycle
  apply advance_noop
  intro w hw
  obtain ⟨tr, htr, rfl⟩ := List.mem_map.mp hw
  obtain ⟨-, ho, hd, -, -⟩ := wake_fields t dt tr
  rw [ho, hd]
  intro hc
  have := (h tr htr).2
  omega

theorem anyRebuilding_wake (t dt : Nat) (trs : List (Tracker d))
    (h : ∀ tr ∈ trs, tr.status = .pending) : anyRebuilding (trs.map (wake t dt)) = false := by
  unfold anyRebuilding
  rw [List.any_eq_false]
  intro w hw
  obtain ⟨tr, htr, rfl⟩ := List.mem_map.mp hw
  obtain ⟨-, -, -, -, hs⟩ := wake_fields t dt tr
  rw [hs, h tr htr]
  split_ifs <;> simp

/-- while no event has ended, the event phase leaves demand, production and the factor alone -/
theorem eventsPre_early (s s1 : Sim d)
    (h : ∀ tr ∈ s.trackers, tr.status = .pending ∧ s.t < tr.occ + tr.dur)
    (h1 : eventsPre s = .ok s1) :
    s1.p = s.p ∧ s1.econ.alpha = s.econ.alpha ∧ s1.econ.dTot = s.econ.dTot ∧
      s1.econ.prod = s.econ.prod := by
  have hl := lifecycle_early s.t s.dt s.trackers s.nBlocks h
  have hr := anyRebuilding_wake s.t s.dt s.trackers fun tr htr => (h tr htr).1
  unfold eventsPre at h1
  simp only [hl, hr, Bool.false_eq_true, if_false, ne_eq, not_true_eq_false] at h1
  split_ifs at h1
  injection h1 with h1
  subst h1
  exact ⟨rfl, rfl, rfl, rfl⟩

/-- … hence, at the constructed equilibrium, the overproduction module is the identity there -/
theorem overprod_id_early {p : Params d} (hp : EqParams p) (s : Sim d) (hsp : s.p = p)
    (he : s.econ = initEcon s.p)
    (h : ∀ tr ∈ s.trackers, tr.status = .pending ∧ s.t < tr.occ + tr.dur) :
    ∀ s1, eventsPre s = .ok s1 →
      ∀ f, overprod s1.p s1.econ.alpha s1.econ.dTot s1.econ.prod f = s1.econ.alpha f := by
  intro s1 h1 f
  obtain ⟨e1, e2, e3, e4⟩ := eventsPre_early s s1 h h1
  have heq := initEcon_eqEcon hp
  rw [e1, e2, e3, e4, he, hsp]
  exact overprod_identity_at_rest p _ _ _ f hp.base_ge_one rfl (by rw [heq.dTot, heq.prod])

end Boario
