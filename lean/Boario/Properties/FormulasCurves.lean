/-
  Element-wise formulas of the source = the model's definitions: the closed-form recovery curves (C09).
  See `Boario/Properties/Formulas.lean` for the approach; one module per topic so that a changed formula breaks only the
  theorems about it.
-/
import Boario.Properties.FormulaTactics

set_option linter.unusedTactic false
set_option linter.unreachableTactic false
set_option linter.unusedSimpArgs false
set_option linter.unnecessarySeqFocus false

namespace Boario.Gen
open Boario

variable {d : Dims}

/-- `linear_recovery` of the source is the model's linear curve (cell-wise `D · g(elapsed)`). -/
theorem linear_is_code (e : Nat) (D : Rat) (tau : Nat) :
    linear_recovery e D tau = D * gLinear tau (e : Int) := by
  simp only [linear_recovery, gLinear, Int.cast_natCast] <;>
    (first | rfl | ring1)

/-- `convexe_recovery` of the source is the model's geometric curve. -/
theorem convexe_is_code (e : Nat) (D : Rat) (tau : Nat) :
    convexe_recovery e D tau = D * gConvexe tau (e : Int) := by
  simp only [convexe_recovery, gConvexe, Int.toNat_natCast] <;>
    (first | rfl | ring1)

/-- `convexe_recovery_scaled` of the source is the model's scaled geometric curve (default scaling 4). -/
theorem convexe_scaled_is_code (e : Nat) (D : Rat) (tau : Nat) :
    convexe_recovery_scaled e D tau = D * gConvexeScaled tau (e : Int) := by
  simp only [convexe_recovery_scaled, gConvexeScaled, Int.toNat_natCast] <;>
    (first | rfl | ring1)

/-- the curves as the trackers use them (`cellwiseI`): the code's formula applied to each cell. -/
theorem cellwise_linear_is_code (tau : Nat) (e : Nat) (D : Ind d → Rat) (i : Ind d) :
    cellwiseI (gLinear tau) (e : Int) D i = linear_recovery e (D i) tau := by
  rw [linear_is_code]; rfl

theorem cellwise_convexe_is_code (tau : Nat) (e : Nat) (D : Ind d → Rat) (i : Ind d) :
    cellwiseI (gConvexe tau) (e : Int) D i = convexe_recovery e (D i) tau := by
  rw [convexe_is_code]; rfl

theorem cellwise_convexe_scaled_is_code (tau : Nat) (e : Nat) (D : Ind d → Rat) (i : Ind d) :
    cellwiseI (gConvexeScaled tau) (e : Int) D i = convexe_recovery_scaled e (D i) tau := by
  rw [convexe_scaled_is_code]; rfl

end Boario.Gen
