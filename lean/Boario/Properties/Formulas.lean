/-
  The element-wise formulas of the source = the model's definitions, for every value (serves C14, C02, C07,
  C09, C20).

  `Boario.Gen.Formulas` is regenerated from the source on every run (`harness/translate.py`, `Pointwise`):
  `calc_overproduction`, `production_cap` (value and the condition under which it raises), `production_opt`
  and the three closed-form recovery curves, each as a function of one cell's values over `Rat`.  The
  theorems below say that these are the functions the model uses (`Boario.overprod`, `capacity`,
  `capNegative`, `xOpt`, `gLinear`, `gConvexe`, `gConvexeScaled`), for all arguments.  A changed formula in
  the source changes the generated file and the corresponding theorem no longer checks; an algebraically
  equal rewrite still does (the proofs go through `ring`).
-/
import Boario.Properties.FormulasOverprod
import Boario.Properties.FormulasProduction
import Boario.Properties.FormulasDistribute
import Boario.Properties.FormulasOrders
import Boario.Properties.FormulasCurves
import Boario.Properties.FormulasLedger
import Boario.Properties.FormulasUnits
import Boario.Properties.FormulasDamage
