/-
  Boario.Init — construction: `ARIOBaseModel.__init__` / `ARIOPsiModel.__init__` (`mkParams`,
  `initEcon`) and `EventTracker.__init__` (`trackerInit`), on canonically ordered inputs
  (label canonicalisation is `Boario.Labels`).

  Python (boario/model_base.py, extended_models.py)     | here
  ------------------------------------------------------+--------------------------
  steply_factor, Z_0, Y_0, X_0                          | `steply`, `mkParams.Z0/Y0/x0`
  Z_C, Z_distrib (0/0 := 0)                             | `zC`, `zShare`
  tech_mat = I_sum @ A,  A = Z / x (0 where x = 0)      | `techCoef`
  threshold_not_input                                   | `thrOf`
  _init_input_stocks (÷ dt, ≤ 1 ↦ 2, inf)               | `invDurOf`
  value added, productive_capital                       | `valueAdded`, `capitalOf`
  psi / restoration_tau / overprod_tau                  | `mkParams.psi/rest/aTau`
  inputs_stock, intermediate_demand, production, …      | `initEcon`

  Python (boario/simulation.py, EventTracker.__init__)  | here
  ------------------------------------------------------+--------------------------
  impact · (event factor / model factor)                | `convFactor`, `trackerInit.dmg0`
  _normalize_distribution (per rebuilding sector)       | `distI`, `distH`
  _rebuild_demand_*_0, _compute_distributed_demand      | `rem0I`, `rem0H`
-/
import Boario.Sim

namespace Boario

variable {d : Dims}

/-- The table, in lexicographic label order, as given (yearly flows). -/
structure Table (d : Dims) where
  Z : Ind d → Ind d → Rat
  Y : Ind d → Fd d → Rat
  x : Ind d → Rat

inductive CapitalSpec (d : Dims) where
  | default                                   -- value added × 4
  | ratio (r : Fin d.n → Rat)                 -- value added × ratio of the sector
  | vector (k : Ind d → Rat)                  -- user-supplied capital stock

/-- Model configuration after label canonicalisation. -/
structure Config (d : Dims) where
  isPsi : Bool
  alt : Bool
  aBase : Rat
  aMax : Rat
  alphaTau : Rat
  dt : Nat
  yearFactor : Nat
  inventories : Fin d.n → Option Rat          -- per input, `none` = infinite
  psi : Rat
  restTau : Fin d.n → Rat                     -- inventory_restoration_tau per input
  capital : CapitalSpec d

def steply (c : Config d) : Rat := (c.dt : Rat) / (c.yearFactor : Rat)

/-- `Z_C = I_sum @ Z` (yearly) -/
def zC (tb : Table d) (s : Fin d.n) (j : Ind d) : Rat := sumFin d.m fun r => tb.Z (r, s) j

/-- `Z_distrib`, with the documented convention 0/0 := 0 -/
def zShare (tb : Table d) (i j : Ind d) : Rat := safeDiv (tb.Z i j) (zC tb i.2 j) 0

/-- `pymrio.calc_A`: `Z * (1/x)`, `0` where `x = 0` -/
def coefA (tb : Table d) (i j : Ind d) : Rat := if tb.x j = 0 then 0 else tb.Z i j * (1 / tb.x j)

/-- `tech_mat = I_sum @ A` -/
def techCoef (tb : Table d) (s : Fin d.n) (f : Ind d) : Rat := sumFin d.m fun r => coefA tb (r, s) f

def techThreshold : Rat := 1 / 100000

/-- `threshold_not_input`: yearly aggregate flow against per-step output, as written -/
def thrOf (tb : Table d) (c : Config d) (s : Fin d.n) (f : Ind d) : Bool :=
  decide (tb.x f * steply c * techThreshold < zC tb s f)

/-- `inv_duration`: durations in steps; `≤ 1` replaced by 2 -/
def invDurOf (c : Config d) (s : Fin d.n) : Option Rat :=
  match c.inventories s with
  | none => none
  | some v => let w := v / (c.dt : Rat); if w ≤ 1 then some 2 else some w

/-- value added, negative values set to 0 -/
def valueAdded (tb : Table d) (f : Ind d) : Rat :=
  let va := tb.x f - sumInd d (fun i => tb.Z i f)
  if va < 0 then 0 else va

def capitalOf (tb : Table d) (c : Config d) (f : Ind d) : Rat :=
  match c.capital with
  | .default => valueAdded tb f * 4
  | .ratio r => valueAdded tb f * r f.2
  | .vector k => k f

/-- `psi_param > 1` is the one numeric rejection of the model constructors -/
def cfgRejected (c : Config d) : Prop := c.isPsi = true ∧ 1 < c.psi

instance (c : Config d) : Decidable (cfgRejected c) := by unfold cfgRejected; infer_instance

def mkParams (tb : Table d) (c : Config d) : Params d where
  x0 := fun f => tb.x f * steply c
  Z0 := fun i j => tb.Z i j * steply c
  Y0 := fun i cc => tb.Y i cc * steply c
  a := techCoef tb
  thr := thrOf tb c
  invDur := invDurOf c
  psi := if c.isPsi then c.psi else 1
  rest := fun s => if c.isPsi then (c.dt : Rat) / c.restTau s else 1
  aBase := c.aBase
  aMax := c.aMax
  aTau := (c.dt : Rat) / c.alphaTau
  alt := c.alt
  Zshare := zShare tb
  K := capitalOf tb c

/-- initial inventories `x0 · a · s` (rows of infinite inputs are not tracked: 0 here, `+inf` in the code) -/
def stock0 (p : Params d) (s : Fin d.n) (f : Ind d) : Rat := p.x0 f * p.a s f * durOrZero p s

/-- the state `__init__` leaves behind -/
def initEcon (p : Params d) : Econ d where
  orders := p.Z0
  fd := p.Y0
  reb := []
  dTot := rowTot p.Z0 p.Y0 []
  stock := stock0 p
  prod := p.x0
  alpha := fun _ => p.aBase
  deltaTot := fun _ => 0
  fdUnmet := fun _ => 0
  rebProd := []

def initSim (p : Params d) (dt : Nat) (trs : List (Tracker d)) : Sim d where
  p := p
  dt := dt
  econ := initEcon p
  trackers := trs
  nBlocks := 0
  t := 0

/-! ### events -/

inductive CurveName where
  | linear | convexe | convexeNoscale | other
  deriving DecidableEq, Repr

/-- An event as the constructors of `boario.event` leave it (labels already canonical, impacts wide). -/
structure EventSpec (d : Dims) where
  kind : EvKind
  occ : Nat
  dur : Nat
  tau : Nat
  impact : Ind d → Rat                 -- in the event's own unit; 0 where unaffected
  house : Option (Fd d → Rat)
  emf : Rat                            -- event monetary factor
  shares : Fin d.n → Rat               -- rebuilding shares, 0 for non-rebuilding sectors
  isReb : Fin d.n → Bool               -- is a rebuilding sector
  factor : Rat                         -- rebuilding factor
  curve : CurveName
  curveI : Int → (Ind d → Rat) → Ind d → Rat   -- used when `curve = other`
  curveH : Int → (Fd d → Rat) → Fd d → Rat

/-- `impact * (event factor / model factor)`; the code skips the multiplication when they are equal -/
def convFactor (emf mf : Rat) : Rat := if emf = mf then 1 else emf / mf

/-- industrial distribution: share of region `r` among the suppliers of rebuilding sector `s` for the
    affected industry `j` (`Z[(r,s), j] / Σ_r' Z[(r',s), j]`).  Division is plain: a missing supplier
    (`Σ = 0`) is the known finding F13 and is excluded by hypothesis in the theorems. -/
def distI (tb : Table d) (i j : Ind d) : Rat := tb.Z i j / zC tb i.2 j

def yC (tb : Table d) (s : Fin d.n) (c : Fd d) : Rat := sumFin d.m fun r => tb.Y (r, s) c

def distH (tb : Table d) (i : Ind d) (c : Fd d) : Rat := tb.Y i c / yC tb i.2 c

/-- `_distributed_reb_dem_indus` at creation: supplier `(r, s)`, damaged industry `j` -/
def rem0I (tb : Table d) (ev : EventSpec d) (mf : Rat) (i j : Ind d) : Rat :=
  if ev.isReb i.2 = true ∧ ev.impact j ≠ 0 then
    ev.shares i.2 * (ev.impact j * convFactor ev.emf mf) * ev.factor * distI tb i j
  else 0

def rem0H (tb : Table d) (ev : EventSpec d) (mf : Rat) (h : Fd d → Rat) (i : Ind d) (c : Fd d) : Rat :=
  if ev.isReb i.2 = true ∧ h c ≠ 0 then
    ev.shares i.2 * (h c * convFactor ev.emf mf) * ev.factor * distH tb i c
  else 0

def precOf (mfLog10 : Nat) : Nat := mfLog10 + 1

/-- `EventTracker.__init__` -/
def trackerInit (tb : Table d) (mf : Rat) (mfLog10 : Nat) (ev : EventSpec d) : Tracker d :=
  let conv := convFactor ev.emf mf
  let g : Int → Rat := match ev.curve with
    | .linear => gLinear ev.tau
    | .convexe => gConvexeScaled ev.tau
    | .convexeNoscale => gConvexe ev.tau
    | .other => fun _ => 0
  let cI := if ev.curve = .other then ev.curveI else cellwiseI g
  let cH := if ev.curve = .other then ev.curveH else cellwiseF g
  let capital := ev.kind = .rebuild ∨ ev.kind = .recover
  let dmg0 : Ind d → Rat := if capital then fun i => ev.impact i * conv else fun _ => 0
  let hd0 : Option (Fd d → Rat) := if capital then ev.house.map fun h c => h c * conv else none
  { kind := ev.kind, occ := ev.occ, dur := ev.dur, tau := ev.tau, factor := ev.factor
    prec := precOf mfLog10, curveI := cI, curveH := cH, status := .pending
    dmg0 := dmg0
    dmg := if capital then some dmg0 else none
    hdmg0 := hd0
    hdmg := hd0
    arb0 := if ev.kind = .arbitrary then ev.impact else fun _ => 0
    arb := if ev.kind = .arbitrary then some ev.impact else none
    remI := if ev.kind = .rebuild then some (rem0I tb ev mf) else none
    remH := if ev.kind = .rebuild then ev.house.map (rem0H tb ev mf) else none
    rid := none }

/-- admission (`event_compatibility`): schedule inside the horizon -/
def admitted (horizon : Nat) (ev : EventSpec d) : Prop :=
  0 < ev.occ ∧ ev.occ ≤ horizon ∧ 0 < ev.occ + ev.dur ∧ ev.occ + ev.dur ≤ horizon

instance (h : Nat) (ev : EventSpec d) : Decidable (admitted h ev) := by unfold admitted; infer_instance

/-! ### validation of events (constructors of `boario.event`) -/

/-- `np.isclose(shares.sum(), 1.0)` -/
def sharesSumOK (ev : EventSpec d) : Prop := isClose (sumFin d.n fun s => ev.shares s) 1

instance (ev : EventSpec d) : Decidable (sharesSumOK ev) := by unfold sharesSumOK; infer_instance

/-- the numeric rejections of the event constructors: non-positive characteristic time, occurrence or
    duration; an impact with a negative entry or without any positive entry; a capacity loss above
    100 %; rebuilding shares that do not sum to 1 or one of which is negative; a non-positive rebuilding factor -/
def eventRejected (ev : EventSpec d) : Prop :=
  ev.tau = 0 ∨ ev.occ = 0 ∨ ev.dur = 0 ∨
  (∃ r s, ev.impact (r, s) < 0) ∨ (∀ r s, ev.impact (r, s) = 0) ∨
  (ev.kind = .arbitrary ∧ ∃ r s, 1 < ev.impact (r, s)) ∨
  (ev.kind = .rebuild ∧ ¬ sharesSumOK ev) ∨
  (ev.kind = .rebuild ∧ ((∃ s, ev.shares s < 0) ∨ ev.factor ≤ 0))

instance (ev : EventSpec d) : Decidable (eventRejected ev) := by unfold eventRejected; infer_instance

end Boario
