/-
  Helper lemmas for C11 (run level): a simulation relation between two runs whose tracker lists are
  permutations of one another *up to the block ids*.

  Idea: every phase of `nextStep` can be described without the ids.  After `_check_happening_events`
  the block at the id of a rebuilding tracker is `presented dt tr` (a function of the tracker alone),
  the other blocks are only seen through the total `rebTot`, so the delivered block a tracker is
  credited is `deliverBlock tot prod (presented dt tr)`: a function of the tracker and of aggregates
  that are equal on both sides.  All tracker phases are then `map`s of id-blind functions, which
  commute with permutations.
-/
import Boario.Lemmas.Perm
import Boario.Properties.C11

namespace Boario
variable {d : Dims}

/-! ### trackers without their (internal) block id -/

/-- a tracker without its block id -/
def stripId (tr : Tracker d) : Tracker d := { tr with rid := none }

/-- `f` neither reads nor writes the block id -/
def RidBlind (f : Tracker d → Tracker d) : Prop :=
  ∀ (tr : Tracker d) (r : Option Nat), f { tr with rid := r } = { f tr with rid := r }

theorem RidBlind.strip {f : Tracker d → Tracker d} (h : RidBlind f) (tr : Tracker d) :
    stripId (f tr) = stripId (f (stripId tr)) := by
  unfold stripId
  rw [h tr none]

theorem RidBlind.comp {f g : Tracker d → Tracker d} (hf : RidBlind f) (hg : RidBlind g) :
    RidBlind (f ∘ g) := by
  intro tr r
  show f (g _) = _
  rw [hg tr r, hf (g tr) r]
  rfl

/-- an id-blind `map` acts on the stripped list -/
theorem map_strip_blind {f : Tracker d → Tracker d} (h : RidBlind f) (l : List (Tracker d)) :
    (l.map f).map stripId = (l.map stripId).map (stripId ∘ f) := by
  rw [List.map_map, List.map_map]
  apply List.map_congr_left
  intro tr _
  exact h.strip tr

/-- any view that ignores the id only depends on the stripped list, up to a permutation -/
theorem perm_map_of_strip {α : Type _} (φ : Tracker d → α) (hφ : ∀ tr, φ (stripId tr) = φ tr)
    {l l2 : List (Tracker d)} (h : (l.map stripId).Perm (l2.map stripId)) :
    (l.map φ).Perm (l2.map φ) := by
  have h' := h.map φ
  rw [List.map_map, List.map_map] at h'
  have e : (φ ∘ stripId : Tracker d → α) = φ := by funext tr; exact hφ tr
  rwa [e] at h'

theorem lostCapital_strip {l l2 : List (Tracker d)} (h : (l.map stripId).Perm (l2.map stripId))
    (i : Ind d) : lostCapital l i = lostCapital l2 i := by
  unfold lostCapital
  rw [sumList_eq_sum, sumList_eq_sum]
  exact (perm_map_of_strip (fun tr => tr.lostContribution i) (fun _ => rfl) h).sum_eq

theorem arbDelta_strip {l l2 : List (Tracker d)} (h : (l.map stripId).Perm (l2.map stripId))
    (i : Ind d) : arbDelta l i = arbDelta l2 i := by
  unfold arbDelta
  exact foldl_max_perm (perm_map_of_strip (fun tr => tr.arbContribution i) (fun _ => rfl) h) 0

theorem anyRebuilding_strip {l l2 : List (Tracker d)} (h : (l.map stripId).Perm (l2.map stripId)) :
    anyRebuilding l = anyRebuilding l2 := by
  have hp := perm_map_of_strip (fun tr : Tracker d => decide (tr.status = .rebuilding)) (fun _ => rfl) h
  have e : ∀ L : List (Tracker d), anyRebuilding L
      = (L.map fun tr : Tracker d => decide (tr.status = .rebuilding)).any id := by
    intro L; unfold anyRebuilding; rw [List.any_map]; rfl
  rw [e, e, Bool.eq_iff_iff]
  simp only [List.any_eq_true]
  exact ⟨fun ⟨x, hx, hp'⟩ => ⟨x, hp.mem_iff.1 hx, hp'⟩, fun ⟨x, hx, hp'⟩ => ⟨x, hp.mem_iff.2 hx, hp'⟩⟩

theorem rebContribution_strip (dt : Nat) {l l2 : List (Tracker d)}
    (h : (l.map stripId).Perm (l2.map stripId)) (i : Ind d) :
    (l.map (rebContribution dt i)).sum = (l2.map (rebContribution dt i)).sum :=
  (perm_map_of_strip (rebContribution dt i) (fun _ => rfl) h).sum_eq

/-! ### the tracker phases are id-blind -/

theorem wake_blind (t dt : Nat) : RidBlind (wake (d := d) t dt) := by
  intro tr r
  obtain ⟨kind, occ, dur, tau, factor, prec, cI, cH, status, dmg0, dmg, hdmg0, hdmg, arb0, arb, remI, remH, rid⟩ := tr
  simp only [wake]
  split_ifs <;> rfl

theorem adv1_blind (t : Nat) : RidBlind (adv1 (d := d) t) := by
  intro tr r
  obtain ⟨kind, occ, dur, tau, factor, prec, cI, cH, status, dmg0, dmg, hdmg0, hdmg, arb0, arb, remI, remH, rid⟩ := tr
  simp only [adv1]
  split_ifs <;> rfl

/-- the stripped tracker list after the life-cycle phase -/
theorem lifecycle_strip (t dt : Nat) (trs : List (Tracker d)) (nb : Nat) :
    (lifecycle t dt trs nb).1.map stripId
      = (trs.map stripId).map (stripId ∘ (adv1 t ∘ wake t dt)) := by
  rw [lifecycle_map t dt stripId (fun _ _ => rfl), List.map_map]
  apply List.map_congr_left
  intro tr _
  exact ((adv1_blind t).comp (wake_blind t dt)).strip tr

theorem lifecycle_strip_perm (t dt : Nat) {trs trs2 : List (Tracker d)}
    (h : (trs.map stripId).Perm (trs2.map stripId)) (nb nb2 : Nat) :
    ((lifecycle t dt trs nb).1.map stripId).Perm ((lifecycle t dt trs2 nb2).1.map stripId) := by
  rw [lifecycle_strip, lifecycle_strip]
  exact h.map _

theorem recvI_blind (got : RebBlock d) : RidBlind (fun tr : Tracker d => recvI tr got) := by
  intro tr r
  obtain ⟨kind, occ, dur, tau, factor, prec, cI, cH, status, dmg0, dmg, hdmg0, hdmg, arb0, arb, remI, remH, rid⟩ := tr
  cases remI with
  | none => rfl
  | some rem =>
    simp only [recvI]
    split_ifs <;> rfl

theorem recvH_blind (prec : Nat) (factor : Rat) (got : RebBlock d) :
    RidBlind (fun tr : Tracker d => recvH prec factor tr got) := by
  intro tr r
  obtain ⟨kind, occ, dur, tau, factor', prec', cI, cH, status, dmg0, dmg, hdmg0, hdmg, arb0, arb, remI, remH, rid⟩ := tr
  cases remH with
  | none => rfl
  | some rem =>
    simp only [recvH]
    split_ifs <;> rfl

theorem finishIf_blind : RidBlind (finishIf (d := d)) := by
  intro tr r
  obtain ⟨kind, occ, dur, tau, factor, prec, cI, cH, status, dmg0, dmg, hdmg0, hdmg, arb0, arb, remI, remH, rid⟩ := tr
  simp only [finishIf]
  split_ifs <;> rfl

theorem receive_blind (got : RebBlock d) : RidBlind (fun tr : Tracker d => receive tr got) := by
  intro tr r
  have h1 := recvI_blind got tr r
  have h2 := recvH_blind tr.prec tr.factor got (recvI tr got) r
  have h3 := finishIf_blind (recvH tr.prec tr.factor (recvI tr got) got) r
  simp only at h1 h2
  show finishIf (recvH tr.prec tr.factor (recvI { tr with rid := r } got) got)
    = { finishIf (recvH tr.prec tr.factor (recvI tr got) got) with rid := r }
  rw [h1, h2, h3]

/-- what a rebuilding tracker receives, told without the ids: its own presented demand, rationed -/
def recvOwn (tot prod : Ind d → Rat) (dt : Nat) (tr : Tracker d) : Tracker d :=
  if tr.status = .rebuilding then receive tr (deliverBlock tot prod (presented dt tr)) else tr

theorem recvOwn_blind (tot prod : Ind d → Rat) (dt : Nat) : RidBlind (recvOwn (d := d) tot prod dt) := by
  intro tr r
  unfold recvOwn
  by_cases h : tr.status = .rebuilding
  · rw [if_pos h, if_pos (show ({ tr with rid := r } : Tracker d).status = .rebuilding from h)]
    exact receive_blind _ tr r
  · rw [if_neg h, if_neg (show ¬ ({ tr with rid := r } : Tracker d).status = .rebuilding from h)]

theorem recovCap_blind (el : Int) : RidBlind (recovCap (d := d) el) := by
  intro tr r
  obtain ⟨kind, occ, dur, tau, factor, prec, cI, cH, status, dmg0, dmg, hdmg0, hdmg, arb0, arb, remI, remH, rid⟩ := tr
  simp only [recovCap]
  split_ifs <;> rfl

theorem recovArb_blind (el : Int) : RidBlind (recovArb (d := d) el) := by
  intro tr r
  rfl

theorem recovFinish_blind : RidBlind (recovFinish (d := d)) := by
  intro tr r
  obtain ⟨kind, occ, dur, tau, factor, prec, cI, cH, status, dmg0, dmg, hdmg0, hdmg, arb0, arb, remI, remH, rid⟩ := tr
  simp only [recovFinish]
  split_ifs <;> rfl

theorem recoverOne_blind (t : Nat) : RidBlind (recoverOne (d := d) t) := by
  intro tr r
  rw [recoverOne_eq, recoverOne_eq]
  by_cases h : tr.status ≠ .recovering
  · rw [if_pos h, if_pos (show ({ tr with rid := r } : Tracker d).status ≠ .recovering from h)]
  · rw [if_neg h, if_neg (show ¬ ({ tr with rid := r } : Tracker d).status ≠ .recovering from h)]
    show recovFinish (recovArb _ (recovCap _ { tr with rid := r })) = _
    rw [recovCap_blind _ tr r, recovArb_blind _ _ r, recovFinish_blind _ r]

theorem compact1_strip (rel : List Nat) (tr : Tracker d) : stripId (compact1 rel tr) = stripId tr := by
  unfold compact1
  split_ifs
  · rfl
  · split <;> rfl

theorem compactIds_strip (trs : List (Tracker d)) : (compactIds trs).map stripId = trs.map stripId := by
  rw [compactIds_eq, List.map_map]
  apply List.map_congr_left
  intro tr _
  exact compact1_strip _ tr

/-! ### the economy up to the naming of the blocks -/

/-- two economic states that agree on everything but the block lists, which have the same totals -/
structure EconEq (e e2 : Econ d) : Prop where
  orders : e.orders = e2.orders
  fd : e.fd = e2.fd
  dTot : e.dTot = e2.dTot
  stock : e.stock = e2.stock
  prod : e.prod = e2.prod
  alpha : e.alpha = e2.alpha
  deltaTot : e.deltaTot = e2.deltaTot
  fdUnmet : e.fdUnmet = e2.fdUnmet
  rebT : ∀ i, rebTot e.reb i = rebTot e2.reb i
  rebProdT : ∀ i, rebTot e.rebProd i = rebTot e2.rebProd i
  empty : e.reb.isEmpty = e2.reb.isEmpty

theorem rowTot_congr (o : Ind d → Ind d → Rat) (fd : Ind d → Fd d → Rat) {reb reb2 : List (RebBlock d)}
    (h : ∀ i, rebTot reb i = rebTot reb2 i) : rowTot o fd reb = rowTot o fd reb2 := by
  funext i
  unfold rowTot
  rw [h i]

theorem EconEq.rowTot {e e2 : Econ d} (h : EconEq e e2) :
    rowTot e.orders e.fd e.reb = rowTot e2.orders e2.fd e2.reb := by
  rw [h.orders, h.fd]
  exact rowTot_congr _ _ h.rebT

theorem econEq_productionPhase (p : Params d) (e e2 e' : Econ d) (h : EconEq e e2)
    (hp : productionPhase p e = .ok e') :
    ∃ e2', productionPhase p e2 = .ok e2' ∧ EconEq e' e2' ∧ e'.reb = e.reb ∧ e2'.reb = e2.reb := by
  unfold productionPhase at hp ⊢
  rw [← h.deltaTot, ← h.alpha]
  split_ifs at hp ⊢ with hc
  injection hp with hp
  subst hp
  refine ⟨_, rfl, ⟨h.orders, h.fd, h.dTot, h.stock, ?_, rfl, rfl, h.fdUnmet, h.rebT,
    h.rebProdT, h.empty⟩, rfl, rfl⟩
  show production p e.stock (xOpt p e.dTot e.deltaTot e.alpha)
    = production p e2.stock (xOpt p e2.dTot e.deltaTot e.alpha)
  rw [h.stock, h.dTot]

theorem econEq_overprod (p : Params d) (t : Nat) (e e2 : Econ d) (h : EconEq e e2) :
    EconEq (if 1 < t then overprodPhase p e else e) (if 1 < t then overprodPhase p e2 else e2) := by
  split_ifs
  · refine ⟨h.orders, h.fd, h.dTot, h.stock, h.prod, ?_, h.deltaTot, h.fdUnmet, h.rebT, h.rebProdT,
      h.empty⟩
    show overprod p e.alpha e.dTot e.prod = overprod p e2.alpha e2.dTot e2.prod
    rw [h.alpha, h.dTot, h.prod]
  · exact h

theorem overprod_reb (p : Params d) (t : Nat) (e : Econ d) :
    (if 1 < t then overprodPhase p e else e).reb = e.reb := by
  split_ifs <;> rfl

theorem sumInd_sub (f g : Ind d → Rat) :
    sumInd d (fun c => f c - g c) = sumInd d f - sumInd d g := by
  rw [sumInd_eq_sum_prod, sumInd_eq_sum_prod, sumInd_eq_sum_prod, Finset.sum_sub_distrib]

theorem blockTot_subBlock (b c : RebBlock d) (i : Ind d) :
    blockTot (subBlock b c) i = blockTot b i - blockTot c i := by
  unfold blockTot subBlock
  simp only
  rw [sumInd_sub, sumFd_sub]
  ring

theorem rebTot_map_sub (g : RebBlock d → RebBlock d) (l : List (RebBlock d)) (i : Ind d) :
    rebTot (l.map fun b => subBlock b (g b)) i = rebTot l i - rebTot (l.map g) i := by
  unfold rebTot
  rw [sumList_eq_sum, sumList_eq_sum, sumList_eq_sum]
  induction l with
  | nil => simp
  | cons b bs ih =>
    simp only [List.map_cons, List.sum_cons] at ih ⊢
    rw [ih, blockTot_subBlock]
    ring

theorem distributeFinish_reb (e : Econ d) (dl : Delivered d) (st : Fin d.n → Ind d → Rat) :
    (distributeFinish e dl st).reb = subBlocks e.reb dl.reb := rfl

theorem distributeFinish_rebProd (e : Econ d) (dl : Delivered d) (st : Fin d.n → Ind d → Rat) :
    (distributeFinish e dl st).rebProd = dl.reb := rfl

theorem distributeFinish_dTot (e : Econ d) (dl : Delivered d) (st : Fin d.n → Ind d → Rat) :
    (distributeFinish e dl st).dTot
      = if e.reb.isEmpty then e.dTot else rowTot e.orders e.fd (subBlocks e.reb dl.reb) := rfl

theorem distributeFinish_fdUnmet (e : Econ d) (dl : Delivered d) (st : Fin d.n → Ind d → Rat) :
    (distributeFinish e dl st).fdUnmet = fdUnmetOf e dl := rfl

theorem distributeFinish_stock (e : Econ d) (dl : Delivered d) (st : Fin d.n → Ind d → Rat) :
    (distributeFinish e dl st).stock = st := rfl

theorem deliveries_reb (e : Econ d) :
    (deliveries e).reb = e.reb.map (deliverBlock (rowTot e.orders e.fd e.reb) e.prod) := rfl

theorem econEq_distributeFinish (e e2 : Econ d) (h : EconEq e e2) (st : Fin d.n → Ind d → Rat) :
    EconEq (distributeFinish e (deliveries e) st) (distributeFinish e2 (deliveries e2) st) := by
  have htot := h.rowTot
  have hdf : (deliveries e2).fd = (deliveries e).fd := by
    simp only [deliveries]; rw [← htot, ← h.fd, ← h.prod]
  have hrebT : ∀ i, rebTot (subBlocks e.reb (deliveries e).reb) i
      = rebTot (subBlocks e2.reb (deliveries e2).reb) i := by
    intro i
    rw [deliveries_reb, deliveries_reb, subBlocks_map, subBlocks_map, rebTot_map_sub, rebTot_map_sub,
      rebTot_deliverBlock, rebTot_deliverBlock, h.rebT i, htot, h.prod]
  refine ⟨h.orders, h.fd, ?_, ?_, h.prod, h.alpha, h.deltaTot, ?_, ?_, ?_, ?_⟩
  · rw [distributeFinish_dTot, distributeFinish_dTot, h.empty, h.dTot, h.orders, h.fd,
      rowTot_congr _ _ hrebT]
  · rw [distributeFinish_stock, distributeFinish_stock]
  · rw [distributeFinish_fdUnmet, distributeFinish_fdUnmet]
    funext i
    unfold fdUnmetOf
    rw [hdf, h.fd]
  · intro i
    rw [distributeFinish_reb, distributeFinish_reb]
    exact hrebT i
  · intro i
    rw [distributeFinish_rebProd, distributeFinish_rebProd, deliveries_reb, deliveries_reb,
      rebTot_deliverBlock, rebTot_deliverBlock, h.rebT i, htot, h.prod]
  · rw [distributeFinish_reb, distributeFinish_reb, deliveries_reb, deliveries_reb, subBlocks_map,
      subBlocks_map, List.isEmpty_map, List.isEmpty_map, h.empty]

theorem econEq_distribute (p : Params d) (e e2 e3 : Econ d) (h : EconEq e e2)
    (hd : distribute p e = .ok e3) : ∃ e3', distribute p e2 = .ok e3' ∧ EconEq e3 e3' := by
  have htot := h.rowTot
  have hdo : (deliveries e2).orders = (deliveries e).orders := by
    simp only [deliveries]; rw [← htot, ← h.orders, ← h.prod]
  rcases distribute_ok p e e3 hd with ⟨hc, rfl⟩ | ⟨hc, hn, rfl⟩
  · refine ⟨distributeFinish e2 (deliveries e2) e2.stock, ?_, ?_⟩
    · unfold distribute
      rw [if_pos (by rw [hdo, ← h.prod]; exact hc)]
      rfl
    · rw [← h.stock]; exact econEq_distributeFinish e e2 h _
  · have hst : stockUpdated p e2 (deliveries e2).orders = stockUpdated p e (deliveries e).orders := by
      funext s f
      unfold stockUpdated
      rw [hdo, ← h.stock, ← h.prod]
    refine ⟨distributeFinish e2 (deliveries e2) (stockUpdated p e2 (deliveries e2).orders), ?_, ?_⟩
    · unfold distribute
      rw [if_neg (by rw [hdo, ← h.prod]; exact hc)]
      unfold distributeUpdate
      simp only
      rw [if_neg (by rw [hst]; exact hn)]
    · rw [hst]; exact econEq_distributeFinish e e2 h _

theorem econEq_ordersFinish (p : Params d) (e e2 e4 : Econ d) (gap : Fin d.n → Ind d → Rat)
    (h : EconEq e e2) (ho : ordersFinish p e gap = .ok e4) :
    ∃ e4', ordersFinish p e2 gap = .ok e4' ∧ EconEq e4 e4' := by
  have hof : ordersFrom p e2 gap = ordersFrom p e gap := by
    funext i j
    simp only [ordersFrom, h.prod, h.deltaTot, h.alpha]
  unfold ordersFinish at ho ⊢
  simp only at ho ⊢
  rw [hof]
  split_ifs at ho ⊢ with hn
  injection ho with ho
  subst ho
  refine ⟨_, rfl, ⟨rfl, h.fd, ?_, h.stock, h.prod, h.alpha, h.deltaTot, h.fdUnmet, h.rebT, h.rebProdT,
    h.empty⟩⟩
  show rowTot (ordersFrom p e gap) e.fd e.reb = rowTot (ordersFrom p e gap) e2.fd e2.reb
  rw [h.fd, rowTot_congr _ _ h.rebT]

theorem econEq_orders (p : Params d) (e e2 e4 : Econ d) (h : EconEq e e2)
    (ho : orders p e = .ok e4) : ∃ e4', orders p e2 = .ok e4' ∧ EconEq e4 e4' := by
  unfold orders at ho ⊢
  unfold ordersClosed ordersOpen at ho ⊢
  rw [← h.deltaTot, ← h.alpha, ← h.stock, ← h.dTot]
  split_ifs at ho ⊢
  · exact econEq_ordersFinish p e e2 e4 _ h ho
  · exact econEq_ordersFinish p e e2 e4 _ h ho

/-! ### the event phases -/

theorem preEcon_of_rebuilding (s : Sim d)
    (h : anyRebuilding (lifecycle s.t s.dt s.trackers s.nBlocks).1 = true) :
    preEcon s = { s.econ with
      deltaTot := deltaTotOf s.p (lostCapital (lifecycle s.t s.dt s.trackers s.nBlocks).1)
        (arbDelta (lifecycle s.t s.dt s.trackers s.nBlocks).1)
      reb := rebuildDemand s.dt (lifecycle s.t s.dt s.trackers s.nBlocks).1
        (lifecycle s.t s.dt s.trackers s.nBlocks).2
      dTot := rowTot s.econ.orders s.econ.fd
        (rebuildDemand s.dt (lifecycle s.t s.dt s.trackers s.nBlocks).1
          (lifecycle s.t s.dt s.trackers s.nBlocks).2) } := by
  unfold preEcon
  rw [if_pos h]

theorem preEcon_of_not (s : Sim d)
    (h : anyRebuilding (lifecycle s.t s.dt s.trackers s.nBlocks).1 = false) :
    preEcon s = { s.econ with
      deltaTot := deltaTotOf s.p (lostCapital (lifecycle s.t s.dt s.trackers s.nBlocks).1)
        (arbDelta (lifecycle s.t s.dt s.trackers s.nBlocks).1) } := by
  unfold preEcon
  rw [if_neg (by rw [h]; exact Bool.false_ne_true)]
  split_ifs with h2
  · exfalso
    unfold lifecycle at h h2
    have := advance_new_block _ _ _ h2
    rw [h] at this
    cases this
  · rfl

theorem rebuildDemand_nonempty (dt : Nat) (trs : List (Tracker d)) (nb : Nat) (hi : IdsOK trs nb)
    (h : anyRebuilding trs = true) : (rebuildDemand dt trs nb).isEmpty = false := by
  unfold anyRebuilding at h
  rw [List.any_eq_true] at h
  obtain ⟨tr, htr, hs⟩ := h
  obtain ⟨id, _, hlt⟩ := hi.has_id tr htr (by simpa using hs)
  rw [Bool.eq_false_iff]
  intro he
  rw [List.isEmpty_iff] at he
  have := congrArg List.length he
  simp [rebuildDemand] at this
  omega

/-- the simulation relation: same observable state, ids consistent on both sides -/
structure SimRel (s s2 : Sim d) : Prop where
  p : s.p = s2.p
  dt : s.dt = s2.dt
  t : s.t = s2.t
  econ : EconEq s.econ s2.econ
  trackers : (s.trackers.map stripId).Perm (s2.trackers.map stripId)
  ids : IdsOK s.trackers s.nBlocks
  ids2 : IdsOK s2.trackers s2.nBlocks

theorem SimRel.lifecycle {s s2 : Sim d} (h : SimRel s s2) :
    ((lifecycle s.t s.dt s.trackers s.nBlocks).1.map stripId).Perm
      ((lifecycle s2.t s2.dt s2.trackers s2.nBlocks).1.map stripId) := by
  rw [← h.t, ← h.dt]
  exact lifecycle_strip_perm _ _ h.trackers _ _

theorem econEq_pre (s s2 : Sim d) (h : SimRel s s2) : EconEq (preEcon s) (preEcon s2) := by
  have hL := h.lifecycle
  have hdelta : deltaTotOf s.p (lostCapital (lifecycle s.t s.dt s.trackers s.nBlocks).1)
        (arbDelta (lifecycle s.t s.dt s.trackers s.nBlocks).1)
      = deltaTotOf s2.p (lostCapital (lifecycle s2.t s2.dt s2.trackers s2.nBlocks).1)
        (arbDelta (lifecycle s2.t s2.dt s2.trackers s2.nBlocks).1) := by
    funext i
    simp only [deltaTotOf, deltaCap]
    rw [lostCapital_strip hL i, arbDelta_strip hL i, h.p]
  have hany := anyRebuilding_strip hL
  cases hr : anyRebuilding (lifecycle s.t s.dt s.trackers s.nBlocks).1
  · rw [preEcon_of_not s hr, preEcon_of_not s2 (by rw [← hany]; exact hr)]
    exact ⟨h.econ.orders, h.econ.fd, h.econ.dTot, h.econ.stock, h.econ.prod, h.econ.alpha, hdelta,
      h.econ.fdUnmet, h.econ.rebT, h.econ.rebProdT, h.econ.empty⟩
  · have hr2 : anyRebuilding (lifecycle s2.t s2.dt s2.trackers s2.nBlocks).1 = true := by
      rw [← hany]; exact hr
    rw [preEcon_of_rebuilding s hr, preEcon_of_rebuilding s2 hr2]
    have hI1 := (idsOK_lifecycle s.t s.dt s.trackers s.nBlocks h.ids).1
    have hI2 := (idsOK_lifecycle s2.t s2.dt s2.trackers s2.nBlocks h.ids2).1
    have hrebT : ∀ i, rebTot (rebuildDemand s.dt (lifecycle s.t s.dt s.trackers s.nBlocks).1
          (lifecycle s.t s.dt s.trackers s.nBlocks).2) i
        = rebTot (rebuildDemand s2.dt (lifecycle s2.t s2.dt s2.trackers s2.nBlocks).1
          (lifecycle s2.t s2.dt s2.trackers s2.nBlocks).2) i := by
      intro i
      rw [rebTot_rebuildDemand _ _ i _ hI1.distinct hI1.has_id,
        rebTot_rebuildDemand _ _ i _ hI2.distinct hI2.has_id]
      have hdt : rebContribution (d := d) s2.dt i = rebContribution s.dt i := by rw [h.dt]
      rw [hdt]
      exact rebContribution_strip s.dt hL i
    refine ⟨h.econ.orders, h.econ.fd, ?_, h.econ.stock, h.econ.prod, h.econ.alpha, hdelta,
      h.econ.fdUnmet, hrebT, h.econ.rebProdT, ?_⟩
    · show rowTot s.econ.orders s.econ.fd _ = rowTot s2.econ.orders s2.econ.fd _
      rw [h.econ.orders, h.econ.fd, rowTot_congr _ _ hrebT]
    · show (rebuildDemand _ _ _).isEmpty = (rebuildDemand _ _ _).isEmpty
      rw [rebuildDemand_nonempty _ _ _ hI1 hr, rebuildDemand_nonempty _ _ _ hI2 hr2]

theorem simRel_pre (s s2 s1 : Sim d) (h : SimRel s s2) (h1 : eventsPre s = .ok s1) :
    ∃ s1', eventsPre s2 = .ok s1' ∧ SimRel s1 s1' := by
  rw [eventsPre_eq] at h1 ⊢
  have hL := h.lifecycle
  have hlost : lostCapital (lifecycle s.t s.dt s.trackers s.nBlocks).1
      = lostCapital (lifecycle s2.t s2.dt s2.trackers s2.nBlocks).1 := funext (lostCapital_strip hL)
  split_ifs at h1 with hx
  injection h1 with h1
  subst h1
  rw [if_neg (by rw [← hlost, ← h.p]; exact hx)]
  exact ⟨_, rfl, ⟨h.p, h.dt, h.t, econEq_pre s s2 h, hL,
    (idsOK_lifecycle _ _ _ _ h.ids).1, (idsOK_lifecycle _ _ _ _ h.ids2).1⟩⟩

/-- every rebuilding tracker finds its own presented demand at its id -/
def OwnBlocks (dt : Nat) (trs : List (Tracker d)) (reb : List (RebBlock d)) : Prop :=
  ∀ tr ∈ trs, tr.status = .rebuilding →
    ∃ id, tr.rid = some id ∧ id < reb.length ∧ reb.getD id zeroBlock = presented dt tr

theorem ownBlocks_pre (s s1 : Sim d) (hids : IdsOK s.trackers s.nBlocks) (h1 : eventsPre s = .ok s1) :
    OwnBlocks s1.dt s1.trackers s1.econ.reb := by
  rw [eventsPre_eq] at h1
  split_ifs at h1
  injection h1 with h1
  subst h1
  intro tr htr hs
  have hI := (idsOK_lifecycle s.t s.dt s.trackers s.nBlocks hids).1
  have hany : anyRebuilding (lifecycle s.t s.dt s.trackers s.nBlocks).1 = true := by
    unfold anyRebuilding
    rw [List.any_eq_true]
    exact ⟨tr, htr, by simpa using hs⟩
  obtain ⟨id, hid, hlt⟩ := hI.has_id tr htr hs
  refine ⟨id, hid, ?_, ?_⟩
  · show id < (preEcon s).reb.length
    rw [preEcon_of_rebuilding s hany]
    show id < (rebuildDemand _ _ _).length
    simpa [rebuildDemand] using hlt
  · show (preEcon s).reb.getD id zeroBlock = presented s.dt tr
    rw [preEcon_of_rebuilding s hany]
    exact demand_own_block s.dt _ _ hI tr htr hs id hid

theorem receiveOne_own (p : Params d) (e e3 : Econ d) (dt : Nat) (trs : List (Tracker d))
    (hd : distribute p e = .ok e3) (ho : OwnBlocks dt trs e.reb) :
    ∀ tr ∈ trs, receiveOne e3.rebProd tr = recvOwn (rowTot e.orders e.fd e.reb) e.prod dt tr := by
  intro tr htr
  have hrp : e3.rebProd = (deliveries e).reb := by
    rcases distribute_ok p e e3 hd with ⟨_, rfl⟩ | ⟨_, _, rfl⟩ <;> rfl
  unfold receiveOne recvOwn
  by_cases hs : tr.status = .rebuilding
  · obtain ⟨id, hid, hlt, hb⟩ := ho tr htr hs
    rw [if_pos hs, if_pos hs, hid]
    simp only
    rw [hrp, credit_own_block e id hlt, hb]
  · rw [if_neg hs, if_neg hs]

theorem post_strip (t : Nat) (rp : List (RebBlock d)) (trs : List (Tracker d))
    (tot prod : Ind d → Rat) (dt : Nat)
    (h : ∀ tr ∈ trs, receiveOne rp tr = recvOwn tot prod dt tr) :
    (recoverAll t (receiveAll rp trs)).map stripId
      = ((trs.map stripId).map (stripId ∘ recvOwn tot prod dt)).map (stripId ∘ recoverOne t) := by
  unfold recoverAll receiveAll
  rw [map_strip_blind (recoverOne_blind t), compactIds_strip, List.map_congr_left h,
    map_strip_blind (recvOwn_blind tot prod dt)]

theorem idsOK_post (t : Nat) (rp : List (RebBlock d)) (trs : List (Tracker d)) (nb : Nat)
    (hids : IdsOK trs nb) : IdsOK (recoverAll t (receiveAll rp trs)) nb := by
  have hids1 := idsOK_receive rp trs nb hids
  unfold recoverAll
  refine ⟨?_, ?_, ?_⟩
  · intro tr' htr' hs
    obtain ⟨tr, htr, rfl⟩ := List.mem_map.1 htr'
    obtain ⟨c1, _, _, _, c5⟩ := recoverOne_facts t tr
    rw [c1]
    rcases c5 with c5 | ⟨_, c5⟩
    · exact hids1.has_id tr htr (c5 ▸ hs)
    · rw [c5] at hs; cases hs
  · intro tr' htr' hs
    obtain ⟨tr, htr, rfl⟩ := List.mem_map.1 htr'
    obtain ⟨c1, _, _, _, c5⟩ := recoverOne_facts t tr
    rw [c1]
    rcases c5 with c5 | ⟨c5, _⟩
    · exact hids1.only_rebuilding tr htr (c5 ▸ hs)
    · exact hids1.only_rebuilding tr htr (by rw [c5]; decide)
  · rw [List.filterMap_map]
    have : ((fun x : Tracker d => x.rid) ∘ recoverOne t) = fun x => x.rid := by
      funext tr; exact (recoverOne_facts t tr).1
    rw [this]
    exact hids1.distinct

/-! ### the whole step, the whole run -/

theorem nextStep_of_phases_pr (s s1 : Sim d) (e2 e3 e4 : Econ d)
    (h1 : eventsPre s = .ok s1)
    (h2 : productionPhase s1.p (if 1 < s1.t then overprodPhase s1.p s1.econ else s1.econ) = .ok e2)
    (h3 : distribute s1.p e2 = .ok e3)
    (h4 : orders s1.p e3 = .ok e4) :
    nextStep s = .ok { eventsPost { s1 with econ := e3 } with econ := e4, t := s1.t + s1.dt } := by
  unfold nextStep
  rw [h1]
  simp only [Outcome.bind]
  rw [h2]
  simp only
  rw [h3]
  simp only [eventsPost]
  rw [h4]

theorem simRel_step (s s2 s' : Sim d) (h : SimRel s s2) (hs : nextStep s = .ok s') :
    ∃ s2', nextStep s2 = .ok s2' ∧ SimRel s' s2' := by
  obtain ⟨s1, e2, e3, e4, h1, hp2, h3, h4, rfl⟩ := nextStep_ok_full s s' hs
  obtain ⟨s1', h1', r1⟩ := simRel_pre s s2 s1 h h1
  have ho := ownBlocks_pre s s1 h.ids h1
  have ho' := ownBlocks_pre s2 s1' h.ids2 h1'
  obtain ⟨e2', hp2', r2, hreb, hreb'⟩ :=
    econEq_productionPhase s1.p _ _ e2 (econEq_overprod s1.p s1.t _ _ r1.econ) hp2
  rw [overprod_reb] at hreb hreb'
  obtain ⟨e3', h3', r3⟩ := econEq_distribute s1.p e2 e2' e3 r2 h3
  obtain ⟨e4', h4', r4⟩ := econEq_orders s1.p e3 e3' e4 r3 h4
  rw [r1.p] at hp2' h3' h4'
  rw [r1.t] at hp2'
  refine ⟨_, nextStep_of_phases_pr s2 s1' e2' e3' e4' h1' hp2' h3' h4', ?_⟩
  rw [← hreb] at ho
  rw [← hreb'] at ho'
  refine ⟨r1.p, r1.dt, ?_, r4, ?_, ?_, ?_⟩
  · show s1.t + s1.dt = s1'.t + s1'.dt
    rw [r1.t, r1.dt]
  · show ((recoverAll s1.t (receiveAll e3.rebProd s1.trackers)).map stripId).Perm
      ((recoverAll s1'.t (receiveAll e3'.rebProd s1'.trackers)).map stripId)
    rw [post_strip _ _ _ _ _ _ (receiveOne_own s1.p e2 e3 s1.dt s1.trackers h3 ho),
      post_strip _ _ _ _ _ _ (receiveOne_own s1'.p e2' e3' s1'.dt s1'.trackers h3' ho'),
      r2.rowTot, r2.prod, r1.dt, r1.t]
    exact (r1.trackers.map _).map _
  · exact idsOK_post _ _ _ _ r1.ids
  · exact idsOK_post _ _ _ _ r1.ids2

theorem simRel_run (k : Nat) : ∀ (s s2 s' : Sim d), SimRel s s2 → runN k s = some s' →
    ∃ s2', runN k s2 = some s2' ∧ SimRel s' s2' := by
  induction k with
  | zero =>
    intro s s2 s' h hr
    injection hr with hr
    subst hr
    exact ⟨s2, rfl, h⟩
  | succ k ih =>
    intro s s2 s' h hr
    unfold runN at hr
    split at hr
    · rename_i s1 hs1
      obtain ⟨s1', hs1', r1⟩ := simRel_step s s2 s1 h hs1
      obtain ⟨s2', hr2, r⟩ := ih s1 s1' s' r1 hr
      refine ⟨s2', ?_, r⟩
      unfold runN
      rw [hs1']
      exact hr2
    · cases hr

theorem EconEq.refl (e : Econ d) : EconEq e e :=
  ⟨rfl, rfl, rfl, rfl, rfl, rfl, rfl, rfl, fun _ => rfl, fun _ => rfl, rfl⟩

/-- pending events hold no block id: the id discipline holds trivially -/
theorem idsOK_of_pending (trs : List (Tracker d)) (nb : Nat)
    (h : ∀ tr ∈ trs, tr.status = .pending ∧ tr.rid = none) : IdsOK trs nb := by
  refine ⟨?_, ?_, ?_⟩
  · intro tr htr hs
    rw [(h tr htr).1] at hs
    cases hs
  · intro tr htr _
    exact (h tr htr).2
  · have : trs.filterMap (·.rid) = [] := by
      rw [List.filterMap_eq_nil_iff]
      intro tr htr
      exact (h tr htr).2
    rw [this]
    exact List.nodup_nil

end Boario
