/-
  C09 (run level) — the damage of a recovering event along a whole run, step length 1:
  untouched until recovery starts at occurrence + duration, afterwards the event's recovery function at
  the number of recovery steps completed, rounded; `none` (zero) once the rounded curve has been all-zero
  at some recovery step (the event is then finished or no longer carries that ledger).
  Combines the timeline (C10) with `damage_after` / `arb_after` (C09).
-/
import Boario.Properties.C09
import Boario.Properties.C10
import Boario.Lemmas.RecoveryRun

namespace Boario
variable {d : Dims}

/-! `FreshRecover`, `FreshArbitrary`, `curveAt`, `arbCurveAt`, `SameTracker`: see `Boario.Lemmas.RecoveryRun` -/

theorem run_same_events (k : Nat) (s s' : Sim d) (h : runN k s = some s') :
    List.Forall₂ SameTracker s.trackers s'.trackers := by
  exact rr_run_same k s s' h

/-- CAPITAL RECOVERY: after `k` steps (steps 0 … k-1 done) of a run that started at t = 0 -/
theorem recovery_trajectory (k : Nat) (s s' : Sim d) (hdt : s.dt = 1) (ht : s.t = 0)
    (h : runN k s = some s')
    (hocc : ∀ tr ∈ s.trackers, 0 < tr.occ ∧ 0 < tr.dur) (hpend : ∀ tr ∈ s.trackers, tr.status = .pending) :
    List.Forall₂ (fun a b => FreshRecover a →
        -- recovery has not started: the initial damage, untouched
        (k ≤ a.occ + a.dur → b.dmg = some a.dmg0) ∧
        -- recovery started (steps occ+dur … k-1 are recovery steps 0 … k-1-(occ+dur))
        (a.occ + a.dur < k →
          (b.dmg = some (curveAt a (k - 1)) ∧ ¬ allZeroI (curveAt a (k - 1)) ∧ b.status = .recovering) ∨
          (b.dmg = none ∧ ∃ j, a.occ + a.dur ≤ j ∧ j < k ∧ allZeroI (curveAt a j))))
      s.trackers s'.trackers := by
  have _ := hocc
  have _ := hpend
  have hinit : List.Forall₂ (fun a x => FreshRecover a → rr_InvR s.t a x) s.trackers s.trackers :=
    List.forall₂_same.mpr fun a _ hP => by rw [ht]; exact rr_invR_init a hP
  have hrun := rr_run_inv rr_InvR FreshRecover
    (fun k r a x hP hi => rr_invR_step k r a x hP.1 hP.2.2.2.2.2 hi) rr_invR_nonrebuild
    s.trackers k s s' hdt h hinit
  rw [ht, Nat.zero_add] at hrun
  refine hrun.imp ?_
  intro a b hab hP
  obtain ⟨-, -, -, i1, i2, i3⟩ := hab hP
  refine ⟨fun hk => ?_, fun hk => ?_⟩
  · by_cases c : k ≤ a.occ
    · exact (i1 c).2
    · exact (i2 (by omega) hk).2
  · rcases i3 hk with ⟨p1, p2, p3⟩ | ⟨p1, -, -, hj⟩
    · exact Or.inl ⟨p2, p3, p1⟩
    · exact Or.inr ⟨p1, hj⟩

/-- CAPACITY LOSS (arbitrary events): the same for the dimensionless loss, six decimals -/
theorem arbitrary_trajectory (k : Nat) (s s' : Sim d) (hdt : s.dt = 1) (ht : s.t = 0)
    (h : runN k s = some s')
    (hocc : ∀ tr ∈ s.trackers, 0 < tr.occ ∧ 0 < tr.dur) (hpend : ∀ tr ∈ s.trackers, tr.status = .pending) :
    List.Forall₂ (fun a b => FreshArbitrary a →
        (k ≤ a.occ + a.dur → b.arb = some a.arb0) ∧
        (a.occ + a.dur < k →
          (b.arb = some (arbCurveAt a (k - 1)) ∧ ¬ allZeroI (arbCurveAt a (k - 1)) ∧ b.status = .recovering) ∨
          (b.arb = none ∧ b.status = .finished ∧ ∃ j, a.occ + a.dur ≤ j ∧ j < k ∧ allZeroI (arbCurveAt a j))))
      s.trackers s'.trackers := by
  have _ := hocc
  have _ := hpend
  have hinit : List.Forall₂ (fun a x => FreshArbitrary a → rr_InvA s.t a x) s.trackers s.trackers :=
    List.forall₂_same.mpr fun a _ hP => by rw [ht]; exact rr_invA_init a hP
  have hrun := rr_run_inv rr_InvA FreshArbitrary
    (fun k r a x hP hi => rr_invA_step k r a x hP.1 hP.2.2.2.2.2.2 hi) rr_invA_nonrebuild
    s.trackers k s s' hdt h hinit
  rw [ht, Nat.zero_add] at hrun
  refine hrun.imp ?_
  intro a b hab hP
  obtain ⟨-, -, -, i1, i2, i3⟩ := hab hP
  refine ⟨fun hk => ?_, fun hk => ?_⟩
  · by_cases c : k ≤ a.occ
    · exact (i1 c).2
    · exact (i2 (by omega) hk).2
  · rcases i3 hk with ⟨p1, p2, p3⟩ | ⟨p1, p2, hj⟩
    · exact Or.inl ⟨p2, p3, p1⟩
    · exact Or.inr ⟨p1, p2, hj⟩

/-- with the linear curve, a capital-recovery event without household damage is finished once exactly
    `tau` recovery steps have been completed (k = occ + dur + tau + 1 steps done), whatever the run -/
theorem linear_finished_run (s s' : Sim d) (hdt : s.dt = 1) (ht : s.t = 0)
    (hocc : ∀ tr ∈ s.trackers, 0 < tr.occ ∧ 0 < tr.dur) (hpend : ∀ tr ∈ s.trackers, tr.status = .pending)
    (a : Tracker d) (ha : a ∈ s.trackers) (hf : FreshRecover a) (hh : a.hdmg = none) (htau : 0 < a.tau)
    (hcI : a.curveI = cellwiseI (gLinear a.tau)) (hcH : a.curveH = cellwiseF (gLinear a.tau))
    (k : Nat) (hk : a.occ + a.dur + a.tau < k) (h : runN k s = some s') :
    ∃ b ∈ s'.trackers, SameTracker a b ∧ b.status = .finished ∧ b.dmg = none := by
  have _ := hocc
  have _ := hpend
  have _ := hcH
  have hinit : List.Forall₂ (fun a x => FreshRecover a → rr_InvR s.t a x) s.trackers s.trackers :=
    List.forall₂_same.mpr fun a _ hP => by rw [ht]; exact rr_invR_init a hP
  have hrun := rr_run_inv rr_InvR FreshRecover
    (fun k r a x hP hi => rr_invR_step k r a x hP.1 hP.2.2.2.2.2 hi) rr_invR_nonrebuild
    s.trackers k s s' hdt h hinit
  rw [ht, Nat.zero_add] at hrun
  obtain ⟨b, hb, hab⟩ := rr_forall₂_mem_left hrun a ha
  obtain ⟨hsame, -, i0, -, -, i3⟩ := hab hf
  refine ⟨b, hb, hsame, ?_⟩
  rcases i3 (by omega) with ⟨-, -, p3⟩ | ⟨p1, -, p3, -⟩
  · exact absurd (rr_linear_allZero a htau hcI (k - 1) (by omega)) p3
  · exact ⟨p3 (i0 hh), p1⟩

end Boario
