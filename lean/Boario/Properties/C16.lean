/-
  C16 — Records are faithful, complete and unaffected by how they are observed.
  Proved on the record-layer model and on the tables regenerated from the source on every run
  (`Boario.Gen.*`).  Partial: that a memmap file read back with the documented dtype and shape equals
  the memory, and that the JSON artefacts on disk equal the dictionaries, is OS / library behaviour:
  checked by reading back, not proved.
-/
import Boario.Records
import Boario.Lemmas.RunLog
import Boario.Gen.NextStep
import Boario.Properties.PhaseOrder
import Boario.Gen.RecordSpecs
import Mathlib.Tactic.Linarith

namespace Boario.Records
open Boario.Gen

variable {V : Type}

/-- `k` successful steps with values `vals t` -/
def okRun (vals : Nat → Rec → V) (k : Nat) : List ((Rec → V) × StepEnd) :=
  (List.range k).map fun t => (vals t, StepEnd.ok)

theorem okRun_eq (vals : Nat → Rec → V) (k : Nat) : okRun vals k = okRunFrom vals 0 k := by
  simp [okRun, okRunFrom, List.range_eq_range']

/-- the log and counter after `k` successful steps followed by `rest` -/
theorem runLog_okRun_append (c : Cfg) (vals : Nat → Rec → V) (k : Nat)
    (rest : List ((Rec → V) × StepEnd)) :
    runLog c (okRun vals k ++ rest) 0 emptyLog = runLog c rest k (okLog c vals 0 k emptyLog) := by
  rw [okRun_eq, runLog_okRunFrom_append, Nat.zero_add]

theorem runLog_okRun (c : Cfg) (vals : Nat → Rec → V) (k : Nat) :
    runLog c (okRun vals k) 0 emptyLog = (okLog c vals 0 k emptyLog, k) := by
  have := runLog_okRun_append c vals k []
  rwa [List.append_nil] at this

/-- the log after a step that does not end `ok` -/
theorem runLog_stop (c : Cfg) (v : Rec → V) (e : StepEnd) (he : e ≠ .ok)
    (rest : List ((Rec → V) × StepEnd)) (t : Nat) (log : Log V) :
    runLog c ((v, e) :: rest) t log = (writeStep c t v e log, t) := by
  cases e with
  | ok => exact absurd rfl he
  | crash => rfl
  | excIn ph => rfl

/-- row `t` of every tracked record equals the model's value of that variable at step `t` … -/
theorem rows_faithful (c : Cfg) (vals : Nat → Rec → V) (k : Nat) (r : Rec) (t : Nat)
    (ht : t < k) (hr : tracked c r = true) :
    (runLog c (okRun vals k) 0 emptyLog).1 r t = some (vals t r) := by
  rw [runLog_okRun]
  simp [okLog, ht, hr]

/-- … rows of steps that were not simulated keep the fill value … -/
theorem rows_fill (c : Cfg) (vals : Nat → Rec → V) (k : Nat) (r : Rec) (t : Nat) (ht : k ≤ t) :
    (runLog c (okRun vals k) 0 emptyLog).1 r t = none := by
  rw [runLog_okRun]
  simp only [okLog, emptyLog]
  rw [if_neg]; omega

/-- … an untracked record (stocks without `register_stocks`) is never written … -/
theorem untracked_never_written (c : Cfg) (steps : List ((Rec → V) × StepEnd)) (r : Rec) (t : Nat)
    (hr : tracked c r = false) : (runLog c steps 0 emptyLog).1 r t = none := by
  exact runLog_untracked c r hr steps 0 emptyLog (fun _ => rfl) t

/-- … and all of this is independent of which records are kept in files (storage mode, subset saved) -/
theorem storage_independent (c c' : Cfg) (h : c.registerStocks = c'.registerStocks)
    (steps : List ((Rec → V) × StepEnd)) :
    runLog c steps 0 emptyLog = runLog c' steps 0 emptyLog := by
  exact runLog_congr c c' h steps 0 emptyLog

/-- when a run stops early (crash flag or exception at step `k`), the rows already written stay
    intact, later rows keep the fill value, and row `k` holds for each record either its value of
    that step or the fill value -/
theorem early_stop_intact (c : Cfg) (vals : Nat → Rec → V) (k : Nat) (e : StepEnd) (he : e ≠ .ok)
    (rest : List ((Rec → V) × StepEnd)) (r : Rec) (hr : tracked c r = true) :
    let log := (runLog c (okRun vals k ++ (vals k, e) :: rest) 0 emptyLog).1
    (∀ t, t < k → log r t = some (vals t r)) ∧ (∀ t, k < t → log r t = none) ∧
    (log r k = some (vals k r) ∨ log r k = none) ∧
    (runLog c (okRun vals k ++ (vals k, e) :: rest) 0 emptyLog).2 = k := by
  intro log
  have hlog : log = writeStep c k (vals k) e (okLog c vals 0 k emptyLog) := by
    simp only [log, runLog_okRun_append, runLog_stop c (vals k) e he]
  refine ⟨?_, ?_, ?_, ?_⟩
  · intro t ht
    rw [hlog]
    have : t ≠ k := by omega
    simp [writeStep, okLog, this, ht, hr]
  · intro t ht
    rw [hlog]
    have h1 : t ≠ k := by omega
    have h2 : ¬ t < k := by omega
    simp [writeStep, okLog, emptyLog, h1, h2]
  · rw [hlog]
    by_cases hw : written e (phaseOf r) = true
    · left; simp [writeStep, hr, hw]
    · right; simp [writeStep, okLog, emptyLog, hw]
  · simp only [runLog_okRun_append, runLog_stop c (vals k) e he]

/-- a crash (negative inventory during distribution) leaves the records of the earlier phases of the
    crashing step written and those of the distribution phase at their fill value -/
theorem crash_row (c : Cfg) (vals : Nat → Rec → V) (k : Nat) (r : Rec) (hr : tracked c r = true) :
    (runLog c (okRun vals k ++ [(vals k, StepEnd.crash)]) 0 emptyLog).1 r k
      = if phaseOf r = .distribution then none else some (vals k r) := by
  rw [runLog_okRun_append, runLog_stop c (vals k) _ (by decide)]
  cases r <;> simp [writeStep, okLog, emptyLog, hr, written, phaseOf, Phase.idx]

/-! ### regenerated from the source: the write guards and tables of `Simulation` -/

/-- every record's guard tests its *own* attribute name, against the file list first and the in-memory
    list second -/
def guardOK : Item → Bool
  | .write a la b lb _ => a == b && la == "self._files_to_record" && lb == "self._vars_to_record"
  | _ => true

theorem guards_complete : nextStepSkeleton.all guardOK = true := by
  decide

/-- the helper called under a guard writes the attribute the guard names, at the row of the current step -/
def helperOK (helpers : List (String × String × String)) : Item → Bool
  | .write a _ _ _ h => helpers.any fun x => "self." ++ x.1 == h && x.2.1 == "self." ++ a && x.2.2 == "self.current_temporal_unit"
  | _ => true

theorem helpers_write_own_row : nextStepSkeleton.all (helperOK writeHelpers) = true := by
  decide

/-- the attribute written for each record, and the phase it is written after, as the model assumes -/
def attrOf : Rec → String
  | .productionRealised => "_production_evolution" | .productionCapacity => "_production_cap_evolution"
  | .finalDemand => "_final_demand_evolution" | .intermediateDemand => "_io_demand_evolution"
  | .rebuildDemand => "_rebuild_demand_evolution" | .overproduction => "_overproduction_evolution"
  | .finalDemandUnmet => "_final_demand_unmet_evolution" | .rebuildProd => "_rebuild_production_evolution"
  | .inputsStocks => "_inputs_evolution" | .limitingInputs => "_limiting_inputs_evolution"
  | .capitalToRecover => "_regional_sectoral_productive_capital_destroyed_evolution"

/-- the record tables are a bijection onto the eleven records of the model, with the documented fill values -/
theorem specs_bijective :
    possibleRecords = allRecs.map Rec.name ∧
    recordSpecs.map (fun s => (s.1, s.2.2.1)) = allRecs.map (fun r => (r.name, attrOf r)) ∧
    recordSpecs.map (fun s => s.2.2.2.2) = allRecs.map (fun r => if r = .limitingInputs then "-1" else "np.nan") := by
  refine ⟨by decide, by decide, by decide⟩

/-- position (index of the preceding model call) of each record's write in `next_step` agrees with `phaseOf` -/
def callBefore (items : List Item) (attr : String) : Option String :=
  let rec go (last : String) : List Item → Option String
    | [] => none
    | .call n :: rest => go n rest
    | .ifStepGt _ n :: rest => go n rest
    | .write a _ _ _ _ :: rest => if a == attr then some last else go last rest
    | _ :: rest => go last rest
  go "" items

def phaseCall : Phase → String
  | .events => "self._check_happening_events" | .overprod => "self.model.calc_overproduction"
  | .production => "self.model.calc_production" | .distribution => "self.model.distribute_production"

theorem writes_after_their_phase :
    allRecs.all (fun r => callBefore nextStepSkeleton (attrOf r) == some (phaseCall (phaseOf r))) = true := by
  decide

end Boario.Records
