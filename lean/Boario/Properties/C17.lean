/-
  C17 — Simulations are deterministic, mutually isolated and leave inputs untouched.
  The model is a function of its inputs (determinism is `rfl`).  Isolation and ownership are proved on
  a key → file map and a heap with a copying discipline; that the Python code follows the discipline
  is a fact about object identity at run time and is established dynamically (deep snapshots of every
  caller-owned object, random histories of construct / run / read over several live simulations
  compared bit for bit with isolated runs) plus the regenerated table of default arguments.  Partial.
-/
import Boario.Storage
import Boario.Lemmas.Isolation
import Boario.Sim
import Boario.Gen.Defaults
import Mathlib.Tactic.Linarith

namespace Boario.Storage
open Boario.Gen

/-- the model is a function: the same table, parameters and events give the same result -/
theorem run_function {d : Dims} (s₁ s₂ : Sim d) (k : Nat) (h : s₁ = s₂) : runN k s₁ = runN k s₂ := by
  rw [h]

/-- keys used by the simulations that save records are pairwise distinct, and nobody writes under a
    key that is not its own -/
def KeysDistinct (ops : List Op) : Prop :=
  ∀ s₁ k₁ s₂ k₂ b₁, Op.construct s₁ k₁ b₁ ∈ ops → Op.construct s₂ k₂ true ∈ ops → s₁ ≠ s₂ → k₁ ≠ k₂

def WritesOwnKey (ops : List Op) : Prop :=
  ∀ s k row, Op.write s k row ∈ ops → ∃ b, Op.construct s k b ∈ ops

/-- isolation: whatever else was created, run or is alive in the process, a simulation reads back
    exactly the rows it wrote itself since it was constructed -/
theorem isolation (ops : List Op) (sim : SimId) (key : Key)
    (hd : KeysDistinct ops) (hw : WritesOwnKey ops)
    (hone : ∀ k b, Op.construct sim k b ∈ ops → k = key)           -- `sim` has one key
    (hfirst : ∃ pre post, ops = pre ++ Op.construct sim key true :: post ∧
        (∀ op ∈ pre, ∀ k r, op ≠ Op.write sim k r) ∧ (∀ op ∈ post, ∀ k b, op ≠ Op.construct sim k b)) :
    readBack (run ops) key = some (ownRows ops sim) := by
  obtain ⟨pre, post, hops, hpre, hpost⟩ := hfirst
  have hmem : Op.construct sim key true ∈ ops := by rw [hops]; simp
  have hresp : ∀ op ∈ post, Respects sim key op := by
    intro op hop
    have hin : op ∈ ops := by rw [hops]; simp [hop]
    cases op with
    | construct s k b =>
      have hs : s ≠ sim := fun hs => hpost _ hop k b (by rw [hs])
      exact hd s k sim key b hin hmem hs
    | write s k row =>
      obtain ⟨b, hb⟩ := hw s k row hin
      by_cases hs : s = sim
      · simp only [Respects, if_pos hs]
        exact hone k b (hs ▸ hb)
      · simp only [Respects, if_neg hs]
        exact hd s k sim key b hb hmem hs
  have hrun : run ops = post.foldl step (step (run pre) (Op.construct sim key true)) := by
    rw [hops, run, List.foldl_append, List.foldl_cons]; rfl
  have h0 : step (run pre) (Op.construct sim key true) key = some ⟨sim, []⟩ := by simp [step]
  have hown : ownRows ops sim = ownRows post sim := by
    rw [hops, ownRows_append, ownRows_cons_construct, ownRows_nil_of_no_write pre sim hpre,
      List.nil_append]
  rw [hrun, hown, readBack, foldl_step_respects sim key post hresp _ sim [] h0]
  simp

/-- default-constructed simulations get pairwise distinct keys when the default directory is
    allocated per construction -/
theorem fresh_defaults_distinct (base : Nat) (s₁ s₂ : SimId) (h : s₁ ≠ s₂) :
    freshKey base s₁ ≠ freshKey base s₂ := by
  intro he
  exact h (Nat.add_left_cancel he)

/-- with a shared default key (the defect repaired in the code: default evaluated once at import time)
    isolation fails: constructing a second simulation truncates the first one's record -/
theorem shared_default_breaks_isolation :
    ∃ ops : List Op, readBack (run ops) 0 ≠ some (ownRows ops 1) ∧
      (∀ s k row, Op.write s k row ∈ ops → ∃ b, Op.construct s k b ∈ ops) := by
  refine ⟨[Op.construct 1 0 true, Op.write 1 0 7, Op.construct 2 0 true], by decide, ?_⟩
  intro s k row hmem
  simp at hmem
  obtain ⟨rfl, rfl, rfl⟩ := hmem
  exact ⟨true, by simp⟩

/-- ingestion that copies before any in-place operation leaves the caller's object unchanged -/
theorem ingest_preserves (h : Heap) (caller fresh : ObjId) (hne : caller ≠ fresh)
    (ops : List (List Nat → List Nat)) : (ingestCopying h caller fresh ops) caller = h caller := by
  have key : ∀ (ops : List (List Nat → List Nat)) (h' : Heap),
      (ops.foldl (fun h' f => mutate h' fresh f) h') caller = h' caller := by
    intro ops
    induction ops with
    | nil => intro h'; rfl
    | cons f rest ih =>
      intro h'
      rw [List.foldl_cons, ih]
      simp [mutate, hne]
  rw [ingestCopying, key]
  simp [copyTo, hne]

/-- the value of the copy after ingestion depends only on the value copied -/
theorem foldl_mutate_at (ops : List (List Nat → List Nat)) :
    ∀ (h₁ h₂ : Heap) (f₁ f₂ : ObjId), h₁ f₁ = h₂ f₂ →
      (ops.foldl (fun h' f => mutate h' f₁ f) h₁) f₁ = (ops.foldl (fun h' f => mutate h' f₂ f) h₂) f₂ := by
  induction ops with
  | nil => intro h₁ h₂ f₁ f₂ he; exact he
  | cons f rest ih =>
    intro h₁ h₂ f₁ f₂ he
    rw [List.foldl_cons, List.foldl_cons]
    apply ih
    simp [mutate, he]

/-- … and so one caller object (an Event, an impact Series) can be ingested any number of times with
    the same result -/
theorem event_reusable (h : Heap) (caller f₁ f₂ : ObjId) (h1 : caller ≠ f₁) (h2 : caller ≠ f₂) (h12 : f₁ ≠ f₂)
    (ops : List (List Nat → List Nat)) :
    (ingestCopying (ingestCopying h caller f₁ ops) caller f₂ ops) f₂ = (ingestCopying h caller f₁ ops) f₁ := by
  have hp := ingest_preserves h caller f₁ h1 ops
  unfold ingestCopying at hp ⊢
  apply foldl_mutate_at
  simp only [copyTo, if_pos]
  exact hp

/-! ### regenerated from the source: default arguments -/

/-- no default argument of a public constructor is a call evaluated at definition time, and no
    mutable-literal default is mutated in place -/
def defaultOK (x : String × String × DefaultKind × Bool) : Bool :=
  x.2.2.1 != DefaultKind.callAtDefinition && x.2.2.1 != DefaultKind.other && x.2.2.1 != DefaultKind.missing &&
  !(x.2.2.1 == DefaultKind.mutableLiteral && x.2.2.2)

theorem defaults_safe : defaults.all defaultOK = true := by
  decide

end Boario.Storage
