/-
  Bridge between the executable folds of the model and Mathlib's big operators.
-/
import Boario.Econ
import Mathlib.Algebra.BigOperators.Fin
import Mathlib.Algebra.BigOperators.Field
import Mathlib.Algebra.Order.Field.Basic
import Mathlib.Algebra.Order.BigOperators.Group.Finset
import Mathlib.Tactic.Linarith
import Mathlib.Tactic.Ring
import Mathlib.Tactic.FieldSimp
import Mathlib.Tactic.Positivity

namespace Boario

theorem sumFin_eq_sum (n : Nat) (f : Fin n → Rat) : sumFin n f = ∑ i, f i := by
  unfold sumFin
  induction n with
  | zero => simp [Fin.foldl_zero]
  | succ n ih =>
    rw [Fin.foldl_succ_last, Fin.sum_univ_castSucc]
    rw [ih (fun i => f i.castSucc)]

theorem sumFin_mul_const (n : Nat) (f : Fin n → Rat) (c : Rat) :
    sumFin n (fun i => f i * c) = sumFin n f * c := by
  rw [sumFin_eq_sum, sumFin_eq_sum, Finset.sum_mul]

theorem sumList_eq_sum (l : List Rat) : sumList l = l.sum := by
  unfold sumList
  have : ∀ (l : List Rat) (a : Rat), l.foldl (· + ·) a = a + l.sum := by
    intro l
    induction l with
    | nil => intro a; simp
    | cons x xs ih => intro a; simp [List.foldl_cons, ih, add_assoc]
  simpa using this l 0

variable {d : Dims}

theorem sumInd_eq_sum (f : Ind d → Rat) : sumInd d f = ∑ r, ∑ s, f (r, s) := by
  unfold sumInd
  rw [sumFin_eq_sum]
  apply Finset.sum_congr rfl
  intro r _
  rw [sumFin_eq_sum]

theorem sumFd_eq_sum (f : Fd d → Rat) : sumFd d f = ∑ r, ∑ c, f (r, c) := by
  unfold sumFd
  rw [sumFin_eq_sum]
  apply Finset.sum_congr rfl
  intro r _
  rw [sumFin_eq_sum]

theorem sumInd_eq_sum_prod (f : Ind d → Rat) : sumInd d f = ∑ i : Ind d, f i := by
  rw [sumInd_eq_sum, Fintype.sum_prod_type]

theorem sumFd_eq_sum_prod (f : Fd d → Rat) : sumFd d f = ∑ c : Fd d, f c := by
  rw [sumFd_eq_sum, Fintype.sum_prod_type]

theorem minFin_le_init (n : Nat) (init : Rat) (f : Fin n → Rat) : minFin n init f ≤ init := by
  unfold minFin
  induction n with
  | zero => simp [Fin.foldl_zero]
  | succ n ih =>
    rw [Fin.foldl_succ_last]
    exact le_trans (min_le_left _ _) (ih (fun i => f i.castSucc))

theorem minFin_le (n : Nat) (init : Rat) (f : Fin n → Rat) (i : Fin n) : minFin n init f ≤ f i := by
  unfold minFin
  induction n with
  | zero => exact i.elim0
  | succ n ih =>
    rw [Fin.foldl_succ_last]
    rcases Fin.eq_castSucc_or_eq_last i with ⟨j, rfl⟩ | rfl
    · exact le_trans (min_le_left _ _) (ih (fun i => f i.castSucc) j)
    · exact min_le_right _ _

theorem minFin_eq (n : Nat) (init : Rat) (f : Fin n → Rat) :
    minFin n init f = init ∨ ∃ i, minFin n init f = f i := by
  unfold minFin
  induction n with
  | zero => left; simp [Fin.foldl_zero]
  | succ n ih =>
    rw [Fin.foldl_succ_last]
    rcases min_choice (Fin.foldl n (fun acc i => min acc (f i.castSucc)) init) (f (Fin.last n)) with h | h
    · rw [h]
      rcases ih (fun i => f i.castSucc) with h' | ⟨j, hj⟩
      · left; exact h'
      · right; exact ⟨j.castSucc, hj⟩
    · right; exact ⟨Fin.last n, h⟩

theorem le_minFin (n : Nat) (init : Rat) (f : Fin n → Rat) (c : Rat)
    (h0 : c ≤ init) (h : ∀ i, c ≤ f i) : c ≤ minFin n init f := by
  rcases minFin_eq n init f with h' | ⟨i, hi⟩
  · rw [h']; exact h0
  · rw [hi]; exact h i

end Boario
