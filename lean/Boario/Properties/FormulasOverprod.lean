/-
  Element-wise formulas of the source = the model's definitions: the overproduction update (C14, C02).
  See `Boario/Properties/Formulas.lean` for the approach; one module per topic so that a changed formula breaks only the
  theorems about it.
-/
import Boario.Properties.FormulaTactics

set_option linter.unusedTactic false
set_option linter.unreachableTactic false
set_option linter.unusedSimpArgs false
set_option linter.unnecessarySeqFocus false

namespace Boario.Gen
open Boario

variable {d : Dims}

/-- `calc_overproduction` of the source is the model's `overprod`, industry by industry. -/
theorem overprod_is_code (p : Params d) (alpha dTot prod : Ind d → Rat) (f : Ind d) :
    calc_overproduction (alpha f) p.aMax p.aBase p.aTau (dTot f) (prod f) = overprod p alpha dTot prod f := by
  simp only [calc_overproduction, overprod, alphaChg, scarcity]
  by_cases h0 : dTot f = 0
  · simp only [h0, ne_eq, not_true_eq_false, if_false, not_false_eq_true, if_true, lt_irrefl, le_refl, gt_iff_lt]
    formula_cases
  · simp only [h0, ne_eq, not_true_eq_false, if_false, not_false_eq_true, if_true]
    formula_cases

/-- the overproduction phase of a step is the code's update applied to every industry. -/
theorem overprodPhase_is_code (p : Params d) (e : Econ d) (f : Ind d) :
    (overprodPhase p e).alpha f = calc_overproduction (e.alpha f) p.aMax p.aBase p.aTau (e.dTot f) (e.prod f) := by
  rw [overprod_is_code]; rfl

end Boario.Gen
