/-
  Boario.Events — event trackers (model of `EventTracker` and of the event-handling methods of
  `Simulation` in `boario/simulation.py`), abstract layer: every tracker owns its ledgers, the
  economy sees the tracker list through sums / maxima / per-id blocks only.

  Python                                         | here
  -----------------------------------------------+-----------------------------------------
  Simulation._check_happening_events (statuses)  | `wake`, `advance`, `lifecycle`
  update_productive_capital_lost                 | `lostCapital`
  update_prod_cap_delta_arb                      | `arbDelta`
  productive_capital_lost.setter, update_prod_delta | `lostExceeds`, `deltaCap`, `deltaTotOf`
  update_rebuild_demand, distributed_reb_dem_*_tau  | `presented`, `blockOfId`, `rebuildDemand`
  receive_indus_rebuilding / receive_house_rebuilding | `settle`, `receive`
  rebuild_events (finishing, id compaction)      | `receiveAll`, `compactIds`
  EventTracker.recover, recover_events           | `recoverOne`, `recoverAll`
-/
import Boario.Econ

namespace Boario

inductive EvKind where
  | rebuild | recover | arbitrary
  deriving DecidableEq, Repr, Inhabited

inductive Status where
  | pending | happening | rebuilding | recovering | finished
  deriving DecidableEq, Repr, Inhabited

/-- rank along the life-cycle (rebuilding and recovering share a rank) -/
def Status.rank : Status → Nat
  | .pending => 0
  | .happening => 1
  | .rebuilding => 2
  | .recovering => 2
  | .finished => 3

variable {d : Dims}

/-- One `EventTracker`.  Amounts are already in the model's monetary unit. -/
structure Tracker (d : Dims) where
  kind : EvKind
  occ : Nat
  dur : Nat
  tau : Nat                                       -- rebuild_tau / recovery_tau of the event (≥ 1)
  factor : Rat                                    -- rebuilding_factor
  prec : Nat                                      -- decimals kept by the ledgers (capital)
  curveI : Int → (Ind d → Rat) → Ind d → Rat      -- recovery function on industry vectors
  curveH : Int → (Fd d → Rat) → Fd d → Rat        -- the same function on household vectors
  status : Status
  dmg0 : Ind d → Rat                              -- _indus_dmg_0
  dmg : Option (Ind d → Rat)                      -- _indus_dmg
  hdmg0 : Option (Fd d → Rat)                     -- _house_dmg_0
  hdmg : Option (Fd d → Rat)                      -- _house_dmg
  arb0 : Ind d → Rat                              -- _prod_delta_from_arb_0
  arb : Option (Ind d → Rat)                      -- _prod_delta_from_arb
  remI : Option (Ind d → Ind d → Rat)             -- _distributed_reb_dem_indus
  remH : Option (Ind d → Fd d → Rat)              -- _distributed_reb_dem_house
  rid : Option Nat                                -- _rebuild_id

/-! ### life-cycle -/

/-- first loop of `_check_happening_events`: pending → happening when the occurrence is reached -/
def wake (t dt : Nat) (tr : Tracker d) : Tracker d :=
  if tr.status = .pending ∧ t ≤ tr.occ + dt ∧ tr.occ ≤ t then { tr with status := .happening } else tr

/-- second loop: happening → rebuilding (taking the next block id) / recovering -/
def advance (t : Nat) : List (Tracker d) → Nat → List (Tracker d) × Nat
  | [], nb => ([], nb)
  | tr :: rest, nb =>
    if tr.status = .happening ∧ tr.occ + tr.dur ≤ t then
      match tr.kind with
      | .rebuild =>
        let (rest', nb') := advance t rest (nb + 1)
        ({ tr with status := .rebuilding, rid := some nb } :: rest', nb')
      | _ =>
        let (rest', nb') := advance t rest nb
        ({ tr with status := .recovering } :: rest', nb')
    else
      let (rest', nb') := advance t rest nb
      (tr :: rest', nb')

def lifecycle (t dt : Nat) (trs : List (Tracker d)) (nb : Nat) : List (Tracker d) × Nat :=
  advance t (trs.map (wake t dt)) nb

/-! ### capacity losses -/

def Tracker.active (tr : Tracker d) : Bool :=
  tr.status = .happening || tr.status = .rebuilding || tr.status = .recovering

/-- destroyed capital of one tracker as seen by `update_productive_capital_lost` -/
def Tracker.lostContribution (tr : Tracker d) (i : Ind d) : Rat :=
  if tr.active then (match tr.dmg with | some f => f i | none => 0) else 0

/-- `np.add.reduce` over the active trackers' `_indus_dmg` -/
def lostCapital (trs : List (Tracker d)) (i : Ind d) : Rat :=
  sumList (trs.map fun tr => tr.lostContribution i)

def Tracker.arbContribution (tr : Tracker d) (i : Ind d) : Rat :=
  if tr.status = .happening || tr.status = .recovering then
    (match tr.arb with | some f => f i | none => 0) else 0

/-- `np.maximum.reduce` over arbitrary losses in force (zeros when there is none) -/
def arbDelta (trs : List (Tracker d)) (i : Ind d) : Rat :=
  (trs.map fun tr => tr.arbContribution i).foldl max 0

/-- `(productive_capital_lost > productive_capital).any()` -/
def lostExceeds (p : Params d) (lost : Ind d → Rat) : Prop :=
  ∃ r s, p.K (r, s) < lost (r, s)

instance (p : Params d) (lost : Ind d → Rat) : Decidable (lostExceeds p lost) := by
  unfold lostExceeds; infer_instance

/-- `np.divide(lost, capital, where=capital != 0, out=zeros)` -/
def deltaCap (p : Params d) (lost : Ind d → Rat) (i : Ind d) : Rat :=
  safeDiv (lost i) (p.K i) 0

/-- `update_prod_delta`: element-wise max of the two sources -/
def deltaTotOf (p : Params d) (lost arb : Ind d → Rat) (i : Ind d) : Rat :=
  max (deltaCap p lost i) (arb i)

/-! ### reconstruction demand presented to producers -/

/-- `distributed_reb_dem_*_tau`: remaining demand times `dt / tau` -/
def presented (dt : Nat) (tr : Tracker d) : RebBlock d where
  indus := fun i j => match tr.remI with
    | some r => r i j * ((dt : Rat) / (tr.tau : Rat))
    | none => 0
  house := fun i c => match tr.remH with
    | some r => r i c * ((dt : Rat) / (tr.tau : Rat))
    | none => 0

/-- the block written at position `id` of the rebuilding part of the demand matrix -/
def blockOfId (dt : Nat) (trs : List (Tracker d)) (id : Nat) : RebBlock d :=
  match trs.find? fun tr => tr.status = .rebuilding && tr.rid = some id with
  | some tr => presented dt tr
  | none => zeroBlock

/-- `update_rebuild_demand`: the `nb` blocks, in id order -/
def rebuildDemand (dt : Nat) (trs : List (Tracker d)) (nb : Nat) : List (RebBlock d) :=
  (List.range nb).map (blockOfId dt trs)

def anyRebuilding (trs : List (Tracker d)) : Bool :=
  trs.any fun tr => tr.status = .rebuilding

/-! ### ledgers: production received -/

/-- `rem -= delivered; round(prec); rem[rem < 0] = 0` for one cell -/
def settle (prec : Nat) (rem delivered : Rat) : Rat := pos (roundDec prec (rem - delivered))

def allZeroII (f : Ind d → Ind d → Rat) : Prop := ∀ r s r' s', f (r, s) (r', s') = 0
def allZeroIF (f : Ind d → Fd d → Rat) : Prop := ∀ r s r' c, f (r, s) (r', c) = 0
def allZeroI (f : Ind d → Rat) : Prop := ∀ r s, f (r, s) = 0
def allZeroF (f : Fd d → Rat) : Prop := ∀ r c, f (r, c) = 0

instance (f : Ind d → Ind d → Rat) : Decidable (allZeroII f) := by unfold allZeroII; infer_instance
instance (f : Ind d → Fd d → Rat) : Decidable (allZeroIF f) := by unfold allZeroIF; infer_instance
instance (f : Ind d → Rat) : Decidable (allZeroI f) := by unfold allZeroI; infer_instance
instance (f : Fd d → Rat) : Decidable (allZeroF f) := by unfold allZeroF; infer_instance

/-- column sums of a ledger divided by the rebuilding factor (`_indus_dmg` of a rebuilding event) -/
def dmgOfRemI (factor : Rat) (rem : Ind d → Ind d → Rat) (j : Ind d) : Rat :=
  sumInd d (fun i => rem i j) / factor

def dmgOfRemH (factor : Rat) (rem : Ind d → Fd d → Rat) (c : Fd d) : Rat :=
  sumInd d (fun i => rem i c) / factor

/-- `receive_indus_rebuilding` then `receive_house_rebuilding` for one rebuilding tracker, and the
    finishing test of `rebuild_events`. -/
def receive (tr : Tracker d) (got : RebBlock d) : Tracker d :=
  let tr1 : Tracker d :=
    match tr.remI with
    | none => tr
    | some rem =>
      let rem' : Ind d → Ind d → Rat := fun i j => settle tr.prec (rem i j) (got.indus i j)
      if allZeroII rem' then { tr with remI := none, dmg := none }
      else { tr with remI := some rem', dmg := some (dmgOfRemI tr.factor rem') }
  let tr2 : Tracker d :=
    match tr1.remH with
    | none => tr1
    | some rem =>
      let rem' : Ind d → Fd d → Rat := fun i c => settle tr.prec (rem i c) (got.house i c)
      if allZeroIF rem' then { tr1 with remH := none, hdmg := none }
      else { tr1 with remH := some rem', hdmg := some (dmgOfRemH tr.factor rem') }
  if tr2.dmg.isNone ∧ tr2.hdmg.isNone then { tr2 with status := .finished } else tr2

/-- the delivered block of id `id` (`rebuild_prod_*_event(id)`) -/
def gotOfId (rebProd : List (RebBlock d)) (id : Nat) : RebBlock d :=
  rebProd.getD id zeroBlock

def receiveOne (rebProd : List (RebBlock d)) (tr : Tracker d) : Tracker d :=
  if tr.status = .rebuilding then
    match tr.rid with
    | some id => receive tr (gotOfId rebProd id)
    | none => tr          -- the code raises RuntimeError here; excluded by the id invariant
  else tr

/-- ids released in this step -/
def releasedIds (trs : List (Tracker d)) : List Nat :=
  trs.filterMap fun tr => if tr.status = .finished then tr.rid else none

/-- id compaction of `rebuild_events`: a finished tracker gives its id back, every larger id of a
    still-rebuilding tracker moves down by the number of released ids below it. -/
def compactIds (trs : List (Tracker d)) : List (Tracker d) :=
  let rel := releasedIds trs
  trs.map fun tr =>
    if tr.status = .finished then { tr with rid := none }
    else match tr.rid with
      | some id => { tr with rid := some (id - (rel.filter (· < id)).length) }
      | none => tr

def receiveAll (rebProd : List (RebBlock d)) (trs : List (Tracker d)) : List (Tracker d) :=
  compactIds (trs.map (receiveOne rebProd))

/-! ### recovery -/

def roundI (p : Nat) (f : Ind d → Rat) : Ind d → Rat := fun i => roundDec p (f i)
def roundF (p : Nat) (f : Fd d → Rat) : Fd d → Rat := fun c => roundDec p (f c)

/-- `EventTracker.recover` at step `t` -/
def recoverOne (t : Nat) (tr : Tracker d) : Tracker d :=
  if tr.status ≠ .recovering then tr else
  let el : Int := (t : Int) - ((tr.occ : Int) + (tr.dur : Int))
  let tr1 : Tracker d :=
    if tr.kind = .recover then
      let dmg' := match tr.dmg with
        | none => none
        | some _ =>
          let v := roundI tr.prec (tr.curveI el tr.dmg0)
          if allZeroI v then none else some v
      let hdmg' := match tr.hdmg, tr.hdmg0 with
        | some _, some h0 =>
          let v := roundF tr.prec (tr.curveH el h0)
          if allZeroF v then none else some v
        | _, _ => none
      { tr with dmg := dmg', hdmg := hdmg' }
    else tr
  let arb' := match tr1.arb with
    | none => none
    | some _ =>
      let v := roundI 6 (tr1.curveI el tr1.arb0)
      if allZeroI v then none else some v
  let tr2 : Tracker d := { tr1 with arb := arb' }
  if tr2.dmg.isNone ∧ tr2.hdmg.isNone ∧ tr2.arb.isNone then { tr2 with status := .finished } else tr2

def recoverAll (t : Nat) (trs : List (Tracker d)) : List (Tracker d) := trs.map (recoverOne t)

/-! ### the built-in recovery curves (cell-wise `D · g(elapsed)`) -/

def cellwiseI (g : Int → Rat) : Int → (Ind d → Rat) → Ind d → Rat := fun e D i => D i * g e
def cellwiseF (g : Int → Rat) : Int → (Fd d → Rat) → Fd d → Rat := fun e D c => D c * g e

/-- `linear_recovery`: `max(0, 1 - elapsed / tau)` -/
def gLinear (tau : Nat) (e : Int) : Rat := max 0 (1 - (e : Rat) / (tau : Rat))

/-- `convexe_recovery`: `(1 - 1/tau) ^ elapsed` (elapsed ≥ 0 in every call the simulation makes) -/
def gConvexe (tau : Nat) (e : Int) : Rat := (1 - 1 / (tau : Rat)) ^ e.toNat

/-- `convexe_recovery_scaled`: `(1 - 1/tau) ^ (4 · elapsed)` -/
def gConvexeScaled (tau : Nat) (e : Int) : Rat := (1 - 1 / (tau : Rat)) ^ (4 * e.toNat)

end Boario
