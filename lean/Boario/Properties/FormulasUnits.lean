/-
  Element-wise formulas of the source = the model's definitions: conversion of an event's amounts to the model's
  monetary unit at tracker construction (C13, C07, C08).
  See `Boario/Properties/Formulas.lean` for the approach.
-/
import Boario.Properties.FormulaTactics
import Boario.Init

set_option linter.unusedTactic false
set_option linter.unreachableTactic false
set_option linter.unusedSimpArgs false
set_option linter.unnecessarySeqFocus false

namespace Boario.Gen
open Boario

variable {d : Dims}

/-- the conversion of an industrial impact in the source is multiplication by the model's `convFactor`
    (event factor / model factor, skipped when they are equal). -/
theorem convert_impact_is_code (v emf mf : Rat) : convert_impact_cell v emf mf = v * convFactor emf mf := by
  simp only [convert_impact_cell, convFactor] <;>
    formula_cases

/-- household impacts are converted by the same ratio. -/
theorem convert_house_is_code (v emf mf : Rat) : convert_house_cell v emf mf = v * convFactor emf mf := by
  simp only [convert_house_cell, convFactor] <;>
    formula_cases

/-- industrial and household amounts of one event are converted by one and the same rule in the source. -/
theorem convert_same_rule (v emf mf : Rat) : convert_impact_cell v emf mf = convert_house_cell v emf mf := by
  rw [convert_impact_is_code, convert_house_is_code]

/-- the damage a capital-destroying tracker starts from is the code's conversion of the declared impact, industry by
    industry and household column by household column. -/
theorem trackerInit_damage_is_code (tb : Table d) (mf : Rat) (mfLog10 : Nat) (ev : EventSpec d)
    (hcap : ev.kind = .rebuild ∨ ev.kind = .recover) (i : Ind d) :
    (trackerInit tb mf mfLog10 ev).dmg0 i = convert_impact_cell (ev.impact i) ev.emf mf ∧
    (trackerInit tb mf mfLog10 ev).hdmg0 = ev.house.map fun h c => convert_house_cell (h c) ev.emf mf := by
  simp only [trackerInit, hcap, if_true, convert_impact_is_code, convert_house_is_code]
  exact ⟨trivial, trivial⟩

end Boario.Gen
