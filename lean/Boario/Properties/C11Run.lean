/-
  C11 (run level) — the outcome does not depend on the order in which events were added.
  Two simulations that differ only by the order of their event list produce, at every step, the same
  observable state: everything the records expose (orders, final demand, total demand, inventories,
  production, overproduction, capacity loss, unmet final demand, total reconstruction demand and
  production per supplier) and the same events with the same ledgers (block ids aside, which are an
  internal naming).  Exact in the rational model.
-/
import Boario.Properties.C11
import Boario.Lemmas.PermRun

namespace Boario
variable {d : Dims}

/-- a tracker without its (internal) block id -/
def Tracker.strip (tr : Tracker d) : Tracker d := { tr with rid := none }

/-- equality of everything observable -/
structure ObsEq (s s2 : Sim d) : Prop where
  p : s.p = s2.p
  dt : s.dt = s2.dt
  t : s.t = s2.t
  orders : s.econ.orders = s2.econ.orders
  fd : s.econ.fd = s2.econ.fd
  dTot : s.econ.dTot = s2.econ.dTot
  stock : s.econ.stock = s2.econ.stock
  prod : s.econ.prod = s2.econ.prod
  alpha : s.econ.alpha = s2.econ.alpha
  deltaTot : s.econ.deltaTot = s2.econ.deltaTot
  fdUnmet : s.econ.fdUnmet = s2.econ.fdUnmet
  rebDemandTot : ∀ i, Boario.rebTot s.econ.reb i = Boario.rebTot s2.econ.reb i
  rebProdTot : ∀ i, Boario.rebTot s.econ.rebProd i = Boario.rebTot s2.econ.rebProd i
  trackers : (s.trackers.map Tracker.strip).Perm (s2.trackers.map Tracker.strip)

/-- the simulation relation of `Boario.Lemmas.PermRun` (same economy up to the naming of the blocks,
    same trackers up to order and ids) gives equality of everything observable -/
theorem obsEq_of_simRel {s s2 : Sim d} (r : SimRel s s2) : ObsEq s s2 :=
  ⟨r.p, r.dt, r.t, r.econ.orders, r.econ.fd, r.econ.dTot, r.econ.stock, r.econ.prod, r.econ.alpha,
    r.econ.deltaTot, r.econ.fdUnmet, r.econ.rebT, r.econ.rebProdT, r.trackers⟩

/-- ORDER INDEPENDENCE: from two initial states that differ only by a permutation of the (pending)
    event list, every run of `k` steps of the one is matched by a run of the other with the same
    observable state; in particular one succeeds iff the other does. -/
theorem perm_invariant_run (s s2 : Sim d) (k : Nat)
    (hp : s.p = s2.p) (hdt : s.dt = s2.dt) (ht : s.t = s2.t) (he : s.econ = s2.econ)
    (hnb : s.nBlocks = 0 ∧ s2.nBlocks = 0) (hreb : s.econ.reb = [])
    (hperm : s.trackers.Perm s2.trackers)
    (hpend : ∀ tr ∈ s.trackers, tr.status = .pending ∧ tr.rid = none)
    (s' : Sim d) (h : runN k s = some s') :
    ∃ s2', runN k s2 = some s2' ∧ ObsEq s' s2' := by
  -- `hnb`, `hreb` are not needed: the block count and the stale blocks are only seen through totals
  have _ := hnb
  have _ := hreb
  have hids : IdsOK s.trackers s.nBlocks := idsOK_of_pending _ _ hpend
  have hids2 : IdsOK s2.trackers s2.nBlocks :=
    idsOK_of_pending _ _ fun tr htr => hpend tr (hperm.mem_iff.2 htr)
  have hrel : SimRel s s2 :=
    ⟨hp, hdt, ht, he ▸ EconEq.refl s.econ, hperm.map _, hids, hids2⟩
  obtain ⟨s2', hr, r⟩ := simRel_run k s s2 s' hrel h
  exact ⟨s2', hr, obsEq_of_simRel r⟩

end Boario
