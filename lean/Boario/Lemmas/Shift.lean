/-
  Helper lemmas for C19: every phase of the event layer commutes with a shift of the clock and of
  the occurrence dates (`occShift`, `simShift` are the definitions of `shiftTracker`, `shiftSim` of
  the property file, restated here so that the lemmas can live outside it).
-/
import Boario.Lemmas.Sums
import Boario.Lemmas.Step
import Boario.Sim

namespace Boario
variable {d : Dims}

/-- the same event, `k` steps later -/
def occShift (k : Nat) (tr : Tracker d) : Tracker d := { tr with occ := tr.occ + k }

/-- the same simulation state, `k` steps later -/
def simShift (k : Nat) (s : Sim d) : Sim d :=
  { s with t := s.t + k, trackers := s.trackers.map (occShift k) }

def Outcome.mapAll {α β : Type} (f : α → β) : Outcome α → Outcome β
  | .ok a => .ok (f a)
  | .crashed a => .crashed (f a)
  | .rejected => .rejected
  | .internal => .internal

/-! ### life-cycle -/

theorem wake_occShift (k t dt : Nat) (tr : Tracker d) :
    wake (t + k) dt (occShift k tr) = occShift k (wake t dt tr) := by
  unfold wake
  have hiff : ((occShift k tr).status = .pending ∧
        t + k ≤ (occShift k tr).occ + dt ∧ (occShift k tr).occ ≤ t + k) ↔
      (tr.status = .pending ∧ t ≤ tr.occ + dt ∧ tr.occ ≤ t) := by
    show (tr.status = .pending ∧ t + k ≤ tr.occ + k + dt ∧ tr.occ + k ≤ t + k) ↔ _
    exact and_congr Iff.rfl (by omega)
  by_cases h : tr.status = .pending ∧ t ≤ tr.occ + dt ∧ tr.occ ≤ t
  · rw [if_pos h, if_pos (hiff.2 h)]
    rfl
  · rw [if_neg h, if_neg (fun h' => h (hiff.1 h'))]

theorem advance_occShift (k t : Nat) (trs : List (Tracker d)) (nb : Nat) :
    advance (t + k) (trs.map (occShift k)) nb
      = ((advance t trs nb).1.map (occShift k), (advance t trs nb).2) := by
  induction trs generalizing nb with
  | nil => rfl
  | cons tr rest ih =>
    simp only [List.map_cons, advance]
    have hiff : ((occShift k tr).status = .happening ∧ (occShift k tr).occ + (occShift k tr).dur ≤ t + k) ↔
        (tr.status = .happening ∧ tr.occ + tr.dur ≤ t) := by
      show (tr.status = .happening ∧ tr.occ + k + tr.dur ≤ t + k) ↔ _
      exact and_congr Iff.rfl (by omega)
    by_cases h : tr.status = .happening ∧ tr.occ + tr.dur ≤ t
    · rw [if_pos h, if_pos (hiff.2 h)]
      have hkind : (occShift k tr).kind = tr.kind := rfl
      rw [hkind]
      cases tr.kind <;> simp only [ih] <;> rfl
    · rw [if_neg h, if_neg (fun h' => h (hiff.1 h'))]
      simp only [ih]
      rfl

theorem lifecycle_occShift (k t dt : Nat) (trs : List (Tracker d)) (nb : Nat) :
    lifecycle (t + k) dt (trs.map (occShift k)) nb
      = ((lifecycle t dt trs nb).1.map (occShift k), (lifecycle t dt trs nb).2) := by
  unfold lifecycle
  rw [List.map_map]
  have : (wake (t + k) dt ∘ occShift k : Tracker d → Tracker d) = occShift k ∘ wake t dt := by
    funext tr; exact wake_occShift k t dt tr
  rw [this, ← List.map_map, advance_occShift]

/-! ### recovery and ledgers -/

theorem recoverOne_occShift (k t : Nat) (tr : Tracker d) :
    recoverOne (t + k) (occShift k tr) = occShift k (recoverOne t tr) := by
  have hel : ((t + k : Nat) : Int) - (((tr.occ + k : Nat) : Int) + (tr.dur : Int))
      = (t : Int) - ((tr.occ : Int) + (tr.dur : Int)) := by push_cast; ring
  unfold recoverOne
  show (if tr.status ≠ .recovering then occShift k tr else _) = _
  by_cases hs : tr.status ≠ .recovering
  · rw [if_pos hs, if_pos hs]
  · rw [if_neg hs, if_neg hs]
    simp only [occShift, hel]
    split_ifs <;> rfl

theorem recoverAll_occShift (k t : Nat) (trs : List (Tracker d)) :
    recoverAll (t + k) (trs.map (occShift k)) = (recoverAll t trs).map (occShift k) := by
  unfold recoverAll
  rw [List.map_map, List.map_map]
  apply List.map_congr_left
  intro tr _
  exact recoverOne_occShift k t tr

/-- the three stages of `receive`: industry ledger, household ledger, finishing test -/
def recvIs (tr : Tracker d) (got : RebBlock d) : Tracker d :=
  match tr.remI with
  | none => tr
  | some rem =>
    let rem' : Ind d → Ind d → Rat := fun i j => settle tr.prec (rem i j) (got.indus i j)
    if allZeroII rem' then { tr with remI := none, dmg := none }
    else { tr with remI := some rem', dmg := some (dmgOfRemI tr.factor rem') }

def recvHs (prec : Nat) (factor : Rat) (tr1 : Tracker d) (got : RebBlock d) : Tracker d :=
  match tr1.remH with
  | none => tr1
  | some rem =>
    let rem' : Ind d → Fd d → Rat := fun i c => settle prec (rem i c) (got.house i c)
    if allZeroIF rem' then { tr1 with remH := none, hdmg := none }
    else { tr1 with remH := some rem', hdmg := some (dmgOfRemH factor rem') }

def recvFin (tr2 : Tracker d) : Tracker d :=
  if tr2.dmg.isNone ∧ tr2.hdmg.isNone then { tr2 with status := .finished } else tr2

theorem receive_eqs (tr : Tracker d) (got : RebBlock d) :
    receive tr got = recvFin (recvHs tr.prec tr.factor (recvIs tr got) got) := rfl

theorem recvI_occShift (k : Nat) (tr : Tracker d) (got : RebBlock d) :
    recvIs (occShift k tr) got = occShift k (recvIs tr got) := by
  rcases tr with ⟨kind, occ, dur, tau, factor, prec, cI, cH, status, dmg0, dmg, hdmg0, hdmg, arb0, arb,
    remI, remH, rid⟩
  rcases remI with _ | rem
  · rfl
  · by_cases h : allZeroII (fun i j => settle prec (rem i j) (got.indus i j))
    · simp only [recvIs, occShift, if_pos h]
      exact if_pos h
    · simp only [recvIs, occShift, if_neg h]
      exact if_neg h

theorem recvH_occShift (k prec : Nat) (factor : Rat) (tr : Tracker d) (got : RebBlock d) :
    recvHs prec factor (occShift k tr) got = occShift k (recvHs prec factor tr got) := by
  rcases tr with ⟨kind, occ, dur, tau, factor', prec', cI, cH, status, dmg0, dmg, hdmg0, hdmg, arb0, arb,
    remI, remH, rid⟩
  rcases remH with _ | rem
  · rfl
  · by_cases h : allZeroIF (fun i c => settle prec (rem i c) (got.house i c))
    · simp only [recvHs, occShift, if_pos h]
    · simp only [recvHs, occShift, if_neg h]

theorem recvFin_occShift (k : Nat) (tr : Tracker d) :
    recvFin (occShift k tr) = occShift k (recvFin tr) := by
  unfold recvFin
  show (if tr.dmg.isNone ∧ tr.hdmg.isNone then _ else _) = _
  split_ifs <;> rfl

theorem receive_occShift (k : Nat) (tr : Tracker d) (got : RebBlock d) :
    receive (occShift k tr) got = occShift k (receive tr got) := by
  rw [receive_eqs, receive_eqs, recvI_occShift, recvH_occShift, recvFin_occShift]
  rfl

theorem receiveOne_occShift (k : Nat) (rebProd : List (RebBlock d)) (tr : Tracker d) :
    receiveOne rebProd (occShift k tr) = occShift k (receiveOne rebProd tr) := by
  unfold receiveOne
  show (if tr.status = .rebuilding then (match tr.rid with
      | some id => receive (occShift k tr) (gotOfId rebProd id)
      | none => occShift k tr) else occShift k tr) = _
  split_ifs
  · cases tr.rid
    · rfl
    · exact receive_occShift k tr _
  · rfl

theorem releasedIds_occShift (k : Nat) (trs : List (Tracker d)) :
    releasedIds (trs.map (occShift k)) = releasedIds trs := by
  unfold releasedIds
  rw [List.filterMap_map]
  rfl

theorem compactIds_occShift (k : Nat) (trs : List (Tracker d)) :
    compactIds (trs.map (occShift k)) = (compactIds trs).map (occShift k) := by
  unfold compactIds
  simp only [releasedIds_occShift, List.map_map]
  apply List.map_congr_left
  intro tr _
  show (if tr.status = .finished then _ else match tr.rid with
      | some id => _
      | none => _) = occShift k (if tr.status = .finished then _ else match tr.rid with
      | some id => _
      | none => _)
  split_ifs
  · rfl
  · cases tr.rid <;> rfl

theorem receiveAll_occShift (k : Nat) (rebProd : List (RebBlock d)) (trs : List (Tracker d)) :
    receiveAll rebProd (trs.map (occShift k)) = (receiveAll rebProd trs).map (occShift k) := by
  unfold receiveAll
  rw [List.map_map]
  have : (receiveOne rebProd ∘ occShift k : Tracker d → Tracker d)
      = occShift k ∘ receiveOne rebProd := by
    funext tr; exact receiveOne_occShift k rebProd tr
  rw [this, ← List.map_map, compactIds_occShift]

theorem eventsPost_simShift (k : Nat) (s : Sim d) :
    eventsPost (simShift k s) = simShift k (eventsPost s) := by
  unfold eventsPost
  have h : recoverAll (s.t + k) (receiveAll s.econ.rebProd (s.trackers.map (occShift k)))
      = (recoverAll s.t (receiveAll s.econ.rebProd s.trackers)).map (occShift k) := by
    rw [receiveAll_occShift, recoverAll_occShift]
  simp only [simShift, h]

/-! ### what the economy sees of the trackers does not depend on `occ` -/

theorem lostCapital_occShift (k : Nat) (trs : List (Tracker d)) :
    lostCapital (trs.map (occShift k)) = lostCapital trs := by
  funext i
  unfold lostCapital
  rw [List.map_map]
  rfl

theorem arbDelta_occShift (k : Nat) (trs : List (Tracker d)) :
    arbDelta (trs.map (occShift k)) = arbDelta trs := by
  funext i
  unfold arbDelta
  rw [List.map_map]
  rfl

theorem anyRebuilding_occShift (k : Nat) (trs : List (Tracker d)) :
    anyRebuilding (trs.map (occShift k)) = anyRebuilding trs := by
  unfold anyRebuilding
  rw [List.any_map]
  rfl

theorem blockOfId_occShift (k dt : Nat) (trs : List (Tracker d)) (id : Nat) :
    blockOfId dt (trs.map (occShift k)) id = blockOfId dt trs id := by
  unfold blockOfId
  rw [List.find?_map]
  have : ((fun tr : Tracker d => decide (tr.status = .rebuilding) && decide (tr.rid = some id)) ∘ occShift k)
      = fun tr : Tracker d => decide (tr.status = .rebuilding) && decide (tr.rid = some id) := rfl
  rw [this]
  cases List.find? (fun tr : Tracker d => decide (tr.status = .rebuilding) && decide (tr.rid = some id)) trs <;> rfl

theorem rebuildDemand_occShift (k dt : Nat) (trs : List (Tracker d)) (nb : Nat) :
    rebuildDemand dt (trs.map (occShift k)) nb = rebuildDemand dt trs nb := by
  unfold rebuildDemand
  apply List.map_congr_left
  intro id _
  exact blockOfId_occShift k dt trs id

/-- `eventsPre` after the life-cycle phase -/
def preWith (s : Sim d) (trs : List (Tracker d)) (nb : Nat) : Outcome (Sim d) :=
  let lost := lostCapital trs
  if lostExceeds s.p lost then .rejected else
  let arb := arbDelta trs
  let delta : Ind d → Rat := deltaTotOf s.p lost arb
  let e := s.econ
  let e1 : Econ d :=
    if anyRebuilding trs then
      let reb := rebuildDemand s.dt trs nb
      { e with deltaTot := delta, reb := reb, dTot := rowTot e.orders e.fd reb }
    else if nb ≠ s.nBlocks then
      { e with deltaTot := delta, reb := (List.range nb).map fun _ => zeroBlock }
    else { e with deltaTot := delta }
  .ok { s with trackers := trs, nBlocks := nb, econ := e1 }

theorem eventsPre_eqs (s : Sim d) :
    eventsPre s = preWith s (lifecycle s.t s.dt s.trackers s.nBlocks).1
      (lifecycle s.t s.dt s.trackers s.nBlocks).2 := rfl

theorem preWith_simShift (k : Nat) (s : Sim d) (trs : List (Tracker d)) (nb : Nat) :
    preWith (simShift k s) (trs.map (occShift k)) nb = (preWith s trs nb).mapAll (simShift k) := by
  unfold preWith
  simp only [lostCapital_occShift, arbDelta_occShift, anyRebuilding_occShift, rebuildDemand_occShift]
  show (if lostExceeds s.p (lostCapital trs) then _ else _) = _
  have hnb : (simShift k s).nBlocks = s.nBlocks := rfl
  rw [hnb]
  split_ifs <;> rfl

theorem eventsPre_simShift (k : Nat) (s : Sim d) :
    eventsPre (simShift k s) = (eventsPre s).mapAll (simShift k) := by
  rw [eventsPre_eqs, eventsPre_eqs]
  show preWith (simShift k s) (lifecycle (s.t + k) s.dt (s.trackers.map (occShift k)) s.nBlocks).1
    (lifecycle (s.t + k) s.dt (s.trackers.map (occShift k)) s.nBlocks).2 = _
  rw [lifecycle_occShift]
  exact preWith_simShift k s _ _

/-! ### the whole step -/

/-- `nextStep` after the event phase, given the state `e1` the production phase starts from -/
def stepAfter (e1 : Econ d) (s1 : Sim d) : Outcome (Sim d) :=
  (productionPhase s1.p e1).bind fun e2 =>
  match distribute s1.p e2 with
  | .crashed e3 => .crashed { s1 with econ := e3 }
  | .rejected => .rejected
  | .internal => .internal
  | .ok e3 =>
    let s3 := eventsPost { s1 with econ := e3 }
    (orders s3.p s3.econ).bind fun e4 =>
    .ok { s3 with econ := e4, t := s3.t + s3.dt }

theorem nextStep_eq (s : Sim d) :
    nextStep s = (eventsPre s).bind fun s1 =>
      stepAfter (if 1 < s1.t then overprodPhase s1.p s1.econ else s1.econ) s1 := rfl

theorem stepAfter_simShift (k : Nat) (e1 : Econ d) (s1 : Sim d) :
    stepAfter e1 (simShift k s1) = (stepAfter e1 s1).mapAll (simShift k) := by
  unfold stepAfter
  show (productionPhase s1.p e1).bind _ = _
  cases productionPhase s1.p e1 with
  | ok e2 =>
    simp only [Outcome.bind]
    show (match distribute s1.p e2 with
      | .crashed e3 => _
      | .rejected => _
      | .internal => _
      | .ok e3 => _) = _
    cases distribute s1.p e2 with
    | ok e3 =>
      simp only
      have hpost : eventsPost { simShift k s1 with econ := e3 }
          = simShift k (eventsPost { s1 with econ := e3 }) :=
        eventsPost_simShift k { s1 with econ := e3 }
      rw [hpost]
      show (orders (eventsPost { s1 with econ := e3 }).p (eventsPost { s1 with econ := e3 }).econ).bind _ = _
      cases orders (eventsPost { s1 with econ := e3 }).p (eventsPost { s1 with econ := e3 }).econ with
      | ok e4 =>
        simp only [Outcome.bind, Outcome.mapAll, simShift]
        rw [Nat.add_right_comm]
      | crashed _ => rfl
      | rejected => rfl
      | internal => rfl
    | crashed _ => rfl
    | rejected => rfl
    | internal => rfl
  | crashed _ => rfl
  | rejected => rfl
  | internal => rfl

theorem nextStep_simShift_of (k : Nat) (s : Sim d)
    (h : ∀ s1, eventsPre s = .ok s1 →
      (if 1 < s1.t + k then overprodPhase s1.p s1.econ else s1.econ)
        = (if 1 < s1.t then overprodPhase s1.p s1.econ else s1.econ)) :
    nextStep (simShift k s) = (nextStep s).mapAll (simShift k) := by
  rw [nextStep_eq, nextStep_eq, eventsPre_simShift]
  cases hpre : eventsPre s with
  | ok s1 =>
    simp only [Outcome.mapAll, Outcome.bind]
    show stepAfter (if 1 < s1.t + k then overprodPhase s1.p s1.econ else s1.econ) (simShift k s1) = _
    rw [h s1 hpre]
    exact stepAfter_simShift k _ s1
  | crashed _ => rfl
  | rejected => rfl
  | internal => rfl

theorem eventsPre_ok_t (s s1 : Sim d) (h : eventsPre s = .ok s1) : s1.t = s.t ∧ s1.dt = s.dt := by
  unfold eventsPre at h
  simp only at h
  split_ifs at h <;> injection h with h <;> subst h <;> exact ⟨rfl, rfl⟩

/-- a successful step advances the clock by `dt` and keeps `dt` -/
theorem nextStep_ok_t (s s' : Sim d) (h : nextStep s = .ok s') : s'.t = s.t + s.dt ∧ s'.dt = s.dt := by
  unfold nextStep at h
  obtain ⟨s1, h1, h⟩ := bind_ok _ _ _ h
  simp only at h
  obtain ⟨e2, h2, h⟩ := bind_ok _ _ _ h
  obtain ⟨ht, hdt⟩ := eventsPre_ok_t s s1 h1
  split at h
  · cases h
  · cases h
  · cases h
  · obtain ⟨e4, h4, h⟩ := bind_ok _ _ _ h
    injection h with h
    subst h
    exact ⟨by show s1.t + s1.dt = _; rw [ht, hdt], hdt⟩

end Boario
