/-
  Helper lemmas on `rintEven` / `roundDec` (round half to even on exact rationals).
-/
import Boario.Basic
import Boario.Lemmas.Round
import Mathlib.Data.Rat.Floor
import Mathlib.Algebra.Order.Field.Basic
import Mathlib.Tactic.Linarith
import Mathlib.Tactic.Ring
import Mathlib.Tactic.FieldSimp
import Mathlib.Tactic.Positivity

namespace Boario

/-- `rintEven x` is `⌊x⌋` or `⌊x⌋ + 1`, whichever is within `1/2` of `x` -/
theorem rintEven_spec' (x : Rat) :
    (rintEven x = x.floor ∧ x - (x.floor : Rat) ≤ 1 / 2) ∨
    (rintEven x = x.floor + 1 ∧ 1 / 2 ≤ x - (x.floor : Rat)) := by
  unfold rintEven
  by_cases h1 : x - (x.floor : Rat) < 1 / 2
  · left; exact ⟨by simp only [if_pos h1], le_of_lt h1⟩
  · by_cases h2 : 1 / 2 < x - (x.floor : Rat)
    · right; exact ⟨by simp only [if_neg h1, if_pos h2], le_of_lt h2⟩
    · by_cases h3 : x.floor % 2 = 0
      · left; exact ⟨by simp only [if_neg h1, if_neg h2, if_pos h3], not_lt.mp h2⟩
      · right; exact ⟨by simp only [if_neg h1, if_neg h2, if_neg h3], not_lt.mp h1⟩

theorem rintEven_spec (x : Rat) :
    (rintEven x = ⌊x⌋ ∧ x - (⌊x⌋ : Rat) ≤ 1 / 2) ∨
    (rintEven x = ⌊x⌋ + 1 ∧ 1 / 2 ≤ x - (⌊x⌋ : Rat)) := rintEven_spec' x

theorem rintEven_close (x : Rat) : rabs ((rintEven x : Rat) - x) ≤ 1 / 2 := by
  have h1 := Int.floor_le x
  have h2 := Int.lt_floor_add_one x
  unfold rabs
  rcases rintEven_spec x with ⟨h, hh⟩ | ⟨h, hh⟩
  · rw [h]; split_ifs <;> linarith
  · rw [h]; push_cast; split_ifs <;> linarith

theorem rintEven_nonneg (x : Rat) (hx : 0 ≤ x) : 0 ≤ rintEven x := by
  have h0 : (0 : Int) ≤ ⌊x⌋ := Int.floor_nonneg.mpr hx
  rcases rintEven_spec x with ⟨h, _⟩ | ⟨h, _⟩ <;> omega

theorem rintEven_le_int (x : Rat) (k : Int) (hx : x ≤ (k : Rat)) : rintEven x ≤ k := by
  have hfl : ⌊x⌋ ≤ k := Int.floor_le_iff.mpr (by have := hx; linarith)
  rcases rintEven_spec x with ⟨h, _⟩ | ⟨h, hh⟩
  · omega
  · rcases lt_or_eq_of_le hfl with hlt | heq
    · omega
    · exfalso
      rw [heq] at hh
      linarith

theorem roundDec_close (p : Nat) (x : Rat) : rabs (roundDec p x - x) ≤ 1 / (10 : Rat) ^ p / 2 := by
  have hp : (0 : Rat) < (10 : Rat) ^ p := by positivity
  have h := rintEven_close (x * (10 : Rat) ^ p)
  unfold roundDec
  unfold rabs at *
  have e : (rintEven (x * (10 : Rat) ^ p) : Rat) / (10 : Rat) ^ p - x
      = ((rintEven (x * (10 : Rat) ^ p) : Rat) - x * (10 : Rat) ^ p) / (10 : Rat) ^ p := by
    field_simp
  rw [e]
  set y := (rintEven (x * (10 : Rat) ^ p) : Rat) - x * (10 : Rat) ^ p with hy
  have e2 : 1 / (10 : Rat) ^ p / 2 = (1 / 2) / (10 : Rat) ^ p := by ring
  rw [e2]
  by_cases hneg : y < 0
  · have : y / (10 : Rat) ^ p < 0 := div_neg_of_neg_of_pos hneg hp
    rw [if_pos this, ← neg_div]
    rw [if_pos hneg] at h
    exact div_le_div_of_nonneg_right h (le_of_lt hp)
  · have : ¬ y / (10 : Rat) ^ p < 0 := by
      rw [not_lt] at hneg ⊢
      exact div_nonneg hneg (le_of_lt hp)
    rw [if_neg this]
    rw [if_neg hneg] at h
    exact div_le_div_of_nonneg_right h (le_of_lt hp)

theorem roundDec_range (p : Nat) (x D : Rat) (hx : 0 ≤ x ∧ x ≤ D)
    (hD : ∃ k : Int, D = (k : Rat) / (10 : Rat) ^ p) :
    0 ≤ roundDec p x ∧ roundDec p x ≤ D := by
  have hp : (0 : Rat) < (10 : Rat) ^ p := by positivity
  obtain ⟨k, rfl⟩ := hD
  unfold roundDec
  constructor
  · apply div_nonneg _ (le_of_lt hp)
    exact_mod_cast rintEven_nonneg _ (mul_nonneg hx.1 (le_of_lt hp))
  · apply div_le_div_of_nonneg_right _ (le_of_lt hp)
    have : x * (10 : Rat) ^ p ≤ (k : Rat) := by
      have := hx.2
      rwa [le_div_iff₀ hp] at this
    exact_mod_cast rintEven_le_int _ k this

theorem roundDec_zero (p : Nat) : roundDec p 0 = 0 := by
  have h := roundDec_range p 0 0 ⟨le_refl _, le_refl _⟩ ⟨0, by simp⟩
  linarith [h.1, h.2]

end Boario
