"""Regenerate MANIFEST.json from harness/props.py (run by hand when a property is added)."""
import json
import sys
from pathlib import Path

VERIF = Path(__file__).resolve().parent.parent
sys.path.insert(0, str(VERIF))
from harness import props  # noqa: E402

all_ids = [json.loads(l)["id"] for l in (VERIF / "properties.jsonl").read_text().splitlines() if l.strip()]
checks = []
for pid in all_ids:
    if pid not in props.THEOREMS:
        continue
    info = dict(props.CLAIMS[pid])
    gen_names = [t for t in props.THEOREMS[pid] if t.startswith("Gen.") or t.startswith("Records.guards") or t.startswith("Records.writes_after")]
    if gen_names and "Tied to the source by translation" not in info["text"]:
        info["text"] = info["text"] + (" Tied to the source by translation: the following theorems are about Lean definitions REGENERATED from "
                                       "/repo's source on every run (harness/translate.py: statement skeletons, column slices, status guards, "
                                       "aggregation tables and the element-wise formulas as functions of one cell) and say that they are the "
                                       "model's definitions: " + ", ".join(t.replace("Gen.", "") for t in gen_names) + ".")
    checks.append({
        "property_id": pid,
        "quick_cmd": f"./check {pid} quick",
        "thorough_cmd": f"./check {pid} thorough",
        "evidence_file": f"/verif/evidence/{pid}.json",
        "replay_cmd_template": f"./check {pid} --replay {{path}}",
        "engine": "lean4-proof+correspondence",
        "level_claimed": {"category": "proof", "text": info["text"], "design_ref": info.get("ref", "DESIGN.md §5")},
        "level_note": info["note"],
        "technique": info["technique"],
    })
na = [{"property_id": pid, "reason": props.NOT_CLAIMED.get(pid, "not claimed in this commit: the Lean theorems and the check for this property are still being built (DESIGN.md §10)")}
      for pid in all_ids if pid not in props.THEOREMS]
man = {
    "version": 1,
    "setup_cmd": "./setup.sh",
    "hooks": {
        "guard": "BOARIO_VERIF",
        "enable": "checks import /repo's working tree in-process with BOARIO_VERIF=1 set (harness/common.py); no build step",
        "baseline_off_cmd": "cd /repo && env -u BOARIO_VERIF /venv/bin/python -m pytest -ra -q -p no:cacheprovider --timeout=900 --continue-on-collection-errors",
        "source_commits": ["6a9934d"],
        "add_only": True,
    },
    "engines": [
        {"name": "lean4-proof+correspondence", "path": "lean/ (model, theorems, driver) + harness/ (Python correspondence and oracles)",
         "serves_properties": [c["property_id"] for c in checks],
         "kind_free_text": "hand-written exact-rational Lean 4 model; property theorems proved in Lean (kernel-checked, standard axioms); model tied to the code on every run by a per-phase, per-step differential correspondence from the implementation's own pre-states"},
    ],
    "checks": checks,
    "not_applicable": na,
    "notes": "See DESIGN.md. known_findings.json lists recorded and repaired defects; replays/ holds replay files of reported violations.",
}
(VERIF / "MANIFEST.json").write_text(json.dumps(man, indent=1))
print(f"{len(checks)} checks, {len(na)} not claimed")
