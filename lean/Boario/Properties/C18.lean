/-
  C18 — Model variants coincide where the mathematics says they must.
  "Bit-identical" for the first claim is: the two classes build the *same* parameters, hence run the
  same function (that multiplying by 1.0 is exact in IEEE-754 is outside the model; checked bitwise
  on paired runs).
-/
import Boario.Lemmas.Sums
import Boario.Init

namespace Boario
variable {d : Dims}

/-- the extended model with psi = 1 and an inventory restoration time of one step … -/
def asPsiOne (c : Config d) : Config d :=
  { c with isPsi := true, psi := 1, restTau := fun _ => (c.dt : Rat) }

/-- … and the base model with the same other parameters -/
def asBase (c : Config d) : Config d := { c with isPsi := false }

/-- … are given exactly the same parameters by the constructors -/
theorem psi_one_params (tb : Table d) (c : Config d) (hdt : 0 < c.dt) :
    mkParams tb (asPsiOne c) = mkParams tb (asBase c) := by
  have h : ((c.dt : Nat) : Rat) ≠ 0 := by exact_mod_cast (Nat.pos_iff_ne_zero.1 hdt)
  unfold mkParams asPsiOne asBase
  congr 1
  · funext s
    simp [div_self h]

/-- hence every step, from every state and for every event history, is the same -/
theorem psi_one_step (tb : Table d) (c : Config d) (hdt : 0 < c.dt) (s : Sim d)
    (hp : s.p = mkParams tb (asPsiOne c)) :
    nextStep s = nextStep { s with p := mkParams tb (asBase c) } := by
  rw [← psi_one_params tb c hdt, ← hp]

theorem psi_one_run (tb : Table d) (c : Config d) (hdt : 0 < c.dt) (dt k : Nat) (trs : List (Tracker d)) :
    runN k (initSim (mkParams tb (asPsiOne c)) dt trs) = runN k (initSim (mkParams tb (asBase c)) dt trs) := by
  rw [psi_one_params tb c hdt]

/-- the two order variants give the same supplier shares whenever all suppliers have the same,
    non-zero, relative production capacity -/
theorem alt_share_eq_fixed_share (p : Params d) (deltaTot alpha : Ind d → Rat) (rho0 : Rat) (h0 : rho0 ≠ 0)
    (hu : ∀ i, rho p deltaTot alpha i = rho0)
    (hz : ∀ i j, p.Zshare i j = safeDiv (p.Z0 i j) (sumFin d.m fun r => p.Z0 (r, i.2) j) 0)
    (i j : Ind d) :
    altShare p deltaTot alpha i j = p.Zshare i j := by
  unfold altShare zCProd zProd
  simp only [hu, hz]
  have hs : (sumFin d.m fun r => p.Z0 (r, i.2) j * rho0) = (sumFin d.m fun r => p.Z0 (r, i.2) j) * rho0 := by
    rw [sumFin_eq_sum, sumFin_eq_sum, Finset.sum_mul]
  rw [hs]
  unfold safeDiv
  by_cases hS : (sumFin d.m fun r => p.Z0 (r, i.2) j) = 0
  · simp [hS]
  · rw [if_neg hS, if_neg (mul_ne_zero hS h0)]
    field_simp

/-- … hence the same orders -/
theorem alt_eq_noalt (p : Params d) (e : Econ d) (rho0 : Rat) (h0 : rho0 ≠ 0)
    (hu : ∀ i, rho p e.deltaTot e.alpha i = rho0)
    (hz : ∀ i j, p.Zshare i j = safeDiv (p.Z0 i j) (sumFin d.m fun r => p.Z0 (r, i.2) j) 0)
    (gap : Fin d.n → Ind d → Rat) (i j : Ind d) :
    ordersFrom { p with alt := true } e gap i j = ordersFrom { p with alt := false } e gap i j := by
  unfold ordersFrom supplierShare needWith
  simp only [if_true, Bool.false_eq_true, if_false]
  have := alt_share_eq_fixed_share p e.deltaTot e.alpha rho0 h0 hu hz i j
  unfold altShare zCProd zProd rho capacity at this ⊢
  simp only at this ⊢
  rw [this]

/-- boundary of the claim: with *zero* capacity everywhere the variants differ (alt orders nothing) -/
theorem alt_ne_noalt_zero_capacity :
    ∃ (p : Params ⟨1, 1, 1⟩) (e : Econ ⟨1, 1, 1⟩) (gap : Fin 1 → Ind ⟨1, 1, 1⟩ → Rat) (i j : Ind ⟨1, 1, 1⟩),
      (∀ i, rho p e.deltaTot e.alpha i = 0) ∧
      ordersFrom { p with alt := true } e gap i j ≠ ordersFrom { p with alt := false } e gap i j := by
  refine ⟨
    { x0 := fun _ => 1, Z0 := fun _ _ => 1, Y0 := fun _ _ => 0, a := fun _ _ => 1,
      thr := fun _ _ => true, invDur := fun _ => none, psi := 1, rest := fun _ => 1,
      aBase := 1, aMax := 1, aTau := 1, alt := false, Zshare := fun _ _ => 1, K := fun _ => 0 },
    { orders := fun _ _ => 0, fd := fun _ _ => 0, reb := [], dTot := fun _ => 0,
      stock := fun _ _ => 0, prod := fun _ => 1, alpha := fun _ => 0, deltaTot := fun _ => 0,
      fdUnmet := fun _ => 0, rebProd := [] },
    fun _ _ => 0, (0, 0), (0, 0), ?_, ?_⟩
  · intro i
    simp [rho, capacity, safeDiv]
  · simp [ordersFrom, supplierShare, needWith, altShare, zProd, zCProd, rho, capacity, safeDiv]

end Boario
