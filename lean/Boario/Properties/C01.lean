/-
  C01 — An undisturbed economy stays at its initial equilibrium.
  Exact statement in the rational model; the implementation's rounding error (relative 1e-9) is
  checked by the correspondence, not proved.
-/
import Boario.Lemmas.Sums
import Boario.Lemmas.Equilibrium
import Boario.Init

namespace Boario
variable {d : Dims}

/-- a balanced, non-negative table whose industries do not buy more than they sell
    (non-negative value added; the code warns and truncates otherwise) -/
structure ValidTable (tb : Table d) : Prop where
  z_nonneg : ∀ i j, 0 ≤ tb.Z i j
  y_nonneg : ∀ i c, 0 ≤ tb.Y i c
  balanced : ∀ i, tb.x i = sumInd d (tb.Z i) + sumFd d (tb.Y i)
  va_nonneg : ∀ f, sumInd d (fun i => tb.Z i f) ≤ tb.x f

/-- an accepted combination of model parameters -/
structure ValidConfig (c : Config d) : Prop where
  dt_pos : 0 < c.dt
  year_pos : 0 < c.yearFactor
  base_ge_one : 1 ≤ c.aBase
  base_le_max : c.aBase ≤ c.aMax
  psi_le_one : c.isPsi = true → c.psi ≤ 1
  inv_pos : ∀ s v, c.inventories s = some v → 0 < v

/-- the initial equilibrium, seen at any step index -/
structure AtEquilibrium (p : Params d) (s : Sim d) : Prop where
  params : s.p = p
  no_events : s.trackers = []
  no_blocks : s.nBlocks = 0
  prod : ∀ f, s.econ.prod f = p.x0 f
  stock : ∀ sec f, (p.invDur sec).isSome = true → s.econ.stock sec f = stock0 p sec f
  orders : ∀ i j, s.econ.orders i j = p.Z0 i j
  fd : ∀ i c, s.econ.fd i c = p.Y0 i c
  reb : s.econ.reb = []
  dTot : ∀ f, s.econ.dTot f = p.x0 f
  alpha : ∀ f, s.econ.alpha f = p.aBase
  delta : ∀ f, s.econ.deltaTot f = 0
  unmet : ∀ f, s.econ.fdUnmet f = 0

section
variable (tb : Table d) (c : Config d)

/-- the constructed parameters have everything the phases need (`Boario.Lemmas.Equilibrium`) -/
theorem eqParams_of_valid (ht : ValidTable tb) (hc : ValidConfig c) : EqParams (mkParams tb c) :=
  mkParams_eqParams tb c ht.z_nonneg ht.y_nonneg ht.balanced ht.va_nonneg hc.dt_pos hc.year_pos
    hc.base_ge_one hc.psi_le_one

theorem AtEquilibrium.econ {p : Params d} {s : Sim d} (h : AtEquilibrium p s) : EqEcon p s.econ :=
  { prod := h.prod, stock := h.stock, orders := h.orders, fd := h.fd, reb := h.reb, dTot := h.dTot
    alpha := h.alpha, delta := h.delta, unmet := h.unmet }

/-- the state built by the constructors is the equilibrium -/
theorem init_at_equilibrium (ht : ValidTable tb) (hc : ValidConfig c) (dt : Nat) :
    AtEquilibrium (mkParams tb c) (initSim (mkParams tb c) dt []) := by
  have hp := eqParams_of_valid tb c ht hc
  refine
    { params := rfl, no_events := rfl, no_blocks := rfl, prod := fun _ => rfl
      stock := fun _ _ _ => rfl, orders := fun _ _ => rfl, fd := fun _ _ => rfl, reb := rfl
      dTot := ?_, alpha := fun _ => rfl, delta := fun _ => rfl, unmet := fun _ => rfl }
  intro f
  show rowTot (mkParams tb c).Z0 (mkParams tb c).Y0 [] f = (mkParams tb c).x0 f
  rw [hp.balanced f]
  simp [rowTot, rebTot, sumList]

/-- one step of an event-free simulation at equilibrium succeeds (it neither rejects, crashes nor
    fails — including for industries with zero output and inputs that are not used at all) and
    reproduces the equilibrium exactly: production, inventories, orders, overproduction factor,
    no unmet final demand.
    ADDED HYPOTHESIS `hK` (the productive capital is non-negative): without it the statement is
    false, see `equilibrium_step_needs_capital_nonneg` below. -/
theorem equilibrium_step (ht : ValidTable tb) (hc : ValidConfig c)
    (hK : ∀ f, 0 ≤ capitalOf tb c f) (s : Sim d)
    (h : AtEquilibrium (mkParams tb c) s) :
    ∃ s', nextStep s = .ok s' ∧ AtEquilibrium (mkParams tb c) s' ∧ s'.t = s.t + s.dt := by
  have hp := eqParams_of_valid tb c ht hc
  obtain ⟨s1, h1, hp1, hdt1, ht1, htr1, hnb1, he1⟩ :=
    eventsPre_no_events s h.no_events h.no_blocks (by rw [h.params]; exact hK)
  rw [h.params] at hp1
  have hs1 : EqEcon (mkParams tb c) s1.econ := by
    rw [he1]
    exact { h.econ with delta := fun _ => rfl }
  have hs1' : EqEcon (mkParams tb c)
      (if 1 < s1.t then overprodPhase s1.p s1.econ else s1.econ) := by
    split_ifs
    · rw [hp1]; exact hs1.overprod_ok hp
    · exact hs1
  obtain ⟨e2, h2, he2, _⟩ := hs1'.production_ok hp
  obtain ⟨e3, h3, he3, _⟩ := he2.distribute_ok hp
  obtain ⟨e4, h4, he4⟩ := he3.orders_ok hp
  rw [← hp1] at h2 h3 h4
  refine ⟨_, nextStep_of_phases s s1 e2 e3 e4 h1 h2 h3 h4, ?_, ?_⟩
  · exact
      { params := hp1
        no_events := by show recoverAll s1.t (receiveAll e3.rebProd s1.trackers) = []; rw [htr1]; rfl
        no_blocks := hnb1
        prod := he4.prod, stock := he4.stock, orders := he4.orders, fd := he4.fd, reb := he4.reb
        dTot := he4.dTot, alpha := he4.alpha, delta := he4.delta, unmet := he4.unmet }
  · show s1.t + s1.dt = s.t + s.dt
    rw [ht1, hdt1]

/-- `hK` cannot be dropped from `equilibrium_step`: a valid table and configuration with a negative
    user-supplied capital vector make the very first step raise (capital check of
    `_check_happening_events`: `0 > K`) -/
theorem equilibrium_step_needs_capital_nonneg :
    ∃ (tb : Table ⟨1, 1, 1⟩) (c : Config ⟨1, 1, 1⟩), ValidTable tb ∧ ValidConfig c ∧
      nextStep (initSim (mkParams tb c) 1 []) = .rejected := by
  refine ⟨{ Z := fun _ _ => 0, Y := fun _ _ => 1, x := fun _ => 1 },
    { isPsi := false, alt := false, aBase := 1, aMax := 1, alphaTau := 1, dt := 1, yearFactor := 1
      inventories := fun _ => none, psi := 1, restTau := fun _ => 1
      capital := .vector fun _ => -1 }, ?_, ?_, ?_⟩
  · constructor <;> intros <;> simp [sumInd, sumFd, sumFin, Fin.foldl_succ_last, Fin.foldl_zero]
  · constructor <;> simp
  · have h : eventsPre (initSim (mkParams (d := ⟨1, 1, 1⟩)
        { Z := fun _ _ => 0, Y := fun _ _ => 1, x := fun _ => 1 }
        { isPsi := false, alt := false, aBase := 1, aMax := 1, alphaTau := 1, dt := 1
          yearFactor := 1, inventories := fun _ => none, psi := 1, restTau := fun _ => 1
          capital := .vector fun _ => -1 }) 1 []) = .rejected := by
      unfold eventsPre
      simp only [initSim, lifecycle, List.map_nil, advance]
      rw [if_pos]
      exact ⟨0, 0, by simp [mkParams, capitalOf, lostCapital, sumList]⟩
    unfold nextStep
    rw [h]
    rfl

theorem equilibrium_run_from (ht : ValidTable tb) (hc : ValidConfig c)
    (hK : ∀ f, 0 ≤ capitalOf tb c f) (k : Nat) (s : Sim d)
    (h : AtEquilibrium (mkParams tb c) s) :
    ∃ s', runN k s = some s' ∧ AtEquilibrium (mkParams tb c) s' := by
  induction k generalizing s with
  | zero => exact ⟨s, rfl, h⟩
  | succ k ih =>
    obtain ⟨s1, hs, h1, _⟩ := equilibrium_step tb c ht hc hK s h
    simp only [runN, hs]
    exact ih s1 h1

theorem equilibrium_loop_from (ht : ValidTable tb) (hc : ValidConfig c)
    (hK : ∀ f, 0 ≤ capitalOf tb c f) (k : Nat) (s : Sim d)
    (h : AtEquilibrium (mkParams tb c) s) :
    ∃ s', loopN k s = .done s' false ∧ AtEquilibrium (mkParams tb c) s' := by
  induction k generalizing s with
  | zero => exact ⟨s, rfl, h⟩
  | succ k ih =>
    obtain ⟨s1, hs, h1, _⟩ := equilibrium_step tb c ht hc hK s h
    simp only [loopN, hs]
    exact ih s1 h1

/-- … hence at every step, for every horizon (ADDED HYPOTHESIS `hK`, as in `equilibrium_step`) -/
theorem equilibrium_forever (ht : ValidTable tb) (hc : ValidConfig c)
    (hK : ∀ f, 0 ≤ capitalOf tb c f) (dt k : Nat) :
    ∃ s', runN k (initSim (mkParams tb c) dt []) = some s' ∧ AtEquilibrium (mkParams tb c) s' :=
  equilibrium_run_from tb c ht hc hK k _ (init_at_equilibrium tb c ht hc dt)

/-- the loop never crashes nor raises on an event-free run (ADDED HYPOTHESIS `hK`) -/
theorem equilibrium_loop (ht : ValidTable tb) (hc : ValidConfig c)
    (hK : ∀ f, 0 ≤ capitalOf tb c f) (dt k : Nat) :
    ∃ s', loopN k (initSim (mkParams tb c) dt []) = .done s' false ∧ AtEquilibrium (mkParams tb c) s' :=
  equilibrium_loop_from tb c ht hc hK k _ (init_at_equilibrium tb c ht hc dt)

end
end Boario
