/-
  C19 — The response to an event does not depend on when it occurs.
  Proved: the step map commutes with a time shift of the whole simulation (`shift_step`), from the
  third step on unconditionally and for the first two steps whenever the overproduction module would
  have been the identity there (`shift_step_early`), which is the case at every state where demand
  equals the last production and the factor is at its base value (`overprod_identity_at_rest`) — in
  particular at the initial equilibrium.  The run-level statement (chaining these with C01 and C10's
  prefix theorem) is not proved here: it is named `_partial` and the whole-run claim is checked on
  paired runs of the real code.
-/
import Boario.Lemmas.Sums
import Boario.Lemmas.Shift
import Boario.Init

namespace Boario
variable {d : Dims}

/-- the same event, `k` steps later -/
def shiftTracker (k : Nat) (tr : Tracker d) : Tracker d := { tr with occ := tr.occ + k }

/-- the same simulation state, `k` steps later -/
def shiftSim (k : Nat) (s : Sim d) : Sim d :=
  { s with t := s.t + k, trackers := s.trackers.map (shiftTracker k) }

def Outcome.mapOk {α β : Type} (f : α → β) : Outcome α → Outcome β
  | .ok a => .ok (f a)
  | .crashed a => .crashed (f a)
  | .rejected => .rejected
  | .internal => .internal

/-! `shiftTracker`, `shiftSim`, `Outcome.mapOk` are the `occShift`, `simShift`, `Outcome.mapAll` of
`Boario.Lemmas.Shift`, where the phase-by-phase commutation lemmas are proved. -/

theorem shiftTracker_eq (k : Nat) : (shiftTracker k : Tracker d → Tracker d) = occShift k := rfl

theorem shiftSim_eq (k : Nat) : (shiftSim k : Sim d → Sim d) = simShift k := rfl

theorem mapOk_eq {α β : Type} (f : α → β) (o : Outcome α) : o.mapOk f = o.mapAll f := by
  cases o <;> rfl

/-- the life-cycle phase only sees differences `t − occ` -/
theorem lifecycle_shift (k t dt : Nat) (trs : List (Tracker d)) (nb : Nat) :
    lifecycle (t + k) dt (trs.map (shiftTracker k)) nb
      = ((lifecycle t dt trs nb).1.map (shiftTracker k), (lifecycle t dt trs nb).2) := by
  rw [shiftTracker_eq]; exact lifecycle_occShift k t dt trs nb

/-- recovery only sees the elapsed time `t − (occ + dur)` -/
theorem recoverOne_shift (k t : Nat) (tr : Tracker d) :
    recoverOne (t + k) (shiftTracker k tr) = shiftTracker k (recoverOne t tr) := by
  rw [shiftTracker_eq]; exact recoverOne_occShift k t tr

/-- the ledger phase commutes with the shift -/
theorem eventsPost_shift (k : Nat) (s : Sim d) : eventsPost (shiftSim k s) = shiftSim k (eventsPost s) := by
  rw [shiftSim_eq]; exact eventsPost_simShift k s

/-- the event phase commutes with the shift -/
theorem eventsPre_shift (k : Nat) (s : Sim d) :
    eventsPre (shiftSim k s) = (eventsPre s).mapOk (shiftSim k) := by
  rw [shiftSim_eq, mapOk_eq]; exact eventsPre_simShift k s

/-- from the third step on, one step of the delayed simulation is the delayed step -/
theorem shift_step (k : Nat) (s : Sim d) (ht : 2 ≤ s.t) :
    nextStep (shiftSim k s) = (nextStep s).mapOk (shiftSim k) := by
  rw [shiftSim_eq, mapOk_eq]
  apply nextStep_simShift_of
  intro s1 h1
  have ht : s1.t = s.t := (eventsPre_ok_t s s1 h1).1
  rw [if_pos (by omega), if_pos (by omega)]

/-- the overproduction module is the identity wherever demand equals the last production and the
    factor is at its base value (≥ 1): skipping it for the first two steps is harmless at equilibrium -/
theorem overprod_identity_at_rest (p : Params d) (alpha dTot prod : Ind d → Rat) (f : Ind d)
    (hb : 1 ≤ p.aBase) (ha : alpha f = p.aBase) (hd : dTot f = prod f) :
    overprod p alpha dTot prod f = alpha f := by
  have hsc : scarcity dTot prod f = 0 := by
    unfold scarcity
    split_ifs with h0
    · rw [hd, sub_self, zero_div]
    · rfl
  unfold overprod alphaChg
  rw [hsc, if_neg (lt_irrefl 0), if_pos (le_refl 0), ha, sub_self, zero_mul, zero_add, add_zero]
  exact max_eq_right hb

/-- for the first two steps the same holds provided the module is the identity on the state the
    event phase leaves -/
theorem shift_step_early (k : Nat) (s : Sim d)
    (hid : ∀ s1, eventsPre s = .ok s1 →
      ∀ f, overprod s1.p s1.econ.alpha s1.econ.dTot s1.econ.prod f = s1.econ.alpha f) :
    nextStep (shiftSim k s) = (nextStep s).mapOk (shiftSim k) := by
  rw [shiftSim_eq, mapOk_eq]
  apply nextStep_simShift_of
  intro s1 h1
  have hop : overprodPhase s1.p s1.econ = s1.econ := by
    unfold overprodPhase
    rw [show overprod s1.p s1.econ.alpha s1.econ.dTot s1.econ.prod = s1.econ.alpha from
      funext (hid s1 h1)]
  rw [hop, ite_self, ite_self]

/-- runs: delaying everything by `k` delays the run by `k`, from any state at or after the third step -/
theorem shift_run_partial (k n : Nat) (s : Sim d) (ht : 2 ≤ s.t) (hdt : 0 < s.dt) :
    runN n (shiftSim k s) = (runN n s).map (shiftSim k) := by
  induction n generalizing s with
  | zero => rfl
  | succ n ih =>
    simp only [runN]
    rw [shift_step k s ht]
    cases hn : nextStep s with
    | ok s' =>
      have ht' : 2 ≤ s'.t := by rw [(nextStep_ok_t s s' hn).1]; omega
      have hdt' : 0 < s'.dt := by rw [(nextStep_ok_t s s' hn).2]; exact hdt
      exact ih s' ht' hdt'
    | crashed _ => rfl
    | rejected => rfl
    | internal => rfl

end Boario
