"""Harmless rewrites of the library (benign/<name>/patch.diff): every property still holds, so every check must
exit 0 on them.  Same isolation as harness/seedtest.py (scratch worktree of /repo's HEAD + scratch copy of /verif).

    python -m harness.benigntest [names...] [--props C01,C02]      (default: all twenty properties)
"""
import json, subprocess, sys, os, shutil, tempfile
from pathlib import Path

VERIF = Path(__file__).resolve().parent.parent
BENIGN = VERIF / "benign"
ALL = [f"C{i:02d}" for i in range(1, 21)]


def sh(c, cwd=None, timeout=3600, env=None):
    return subprocess.run(c, shell=True, cwd=cwd, capture_output=True, text=True, timeout=timeout, env=env)


def main(names, props):
    results = {}
    wt = Path(tempfile.mkdtemp(prefix="benwt_", dir="/tmp"))
    vcopy = Path(tempfile.mkdtemp(prefix="benverif_", dir="/tmp"))
    shutil.rmtree(wt); shutil.rmtree(vcopy)
    shutil.copytree(VERIF, vcopy, symlinks=True, ignore=shutil.ignore_patterns(".git", "replays", "__pycache__", "seeded"))
    r = sh(f"git -C /repo worktree add --detach {wt} HEAD")
    assert r.returncode == 0, r.stderr
    env = dict(os.environ, BOARIO_REPO=str(wt))
    try:
        for d in sorted(BENIGN.iterdir()):
            if not d.is_dir() or (names and d.name not in names):
                continue
            r = sh(f"git -C {wt} apply {d/'patch.diff'}")
            if r.returncode != 0:
                results[d.name] = {"status": "patch does not apply"}; print(d.name, "patch does not apply"); continue
            try:
                t = sh("/venv/bin/python -m pytest -q -p no:cacheprovider -x -n 8 2>&1 | tail -1", cwd=str(wt))
                results[d.name] = {"tests": t.stdout.strip()[-80:], "checks": {}}
                for p in props:
                    r = sh(f"./check {p} quick", cwd=str(vcopy), env=env)
                    line = [l for l in r.stdout.splitlines() if l.startswith("VIOLATION")]
                    results[d.name]["checks"][p] = r.returncode if not line else line[0][:200]
                    print(d.name, p, r.returncode, line[0][:160] if line else "", flush=True)
            finally:
                sh(f"git -C {wt} checkout -- .")
    finally:
        sh(f"git -C /repo worktree remove --force {wt}")
        shutil.rmtree(vcopy, ignore_errors=True)
    return results


if __name__ == "__main__":
    args = sys.argv[1:]
    props = ALL
    if "--props" in args:
        i = args.index("--props"); props = args[i+1].split(","); del args[i:i+2]
    res = main(args, props)
    path = Path(os.environ["BENIGN_RESULTS"]) if os.environ.get("BENIGN_RESULTS") else BENIGN / "RESULTS.json"
    old = json.loads(path.read_text()) if path.exists() else {}
    old.update(res)
    path.write_text(json.dumps(old, indent=1, sort_keys=True))
    bad = [(n, p) for n, r in res.items() for p, v in r.get("checks", {}).items() if v != 0]
    print("alarms on harmless rewrites:", bad)
