/-
  The status transitions of the source = the model's `wake` / `advance` (serves C10, C09, C11, C19).

  `Boario.Gen.Lifecycle` is regenerated from `Simulation._check_happening_events` on every run: the loops over the
  trackers in source order, the status each one tests, its guard as a proposition over the integers (current temporal
  unit, step length, occurrence, duration), and the status it gives to each class of event.  The theorems say that this is
  the life-cycle the model implements: two separate passes (pending → happening, then happening → rebuilding / recovering),
  with exactly the model's guards.  The status-timeline theorems of C10 (`status_timeline_dt`, `shock_in_force_dt`, …) are
  about `wake` / `advance`, hence about these guards.
-/
import Boario.Gen.Lifecycle
import Boario.Events
import Mathlib.Tactic.Linarith

namespace Boario.Gen
open Boario

variable {d : Dims}

/-- the source has exactly two passes over the trackers, in this order: pending trackers may start happening; happening
    trackers may go on to rebuilding (rebuilding events), recovering (recovery and arbitrary events) or finished (anything else);
    no other status is ever assigned here. -/
theorem lifecycle_skeleton :
    lifecycleLoops =
      [(0, "pending", [("*", "happening")]),
       (1, "happening", [("EventKapitalRebuild", "rebuilding"), ("EventKapitalRecover,EventArbitraryProd", "recovering"),
                         ("else", "finished")])] := by
  decide

/-- the guard of the first pass is the model's: the occurrence lies within the last step, `t - dt ≤ occ ≤ t`. -/
theorem wake_guard_is_code (t dt occ dur : Nat) :
    guard0 (t : Int) (dt : Int) (occ : Int) (dur : Int) ↔ (t ≤ occ + dt ∧ occ ≤ t) := by
  unfold guard0; omega

/-- the guard of the second pass is the model's: the duration has elapsed, `occ + dur ≤ t`. -/
theorem advance_guard_is_code (t dt occ dur : Nat) :
    guard1 (t : Int) (dt : Int) (occ : Int) (dur : Int) ↔ occ + dur ≤ t := by
  unfold guard1; omega

/-- `wake` is the first pass of the source: a pending tracker becomes happening exactly under the code's guard. -/
theorem wake_is_code (t dt : Nat) (tr : Tracker d) :
    wake t dt tr =
      if tr.status = .pending ∧ guard0 (t : Int) (dt : Int) (tr.occ : Int) (tr.dur : Int)
      then { tr with status := .happening } else tr := by
  unfold wake
  simp only [wake_guard_is_code]

/-- the head of `advance` is the second pass of the source: a happening tracker leaves that status exactly under the code's
    guard, a rebuilding event to rebuilding (taking the next block id) and any other to recovering. -/
theorem advance_head_is_code (t : Nat) (tr : Tracker d) (rest : List (Tracker d)) (nb : Nat) :
    (advance t (tr :: rest) nb).1.head? =
      some (if tr.status = .happening ∧ guard1 (t : Int) (0 : Int) (tr.occ : Int) (tr.dur : Int) then
              (match tr.kind with
               | .rebuild => { tr with status := .rebuilding, rid := some nb }
               | _ => { tr with status := .recovering })
            else tr) := by
  have hg : guard1 (t : Int) (0 : Int) (tr.occ : Int) (tr.dur : Int) ↔ tr.occ + tr.dur ≤ t := by
    have := advance_guard_is_code t 0 tr.occ tr.dur
    simpa using this
  by_cases h : tr.status = .happening ∧ tr.occ + tr.dur ≤ t
  · have h' : tr.status = .happening ∧ guard1 (t : Int) (0 : Int) (tr.occ : Int) (tr.dur : Int) := ⟨h.1, hg.mpr h.2⟩
    simp only [advance, h, h', and_self, if_true]
    cases tr.kind <;> rfl
  · have h' : ¬ (tr.status = .happening ∧ guard1 (t : Int) (0 : Int) (tr.occ : Int) (tr.dur : Int)) :=
      fun hh => h ⟨hh.1, hg.mp hh.2⟩
    simp only [advance, h, h', if_false]
    rfl

end Boario.Gen
