"""Scenarios: a scenario is a plain JSON value; `build` turns it into live objects of the
implementation under test.  Every random choice derives from one PRNG seeded by the scenario seed, so
a scenario (and any disagreement found on it) replays exactly."""
from __future__ import annotations

import copy
import random

from harness.common import import_boario, np

import_boario()
import pandas as pd  # noqa: E402
import pymrio  # noqa: E402

from boario import event as bev  # noqa: E402
from boario.extended_models import ARIOPsiModel  # noqa: E402
from boario.model_base import ARIOBaseModel  # noqa: E402
from boario.simulation import Simulation  # noqa: E402

REG_NAMES = ["rA", "rB", "rC", "rD", "rE", "rF"]
SEC_NAMES = ["agri", "build", "manu", "serv", "trade", "util", "water", "xport"]
CAT_NAMES = ["gov", "house", "npish"]
# the same positions under less tidy names: spaces, digits ("10 ..." sorts before "2 ..."), mixed case (upper case sorts
# before lower case), dashes, dots.  Listed in lexicographic (code point) order, like the plain ones, so that the position
# of a label in these lists is its position in the model.
ODD_REG_NAMES = ["A 1", "B-2", "c_3", "d.4", "e5", "f 6"]
ODD_SEC_NAMES = ["10 Agri", "2 build", "Manu fact", "serv.", "trade-x", "util", "water 1", "xport"]
ODD_CAT_NAMES = ["Gov exp", "house holds", "n.p.i.s.h"]
# names that differ only by capitalisation (two sectors such as "Other" (utilities) / "other" (services) exist in aggregated tables)
CASE_SEC_NAMES = ["Build", "Serv", "build", "serv", "trade", "util", "water", "xport"]
assert CASE_SEC_NAMES == sorted(CASE_SEC_NAMES)
assert ODD_REG_NAMES == sorted(ODD_REG_NAMES) and ODD_SEC_NAMES == sorted(ODD_SEC_NAMES) and ODD_CAT_NAMES == sorted(ODD_CAT_NAMES)


# ------------------------------------------------------------------ tables


def gen_table(rng: random.Random, m=None, n=None, k=None, kind=None, scale=None, labels=None, neg_va=False) -> dict:
    m = m or rng.choice([1, 2, 2, 3])
    n = n or rng.choice([2, 3, 3, 4])
    k = k or rng.choice([1, 1, 2])
    if k == 2 and random.Random(int(m * 100 + n * 10 + k) ^ 0x3CA7).random() < 0.35:
        k = 3          # three final-demand categories (drawn apart: the other draws stay as they were)
    kind = kind or rng.choice(["dense", "dense", "sparse", "zero_output", "zero_fd", "below_thr", "hetero"])
    scale = scale if scale is not None else 10.0 ** rng.choice([-3, 0, 0, 2, 3, 6, 9, 12])
    N, F = m * n, m * k
    Z = [[rng.uniform(0.5, 10.0) for _ in range(N)] for _ in range(N)]
    Y = [[rng.uniform(2.0, 30.0) for _ in range(F)] for _ in range(N)]
    if kind in ("sparse", "zero_output"):
        # structurally missing inputs: an industry buys nothing of some sector from anyone
        for j in range(N):
            if rng.random() < 0.5:
                s = rng.randrange(n)
                for r in range(m):
                    Z[r * n + s][j] = 0.0
        for i in range(N):
            for j in range(N):
                if rng.random() < 0.15:
                    Z[i][j] = 0.0
    if kind == "zero_output":
        z = rng.randrange(N)
        for j in range(N):
            Z[z][j] = 0.0
            Z[j][z] = 0.0
        for c in range(F):
            Y[z][c] = 0.0
    if kind == "zero_fd":
        z = rng.randrange(N)
        for c in range(F):
            Y[z][c] = 0.0
    if kind == "below_thr":
        # an input used in tiny amounts: below TECHNOLOGY_THRESHOLD relative to the buyer's output
        j = rng.randrange(N)
        s = rng.randrange(n)
        for r in range(m):
            Z[r * n + s][j] = 1e-9
    if kind == "hetero":
        # industries of very different sizes: supplier shares spread over several orders of magnitude
        f = [rng.choice([1.0, 1.0, 1e-2, 1e-4]) for _ in range(N)]
        Z = [[Z[i][j] * f[i] * f[j] ** 0.5 for j in range(N)] for i in range(N)]
        Y = [[Y[i][c] * f[i] for c in range(F)] for i in range(N)]
    Z = [[v * scale for v in row] for row in Z]
    Y = [[v * scale for v in row] for row in Y]
    # make value added non-negative: raise final demand where column sums exceed output
    for _ in range(60):
        x = [sum(Z[i]) + sum(Y[i]) for i in range(N)]
        col = [sum(Z[i][j] for i in range(N)) for j in range(N)]
        bad = [j for j in range(N) if col[j] > x[j] and x[j] > 0]
        if not bad:
            break
        for j in bad:
            for c in range(F):
                Y[j][c] = Y[j][c] * 1.7 + scale
    if (kind == "dense" and random.Random(int(Z[0][0] * 1e6) ^ 0x7E6A).random() < 0.12) or (neg_va and kind == "dense"):
        # one industry buys more of one input (all regions together) than it produces: technical coefficient above 1, negative
        # value added — accepted by the library with a warning, and balanced like any other table
        j_ = random.Random(int(Z[0][0] * 1e6) ^ 0x7E6B).randrange(N)
        s_ = random.Random(int(Z[0][0] * 1e6) ^ 0x7E6C).randrange(n)
        xj_ = sum(Z[j_]) + sum(Y[j_])
        for r_ in range(m):
            Z[r_ * n + s_][j_] = 1.3 * xj_ / m
        kind = "dense+neg_va"
    tb = {"m": m, "n": n, "k": k, "kind": kind, "scale": scale, "Z": Z, "Y": Y}
    lab_rng = random.Random(int(Z[0][0] * 1e6) ^ 0x1ABE1)       # (drawn apart: the table itself is what it was)
    lr_ = lab_rng.random()
    tb["labels"] = labels or ("odd" if lr_ < 0.3 else ("case" if lr_ < 0.4 and n >= 3 else "plain"))
    if scale >= 100 and rng.random() < 0.12:
        # whole numbers, integer dtype
        tb["Z"] = [[float(round(v)) for v in row] for row in Z]
        tb["Y"] = [[float(round(v)) for v in row] for row in Y]
        tb["dtype"] = "int"
    return tb


def labels(tb: dict):
    if tb.get("labels") == "odd":
        return ODD_REG_NAMES[: tb["m"]], ODD_SEC_NAMES[: tb["n"]], ODD_CAT_NAMES[: tb["k"]]
    if tb.get("labels") == "case":
        return REG_NAMES[: tb["m"]], CASE_SEC_NAMES[: tb["n"]], CAT_NAMES[: tb["k"]]
    return REG_NAMES[: tb["m"]], SEC_NAMES[: tb["n"]], CAT_NAMES[: tb["k"]]


def build_table(tb: dict, perm=None) -> pymrio.IOSystem:
    """perm: optional dict with 'rows', 'cols', 'ycols' index permutations (label order of the input)."""
    regs, secs, cats = labels(tb)
    ind = pd.MultiIndex.from_product([regs, secs], names=["region", "sector"])
    fdi = pd.MultiIndex.from_product([regs, cats], names=["region", "category"])
    Z = np.array(tb["Z"], dtype=float)
    Y = np.array(tb["Y"], dtype=float)
    x = Z.sum(axis=1) + Y.sum(axis=1)
    if "x" in tb:
        x = np.array(tb["x"], dtype=float)
    io = pymrio.IOSystem()
    if tb.get("dtype") == "int" and all(np.array_equal(a, np.rint(a)) for a in (Z, Y, x)) and float(np.max(np.abs(x))) < 1e15:
        # a table of whole numbers stored with an integer dtype (only when the values are integral: a stream that
        # edits a cell afterwards keeps a float table; and only below 1e15: a twin that multiplies the table by 1e6 would
        # otherwise overflow 64-bit integers in the sums, which is not what is being checked)
        Z, Y, x = Z.astype(np.int64), Y.astype(np.int64), x.astype(np.int64)
    io.Z = pd.DataFrame(Z, index=ind, columns=ind)
    io.Y = pd.DataFrame(Y, index=ind, columns=fdi)
    io.x = pd.DataFrame(x, index=ind, columns=["indout"])
    io.A = pymrio.calc_A(io.Z, io.x)
    if tb.get("A_round") is not None:
        # coefficients as published with a fixed number of decimals: consistent with Z and x to within the tolerance
        # the model accepts, not bit for bit
        io.A = io.A.round(int(tb["A_round"]))
    if perm is not None:
        r = perm.get("rows")
        c = perm.get("cols")
        yc = perm.get("ycols")
        if r is not None:
            io.Z = io.Z.iloc[r, :]
            io.Y = io.Y.iloc[r, :]
            io.x = io.x.iloc[r, :]
            io.A = io.A.iloc[r, :]
        if c is not None:
            io.Z = io.Z.iloc[:, c]
            io.A = io.A.iloc[:, c]
        if yc is not None:
            io.Y = io.Y.iloc[:, yc]
    return io


# ------------------------------------------------------------------ model configuration


def gen_model_cfg(rng: random.Random, tb: dict, shock_prone=False) -> dict:
    regs, secs, cats = labels(tb)
    cls = rng.choice(["psi", "psi", "base"])
    cfg = {
        "class": cls,
        "order_type": rng.choice(["alt", "noalt"]),
        "alpha_base": 1.0,
        "alpha_max": rng.choice([1.25, 1.25, 1.0, 1.5, 2.0]),
        "alpha_tau": rng.choice([365, 365, 1, 10, 30]),
        "rebuild_tau": rng.choice([60, 30, 5]),
        "main_inv_dur": rng.choice([90, 30, 5, 3, 2, 1]),
        "monetary_factor": rng.choice([10**6, 10**6, 10**3, 1]),
        "dt": 1,
        "year_factor": 365,
        "inf_sect": None,
        "inventory_dict": None,
        "capital": {"kind": "default"},
    }
    if rng.random() < 0.25:
        cfg["alpha_base"] = rng.choice([1.0, cfg["alpha_max"]])
    if rng.random() < 0.15:
        # the table's year is not 365 temporal units (weeks, months): accepted with a warning
        cfg["year_factor"] = rng.choice([52, 12, 360])
    if rng.random() < 0.25:
        # parameters typed as Python ints where the value is integral (accepted by the constructors)
        for kk in ("alpha_base", "alpha_max"):
            if float(cfg[kk]).is_integer() and rng.random() < 0.7:
                cfg[kk] = int(cfg[kk])
    r = rng.random()
    if r < 0.2:
        cfg["inf_sect"] = rng.sample(secs, rng.randint(1, max(1, len(secs) - 1)))
    elif r < 0.5:
        dd = {}
        for s in secs:
            dd[s] = rng.choice([90, 30, 5, 3, 2, 1, 0, "inf", "Infinity"] if rng.random() < 0.5 else [90, 30, 10, 5])
        cfg["inventory_dict"] = dd
        if rng.random() < 0.3:
            cfg["inf_sect"] = rng.sample(secs, 1)
    if random.Random(repr(cfg["alpha_tau"]) + repr(cfg["main_inv_dur"]) + repr(len(secs)) + repr(tb["Z"][0][0])).random() < 0.05:
        # every input kept with infinite inventories (nothing is ever resupplied)
        if cfg["inventory_dict"] is not None:
            cfg["inventory_dict"] = {s: "inf" for s in secs}
        else:
            cfg["inf_sect"] = list(secs)
    if cls == "psi":
        cfg["psi"] = rng.choice([0.8, 0.8, 1.0, 0.5, 0.95, 0.05, 1])
        if rng.random() < 0.3:
            cfg["restoration_tau"] = {s: rng.choice([1, 5, 60, 90]) for s in secs}
            if random.Random(repr(sorted(cfg["restoration_tau"].items()))).random() < 0.3:
                # a time written as a float (90.0): accepted as the integer it is
                k0 = random.Random(repr(sorted(cfg["restoration_tau"].items())) + "k").choice(list(secs))
                cfg["restoration_tau"][k0] = float(cfg["restoration_tau"][k0])
        else:
            cfg["restoration_tau"] = rng.choice([60, 1, 5, 30])
    kind = rng.choice(["default", "default", "dict", "ndarray", "series", "dataframe"])
    if kind == "dict":
        cfg["capital"] = {"kind": "dict", "values": {s: rng.choice([4, 2.5, 1, 10]) for s in secs}}
    elif kind != "default":
        # explicit capital per industry, proportional to output with random ratios
        N = tb["m"] * tb["n"]
        x = [sum(tb["Z"][i]) + sum(tb["Y"][i]) for i in range(N)]
        cfg["capital"] = {"kind": kind, "values": [xi * rng.uniform(0.5, 6.0) for xi in x]}
        if min(cfg["capital"]["values"]) >= 1000 and random.Random(repr(cfg["capital"]["values"][:2])).random() < 0.2:
            # capital given in whole units, integer dtype
            cfg["capital"]["values"] = [float(round(v)) for v in cfg["capital"]["values"]]
            cfg["capital"]["int_dtype"] = True
        # a labelled vector may list the industries in any order, and a DataFrame may hold them as rows or columns
        if kind in ("series", "dataframe") and rng.random() < 0.5:
            cfg["capital"]["shuffle"] = rng.randrange(1 << 30)
        if kind == "dataframe" and rng.random() < 0.4:
            cfg["capital"]["as_row"] = True
        if kind == "ndarray" and random.Random(repr(cfg["capital"]["values"][:2]) + "lst").random() < 0.4:
            cfg["capital"]["as_list"] = True
        if kind == "series" and random.Random(repr(cfg["capital"]["values"][:2]) + "cat").random() < 0.3:
            # the result of a groupby on categorical columns whose categories are in order of first appearance: the index levels
            # are categorical and their category order is not alphabetical
            cfg["capital"]["categorical"] = True
        if rng.random() < 0.2:
            # a ratio dictionary given as well: the explicit capital vector prevails
            cfg["capital"]["also_dict"] = {s: rng.choice([4, 2.5, 10]) for s in secs}
    if shock_prone:
        cfg["main_inv_dur"] = rng.choice([2, 3, 5])
        cfg["inventory_dict"] = None
        cfg["inf_sect"] = None if cfg.get("inf_sect") is not None and len(cfg["inf_sect"]) == len(secs) else cfg.get("inf_sect")
        if random.Random(repr(tb["Z"][0][0]) + "sp").random() < 0.4:
            # short inventories of different lengths: the input that runs short need not be the one with the shortest duration
            durs_ = random.Random(repr(tb["Z"][0][0]) + "sd")
            cfg["inventory_dict"] = {s: durs_.choice([2, 3, 5, 10, 30]) for s in secs}
        if cls == "psi":
            cfg["psi"] = rng.choice([0.8, 0.9, 1.0, 0.95])
            cfg["restoration_tau"] = rng.choice([60, 90, 30])
    # the model's monetary factor declared on the table object (IOSystem.monetary_factor, "Via the MRIOT" in the
    # documentation) instead of the constructor argument, which then keeps its default
    if random.Random(repr(sorted((k_, repr(v_)) for k_, v_ in cfg.items()))).random() < 0.2:
        cfg["mf_via_table"] = True
    if random.Random(repr(sorted((k_, repr(v_)) for k_, v_ in cfg.items())) + "np").random() < 0.12:
        cfg["np_scalars"] = True
    return cfg


def build_model(tb: dict, cfg: dict, io=None, capital_perm=None, dict_order=None):
    regs, secs, cats = labels(tb)
    io = io if io is not None else build_table(tb)
    ind = pd.MultiIndex.from_product([regs, secs], names=["region", "sector"])
    kw = dict(
        order_type=cfg["order_type"],
        alpha_base=cfg["alpha_base"],
        alpha_max=cfg["alpha_max"],
        alpha_tau=cfg["alpha_tau"],
        rebuild_tau=cfg["rebuild_tau"],
        main_inv_dur=cfg["main_inv_dur"],
        monetary_factor=cfg["monetary_factor"],
        temporal_units_by_step=cfg["dt"],
        iotable_year_to_temporal_unit_factor=cfg["year_factor"],
    )

    def reorder(dct):
        if dct is None or dict_order is None:
            return copy.deepcopy(dct)
        keys = list(dct.keys())
        if dict_order == "reversed":
            keys.reverse()
        else:
            rnd = random.Random(dict_order)
            rnd.shuffle(keys)
        return {kk: dct[kk] for kk in keys}

    if cfg.get("inf_sect") is not None:
        kw["infinite_inventories_sect"] = list(cfg["inf_sect"])
    if cfg.get("inventory_dict") is not None:
        kw["inventory_dict"] = reorder(cfg["inventory_dict"])
    cap = cfg["capital"]
    if cap.get("also_dict"):
        kw["productive_capital_to_VA_dict"] = reorder(cap["also_dict"])
    if cap["kind"] == "dict":
        kw["productive_capital_to_VA_dict"] = reorder(cap["values"])
    elif cap["kind"] == "ndarray":
        kw["productive_capital_vector"] = np.array(cap["values"], dtype="int64" if cap.get("int_dtype") and max(cap["values"]) < 1e15 else float)
        if cap.get("as_list"):
            kw["productive_capital_vector"] = [float(v) for v in cap["values"]]          # a plain Python list
    elif cap["kind"] == "series":
        s = pd.Series(cap["values"], index=ind, dtype="int64" if cap.get("int_dtype") and max(cap["values"]) < 1e15 else float)
        if capital_perm is None and cap.get("shuffle") is not None:
            capital_perm = list(range(len(ind)))
            random.Random(cap["shuffle"]).shuffle(capital_perm)
        if capital_perm is not None:
            s = s.iloc[capital_perm]
        if cap.get("categorical"):
            df_ = s.rename("v").reset_index().iloc[::-1]
            for lev_ in ("region", "sector"):
                df_[lev_] = pd.Categorical(df_[lev_], categories=list(df_[lev_].unique()))
            s = df_.groupby(["region", "sector"], observed=True)["v"].sum()
        if cap.get("drop") is not None:
            s = s.drop(s.index[cap["drop"]])          # (malformed stream) an industry without a value
        kw["productive_capital_vector"] = s
    elif cap["kind"] == "dataframe":
        s = pd.DataFrame({"capital": cap["values"]}, index=ind, dtype="int64" if cap.get("int_dtype") and max(cap["values"]) < 1e15 else float)
        if capital_perm is None and cap.get("shuffle") is not None:
            capital_perm = list(range(len(ind)))
            random.Random(cap["shuffle"]).shuffle(capital_perm)
        if capital_perm is not None:
            s = s.iloc[capital_perm]
        if cap.get("drop") is not None:
            s = s.drop(s.index[cap["drop"]])
        if cap.get("as_row"):
            s = s.T
        kw["productive_capital_vector"] = s
    if cfg.get("np_scalars"):
        # parameters arriving as numpy scalars (read from an array or a DataFrame of scenarios)
        for kk in ("alpha_base", "alpha_max"):
            kw[kk] = np.float64(kw[kk])
        for kk in ("alpha_tau", "rebuild_tau", "main_inv_dur", "temporal_units_by_step", "iotable_year_to_temporal_unit_factor"):
            if float(kw[kk]).is_integer():
                kw[kk] = np.int64(kw[kk])
    if cfg.get("mf_via_table"):
        io.monetary_factor = kw.pop("monetary_factor")
    if cfg["class"] == "psi":
        rt = cfg.get("restoration_tau", 60)
        kw["psi_param"] = cfg.get("psi", 0.8)
        kw["inventory_restoration_tau"] = reorder(rt) if isinstance(rt, dict) else rt
        return ARIOPsiModel(io, **kw)
    return ARIOBaseModel(io, **kw)


# ------------------------------------------------------------------ events


def user_swapped(elapsed_temporal_unit, recovery_tau, init_impact_stock, speed=3):
    """a user-supplied recovery function whose parameters are not in the order of the built-in ones:
    linear recovery over `speed` times recovery_tau"""
    return init_impact_stock * max(0.0, 1.0 - elapsed_temporal_unit / (speed * recovery_tau))


def user_kwonly(elapsed_temporal_unit, *, init_impact_stock, recovery_tau):
    """a user-supplied recovery function with keyword-only parameters: the damage halves every recovery_tau"""
    return init_impact_stock * 0.5 ** (elapsed_temporal_unit / recovery_tau)


def user_fixed_speed(elapsed_temporal_unit, init_impact_stock, recovery_tau):
    """a user-supplied recovery function that is NOT proportional to the initial damage: every industry is repaired at the same
    absolute speed (the largest damage is gone after 2 recovery_tau), so smaller damages are gone sooner"""
    speed = np.max(np.asarray(init_impact_stock, dtype=float)) / (2.0 * recovery_tau)
    return np.maximum(0.0, init_impact_stock - speed * elapsed_temporal_unit)


def user_jump(elapsed_temporal_unit, init_impact_stock, recovery_tau):
    """a user-supplied recovery function whose value at elapsed time 0 is not the initial damage: 40 % is restored as soon as
    the event ends, the rest linearly over recovery_tau"""
    return 0.6 * init_impact_stock * max(0.0, 1.0 - elapsed_temporal_unit / recovery_tau)


def user_init_first(init_impact_stock, elapsed_temporal_unit, recovery_tau):
    """a user-supplied recovery function with the documented parameter names in another order (the initial damage first):
    linear recovery over 2 recovery_tau"""
    return init_impact_stock * max(0.0, 1.0 - elapsed_temporal_unit / (2.0 * recovery_tau))


def user_allkw(*, init_impact_stock, elapsed_temporal_unit, recovery_tau):
    """a user-supplied recovery function whose three documented parameters are all keyword-only: the damage is divided by
    1 + elapsed / recovery_tau"""
    return init_impact_stock / (1.0 + elapsed_temporal_unit / recovery_tau)


import functools as _functools  # noqa: E402
from boario.utils import recovery_functions as _rf  # noqa: E402

# a built-in curve with one of its optional parameters pre-bound by the caller (scaling 1 instead of the default 4)
user_partial = _functools.partial(_rf.convexe_recovery_scaled, scaling_factor=1)

USER_CURVES = {"user_partial": user_partial, "user_init_first": user_init_first, "user_allkw": user_allkw, "user_swapped": user_swapped, "user_kwonly": user_kwonly, "user_fixed_speed": user_fixed_speed, "user_jump": user_jump}


def curve_arg(name):
    return USER_CURVES.get(name, name)



def _key(r, s):
    return f"{r}|{s}"


def gen_event(rng: random.Random, tb: dict, cfg: dict, T: int, etype=None, capital=None, max_occ=None) -> dict:
    regs, secs, cats = labels(tb)
    etype = etype or rng.choice(["rebuild", "recovery", "arbitrary"])
    max_occ = max_occ or max(1, T // 2)
    occ = rng.randint(1, max_occ)
    dur = rng.randint(1, max(1, min(5, T - occ)))
    n_aff = rng.randint(1, min(3, len(regs) * len(secs)))
    if rng.random() < 0.08:
        n_aff = len(regs) * len(secs)          # an event that hits every industry
    inds = rng.sample([(r, s) for r in regs for s in secs], n_aff)
    if rng.random() < 0.06 and T - occ >= 1:
        dur = T - occ                          # in force up to the very end of the horizon (occurrence + duration = horizon)
    ev = {"type": etype, "occ": occ, "dur": dur, "name": None}
    if etype == "arbitrary":
        ev["impact"] = {_key(r, s): rng.choice([0.1, 0.3, 0.5, 0.9, 1.0, 0.05]) for r, s in inds}
        ev["recovery_tau"] = rng.choice([1, 2, 3, 5, 10])
        ev["curve"] = rng.choice(["linear", "linear", "convexe", "convexe noscale", "concave", "user_swapped", "user_kwonly", "user_fixed_speed", "user_jump", "user_init_first", "user_allkw", "user_partial"])
        return ev
    # (factors that are not powers of ten are documented too: currency conversion)
    emf = rng.choice([cfg["monetary_factor"], cfg["monetary_factor"], 1, 10**3, 10**6, 800, 2_500_000])
    ev["emf"] = emf
    mf = cfg["monetary_factor"]
    # impacts as a fraction of the capital stock of the industry, expressed in the event's unit
    imp = {}
    for r, s in inds:
        i = regs.index(r) * len(secs) + secs.index(s)
        K = capital[i] if capital is not None else 1.0
        frac = rng.choice([0.01, 0.05, 0.1, 0.2, 0.3])
        val = K * frac * mf / emf
        if val > 0:
            imp[_key(r, s)] = val
    if not imp:
        imp[_key(*inds[0])] = 1.0 * mf / emf
    ev["impact"] = imp
    if rng.random() < 0.4:
        hh = rng.sample([(r, c) for r in regs for c in cats], rng.randint(1, min(2, len(regs) * len(cats))))
        tot = sum(imp.values())
        ev["house"] = {_key(r, c): tot * rng.choice([0.1, 0.5, 1.0]) for r, c in hh}
        r2 = random.Random(repr(sorted(imp.items())))
        rest = [(r, c) for r in regs for c in cats if (r, c) not in hh]
        if rest and r2.random() < 0.3:
            # a household vector that lists a column with no damage (an explicit 0, as in a table of damages by region)
            ev["house"][_key(*r2.choice(rest))] = 0.0
    else:
        ev["house"] = None
    if etype != "arbitrary" and min(imp.values()) >= 1000 and random.Random(repr(sorted(imp.items())) + "i").random() < 0.15:
        # damages given in whole units of the event's currency, integer dtype
        ev["impact"] = {kk: float(round(v)) for kk, v in imp.items()}
        if ev["house"]:
            ev["house"] = {kk: float(round(v)) for kk, v in ev["house"].items()}
        ev["int_dtype"] = True
    # which public constructor builds it (the scalar one is given weights proportional to the impacts)
    ev["ctor"] = rng.choice(["series", "series", "industries"])
    if etype == "rebuild":
        ev["rebuild_tau"] = rng.choice([1, 2, 2, 3, 5, 30, 60])
        k = rng.randint(1, min(3, len(secs)))
        rs = rng.sample(secs, k)
        if k == 1:
            sh = [1.0]
        elif k == 2:
            a = rng.choice([0.5, 0.7, 0.25, 0.9])
            sh = [a, 1.0 - a]
        else:
            sh = rng.choice([[0.5, 0.3, 0.2], [0.7, 0.2, 0.1]])        # (0.7 + 0.2 + 0.1 is 0.9999999999999999 in floats)
        ev["reb_sectors"] = dict(zip(rs, sh))
        ev["factor"] = rng.choice([1.0, 1.0, 0.9, 0.3])
        if random.Random(repr(occ) + repr(dur) + repr(n_aff) + "rf").random() < 0.12:
            ev["factor"] = 2.0
            ev["np_factor"] = True          # handed over as numpy.int64(2), as read from an integer array
        ev["shares_series"] = rng.random() < 0.35
    else:
        ev["recovery_tau"] = rng.choice([1, 2, 3, 5, 10, 30])
        ev["curve"] = rng.choice(["linear", "linear", "convexe", "convexe noscale", "concave", "user_swapped", "user_kwonly", "user_fixed_speed", "user_jump", "user_init_first", "user_allkw", "user_partial"])
    return ev


def _mi(dct, names, int_dtype=False):
    idx = pd.MultiIndex.from_tuples([tuple(kk.split("|")) for kk in dct.keys()], names=names)
    vals = list(dct.values())
    if int_dtype and all(float(v).is_integer() and abs(v) < 1e15 for v in vals):
        return pd.Series([int(v) for v in vals], index=idx, dtype="int64")      # whole amounts, integer dtype
    return pd.Series(vals, index=idx, dtype=float)


def _factor(ev):
    if ev.get("np_factor") and float(ev["factor"]).is_integer():
        return np.int64(int(ev["factor"]))
    return ev["factor"]


def build_event(ev: dict, order=None, shared=None):
    """order: optional seed to permute the entries of every labelled input of the event.
    shared: optional dict in which rebuilding-share Series are kept, so that events declaring the same shares are given
    the very same Series object (as a caller reusing one Series would do)."""

    def reorder(dct):
        if dct is None or order is None:
            return dict(dct) if dct is not None else None
        keys = list(dct.keys())
        random.Random(order).shuffle(keys)
        return {kk: dct[kk] for kk in keys}

    imp = _mi(reorder(ev["impact"]), ["region", "sector"], int_dtype=bool(ev.get("int_dtype")))
    if ev.get("categorical"):
        # what a groupby on categorical columns returns: index levels are categorical, categories in order of first appearance
        df_ = imp.rename("v").reset_index()
        for lev_ in ("region", "sector"):
            df_[lev_] = pd.Categorical(df_[lev_], categories=list(df_[lev_].unique()))
        imp = df_.groupby(["region", "sector"], observed=True)["v"].sum()
    if ev["type"] == "arbitrary":
        return bev.from_series(
            imp, event_type="arbitrary", occurrence=ev["occ"], duration=ev["dur"], name=ev.get("name"),
            recovery_tau=ev["recovery_tau"], recovery_function=curve_arg(ev["curve"]),
        )
    house = _mi(reorder(ev["house"]), ["region", "category"], int_dtype=bool(ev.get("int_dtype"))) if ev.get("house") else None

    def shares():
        dct = reorder(ev["reb_sectors"])
        if not ev.get("shares_series"):
            return dct
        key = tuple(dct.items())
        if shared is not None and key in shared:
            return shared[key]
        ser = pd.Series(dct, dtype=float)
        if shared is not None:
            shared[key] = ser
        return ser
    if ev.get("ctor") == "industries":
        # the same event through the scalar constructor: total impact + industry weights proportional to the impacts
        dct = reorder(ev["impact"])
        total = float(sum(dct.values()))
        inds = [tuple(kk.split("|")) for kk in dct]
        w = pd.Series(list(dct.values()), index=pd.MultiIndex.from_tuples(inds, names=["region", "sector"]), dtype=float)
        kw = dict(affected_industries=inds, impact_distrib=w, occurrence=ev["occ"], duration=ev["dur"], name=ev.get("name"),
                  event_monetary_factor=ev["emf"], households_impact=house)
        if ev["type"] == "rebuild":
            return bev.from_scalar_industries(total, event_type="rebuild", rebuild_tau=ev["rebuild_tau"],
                                              rebuilding_sectors=shares(), rebuilding_factor=_factor(ev), **kw)
        return bev.from_scalar_industries(total, event_type="recovery", recovery_tau=ev["recovery_tau"],
                                          recovery_function=curve_arg(ev["curve"]), **kw)
    if ev["type"] == "rebuild":
        return bev.from_series(
            imp, event_type="rebuild", occurrence=ev["occ"], duration=ev["dur"], name=ev.get("name"),
            event_monetary_factor=ev["emf"], households_impact=house, rebuild_tau=ev["rebuild_tau"],
            rebuilding_sectors=shares(), rebuilding_factor=_factor(ev),
        )
    return bev.from_series(
        imp, event_type="recovery", occurrence=ev["occ"], duration=ev["dur"], name=ev.get("name"),
        event_monetary_factor=ev["emf"], households_impact=house, recovery_tau=ev["recovery_tau"],
        recovery_function=curve_arg(ev["curve"]),
    )


# ------------------------------------------------------------------ whole scenarios


def avoid_f13(sc, rng):
    """avoid the inputs of known finding F13 (an affected industry / household column that buys nothing from a rebuilding
    sector): pick rebuilding sectors that do have suppliers, else make the event a recovery one"""
    tb = sc["table"]
    if True:
        regs, secs, cats = labels(tb)
        n_, m_, k_ = tb["n"], tb["m"], tb["k"]
        for ev in sc["events"]:
            if ev["type"] != "rebuild":
                continue
            oksecs = []
            for si, sname in enumerate(secs):
                good = True
                for key in ev["impact"]:
                    r, s = key.split("|")
                    j = regs.index(r) * n_ + secs.index(s)
                    if sum(tb["Z"][rr * n_ + si][j] for rr in range(m_)) == 0:
                        good = False
                for key in (ev.get("house") or {}):
                    r, c = key.split("|")
                    j = regs.index(r) * k_ + cats.index(c)
                    if sum(tb["Y"][rr * n_ + si][j] for rr in range(m_)) == 0:
                        good = False
                if good:
                    oksecs.append(sname)
            if all(s in oksecs for s in ev["reb_sectors"]):
                continue
            if not oksecs:
                ev["type"] = "recovery"
                ev["recovery_tau"] = ev.pop("rebuild_tau")
                ev["curve"] = "linear"
                ev.pop("reb_sectors")
                ev.pop("factor")
                continue
            shares = list(ev["reb_sectors"].values())[: len(oksecs)]
            tot_sh = sum(shares)
            chosen = rng.sample(oksecs, len(shares))
            ev["reb_sectors"] = {s: v / tot_sh for s, v in zip(chosen, shares)}
            if len(shares) == 1:
                ev["reb_sectors"] = {chosen[0]: 1.0}

    return sc


def gen_scenario(seed: int, stream: str = "shocked", **over) -> dict:
    rng = random.Random(seed)
    if stream == "starve":
        return gen_starve(seed, rng)
    if stream == "eventfree" and "scale" not in over and rng.random() < 0.25:
        # very small magnitudes (a table in a huge unit): every flow below NumPy's absolute tolerance 1e-8
        over = dict(over, scale=10.0 ** rng.choice([-9, -12, -15]))
    tiny_ = (stream == "eventfree" and random.Random(seed ^ 0x71).random() < 0.3) or bool(over.get("tiny"))
    if tiny_ and "m" not in over:
        over = dict(over, m=random.Random(seed ^ 0x75).choice([2, 2, 3]))      # (its sector has another regional supplier)
    if tiny_ and random.Random(seed ^ 0x76).random() < 0.7:
        # mixed magnitudes: ordinary industries above one currency unit per step, the tiny one below
        over = dict(over, scale=random.Random(seed ^ 0x77).choice([1.0, 1e3]),
                    cfg=dict(over.get("cfg", {}), monetary_factor=random.Random(seed ^ 0x78).choice([10**6, 10**6, 10**3])))
    if stream == "eventfree" and seed % 10 == 7 and "kind" not in over:
        over = dict(over, kind="dense", neg_va=True)
    tb = gen_table(rng, **{kk: over[kk] for kk in ("m", "n", "k", "kind", "scale", "labels", "neg_va") if kk in over})
    if tiny_:
        # one industry nine orders of magnitude smaller than the others (its output per step is below one currency unit
        # of most monetary factors, next to ordinary industries)
        N_ = tb["m"] * tb["n"]
        z_ = random.Random(seed ^ 0x72).randrange(N_)
        for j_ in range(N_):
            tb["Z"][z_][j_] *= 1e-9
            if j_ != z_:
                tb["Z"][j_][z_] *= 1e-9
        tb["Y"][z_] = [v * 1e-9 for v in tb["Y"][z_]]
        tb["kind"] = tb["kind"] + "+tiny_industry"
        tb.pop("dtype", None)
        over = dict(over, _tiny_industry=True)
    shock_prone = stream in ("shortage", "crash")
    cfg = gen_model_cfg(rng, tb, shock_prone=shock_prone)
    cfg.update(over.get("cfg", {}))
    if over.get("_tiny_industry") and random.Random(seed ^ 0x73).random() < 0.85:
        # ... with a base overproduction factor above 1 (every capacity ratio is then alpha_base, not 1)
        if float(cfg["alpha_max"]) <= 1.0:
            cfg["alpha_max"] = 1.5
        cfg["alpha_base"] = cfg["alpha_max"]
        cfg["order_type"] = random.Random(seed ^ 0x74).choice(["alt", "alt", "alt", "noalt"])
    T = over.get("T", rng.choice([12, 20, 30]) if stream != "mild" else rng.choice([30, 45]))
    sc = {"seed": seed, "stream": stream, "table": tb, "model": cfg, "T": T, "events": [],
          "sim": {"register_stocks": False, "save_records": [], "events_mode": "one"}}
    orng = random.Random(seed ^ 0x5EED)          # options of the simulation: drawn apart, the streams above stay as they were
    sc["sim"]["events_mode"] = orng.choice(["one", "one", "list", "ctor"])
    if orng.random() < 0.3:
        sc["sim"]["register_stocks"] = True
    if orng.random() < 0.15:
        sc["sim"]["show_progress"] = True
    if orng.random() < 0.25:
        # some records kept as files, the others in memory (inputs_stocks needs register_stocks)
        names = [r for r in RECORD_NAMES if r != "inputs_stocks" or sc["sim"]["register_stocks"]]
        sc["sim"]["save_records"] = sorted(orng.sample(names, orng.randint(1, 3)))
    if stream == "eventfree":
        # step lengths other than 1 (the documentation warns about them, but they are accepted)
        if rng.random() < 0.3:
            cfg["dt"] = rng.choice([2, 3, 5])
            sc["T"] = sc["T"] * cfg["dt"]
            if random.Random(seed ^ 0x7AB).random() < 0.3:
                sc["T"] += random.Random(seed ^ 0x7AC).randint(1, cfg["dt"] - 1)      # (horizon not a multiple of the step length)
            cfg["alpha_tau"] = max(cfg["alpha_tau"], cfg["dt"])
            if isinstance(cfg.get("restoration_tau"), dict):
                cfg["restoration_tau"] = {k_: max(v_, cfg["dt"]) for k_, v_ in cfg["restoration_tau"].items()}
            elif cfg.get("restoration_tau") is not None:
                cfg["restoration_tau"] = max(cfg["restoration_tau"], cfg["dt"])
        return sc
    # step lengths other than 1 with events: occurrences and durations are temporal units and need not fall on
    # the grid of simulated times; characteristic times need not be multiples of the step
    if over.get("dt") is not None:
        cfg["dt"] = over["dt"]
    elif stream not in ("starve",) and rng.random() < 0.25:
        cfg["dt"] = rng.choice([2, 3, 5, 7])
    if cfg["dt"] != 1:
        # characteristic times of the model are at least one step (the properties quantify over tau >= 1 step: with a
        # step longer than alpha_tau or the restoration time the per-step rates dt / tau exceed 1, the explicit scheme
        # overshoots its targets and amplifies rounding noise by a constant factor per step — outside the domain)
        cfg["alpha_tau"] = max(cfg["alpha_tau"], cfg["dt"])
        if isinstance(cfg.get("restoration_tau"), dict):
            cfg["restoration_tau"] = {k_: max(v_, cfg["dt"]) for k_, v_ in cfg["restoration_tau"].items()}
        elif cfg.get("restoration_tau") is not None:
            cfg["restoration_tau"] = max(cfg["restoration_tau"], cfg["dt"])
        T = T * cfg["dt"] if T * cfg["dt"] <= 90 else T * 2
        T -= T % cfg["dt"]
        if random.Random(seed ^ 0x7AB).random() < 0.3:
            T += random.Random(seed ^ 0x7AC).randint(1, cfg["dt"] - 1)      # a horizon that is not a multiple of the step length
        sc["T"] = T
    # capital of the built model is needed to size impacts
    model = build_model(tb, cfg)
    K = [float(v) for v in np.asarray(model.productive_capital, dtype=float).ravel()]
    if stream == "crash":
        cfg["main_inv_dur"] = 2
        if cfg["class"] == "psi":
            cfg["psi"] = rng.choice([0.05, 0.3, 0.5])
            cfg["restoration_tau"] = 90
    nev = over.get("nev", rng.choice([1, 1, 2, 2, 3, 4]))
    types = over.get("types")
    for i in range(nev):
        et = types[i % len(types)] if types else None
        ev = gen_event(rng, tb, cfg, T, etype=et, capital=K, max_occ=over.get("max_occ"))
        if stream == "mild" and ev["type"] != "arbitrary":
            # small shocks: the recovery tail passes through the closeness tolerances of the model
            f = rng.choice([1e-2, 1e-3, 1e-4])
            for kk in ev["impact"]:
                ev["impact"][kk] *= f
            if ev.get("house"):
                for kk in ev["house"]:
                    ev["house"][kk] *= f
        if stream == "mild" and ev["type"] == "arbitrary":
            for kk in ev["impact"]:
                ev["impact"][kk] = rng.choice([1e-3, 1e-4, 0.01])
        if stream in ("shortage", "crash") and ev["type"] != "arbitrary":
            # strong shocks: a large share of capital
            for kk in ev["impact"]:
                ev["impact"][kk] *= rng.choice([2.0, 3.0])
        sc["events"].append(ev)
    if not over.get("allow_f13"):
        avoid_f13(sc, rng)
    # keep the sum of capital impacts per industry below the capital stock (else: rejection stream)
    if not over.get("allow_excess"):
        regs, secs, cats = labels(tb)
        tot = {}
        for ev in sc["events"]:
            if ev["type"] == "arbitrary":
                continue
            for kk, v in ev["impact"].items():
                tot[kk] = tot.get(kk, 0.0) + v * ev["emf"] / cfg["monetary_factor"]
        for kk, v in tot.items():
            r, s = kk.split("|")
            i = regs.index(r) * len(secs) + secs.index(s)
            if v > 0.95 * K[i]:
                f = 0.9 * K[i] / v
                for ev in sc["events"]:
                    if ev["type"] != "arbitrary" and kk in ev["impact"]:
                        ev["impact"][kk] *= f
        # an industry without capital cannot lose any: drop such entries, and events left without impact
        for ev in sc["events"]:
            if ev["type"] != "arbitrary":
                ev["impact"] = {kk: v for kk, v in ev["impact"].items() if v > 0}
        sc["events"] = [ev for ev in sc["events"] if ev["impact"]]
    return sc


def gen_starve(seed: int, rng: random.Random) -> dict:
    """an input used in tiny amounts (below the technology threshold, hence never constraining) whose
    suppliers lose almost all capacity for a long time while its inventory is short"""
    m, n, k = rng.choice([1, 2]), rng.choice([2, 3]), 1
    tb = gen_table(rng, m=m, n=n, k=k, kind="dense", scale=10.0 ** rng.choice([0, 3]))
    regs, secs, cats = labels(tb)
    N = m * n
    s = rng.randrange(n)                        # the starved input
    j = rng.choice([jj for jj in range(N) if jj % n != s])   # a buyer from another sector
    for r in range(m):
        tb["Z"][r * n + s][j] = 1e-9 * tb["scale"]
    tb["kind"] = "below_thr"
    negligible = random.Random(seed ^ 0x51AB).random() < 0.4          # (drawn apart: the other draws stay as they were)
    if negligible:
        # a sector that buys nothing (pure value added) and sells to the other industries in negligible amounts only, on a table
        # in large units: when it loses capacity, the only inventories out of balance are those of an input below the technology
        # threshold -- flows far above the closeness tolerance in absolute terms, and they must be accounted for
        f_ = 1e6 / tb["scale"]
        tb["Z"] = [[v * f_ for v in row] for row in tb["Z"]]
        tb["Y"] = [[v * f_ for v in row] for row in tb["Y"]]
        tb["scale"] = 1e6
        for r in range(m):
            for jj in range(N):
                tb["Z"][r * n + s][jj] = 0.0 if jj % n == s else 1e-9 * tb["scale"] * (1 + (r + jj) % 3)
                tb["Z"][jj][r * n + s] = 0.0
        tb["kind"] = "below_thr"
    cfg = gen_model_cfg(rng, tb)
    cfg["inventory_dict"] = {sec: (rng.choice([2, 3]) if sec == secs[s] else 90) for sec in secs}
    cfg["inf_sect"] = None
    cfg["main_inv_dur"] = 90
    if cfg["class"] == "psi":
        cfg["psi"] = rng.choice([0.8, 0.5])
        cfg["restoration_tau"] = rng.choice([60, 90])
    T = 40
    ev = {"type": "arbitrary", "occ": 2, "dur": 30, "name": None,
          "impact": {f"{r}|{secs[s]}": rng.choice([0.9, 0.95, 1.0]) for r in regs}, "recovery_tau": 5, "curve": "linear"}
    if negligible:
        ev["impact"] = {kk: 0.5 for kk in ev["impact"]}
    return {"seed": seed, "stream": "starve", "table": tb, "model": cfg, "T": T, "events": [ev],
            "sim": {"register_stocks": False, "save_records": [], "events_mode": "one"}}


RECORD_NAMES = ["production_realised", "production_capacity", "final_demand", "intermediate_demand", "rebuild_demand",
                "overproduction", "final_demand_unmet", "rebuild_prod", "inputs_stocks", "limiting_inputs",
                "productive_capital_to_recover"]


def build_sim(sc: dict, model=None, outdir=None):
    model = model if model is not None else build_model(sc["table"], sc["model"])
    own_dir = None
    if sc["sim"].get("save_records") and outdir is None:
        import tempfile
        own_dir = tempfile.mkdtemp(prefix="boario_verif_")
        outdir = own_dir
    kw = dict(n_temporal_units_to_sim=sc["T"], register_stocks=sc["sim"].get("register_stocks", False))
    if sc["sim"].get("show_progress"):
        kw["show_progress"] = True
    if sc["sim"].get("save_records"):
        kw["save_records"] = sc["sim"]["save_records"]
    if outdir is not None:
        kw["boario_output_dir"] = outdir
    mode = sc["sim"].get("events_mode", "one")
    _shared = {}
    evs = [build_event(e, shared=_shared) for e in sc["events"]]
    if mode == "ctor":
        sim = Simulation(model, events_list=evs, **kw)
    else:
        sim = Simulation(model, **kw)
        if mode == "list":
            sim.add_events(evs)
        else:
            for e in evs:
                sim.add_event(e)
    if own_dir is not None:
        import shutil
        import weakref
        weakref.finalize(sim, shutil.rmtree, own_dir, True)
    return sim


def summarize(sc: dict) -> dict:
    tb, cfg = sc["table"], sc["model"]
    return {"seed": sc["seed"], "stream": sc["stream"], "dims": [tb["m"], tb["n"], tb["k"]], "table": tb["kind"],
            "scale": tb["scale"], "class": cfg["class"], "order": cfg["order_type"], "psi": cfg.get("psi"),
            "inv": cfg["main_inv_dur"], "inv_dict": cfg.get("inventory_dict"), "mf": cfg["monetary_factor"], "T": sc["T"],
            "capital": cfg["capital"]["kind"],
            "events": [{"type": e["type"], "occ": e["occ"], "dur": e["dur"], "tau": e.get("rebuild_tau") or e.get("recovery_tau"),
                        "curve": e.get("curve"), "n_aff": len(e["impact"]), "house": bool(e.get("house")),
                        "reb_sectors": e.get("reb_sectors"), "factor": e.get("factor"), "emf": e.get("emf")} for e in sc["events"]]}
