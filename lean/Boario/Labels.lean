/-
  Boario.Labels — canonicalisation of labelled inputs: every labelled input (table axes, dictionaries,
  Series) is consumed in lexicographic label order, matched by label and never by position.
  Labels are represented by naturals (their rank in the lexicographic order of the label strings).
-/
import Boario.Basic

namespace Boario.Labels

abbrev Labelled (α : Type) := List (Nat × α)

/-- insertion into a list sorted by key -/
def insert {α : Type} (p : Nat × α) : Labelled α → Labelled α
  | [] => [p]
  | q :: qs => if p.1 ≤ q.1 then p :: q :: qs else q :: insert p qs

/-- `sorted(...)` / `sort_index()` / `reindex(sorted(...))`: sort by label -/
def canon {α : Type} (l : Labelled α) : Labelled α := l.foldr insert []

/-- the values in canonical order: what the model's arrays hold -/
def values {α : Type} (l : Labelled α) : List α := (canon l).map (·.2)

/-- a labelled table: rows labelled, each row a labelled list of cells -/
def canonTable {α : Type} (t : Labelled (Labelled α)) : Labelled (Labelled α) :=
  canon (t.map fun r => (r.1, canon r.2))

/-- `_thin_to_wide`: place labelled values into a dense vector over `n` labels, zeros elsewhere -/
def widen (n : Nat) (l : Labelled Rat) : List Rat :=
  (List.range n).map fun k => ((l.find? fun p => p.1 = k).map (·.2)).getD 0

end Boario.Labels
