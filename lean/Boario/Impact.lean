/-
  Boario.Impact — distributing a scalar impact (event constructors of `boario/event.py`), on
  association lists with labels represented by naturals.

  Python                                      | here
  --------------------------------------------+---------------------------
  distribute_impact_industries, _level_distrib | `levelDistrib`, `distributeIndustries`
  _distrib_equi_level                          | `equalShares`
  _from_scalar_regions_sectors (outer product) | `regionsSectors`
  _from_series (drop zeros, reject ≤ 0)        | `fromSeries`
-/
import Boario.Basic

namespace Boario.Impact

inductive Reject where
  | nullImpact | empty | weightsMissing | notNormalisable | negative
  deriving DecidableEq, Repr

abbrev Labelled := List (Nat × Rat)

def lookup (w : Labelled) (k : Nat) : Option Rat := (w.find? fun p => p.1 = k).map (·.2)

def total (l : Labelled) : Rat := sumList (l.map (·.2))

/-- `_from_series`: empty → reject; zeros dropped; any non-positive entry → reject -/
def fromSeries (l : Labelled) : Except Reject Labelled :=
  if l.isEmpty then .error .empty
  else
    let nz := l.filter fun p => p.2 ≠ 0
    if nz.isEmpty then .error .empty
    else if nz.any fun p => p.2 ≤ 0 then .error .negative else .ok nz

/-- `_level_distrib`: equal shares, or the supplied weights restricted to the affected labels and
    renormalised (`x / sum(x)`); weights must cover the affected set -/
def levelDistrib (aff : List Nat) (w : Option Labelled) : Except Reject Labelled :=
  match w with
  | none => .ok (aff.map fun k => (k, 1 / (aff.length : Rat)))
  | some w =>
    if aff.all fun k => (lookup w k).isSome then
      let sel : Labelled := aff.map fun k => (k, (lookup w k).getD 0)
      let tot := total sel
      if tot = 0 then .error .notNormalisable      -- 0/0: NaN, rejected by `_distribute_impact`
      else .ok (sel.map fun p => (p.1, p.2 / tot))
    else .error .weightsMissing

/-- `distribute_impact_industries` followed by `_from_series` -/
def distributeIndustries (impact : Rat) (aff : List Nat) (w : Option Labelled) : Except Reject Labelled :=
  if impact ≤ 0 then .error .nullImpact
  else if aff.isEmpty then .error .empty
  else match levelDistrib aff w with
    | .error e => .error e
    | .ok shares => fromSeries (shares.map fun p => (p.1, impact * p.2))

/-- pair label of (region, sector) given the number of sector labels -/
def pairLabel (nSec : Nat) (r s : Nat) : Nat := r * nSec + s

/-- `_from_scalar_regions_sectors`: outer product of the regional and sectoral shares -/
def regionsSectors (impact : Rat) (regs secs : List Nat) (nSec : Nat)
    (wr ws : Option Labelled) : Except Reject Labelled :=
  if impact ≤ 0 then .error .nullImpact
  else if regs.isEmpty ∨ secs.isEmpty then .error .empty
  else match levelDistrib regs wr, levelDistrib secs ws with
    | .ok sr, .ok ss =>
      fromSeries (sr.flatMap fun pr => ss.map fun ps => (pairLabel nSec pr.1 ps.1, impact * (pr.2 * ps.2)))
    | .error e, _ => .error e
    | _, .error e => .error e

end Boario.Impact
