/-
  C02 — Every step follows the documented ARIO recurrences (step refinement).

  `ArioSpec` states the documented equations (docs/source/boario-math.rst, "Model dynamics") one per
  field, with `∑` and no masks, caches or branches of the code.  The code-shaped model (`Boario.Econ`,
  `Boario.Sim`) and this equation-shaped spec are different texts; the theorems below are the bridge.
  Where the prose of the documentation leaves a reading open, the reading fixed by the other properties
  is used (C03: only real inputs — above the technology threshold — constrain production and the fill
  ratio is capped at 1; C06 / C18: both classes order the inputs used plus their share of the gap, and
  the capacity-weighted variant weights by capacity / initial output).
-/
import Boario.Lemmas.Sums
import Boario.Lemmas.Spec
import Boario.Init

namespace Boario
variable {d : Dims}

open Finset in
/-- total demand addressed to an industry: orders + final demand + reconstruction demand -/
def specDemand (e : Econ d) (i : Ind d) : Rat :=
  (∑ j : Ind d, e.orders i j) + (∑ c : Fd d, e.fd i c)
    + (e.reb.map fun b => (∑ j : Ind d, b.indus i j) + (∑ c : Fd d, b.house i c)).sum

/-- production capacity  x^Cap = α (1 − Δ) x(0) -/
def specCap (p : Params d) (e : Econ d) (f : Ind d) : Rat := e.alpha f * (1 - e.deltaTot f) * p.x0 f

/-- optimal production  x^Opt = min(d^Tot, x^Cap) -/
def specOpt (p : Params d) (e : Econ d) (f : Ind d) : Rat := min (specDemand e f) (specCap p e f)

/-- inventory constraint  ω^Cons = s · x^Opt · a · ψ  (0 for an input with infinite inventory) -/
def specCons (p : Params d) (e : Econ d) (s : Fin d.n) (f : Ind d) : Rat :=
  match p.invDur s with
  | some dur => dur * specOpt p e f * p.a s f * p.psi
  | none => 0

/-- demand net of the reconstruction deliveries of the step (what the order module sees): the orders
    and final demand of the step plus what is still asked for reconstruction after deliveries -/
def specDemandNet (e e' : Econ d) (i : Ind d) : Rat :=
  (∑ j : Ind d, e.orders i j) + (∑ c : Fd d, e.fd i c)
    + (e'.reb.map fun b => (∑ j : Ind d, b.indus i j) + (∑ c : Fd d, b.house i c)).sum

/-- a real input of `f` whose inventory is below its constraint -/
def specShort (p : Params d) (e : Econ d) (s : Fin d.n) (f : Ind d) : Prop :=
  p.thr s f = true ∧ (p.invDur s).isSome = true ∧ e.stock s f < specCons p e s f

/-- The documented equations relating the state `e` at the beginning of the economic part of a step
    (after the event phase) to the state `e'` at its end; `op` says whether the overproduction module
    runs at this step (it does from the third step on). -/
structure ArioSpec (p : Params d) (op : Bool) (e e' : Econ d) : Prop where
  /-- overproduction module: scarcity ζ = (d − x)/d of the previous step;
      α' = α + (α^max − α) ζ / τ_α if ζ > 0, α + (α^b − α) / τ_α otherwise (never below 1) -/
  overprod : ∀ f, e'.alpha f =
    if op then
      (let zeta := if specDemand e f = 0 then 0 else (specDemand e f - e.prod f) / specDemand e f
       max 1 (if 0 < zeta then e.alpha f + (p.aMax - e.alpha f) * zeta * p.aTau
              else e.alpha f + (p.aBase - e.alpha f) * p.aTau))
    else e.alpha f
  /-- actual production: the optimal level if no real input is short … -/
  prod_free : ∀ f, (∀ s, ¬ specShort p { e with alpha := e'.alpha } s f) →
    e'.prod f = specOpt p { e with alpha := e'.alpha } f
  /-- … else the optimal level times the worst fill ratio ω / ω^Cons among its real inputs:
      it is at most every such ratio, and equal to one of them -/
  prod_short_le : ∀ f s, specShort p { e with alpha := e'.alpha } s f →
    e'.prod f ≤ specOpt p { e with alpha := e'.alpha } f
      * (e.stock s f / specCons p { e with alpha := e'.alpha } s f)
  prod_short_eq : ∀ f, (∃ s, specShort p { e with alpha := e'.alpha } s f) →
    ∃ s, specShort p { e with alpha := e'.alpha } s f ∧
      e'.prod f = specOpt p { e with alpha := e'.alpha } f
        * (e.stock s f / specCons p { e with alpha := e'.alpha } s f)
  /-- inventory resupply:  Ω(t+1) = Ω(t) + I_sum · O^Received − x^a ⊙ A, with proportional rationing
      O^Received = o / d^Tot · x^a; the update may be skipped only when resupply and use are close -/
  stock : (∀ s f, (p.invDur s).isSome = true →
      e'.stock s f = e.stock s f
        + (∑ r : Fin d.m, e.orders (r, s) f / specDemand e (r, s) * e'.prod (r, s))
        - e'.prod f * p.a s f) ∨
    ((∀ s f, isClose (∑ r : Fin d.m, e.orders (r, s) f / specDemand e (r, s) * e'.prod (r, s)) (e'.prod f * p.a s f)) ∧
      ∀ s f, e'.stock s f = e.stock s f)
  /-- final demand not met:  Σ_c (y − y / d^Tot · x^a) -/
  unmet : ∀ i, e'.fdUnmet i = ∑ c : Fd d, (e.fd i c - e.fd i c / specDemand e i * e'.prod i)
  /-- reconstruction: delivered = γ / d^Tot · x^a, and what remains asked is reduced by it -/
  repaired : e'.rebProd.length = e.reb.length ∧ e'.reb.length = e.reb.length ∧
    ∀ k, k < e.reb.length → ∀ i j c,
      (e'.rebProd.getD k zeroBlock).indus i j = (e.reb.getD k zeroBlock).indus i j / specDemand e i * e'.prod i ∧
      (e'.rebProd.getD k zeroBlock).house i c = (e.reb.getD k zeroBlock).house i c / specDemand e i * e'.prod i ∧
      (e'.reb.getD k zeroBlock).indus i j = (e.reb.getD k zeroBlock).indus i j - (e'.rebProd.getD k zeroBlock).indus i j ∧
      (e'.reb.getD k zeroBlock).house i c = (e.reb.getD k zeroBlock).house i c - (e'.rebProd.getD k zeroBlock).house i c
  /-- order module: goal Ω* = s · x^Opt · a (x^Opt from the demand net of reconstruction deliveries); gap (Ω* − Ω)_{≥0}; aggregate orders gap / τ_Inv + x^a ⊙ A
      (the gap is dropped only when every inventory is close to its goal); orders = aggregate × share,
      share = Z^Share (fixed) or Z ⊙ capacity ratio, renormalised (capacity-weighted) -/
  orders : ∃ gap : Fin d.n → Ind d → Rat,
    ((∀ s f, gap s f = match p.invDur s with
        | some dur => p.rest s * max 0 (dur * min (specDemandNet e e' f) (specCap p e' f) * p.a s f - e'.stock s f)
        | none => 0) ∨
     ((∀ s f dur, p.invDur s = some dur → isClose (e'.stock s f) (dur * min (specDemandNet e e' f) (specCap p e' f) * p.a s f)) ∧
      ∀ s f, gap s f = 0)) ∧
    ∀ i j, e'.orders i j = (gap i.2 j + e'.prod j * p.a i.2 j) *
      (if p.alt then
         (let w := fun i' : Ind d => p.Z0 i' j * (if p.x0 i' = 0 then 1 else specCap p e' i' / p.x0 i')
          if (∑ r : Fin d.m, w (r, i.2)) = 0 then 0 else w i / (∑ r : Fin d.m, w (r, i.2)))
       else p.Zshare i j)

/-- the economic part of `nextStep` (overproduction if `op`, production, distribution, orders; the
    ledger phase in between does not touch the economic state) -/
def econStep (p : Params d) (op : Bool) (e : Econ d) : Outcome (Econ d) :=
  let e1 := if op then overprodPhase p e else e
  (productionPhase p e1).bind fun e2 =>
  match distribute p e2 with
  | .ok e3 => orders p e3
  | .crashed e3 => .crashed e3
  | .rejected => .rejected
  | .internal => .internal

/-- well-formedness needed for the bridge: non-negative quantities and a fresh demand cache -/
structure SpecPre (p : Params d) (e : Econ d) : Prop where
  dTot_fresh : ∀ i, e.dTot i = rowTot e.orders e.fd e.reb i
  orders_nonneg : ∀ i j, 0 ≤ e.orders i j
  fd_nonneg : ∀ i c, 0 ≤ e.fd i c
  reb_nonneg : ∀ b ∈ e.reb, (∀ i j, 0 ≤ b.indus i j) ∧ (∀ i c, 0 ≤ b.house i c)
  stock_nonneg : ∀ s f, (p.invDur s).isSome = true → 0 ≤ e.stock s f
  a_nonneg : ∀ s f, 0 ≤ p.a s f
  psi_pos : 0 < p.psi
  dur_pos : ∀ s v, p.invDur s = some v → 0 < v
  x0_nonneg : ∀ f, 0 ≤ p.x0 f
  alpha_pos : ∀ f, 1 ≤ e.alpha f
  amax : 1 ≤ p.aMax
  base : 1 ≤ p.aBase ∧ p.aBase ≤ p.aMax
  tau : 0 ≤ p.aTau ∧ p.aTau ≤ 1
  prod_nonneg : ∀ f, 0 ≤ e.prod f

/-- the demand of the spec is the cached total the code uses -/
theorem specDemand_eq (p : Params d) (e : Econ d) (h : SpecPre p e) (i : Ind d) : specDemand e i = e.dTot i := by
  rw [h.dTot_fresh i, rowTot_eq_sum]
  rfl

/-! ### glue: the named quantities of the spec are the model's, up to the order of the factors -/

theorem specCap_eq (p : Params d) (e : Econ d) (f : Ind d) :
    specCap p e f = capacity p e.deltaTot e.alpha f := by
  unfold specCap capacity; ring

theorem specDemand_nonneg (p : Params d) (e : Econ d) (h : SpecPre p e) (i : Ind d) :
    0 ≤ specDemand e i := by
  unfold specDemand
  refine add_nonneg (add_nonneg (Finset.sum_nonneg fun j _ => h.orders_nonneg i j)
    (Finset.sum_nonneg fun c _ => h.fd_nonneg i c)) (List.sum_nonneg ?_)
  intro x hx
  obtain ⟨b, hb, rfl⟩ := List.mem_map.1 hx
  exact add_nonneg (Finset.sum_nonneg fun j _ => (h.reb_nonneg b hb).1 i j)
    (Finset.sum_nonneg fun c _ => (h.reb_nonneg b hb).2 i c)

/-- the spec's optimal level, with the new overproduction factor, is the model's `xOpt` -/
theorem specOpt_eq (p : Params d) (e : Econ d) (h : SpecPre p e) (al : Ind d → Rat) (f : Ind d) :
    specOpt p { e with alpha := al } f = xOpt p e.dTot e.deltaTot al f := by
  unfold specOpt xOpt
  rw [specCap_eq]
  show min (specDemand e f) _ = _
  rw [specDemand_eq p e h f]

theorem specCons_eq (p : Params d) (e : Econ d) (h : SpecPre p e) (al : Ind d → Rat)
    (s : Fin d.n) (f : Ind d) :
    specCons p { e with alpha := al } s f = cons p (xOpt p e.dTot e.deltaTot al) s f := by
  unfold specCons cons durOrZero
  rw [specOpt_eq p e h al f]
  cases p.invDur s with
  | none => simp only; ring
  | some dur => simp only; ring

theorem specShort_iff (p : Params d) (e : Econ d) (h : SpecPre p e) (al : Ind d → Rat)
    (s : Fin d.n) (f : Ind d) :
    specShort p { e with alpha := al } s f
      ↔ stockConstraint p e.stock (xOpt p e.dTot e.deltaTot al) s f = true := by
  unfold specShort
  rw [specCons_eq p e h al s f, stockConstraint_iff]

/-- the model's preconditions of the production lemmas hold at the optimal level -/
theorem specPre_prodPre (p : Params d) (e : Econ d) (h : SpecPre p e) (al : Ind d → Rat)
    (hcap : ¬ capNegative p e.deltaTot al) : ProdPre p e.stock (xOpt p e.dTot e.deltaTot al) where
  stock_nonneg := h.stock_nonneg
  x_nonneg := fun f => le_min (by rw [← specDemand_eq p e h f]; exact specDemand_nonneg p e h f)
    (not_lt.1 fun hlt => hcap ⟨f.1, f.2, hlt⟩)
  a_nonneg := h.a_nonneg
  psi_nonneg := h.psi_pos.le
  dur_pos := h.dur_pos

/-- the demand the order module sees is the demand net of reconstruction deliveries -/
theorem dTotAfter_eq (p : Params d) (e e' : Econ d) (h : SpecPre p e) (op : Bool)
    (hsh : StepShape p op e e') (f : Ind d) : dTotAfter e e' f = specDemandNet e e' f := by
  have hnet : specDemandNet e e' f = rowTot e.orders e.fd e'.reb f := by
    rw [rowTot_eq_sum]; rfl
  unfold dTotAfter
  split_ifs with hem
  · have he : e'.reb = e.reb := by
      rw [hsh.reb, hsh.rebProd, List.isEmpty_iff.1 hem]; rfl
    rw [hnet, he, h.dTot_fresh f]
  · exact hnet.symm

/-- STEP REFINEMENT: whatever the code-shaped step computes satisfies the documented equations -/
theorem step_refines_spec (p : Params d) (op : Bool) (e e' : Econ d) (h : SpecPre p e)
    (hs : econStep p op e = .ok e') : ArioSpec p op e e' := by
  have hsh : StepShape p op e e' := econStepM_shape p op e e' hs
  have hD : ∀ i, e.dTot i = specDemand e i := fun i => (specDemand_eq p e h i).symm
  have hT : ∀ i, rowTot e.orders e.fd e.reb i = specDemand e i := fun i => by
    rw [← h.dTot_fresh i, hD]
  have hpre := specPre_prodPre p e h e'.alpha hsh.capOK
  have hx' : ∀ f, xOpt p (dTotAfter e e') e.deltaTot e'.alpha f
      = min (specDemandNet e e' f) (specCap p e' f) := fun f => by
    unfold xOpt
    rw [dTotAfter_eq p e e' h op hsh f, specCap_eq, hsh.deltaTot]
  refine
    { overprod := ?_, prod_free := ?_, prod_short_le := ?_, prod_short_eq := ?_, stock := ?_
      unmet := ?_, repaired := ?_, orders := ?_ }
  · -- overproduction
    intro f
    rw [hsh.alpha]
    cases op
    · rfl
    · show overprod p e.alpha e.dTot e.prod f = _
      rw [overprod_eq]
      simp only [hD, if_true]
  · -- production, no shortage
    intro f hn
    rw [specOpt_eq p e h, hsh.prod]
    apply production_free hpre f
    intro s
    cases hc : stockConstraint p e.stock (xOpt p e.dTot e.deltaTot e'.alpha) s f with
    | false => rfl
    | true => exact absurd ((specShort_iff p e h e'.alpha s f).2 hc) (hn s)
  · -- production, bound by every short input
    intro f s hshort
    rw [specOpt_eq p e h, specCons_eq p e h, hsh.prod]
    exact production_short_le hpre f s ((specShort_iff p e h e'.alpha s f).1 hshort)
  · -- production, bound attained
    rintro f ⟨s0, hs0⟩
    obtain ⟨s, hs, heq⟩ := production_short_eq hpre f
      ⟨s0, (specShort_iff p e h e'.alpha s0 f).1 hs0⟩
    refine ⟨s, (specShort_iff p e h e'.alpha s f).2 hs, ?_⟩
    rw [specOpt_eq p e h, specCons_eq p e h, hsh.prod]
    exact heq
  · -- inventories
    rcases hsh.stock with ⟨hc, hst⟩ | hst
    · right
      refine ⟨fun s f => ?_, fun s f => by rw [hst]⟩
      have := hc s f.1 f.2
      rw [stockAdd_delivOrders] at this
      simp only [hT] at this
      exact this
    · left
      intro s f _
      rw [hst]
      simp only [stockAdd_delivOrders, hT, stockUse]
      ring
  · -- final demand not met
    intro i
    rw [hsh.fdUnmet, sumFd_eq_sum_prod]
    apply Finset.sum_congr rfl
    intro c _
    rw [deliverCell_eq_div, hT]
  · -- reconstruction
    refine ⟨by rw [hsh.rebProd, List.length_map],
      by rw [hsh.reb, hsh.rebProd, subBlocks_map_length], ?_⟩
    intro k hk i j c
    have hprod : e'.rebProd.getD k zeroBlock
        = deliverBlock (rowTot e.orders e.fd e.reb) e'.prod (e.reb.getD k zeroBlock) := by
      rw [hsh.rebProd]; exact getD_map_deliverBlock _ _ _ k hk
    have hreb : e'.reb.getD k zeroBlock
        = subBlock (e.reb.getD k zeroBlock) (e'.rebProd.getD k zeroBlock) := by
      rw [hprod, hsh.reb, hsh.rebProd]; exact subBlocks_map_getD _ _ k hk
    refine ⟨?_, ?_, ?_, ?_⟩
    · rw [hprod]; show deliverCell _ _ _ = _; rw [deliverCell_eq_div, hT]
    · rw [hprod]; show deliverCell _ _ _ = _; rw [deliverCell_eq_div, hT]
    · rw [hreb]; rfl
    · rw [hreb]; rfl
  · -- orders
    obtain ⟨gap, hgap, hord⟩ := hsh.orders
    refine ⟨gap, ?_, ?_⟩
    · rcases hgap with rfl | ⟨hcl, rfl⟩
      · left
        intro s f
        rw [gapOpen_eq]
        simp only [hx']
        cases p.invDur s <;> rfl
      · right
        refine ⟨fun s f dur hv => ?_, fun s f => rfl⟩
        have := ordersClose_some p _ _ hcl s f dur hv
        rw [hx'] at this
        exact this
    · intro i j
      rw [hord]
      simp only [needWith]
      rw [supplierShare_eq p e.deltaTot e'.alpha (specCap p e')
        (fun i => by rw [specCap_eq, hsh.deltaTot])]

/-- the economic part of a whole step is `econStep`, run on the state the event phase leaves, with the
    overproduction module active from the third step on; the ledger phase keeps the economic state -/
theorem nextStep_econ (s s' : Sim d) (h : nextStep s = .ok s') :
    ∃ s1, eventsPre s = .ok s1 ∧ econStep s.p (decide (1 < s1.t)) s1.econ = .ok s'.econ := by
  obtain ⟨s1, e2, e3, e4, h1, h2, h3, h4, _, he⟩ := nextStep_ok s s' h
  refine ⟨s1, h1, ?_⟩
  rw [← (eventsPre_ok s s1 h1).1, he]
  have hif : (if decide (1 < s1.t) = true then overprodPhase s1.p s1.econ else s1.econ)
      = (if 1 < s1.t then overprodPhase s1.p s1.econ else s1.econ) := by
    by_cases ht : 1 < s1.t <;> simp [ht]
  simp only [econStep, hif, h2, Outcome.bind, h3, h4]

end Boario
