"""Known findings (genuine defects recorded rather than repaired): matched by the specific input that
fails, so that a different violation of the same property is still reported.  Read-only at run time."""
from __future__ import annotations

import json
from pathlib import Path

from harness import scen

FILE = Path(__file__).resolve().parent.parent / "known_findings.json"


def load():
    return json.loads(FILE.read_text())


def _no_supplier(sc):
    """F13: some affected industry (or household column) buys nothing from some rebuilding sector in any region"""
    tb = sc["table"]
    regs, secs, cats = scen.labels(tb)
    n, m, k = tb["n"], tb["m"], tb["k"]
    for ev in sc["events"]:
        if ev["type"] != "rebuild":
            continue
        for rs, share in ev["reb_sectors"].items():
            si = secs.index(rs)
            for key in ev["impact"]:
                r, s = key.split("|")
                j = regs.index(r) * n + secs.index(s)
                if sum(tb["Z"][rr * n + si][j] for rr in range(m)) == 0:
                    return f"rebuilding sector {rs} has no supplier for affected industry {key}"
            for key in (ev.get("house") or {}):
                r, c = key.split("|")
                j = regs.index(r) * k + cats.index(c)
                if sum(tb["Y"][rr * n + si][j] for rr in range(m)) == 0:
                    return f"rebuilding sector {rs} has no supplier for household column {key}"
    return None


def _concave_tau1(sc):
    """F24: a recovering event with the concave curve and a recovery time of one temporal unit"""
    for i, ev in enumerate(sc["events"]):
        if ev.get("curve") == "concave" and ev.get("recovery_tau") == 1:
            return f"event {i} uses the concave curve with recovery_tau = 1"
    return None


def _unit_gain_overprod(sc):
    """F36: capacity-weighted orders, no relaxation of the inventory constraint (base class or psi = 1) and an overproduction rule
    whose gain (alpha_max - alpha_base) x step / alpha_tau reaches 1"""
    c = sc["model"]
    try:
        gain = (float(c["alpha_max"]) - float(c["alpha_base"])) * float(c.get("dt", 1)) / float(c["alpha_tau"])
    except Exception:
        return None
    psi = c.get("psi", 0.8)
    try:
        psi1 = float(str(psi).replace("_", ".")) >= 1.0
    except Exception:
        psi1 = False
    if c.get("order_type") == "alt" and (c.get("class") == "base" or psi1) and gain >= 1.0:
        return f"alt orders, no psi relaxation, overproduction gain {gain:g} >= 1"
    return None


PREDICATES = {"F13": _no_supplier, "F24": _concave_tau1, "F36": _unit_gain_overprod}


def match_scenario(pid, sc):
    """returns the text of the KNOWN-FINDING line if the scenario is an input of a listed finding"""
    for kf in load()["known"]:
        if pid in kf["properties"] and kf.get("predicate") in PREDICATES:
            hit = PREDICATES[kf["predicate"]](sc)
            if hit:
                return f"{kf['id']}: {kf['what']}"
    return None


def match_trigger(pid, fid):
    for kf in load()["known"]:
        if pid in kf["properties"] and kf["id"] == fid:
            return f"{kf['id']}: {kf['what']}"
    return None
