/-
  C14 — The overproduction factor stays within bounds and rises only under scarcity.
-/
import Boario.Lemmas.Alpha

namespace Boario
variable {d : Dims}

structure AlphaHyp (p : Params d) : Prop where
  one_le_max : 1 ≤ p.aMax
  base_le_max : p.aBase ≤ p.aMax
  tau_nonneg : 0 ≤ p.aTau
  tau_le_one : p.aTau ≤ 1

section
variable (p : Params d) (alpha dTot prod : Ind d → Rat)

/-- bounds, for any base in [.., max] -/
theorem alpha_bounds (h : AlphaHyp p) (f : Ind d)
    (ha : 1 ≤ alpha f ∧ alpha f ≤ p.aMax) (hd : 0 ≤ dTot f) (hp : 0 ≤ prod f) :
    1 ≤ overprod p alpha dTot prod f ∧ overprod p alpha dTot prod f ≤ p.aMax := by
  obtain ⟨ha1, ha2⟩ := ha
  have hsc : scarcity dTot prod f ≤ 1 := scarcity_le_one dTot prod f hd hp
  refine ⟨le_max_left _ _, max_le h.one_le_max ?_⟩
  have ht0 := h.tau_nonneg
  have ht1 := h.tau_le_one
  have hb := h.base_le_max
  have hgap : 0 ≤ p.aMax - alpha f := by linarith
  by_cases h0 : 0 < scarcity dTot prod f
  · rw [alphaChg_of_pos p alpha dTot prod f h0]
    have h1 : scarcity dTot prod f * p.aTau ≤ 1 := by nlinarith
    have : (p.aMax - alpha f) * (scarcity dTot prod f * p.aTau) ≤ (p.aMax - alpha f) * 1 :=
      mul_le_mul_of_nonneg_left h1 hgap
    nlinarith
  · rw [alphaChg_of_nonpos p alpha dTot prod f (not_lt.1 h0)]
    nlinarith

/-- direction clause (default base 1): the factor rises only if demand exceeds last production -/
theorem alpha_increase_only_if_scarce (h : AlphaHyp p) (hb : p.aBase = 1) (f : Ind d)
    (ha : 1 ≤ alpha f ∧ alpha f ≤ p.aMax) (hd : 0 ≤ dTot f)
    (hinc : alpha f < overprod p alpha dTot prod f) :
    prod f < dTot f := by
  have hsc := (alpha_increase_aux p alpha dTot prod h.tau_nonneg hb f ha hinc).1
  exact scarcity_pos_imp dTot prod f hd hsc

/-- … and then by exactly (max − current) × scarcity / tau -/
theorem alpha_increase_amount (h : AlphaHyp p) (hb : p.aBase = 1) (f : Ind d)
    (ha : 1 ≤ alpha f ∧ alpha f ≤ p.aMax) (hd : 0 ≤ dTot f)
    (hinc : alpha f < overprod p alpha dTot prod f) :
    overprod p alpha dTot prod f
      = alpha f + (p.aMax - alpha f) * ((dTot f - prod f) / dTot f) * p.aTau := by
  obtain ⟨hsc, hov⟩ := alpha_increase_aux p alpha dTot prod h.tau_nonneg hb f ha hinc
  have _ := hd
  rw [hov, scarcity_of_ne_zero dTot prod f (ne_zero_of_scarcity_pos dTot prod f hsc)]

/-- when demand is met the factor never increases -/
theorem alpha_no_increase_when_met (h : AlphaHyp p) (hb : p.aBase = 1) (f : Ind d)
    (ha : 1 ≤ alpha f ∧ alpha f ≤ p.aMax) (hd : 0 ≤ dTot f) (hmet : dTot f ≤ prod f) :
    overprod p alpha dTot prod f ≤ alpha f := by
  obtain ⟨ha1, ha2⟩ := ha
  have hsc : scarcity dTot prod f ≤ 0 := scarcity_nonpos_of_met dTot prod f hd hmet
  have ht0 := h.tau_nonneg
  have hgap : 0 ≤ p.aMax - alpha f := by linarith
  apply max_le ha1
  rw [alphaChg_of_nonpos p alpha dTot prod f hsc]
  have : (p.aBase - alpha f) * p.aTau ≤ 0 :=
    mul_nonpos_of_nonpos_of_nonneg (by rw [hb]; linarith) ht0
  linarith

/-- … and whenever it is met (exactly or with excess production) it moves towards the base value by
    the fraction 1/tau -/
theorem alpha_drift_to_base (h : AlphaHyp p) (hb : p.aBase = 1) (f : Ind d)
    (ha : 1 ≤ alpha f ∧ alpha f ≤ p.aMax) (hd : 0 ≤ dTot f) (hmet : dTot f ≤ prod f) :
    overprod p alpha dTot prod f = alpha f + (p.aBase - alpha f) * p.aTau := by
  obtain ⟨ha1, ha2⟩ := ha
  have hsc : scarcity dTot prod f ≤ 0 := scarcity_nonpos_of_met dTot prod f hd hmet
  have ht1 := h.tau_le_one
  unfold overprod
  rw [alphaChg_of_nonpos p alpha dTot prod f hsc, hb]
  apply max_eq_right
  nlinarith

end
end Boario

namespace Boario
/-- the hypothesis `aTau ≤ 1` of `alpha_bounds` (characteristic time of at least one step) cannot be dropped: with
    a step five times longer than `alpha_tau`, full scarcity takes the factor from 1 to 9/4, above its maximum 5/4.
    The two clauses of the property ("never above the maximum", "rises by (max − current) × scarcity / tau") are
    compatible only for rates ≤ 1. -/
theorem alpha_bound_needs_rate_le_one :
    ∃ (p : Params ⟨1, 1, 1⟩) (alpha dTot prod : Ind ⟨1, 1, 1⟩ → Rat) (f : Ind ⟨1, 1, 1⟩),
      1 ≤ p.aMax ∧ p.aBase ≤ p.aMax ∧ 0 ≤ p.aTau ∧ 1 < p.aTau ∧ alpha f = p.aBase ∧
      p.aMax < overprod p alpha dTot prod f := by
  refine ⟨{ x0 := fun _ => 1, Z0 := fun _ _ => 0, Y0 := fun _ _ => 1, a := fun _ _ => 0, thr := fun _ _ => false,
            invDur := fun _ => none, psi := 1, rest := fun _ => 1, aBase := 1, aMax := 5 / 4, aTau := 5, alt := false,
            Zshare := fun _ _ => 0, K := fun _ => 1 },
          fun _ => 1, fun _ => 1, fun _ => 0, (0, 0), ?_⟩
  norm_num [overprod, alphaChg, scarcity]

end Boario
