#!/bin/sh
# offline build of the framework: Lean model + theorems + driver (no network, no Mathlib `require`)
cd "$(dirname "$0")/lean" || exit 2
mkdir -p .lake
flock .lake/verif.lock lake build driver Boario || exit 1
