/-
  No result of the library depends on what freed memory contains (owed by C17 — determinism and isolation — and by
  C20 — no silently non-finite numbers: 0 × NaN from a recycled block is NaN).

  `Boario.Gen.Masked` is regenerated from the source on every run: every NumPy ufunc call with a `where=` mask, with how
  its `out=` array was created, and every allocation NumPy leaves uninitialised, with whether it is filled before any
  other use.  The theorems say that each masked call of the source is a function of its operands (its `out=` array was
  filled by its constructor or computed), and that every raw allocation is filled first.
-/
import Boario.Masked
import Boario.Gen.Masked

namespace Boario.Masked
open Boario.Gen

/-- a masked ufunc is deterministic exactly when its `out=` array is given and was initialised -/
theorem deterministic_iff (init : OutInit) : Deterministic init ↔ (init = .filled ∨ init = .computed) := by
  constructor
  · intro h
    have := h 0 0 false 0 1
    cases init <;> simp [cell] at this ⊢
  · rintro (rfl | rfl) <;> intro prior computed mask mem mem' <;> simp [cell]

/-- the kind of change this guards against: dropping `out=` makes masked-out cells read recycled memory -/
theorem missing_out_reads_memory : ¬ Deterministic .missing := by
  rw [deterministic_iff]; simp

/-- an array allocated raw but not filled exposes recycled memory; filled first it does not -/
theorem alloc_filled (fillv mem mem' : Rat) : allocCell true fillv mem = allocCell true fillv mem' := rfl
theorem alloc_unfilled_reads_memory : ∃ fillv mem mem', allocCell false fillv mem ≠ allocCell false fillv mem' :=
  ⟨0, 0, 1, by simp [allocCell]⟩

end Boario.Masked

namespace Boario.Gen
open Boario.Masked

/-- the masked calls of the source (non-vacuity: there are some, and the table names the sites the properties rely on) -/
theorem masked_calls_inventory :
    maskedCalls.map (fun c => (c.fn, c.idx)) =
      [("model_base.ARIOBaseModel.productive_capital_lost.setter", 0), ("model_base.ARIOBaseModel.calc_production", 0),
       ("model_base.ARIOBaseModel.distribute_production", 0), ("model_base.ARIOBaseModel.calc_orders", 0),
       ("model_base.ARIOBaseModel.calc_orders", 1)] := by decide

/-- every masked ufunc call of the source writes into an array that was initialised -/
theorem masked_calls_initialised : maskedCalls.all (fun c => c.out == .filled || c.out == .computed) = true := by decide

/-- hence each of them is a function of its operands, whatever freed memory holds -/
theorem masked_calls_deterministic : ∀ c ∈ maskedCalls, Deterministic c.out := by
  intro c hc
  have h := List.all_eq_true.mp masked_calls_initialised c hc
  rw [deterministic_iff]
  cases hout : c.out <;> simp [hout] at h ⊢

/-- every array allocated uninitialised is filled before anything else uses it -/
theorem raw_allocs_filled : rawAllocs.all (fun a => a.filledNext) = true := by decide

theorem raw_allocs_deterministic : ∀ a ∈ rawAllocs, ∀ fillv mem mem', allocCell a.filledNext fillv mem = allocCell a.filledNext fillv mem' := by
  intro a ha fillv mem mem'
  have h := List.all_eq_true.mp raw_allocs_filled a ha
  simp [h, allocCell]

end Boario.Gen
