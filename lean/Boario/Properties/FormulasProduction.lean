/-
  Element-wise formulas of the source = the model's definitions: capacity, optimal production, inventory constraints, the shortage cell (C02, C03, C07, C18, C20).
  See `Boario/Properties/Formulas.lean` for the approach; one module per topic so that a changed formula breaks only the
  theorems about it.
-/
import Boario.Properties.FormulaTactics

set_option linter.unusedTactic false
set_option linter.unreachableTactic false
set_option linter.unusedSimpArgs false
set_option linter.unnecessarySeqFocus false

namespace Boario.Gen
open Boario

variable {d : Dims}

/-- `production_cap` of the source is the model's `capacity`. -/
theorem capacity_is_code (p : Params d) (deltaTot alpha : Ind d → Rat) (f : Ind d) :
    production_cap (p.x0 f) (deltaTot f) (alpha f) = capacity p deltaTot alpha f := by
  (try simp only [production_cap, capacity]) <;> first | rfl | ring1

/-- `production_cap` raises exactly when the model's step is rejected for a negative capacity. -/
theorem capNegative_is_code (p : Params d) (deltaTot alpha : Ind d → Rat) :
    capNegative p deltaTot alpha ↔ ∃ f : Ind d, production_cap_rejects (p.x0 f) (deltaTot f) (alpha f) := by
  simp only [capNegative, production_cap_rejects, capacity]
  constructor
  · rintro ⟨r, s, h⟩; exact ⟨(r, s), h⟩
  · rintro ⟨⟨r, s⟩, h⟩; exact ⟨r, s, h⟩

/-- `production_opt` of the source is the model's `xOpt`. -/
theorem xOpt_is_code (p : Params d) (dTot deltaTot alpha : Ind d → Rat) (f : Ind d) :
    production_opt (dTot f) (production_cap (p.x0 f) (deltaTot f) (alpha f)) = xOpt p dTot deltaTot alpha f := by
  simp only [production_opt, production_cap, xOpt, capacity] <;>
    (first | rfl | (congr 1; ring1) | (rw [min_comm]; first | rfl | (congr 1; ring1)))

/-- `ARIOPsiModel.calc_inventory_constraints` of the source is the model's `cons`, cell by cell
    (`durOrZero` is `nan_to_num(inv_duration, posinf=0)`). -/
theorem cons_is_code (p : Params d) (x : Ind d → Rat) (s : Fin d.n) (f : Ind d) :
    calc_inventory_constraints_psi (x f) (p.a s f) p.psi (durOrZero p s) = cons p x s f := by
  simp only [calc_inventory_constraints_psi, cons] <;>
    (first | rfl | ring1)

/-- the base class computes the same constraint without the factor psi. -/
theorem cons_base_is_code (p : Params d) (x : Ind d → Rat) (s : Fin d.n) (f : Ind d) (hpsi : p.psi = 1) :
    calc_inventory_constraints_base (x f) (p.a s f) (durOrZero p s) = cons p x s f := by
  simp only [calc_inventory_constraints_base, cons, hpsi] <;>
    (first | rfl | ring1)

/-- a masked cap `r[r > 1] = 1` is `min 1 r` -/
theorem cap_eq_min (q : Rat) : (if q > 1 then (1 : Rat) else q) = min 1 q := by
  rw [min_def]; split_ifs <;> first | rfl | linarith | (exfalso; linarith)

/-- the shortage branch of `calc_production`: one cell of `production_max` is optimal production times the model's
    `ratio` (stock over constraint, capped at 1, only for inputs above the technology threshold). -/
theorem production_max_is_code (p : Params d) (stock : Fin d.n → Ind d → Rat) (x : Ind d → Rat) (s : Fin d.n) (f : Ind d) :
    production_max_cell (p.thr s f) (stock s f) (cons p x s f) (x f) = x f * ratio p stock x s f := by
  simp only [production_max_cell, ratio]
  by_cases h : p.thr s f = true ∧ cons p x s f ≠ 0
  · simp only [h, and_self, ne_eq, not_false_eq_true, if_true, cap_eq_min] <;>
      (first | rfl | ring1 | (rw [min_comm]; first | rfl | ring1) | formula_cases)
  · have h' : ¬ (p.thr s f = true ∧ ¬ cons p x s f = 0) := h
    simp only [h, h', ne_eq, if_false, cap_eq_min] <;>
      (first | rfl | ring1 | (simp; done) | formula_cases)

/-- `calc_production` as a whole, in terms of the code's own cells: without any binding inventory the optimal production,
    otherwise the smallest `production_max` cell over the inputs (cells built from the code's constraint formula). -/
theorem production_is_code (p : Params d) (stock : Fin d.n → Ind d → Rat) (x : Ind d → Rat) (f : Ind d) :
    production p stock x f =
      if anyConstraint p stock x then
        minFin d.n (x f) fun s =>
          production_max_cell (p.thr s f) (stock s f)
            (calc_inventory_constraints_psi (x f) (p.a s f) p.psi (durOrZero p s)) (x f)
      else x f := by
  simp only [production, prodShortage, cons_is_code, production_max_is_code]

/-- the production phase of a step, industry by industry, from the code's cells (capacity, optimal production). -/
theorem productionPhase_is_code (p : Params d) (e : Econ d) (e' : Econ d)
    (h : productionPhase p e = .ok e') (f : Ind d) :
    e'.prod f = production p e.stock
      (fun g => production_opt (e.dTot g) (production_cap (p.x0 g) (e.deltaTot g) (e.alpha g))) f := by
  have hx : (fun g => production_opt (e.dTot g) (production_cap (p.x0 g) (e.deltaTot g) (e.alpha g)))
      = xOpt p e.dTot e.deltaTot e.alpha := by
    funext g; exact xOpt_is_code p e.dTot e.deltaTot e.alpha g
  rw [hx]
  unfold productionPhase at h
  split at h
  · cases h
  · cases h; rfl

end Boario.Gen
