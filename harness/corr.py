"""Per-phase, per-step correspondence: every snapshot pair captured on the implementation is one
obligation `model_phase(impl_pre) == impl_post` (relative 1e-9, ties of threshold tests accepted)."""
from __future__ import annotations

import math

from harness.common import Driver, NonFinite, np, q, qarr, unq, unqarr

RTOL = 1e-9
TIE = 1e-11


class Mismatch(dict):
    pass


def layout_blocks(mat, nE, N, F):
    """Split the flat rebuilding part of the demand matrix into per-id blocks (writer/reader layout
    of `Boario.Layout`: industrial block `id` at columns [id*N, (id+1)*N), household block `id` at
    [nE*N + id*F, nE*N + (id+1)*F))."""
    if mat is None or nE == 0:
        return []
    out = []
    if mat.shape[1] != nE * (N + F):
        raise ValueError(f"rebuild matrix has {mat.shape[1]} columns, layout expects {nE * (N + F)}")
    for i in range(nE):
        out.append({"indus": mat[:, i * N:(i + 1) * N], "house": mat[:, nE * N + i * F: nE * N + (i + 1) * F]})
    return out


def blocks_req(blks):
    return [{"indus": qarr(b["indus"]), "house": qarr(b["house"])} for b in blks]


def finite_or_raise(name, a):
    a = np.asarray(a, dtype=float)
    if not np.isfinite(a).all():
        raise NonFinite(f"non-finite values in {name}")
    return a


def dims_of(model):
    return int(model.n_regions), int(model.n_sectors), int(model.n_fd_cat)


def params_req(model) -> dict:
    m, n, k = dims_of(model)
    inv = [None if not math.isfinite(v) else q(v) for v in np.asarray(model.inv_duration, dtype=float)]
    psi = float(getattr(model, "psi", 1.0))
    rest = np.asarray(getattr(model, "restoration_tau", np.ones(n)), dtype=float)
    K = np.asarray(model.productive_capital, dtype=float).ravel()
    return {
        "op": "params", "m": m, "n": n, "k": k,
        "x0": qarr(finite_or_raise("X_0", model.X_0)),
        "Z0": qarr(finite_or_raise("Z_0", model.Z_0)),
        "Y0": qarr(finite_or_raise("Y_0", model.Y_0)),
        "a": qarr(finite_or_raise("tech_mat", model.tech_mat)),
        "thr": [bool(v) for v in np.asarray(model.threshold_not_input).ravel()],
        "invDur": inv, "psi": q(psi), "rest": qarr(finite_or_raise("restoration_tau", rest)),
        "aBase": q(model.overprod_base), "aMax": q(model.overprod_max), "aTau": q(model.overprod_tau),
        "alt": model.order_type == "alt",
        "Zshare": qarr(finite_or_raise("Z_distrib", model.Z_distrib)),
        "K": qarr(finite_or_raise("productive_capital", K)),
    }


def econ_req(e: dict, model) -> dict:
    m, n, k = dims_of(model)
    N, F = m * n, m * k
    stock = np.array(e["stock"], dtype=float)
    inf_rows = ~np.isfinite(np.asarray(model.inv_duration, dtype=float))
    st = stock.copy()
    st[inf_rows, :] = 0.0
    delta = e["deltaTot"] if e["deltaTot"] is not None else np.zeros(N)
    return {
        "orders": qarr(finite_or_raise("orders", e["orders"])),
        "fd": qarr(finite_or_raise("fd", e["fd"])),
        "reb": blocks_req(layout_blocks(e["reb"], e["nE"], N, F)) if e["reb"] is not None else [],
        "dTot": qarr(finite_or_raise("dTot", e["dTot"])),
        "stock": qarr(finite_or_raise("stock", st)),
        "prod": qarr(finite_or_raise("prod", e["prod"])),
        "alpha": qarr(finite_or_raise("alpha", e["alpha"])),
        "deltaTot": qarr(finite_or_raise("deltaTot", delta)),
    }


def cmp_arr(out, phase, var, impl, model, ref=None, rtol=RTOL, extra_abs=0.0, mask=None):
    """append a Mismatch to `out` for the worst disagreeing cell, if any"""
    impl = np.asarray(impl, dtype=float).ravel()
    model = np.asarray(model, dtype=float).ravel()
    if impl.shape != model.shape:
        out.append(Mismatch(phase=phase, var=var, what=f"shape {impl.shape} vs {model.shape}"))
        return False
    if not np.isfinite(impl).all():
        if mask is None or not np.isfinite(impl[np.asarray(mask).ravel()]).all():
            out.append(Mismatch(phase=phase, var=var, what="implementation value not finite"))
            return False
    mag = np.maximum(np.abs(impl), np.abs(model))
    if ref is not None:
        mag = np.maximum(mag, np.abs(np.broadcast_to(np.asarray(ref, dtype=float), mag.shape) if np.ndim(ref) == 0
                                     else np.asarray(ref, dtype=float).ravel()))
    tol = rtol * mag + extra_abs + 1e-300
    with np.errstate(invalid="ignore"):
        bad = np.abs(impl - model) > tol
    if mask is not None:
        bad &= np.asarray(mask).ravel()
    if bad.any():
        with np.errstate(invalid="ignore"):
            worst = int(np.nanargmax(np.where(bad, np.abs(impl - model) / tol, 0)))
        out.append(Mismatch(phase=phase, var=var, cell=worst, impl=float(impl[worst]), model=float(model[worst]),
                            tol=float(tol[worst]), n_bad=int(bad.sum())))
        return False
    return True


def blocks_to_mat(blks, N, F):
    """inverse of layout_blocks on driver output"""
    nE = len(blks)
    if nE == 0:
        return None
    mat = np.zeros((N, nE * (N + F)))
    for i, b in enumerate(blks):
        mat[:, i * N:(i + 1) * N] = unqarr(b["indus"], (N, N))
        mat[:, nE * N + i * F: nE * N + (i + 1) * F] = unqarr(b["house"], (N, F))
    return mat


class Stats:
    def __init__(self):
        self.obligations = 0
        self.ok = 0
        self.ties = {}
        self.branches = {}
        self.nontrivial = set()

    def tie(self, name):
        self.ties[name] = self.ties.get(name, 0) + 1

    def branch(self, name):
        self.branches[name] = self.branches.get(name, 0) + 1


class Corr:
    def __init__(self, driver: Driver, stats: Stats | None = None):
        self.dr = driver
        self.stats = stats or Stats()

    # --- individual phases; each returns the list of mismatches of that obligation

    def set_params(self, model):
        self.model = model
        self.m, self.n, self.k = dims_of(model)
        self.N, self.F = self.m * self.n, self.m * self.k
        self.dr.ask(params_req(model))
        self.inf_rows = ~np.isfinite(np.asarray(model.inv_duration, dtype=float))
        self.fin_mask = np.repeat(~self.inf_rows[:, None], self.N, axis=1)

    def overprod(self, ph) -> list:
        out = []
        pre, post = ph["pre"]["econ"], ph["post"]["econ"]
        req = {"op": "overprod", **econ_req(pre, self.model)}
        ans = self.dr.ask(req)
        cmp_arr(out, "overprod", "alpha", post["alpha"], unqarr(ans["alpha"]))
        sc = unqarr(ans["scarcity"])
        self.stats.branch("overprod.scarce" if (sc != 0).any() else "overprod.met")
        return out

    def production(self, ph) -> list:
        out = []
        pre, post = ph["pre"]["econ"], ph["post"]["econ"]
        ans = self.dr.ask({"op": "production", **econ_req(pre, self.model)})
        exc = ph.get("exc")
        if ans["out"] == "rejected":
            self.stats.branch("production.rejected")
            if not exc or exc[0] != "ValueError":
                out.append(Mismatch(phase="production", var="outcome", what=f"model rejects (negative capacity), implementation: {exc}"))
            return out
        if exc:
            out.append(Mismatch(phase="production", var="outcome", what=f"implementation raised {exc}, model ok"))
            return out
        xo = unqarr(ans["xOpt"])
        cmp_arr(out, "production", "prod", post["prod"], unqarr(ans["prod"]), ref=xo)
        mask_m = np.array(ans["mask"], dtype=bool)
        mask_i = np.asarray(ph.get("ret"), dtype=bool).ravel() if ph.get("ret") is not None else None
        if mask_i is not None:
            marg = unqarr(ans["margin"])
            st = np.array(pre["stock"], dtype=float).ravel()
            st = np.where(np.isfinite(st), st, 0.0)
            diff = mask_m != mask_i
            if diff.any():
                tie = np.abs(marg) <= TIE * np.maximum(np.abs(st), 1e-300)
                if (diff & ~tie).any():
                    c = int(np.argmax(diff & ~tie))
                    out.append(Mismatch(phase="production", var="mask", cell=c, impl=bool(mask_i[c]), model=bool(mask_m[c]),
                                        margin=float(marg[c])))
                else:
                    self.stats.tie("stock<constraint")
        self.stats.branch("production.shortage" if mask_m.any() else "production.free")
        return out

    def _cmp_econ_out(self, out, phase, post, ans, pre):
        N, F = self.N, self.F
        stock_m = unqarr(ans["stock"], (self.n, N))
        ok = cmp_arr(out, phase, "stock", post["stock"], stock_m, ref=pre["stock"] if True else None, mask=self.fin_mask)
        fd_tot = np.asarray(pre["fd"]).sum(axis=1)
        ok &= cmp_arr(out, phase, "fdUnmet", post["fdUnmet"], unqarr(ans["fdUnmet"]), ref=fd_tot, extra_abs=0.0)
        nE = pre["nE"]
        if nE > 0:
            rp = blocks_to_mat(ans["rebProd"], N, F)
            ok &= cmp_arr(out, phase, "rebProd", post["rebProd"], rp, ref=pre["reb"])
            rb = blocks_to_mat(ans["reb"], N, F)
            ok &= cmp_arr(out, phase, "reb", post["reb"], rb, ref=pre["reb"])
        # (the total after the phase is a difference — demand minus what was delivered —: its rounding residue is relative to
        #  the totals before the phase, not to itself)
        ref_tot = np.abs(np.asarray(pre["dTot"], dtype=float).ravel())
        if nE > 0 and pre.get("reb") is not None:
            try:
                ref_tot = ref_tot + np.abs(np.asarray(pre["reb"], dtype=float)).sum(axis=1).ravel()
            except Exception:
                pass
        ok &= cmp_arr(out, phase, "dTot", post["dTot"], unqarr(ans["dTot"]), ref=ref_tot)
        return ok

    def distribute(self, ph) -> list:
        out = []
        pre, post = ph["pre"]["econ"], ph["post"]["econ"]
        N, F = self.N, self.F
        ans = self.dr.ask({"op": "distribute", **econ_req(pre, self.model)})
        exc = ph.get("exc")
        use_scale = float(np.max(np.abs(np.asarray(pre["prod"])[None, :] * np.asarray(self.model.tech_mat)))) if N else 0.0
        close_tie = abs(unq(ans["closeMargin"])) <= TIE * max(use_scale, 1e-300) + 1e-18
        neg_tie = abs(unq(ans["minStock"])) <= TIE * max(float(np.max(np.abs(np.where(np.isfinite(pre["stock"]), pre["stock"], 0)))), 1e-300)
        # the delivery matrix of the step (hook), compared cell by cell
        if post.get("deliv") is not None and not exc:
            dm = np.asarray(post["deliv"])
            ref_dem = np.concatenate([pre["orders"], pre["fd"]] + ([pre["reb"]] if pre["reb"] is not None and pre["nE"] > 0 else []), axis=1)
            model_deliv = np.concatenate(
                [unqarr(ans["deliv"]["orders"], (N, N)), unqarr(ans["deliv"]["fd"], (N, F))]
                + ([blocks_to_mat(ans["deliv"]["reb"], N, F)] if pre["nE"] > 0 else []), axis=1)
            cmp_arr(out, "distribute", "deliveries", dm, model_deliv, ref=ref_dem)
        if exc:
            if exc[0] != "RuntimeError":
                out.append(Mismatch(phase="distribute", var="outcome", what=f"implementation raised {exc}"))
                return out
            self.stats.branch("distribute.crash")
            # model must crash too: update branch taken and a negative cell
            if (not ans["close"] or close_tie) and (ans["negative"] or neg_tie):
                if not ans["negative"] or ans["close"]:
                    self.stats.tie("crash")
                cmp_arr(out, "distribute", "stock(crashed)", post["stock"], unqarr(ans["update"]["stock"], (self.n, N)),
                        ref=pre["stock"], mask=self.fin_mask)
            else:
                out.append(Mismatch(phase="distribute", var="outcome", what="implementation crashed (negative stock), model does not",
                                    minStock=unq(ans["minStock"]), close=ans["close"]))
            return out
        primary = "skip" if ans["close"] else "update"
        other = "update" if ans["close"] else "skip"
        if primary == "update" and ans["negative"] and not neg_tie:
            out.append(Mismatch(phase="distribute", var="outcome", what="model crashes (negative stock), implementation continues",
                                minStock=unq(ans["minStock"])))
            return out
        tmp = []
        if self._cmp_econ_out(tmp, "distribute", post, ans[primary], pre):
            self.stats.branch("distribute." + primary)
            return out
        if close_tie:
            tmp2 = []
            if self._cmp_econ_out(tmp2, "distribute", post, ans[other], pre):
                self.stats.tie("allclose(add,use)")
                return out
        out.extend(tmp)
        return out

    def orders(self, ph) -> list:
        out = []
        pre, post = ph["pre"]["econ"], ph["post"]["econ"]
        N = self.N
        ans = self.dr.ask({"op": "orders", **econ_req(pre, self.model)})
        exc = ph.get("exc")
        if ans["out"] == "rejected":
            if not exc or exc[0] != "ValueError":
                out.append(Mismatch(phase="orders", var="outcome", what=f"model rejects, implementation: {exc}"))
            return out
        if exc:
            out.append(Mismatch(phase="orders", var="outcome", what=f"implementation raised {exc}, model ok"))
            return out
        primary = "closed" if ans["close"] else "open"
        other = "open" if ans["close"] else "closed"
        goal_scale = float(np.max(np.abs(np.where(np.isfinite(pre["stock"]), pre["stock"], 0)))) if N else 0.0
        tie = abs(unq(ans["closeMargin"])) <= TIE * max(goal_scale, 1e-300) + 1e-18

        def cmpv(v, sink):
            ok = cmp_arr(sink, "orders", "orders", post["orders"], unqarr(ans[v]["orders"], (N, N)))
            ok &= cmp_arr(sink, "orders", "dTot", post["dTot"], unqarr(ans[v]["dTot"]))
            return ok

        if ans[primary]["negative"]:
            out.append(Mismatch(phase="orders", var="outcome", what="model computes negative orders"))
            return out
        tmp = []
        if cmpv(primary, tmp):
            self.stats.branch("orders." + primary)
            return out
        if tie and cmpv(other, []):
            self.stats.tie("allclose(stock,goal)")
            return out
        out.extend(tmp)
        return out

    # --- event layer

    def tracker_req(self, trsnap: dict, tracker, t: int) -> dict:
        ev = tracker.event
        kind = trsnap["kind"]
        N, F = self.N, self.F
        mf = self.model.monetary_factor
        prec = int(math.log10(mf)) + 1
        curve = "linear"
        rawI = rawH = None
        tau = 1
        factor = 1.0
        if kind == "rebuild":
            tau = int(ev.rebuild_tau) if ev.rebuild_tau else int(self.model.rebuild_tau)
            factor = float(ev.rebuilding_factor)
            if getattr(self, "declared_events", None) is not None:
                # (what the scenario declared for this tracker, not what the event object holds)
                idx_ = [id(x) for x in self.sim_trackers].index(id(tracker)) if getattr(self, "sim_trackers", None) and id(tracker) in [id(x) for x in self.sim_trackers] else None
                if idx_ is not None and idx_ < len(self.declared_events) and self.declared_events[idx_].get("type") == "rebuild":
                    factor = float(self.declared_events[idx_].get("factor", factor))
        else:
            tau = int(ev.recovery_tau)
            fn = ev.recovery_function
            name = getattr(fn, "__name__", "")
            curve = {"linear_recovery": "linear", "convexe_recovery_scaled": "convexe",
                     "convexe_recovery": "convexe noscale"}.get(name, "raw")
            if curve == "raw" and trsnap["status"] != "recovering":
                rawI = np.zeros(N)
                rawH = np.zeros(F) if trsnap["hdmg0"] is not None else None
            elif curve == "raw":
                el = t - (int(ev.occurrence) + int(ev.duration))
                with np.errstate(all="ignore"):
                    if kind == "arbitrary":
                        rawI = np.asarray(fn(elapsed_temporal_unit=el, init_impact_stock=trsnap["arb0"], recovery_tau=tau), dtype=float)
                    else:
                        rawI = np.asarray(fn(elapsed_temporal_unit=el, init_impact_stock=trsnap["dmg0"], recovery_tau=tau), dtype=float)
                        if trsnap["hdmg0"] is not None:
                            rawH = np.asarray(fn(elapsed_temporal_unit=el, init_impact_stock=trsnap["hdmg0"], recovery_tau=tau), dtype=float)
                if not np.isfinite(rawI).all():
                    rawI = np.where(np.isfinite(rawI), rawI, 0.0)

        def opt(a):
            return None if a is None else qarr(a)

        return {
            "kind": kind, "status": trsnap["status"], "occ": trsnap["occ"], "dur": trsnap["dur"], "tau": tau,
            "curve": curve, "rawI": opt(rawI), "rawH": opt(rawH), "factor": q(factor), "prec": prec,
            "dmg0": qarr(trsnap["dmg0"]) if trsnap["dmg0"] is not None else qarr(np.zeros(N)),
            "dmg": opt(trsnap["dmg"]), "hdmg0": opt(trsnap["hdmg0"]), "hdmg": opt(trsnap["hdmg"]),
            "arb0": qarr(trsnap["arb0"]) if trsnap["arb0"] is not None else qarr(np.zeros(N)),
            "arb": opt(trsnap["arb"]), "remI": opt(trsnap["remI"]), "remH": opt(trsnap["remH"]),
            "rid": trsnap["rid"],
        }

    def _cmp_trackers(self, out, phase, post_trs, ans_trs, quantum_ok=None, dmg_scales=None):
        rid_mm, finish_tie = [], False
        for i, (pt, at) in enumerate(zip(post_trs, ans_trs)):
            loose = quantum_ok[i] if quantum_ok is not None else 0.0
            dmg_scale = (dmg_scales[i] if dmg_scales is not None else 1.0)
            tag = f"tracker[{i}]."
            fields_ok = True
            for f in ("dmg", "hdmg", "arb", "remI", "remH"):
                iv, mv = pt[f], at[f]
                if (iv is None) != (mv is None):
                    lim = loose * (dmg_scale if f in ("dmg", "hdmg") else 1.0)
                    if loose and (np.abs(iv if iv is not None else unqarr(mv)).max() <= lim * 1.0000001):
                        self.stats.tie("round-to-zero")
                        continue
                    out.append(Mismatch(phase=phase, var=tag + f, what=f"implementation {'None' if iv is None else 'set'}, model {'None' if mv is None else 'set'}"))
                    fields_ok = False
                    continue
                if iv is None:
                    continue
                extra = loose if f in ("remI", "remH", "arb") else (loose * dmg_scale if f in ("dmg", "hdmg") else 0.0)
                if not cmp_arr(out, phase, tag + f, iv, unqarr(mv), extra_abs=extra * 1.0000001):
                    fields_ok = False
            if pt["status"] != at["status"]:
                if not (loose and fields_ok and {pt["status"], at["status"]} <= {"rebuilding", "recovering", "finished"}):
                    out.append(Mismatch(phase=phase, var=tag + "status", impl=pt["status"], model=at["status"]))
                else:
                    self.stats.tie("finish")
                    finish_tie = True
            elif pt["rid"] != at["rid"]:
                rid_mm.append(Mismatch(phase=phase, var=tag + "rid", impl=pt["rid"], model=at["rid"]))
        # (an event that finishes on one side of a rounding tie and not on the other gives its block id back on one side only:
        #  the ids of the others then differ by construction)
        if not finish_tie:
            out.extend(rid_mm)

    def events_pre(self, ph, sim) -> list:
        out = []
        pre, post = ph["pre"], ph["post"]
        exc = ph.get("exc")
        N, F = self.N, self.F
        trs = [self.tracker_req(ts, tr, pre["t"]) for ts, tr in zip(pre["trackers"], sim._event_tracking)]
        req = {"op": "events_pre", "dt": int(self.model.n_temporal_units_by_step), "t": pre["t"], "nBlocks": pre["nBlocks"],
               "econ": econ_req(pre["econ"], self.model), "trackers": trs}
        ans = self.dr.ask(req)
        if ans["out"] == "rejected":
            self.stats.branch("events_pre.rejected")
            if not exc or exc[0] != "ValueError":
                K = np.asarray(self.model.productive_capital, dtype=float).ravel()
                if abs(unq(ans["excessMargin"])) <= TIE * float(np.max(np.abs(K))):
                    self.stats.tie("lost>capital")
                else:
                    out.append(Mismatch(phase="events_pre", var="outcome", what=f"model rejects (lost > capital), implementation: {exc}"))
            return out
        if ans["out"] != "ok":
            out.append(Mismatch(phase="events_pre", var="outcome", what=f"model outcome {ans['out']}"))
            return out
        if exc:
            K = np.asarray(self.model.productive_capital, dtype=float).ravel()
            if exc[0] == "ValueError" and abs(unq(ans["excessMargin"])) <= TIE * float(np.max(np.abs(K))):
                self.stats.tie("lost>capital")
            else:
                out.append(Mismatch(phase="events_pre", var="outcome", what=f"implementation raised {exc}, model ok"))
            return out
        pe = post["econ"]
        self._cmp_trackers(out, "events_pre", post["trackers"], ans["trackers"])
        if post["nBlocks"] != ans["nBlocks"]:
            out.append(Mismatch(phase="events_pre", var="nBlocks", impl=post["nBlocks"], model=ans["nBlocks"]))
            return out
        K = np.asarray(self.model.productive_capital, dtype=float).ravel()
        if pe["lost"] is not None:
            cmp_arr(out, "events_pre", "lost", pe["lost"], unqarr(ans["lost"]))
        cmp_arr(out, "events_pre", "deltaTot", pe["deltaTot"], unqarr(ans["deltaTot"]))
        if pe["arbDelta"] is not None:
            cmp_arr(out, "events_pre", "arbDelta", pe["arbDelta"], unqarr(ans["arb"]))
        if post["nBlocks"] > 0:
            rb = blocks_to_mat(ans["reb"], N, F)
            if pe["reb"] is None or pe["reb"].shape != rb.shape:
                out.append(Mismatch(phase="events_pre", var="reb", what="shape of rebuilding demand"))
            else:
                cmp_arr(out, "events_pre", "reb", pe["reb"], rb)
        cmp_arr(out, "events_pre", "dTot", pe["dTot"], unqarr(ans["dTot"]))
        for a, b in zip(pre["trackers"], post["trackers"]):
            if a["status"] != b["status"]:
                self.stats.branch(f"status.{a['status']}->{b['status']}")
        return out

    def events_post(self, ph, sim) -> list:
        out = []
        pre, post = ph["pre"], ph["post"]
        exc = ph.get("exc")
        N, F = self.N, self.F
        if exc:
            out.append(Mismatch(phase="events_post", var="outcome", what=f"implementation raised {exc}"))
            return out
        trs = [self.tracker_req(ts, tr, pre["t"]) for ts, tr in zip(pre["trackers"], sim._event_tracking)]
        e = pre["econ"]
        rp = layout_blocks(e["rebProd"], e["nE"], N, F) if e["rebProd"] is not None and e["rebProd"].size > 0 else []
        ans = self.dr.ask({"op": "events_post", "t": pre["t"], "trackers": trs, "rebProd": blocks_req(rp)})
        quantum = []
        for tq, rm in zip(trs, ans["roundMargins"]):
            qq = 1e-6 if tq["kind"] == "arbitrary" else 10.0 ** (-tq["prec"])
            quantum.append(qq if unq(rm) <= 1e-9 else 0.0)
        # a ledger cell off by one quantum moves the reported damage (column sum / factor) by up to N quanta / factor
        scales = [((self.N + 1) / max(unq(tq["factor"]), 1e-12) if tq["kind"] == "rebuild" else 1.0) for tq in trs]
        self._cmp_trackers(out, "events_post", post["trackers"], ans["trackers"], quantum_ok=quantum, dmg_scales=scales)
        for a, b in zip(pre["trackers"], post["trackers"]):
            if a["status"] != b["status"]:
                self.stats.branch(f"status.{a['status']}->{b['status']}")
        return out

    # --- a whole step

    def step(self, st: dict, sim, phases=None) -> list:
        out = []
        ph = st["phases"]
        self.sim_trackers = list(getattr(sim, "_event_tracking", []))
        for name in ("events_pre", "overprod", "production", "distribute", "events_post", "orders"):
            if name not in ph or (phases is not None and name not in phases):
                continue
            p = ph[name]
            if p.get("post") is None:
                continue
            self.stats.obligations += 1
            if name in ("events_pre", "events_post"):
                r = getattr(self, name)(p, sim)
            else:
                r = getattr(self, name)(p)
            r = list(r) + self.frame(name, p)
            if not r:
                self.stats.ok += 1
            for mm in r:
                mm["t"] = st["t"]
            out.extend(r)
        return out

    # what each phase may write (fields of the economy snapshot); everything else is left bit for bit as it was,
    # as in the model, where each phase is a function returning a record updated in those fields only
    WRITES = {
        "events_pre": {"deltaTot", "lost", "arbDelta", "reb", "nE", "dTot", "rebTot", "rebProd", "rebProdTot"},
        "overprod": {"alpha"},
        "production": {"prod", "in_shortage"},
        "distribute": {"stock", "fdUnmet", "rebProd", "rebProdTot", "reb", "rebTot", "dTot", "deliv"},
        "events_post": set(),
        "orders": {"orders", "ordersTot", "dTot"},
    }

    def frame(self, name, p) -> list:
        out = []
        if p.get("exc") or not p.get("pre") or not p.get("post"):
            return out
        a, b = p["pre"].get("econ"), p["post"].get("econ")
        if a is None or b is None:
            return out
        for key, va in a.items():
            if key in self.WRITES[name] or key not in b:
                continue
            vb = b[key]
            same = (va is None and vb is None) or (va is not None and vb is not None and (
                np.array_equal(np.asarray(va, dtype=float), np.asarray(vb, dtype=float), equal_nan=True)
                if not isinstance(va, (bool, int)) else va == vb))
            if not same:
                out.append(Mismatch(phase=name, var=key, what=f"the phase changed `{key}`, which the model's phase leaves untouched"))
        return out


# ------------------------------------------------------------------ construction obligations


def table_req(tb: dict) -> dict:
    Z = np.array(tb["Z"], dtype=float)
    Y = np.array(tb["Y"], dtype=float)
    x = Z.sum(axis=1) + Y.sum(axis=1) if "x" not in tb else np.array(tb["x"], dtype=float)
    return {"m": tb["m"], "n": tb["n"], "k": tb["k"], "Z": qarr(Z), "Y": qarr(Y), "x": qarr(x)}


def config_req(tb: dict, cfg: dict) -> dict:
    from harness import scen
    regs, secs, cats = scen.labels(tb)
    inf_names = ("inf", "Inf", "Infinity", "infinity")
    infs = cfg.get("inf_sect") or []
    if cfg.get("inventory_dict") is None:
        inv = [None if s in infs else q(cfg["main_inv_dur"]) for s in secs]
    else:
        dd = cfg["inventory_dict"]
        inv = [None if (dd[s] in inf_names or s in infs) else q(dd[s]) for s in sorted(dd.keys())]
    rt = cfg.get("restoration_tau", 60)
    rest = [q(rt[s]) for s in sorted(rt.keys())] if isinstance(rt, dict) else [q(rt)] * tb["n"]
    cap = cfg["capital"]
    if cap["kind"] == "default":
        capital = {"kind": "default"}
    elif cap["kind"] == "dict":
        capital = {"kind": "ratio", "values": [q(cap["values"][s]) for s in sorted(cap["values"].keys())]}
    else:
        capital = {"kind": "vector", "values": qarr(cap["values"])}
    return {"isPsi": cfg["class"] == "psi", "alt": cfg["order_type"] == "alt", "aBase": q(cfg["alpha_base"]),
            "aMax": q(cfg["alpha_max"]), "alphaTau": q(cfg["alpha_tau"]), "dt": int(cfg["dt"]), "yearFactor": int(cfg["year_factor"]),
            "inventories": inv, "psi": q(float(cfg.get("psi", 1.0))), "restTau": rest, "capital": capital}


def mkparams_obligation(dr: Driver, sc: dict, model, stats: Stats | None = None) -> list:
    """model of __init__ vs the attributes of the constructed implementation object"""
    out = []
    tb, cfg = sc["table"], sc["model"]
    ans = dr.ask({"op": "mkparams", **table_req(tb), "cfg": config_req(tb, cfg)})
    if stats:
        stats.obligations += 1
    if ans["out"] != "ok":
        out.append(Mismatch(phase="mkparams", var="outcome", what="model rejects a configuration the implementation accepted"))
        return out
    m, n, k = dims_of(model)
    N = m * n
    inv_i = np.asarray(model.inv_duration, dtype=float)
    inv_m = np.array([np.inf if v is None else unq(v) for v in ans["invDur"]])
    if not np.array_equal(np.isfinite(inv_i), np.isfinite(inv_m)):
        out.append(Mismatch(phase="mkparams", var="invDur", what="different set of infinite inventories"))
    else:
        cmp_arr(out, "mkparams", "invDur", np.where(np.isfinite(inv_i), inv_i, 0), np.where(np.isfinite(inv_m), inv_m, 0))
    cmp_arr(out, "mkparams", "x0", model.X_0, unqarr(ans["x0"]))
    cmp_arr(out, "mkparams", "Z0", model.Z_0, unqarr(ans["Z0"]))
    cmp_arr(out, "mkparams", "Y0", model.Y_0, unqarr(ans["Y0"]))
    cmp_arr(out, "mkparams", "tech_mat", model.tech_mat, unqarr(ans["a"]), rtol=1e-8)
    thr_i = np.asarray(model.threshold_not_input, dtype=bool).ravel()
    thr_m = np.array(ans["thr"], dtype=bool)
    if (thr_i != thr_m).any():
        # a tie of the threshold test is accepted
        ZC = np.asarray(model.Z_C, dtype=float).ravel()
        lim = (np.tile(np.asarray(model.X_0, dtype=float), (n, 1)) * 1e-5).ravel()
        d = thr_i != thr_m
        if (np.abs(ZC - lim)[d] > 1e-9 * np.maximum(np.abs(ZC), np.abs(lim))[d]).any():
            out.append(Mismatch(phase="mkparams", var="thr", what="technology mask differs", cell=int(np.argmax(d))))
    cmp_arr(out, "mkparams", "psi", [float(getattr(model, "psi", 1.0))], [unq(ans["psi"])])
    cmp_arr(out, "mkparams", "rest", np.asarray(getattr(model, "restoration_tau", np.ones(n)), dtype=float), unqarr(ans["rest"]))
    cmp_arr(out, "mkparams", "aTau", [float(model.overprod_tau)], [unq(ans["aTau"])])
    cmp_arr(out, "mkparams", "aBase", [float(model.overprod_base)], [unq(ans["aBase"])])
    cmp_arr(out, "mkparams", "aMax", [float(model.overprod_max)], [unq(ans["aMax"])])
    zd = np.asarray(model.Z_distrib, dtype=float)
    if not np.isfinite(zd).all():
        out.append(Mismatch(phase="mkparams", var="Zshare", what="non-finite market shares in the implementation"))
    else:
        cmp_arr(out, "mkparams", "Zshare", zd, unqarr(ans["Zshare"]))
    cmp_arr(out, "mkparams", "K", np.asarray(model.productive_capital, dtype=float).ravel(), unqarr(ans["K"]), rtol=1e-8)
    st_i = np.asarray(model.inputs_stock_0, dtype=float)
    fin = np.isfinite(inv_i)
    if (~np.isposinf(st_i[~fin, :])).any():
        out.append(Mismatch(phase="mkparams", var="stock0", what="initial stock of an infinite input is not +inf"))
    mask = np.repeat(fin[:, None], N, axis=1)
    cmp_arr(out, "mkparams", "stock0", np.where(mask, st_i, 0.0), unqarr(ans["stock0"], (n, N)), rtol=1e-8, mask=mask)
    cmp_arr(out, "mkparams", "dTot0", np.asarray(model.entire_demand_tot, dtype=float), unqarr(ans["dTot0"]))
    if stats and not out:
        stats.ok += 1
    return out


def event_req(sc: dict, ev: dict) -> dict:
    """EventSpec of a scenario event (wide impact in canonical order)"""
    from harness import scen
    tb = sc["table"]
    regs, secs, cats = scen.labels(tb)
    m, n, k = tb["m"], tb["n"], tb["k"]
    imp = np.zeros(m * n)
    for key, v in ev["impact"].items():
        r, s = key.split("|")
        imp[regs.index(r) * n + secs.index(s)] = v
    house = None
    if ev.get("house"):
        house = np.zeros(m * k)
        for key, v in ev["house"].items():
            r, c = key.split("|")
            house[regs.index(r) * k + cats.index(c)] = v
    kind = {"rebuild": "rebuild", "recovery": "recover", "arbitrary": "arbitrary"}[ev["type"]]
    shares = [0.0] * n
    isreb = [False] * n
    if kind == "rebuild":
        # the implementation keeps the shares as given (np.isclose(sum, 1)), it does not renormalise
        for s, v in ev["reb_sectors"].items():
            shares[secs.index(s)] = v
            isreb[secs.index(s)] = True
    return {"kind": kind, "occ": ev["occ"], "dur": ev["dur"], "tau": int(ev["rebuild_tau"] if kind == "rebuild" else ev.get("recovery_tau", 1)),
            "impact": qarr(imp), "house": None if house is None else qarr(house),
            "emf": q(ev.get("emf", 1)), "shares": qarr(shares), "isReb": isreb, "factor": q(ev.get("factor", 1.0)),
            "curve": ev.get("curve", "linear") if kind != "rebuild" else "linear"}


def trackerinit_obligation(dr: Driver, sc: dict, sim, stats: Stats | None = None) -> list:
    from harness import capture
    out = []
    tb = sc["table"]
    mf = sc["model"]["monetary_factor"]
    for i, (ev, trk) in enumerate(zip(sc["events"], sim._event_tracking)):
        if stats:
            stats.obligations += 1
        ans = dr.ask({"op": "trackerinit", **table_req(tb), "mf": q(mf), "mfLog10": int(math.log10(mf)), "ev": event_req(sc, ev)})
        snap = capture.snap_tracker(trk)
        tag = f"tracker[{i}]."
        before = len(out)
        N = tb["m"] * tb["n"]
        cmp_arr(out, "trackerinit", tag + "dmg0", snap["dmg0"] if snap["dmg0"] is not None else np.zeros(N), unqarr(ans["dmg0"]))
        for f in ("hdmg0",):
            iv, mv = snap[f], ans[f]
            if (iv is None) != (mv is None):
                out.append(Mismatch(phase="trackerinit", var=tag + f, what="presence differs"))
            elif iv is not None:
                cmp_arr(out, "trackerinit", tag + f, iv, unqarr(mv))
        cmp_arr(out, "trackerinit", tag + "arb0", snap["arb0"] if snap["arb0"] is not None else np.zeros(N), unqarr(ans["arb0"]))
        for f in ("remI", "remH"):
            iv, mv = snap[f], ans["tracker"][f]
            if (iv is None) != (mv is None):
                out.append(Mismatch(phase="trackerinit", var=tag + f, what=f"implementation {'None' if iv is None else 'set'}, model {'None' if mv is None else 'set'}"))
            elif iv is not None:
                if not np.isfinite(iv).all():
                    out.append(Mismatch(phase="trackerinit", var=tag + f, what="non-finite reconstruction demand in the implementation"))
                else:
                    cmp_arr(out, "trackerinit", tag + f, iv, unqarr(mv))
        if stats and len(out) == before:
            stats.ok += 1
    return out
