/- helper lemmas for `Boario.Properties.C10Dt` -/
import Boario.Properties.C10

namespace Boario
variable {d : Dims}

/-- one tracker through one step of length `dt` taken at time `t`: the three-interval invariant (the
    body of `OnScheduleDt`, unfolded) moves from `t` to `t + dt` -/
theorem dt_stepRel_schedule (dt t : Nat) (a b : Tracker d) (hdt : 0 < dt) (hab : StepRel t dt a b)
    (hpos : 0 < a.occ ∧ 0 < a.dur)
    (i1 : t < a.occ + dt → a.status = .pending)
    (i2 : a.occ + dt ≤ t ∧ t < a.occ + a.dur + dt → a.status = .happening)
    (i3 : a.occ + a.dur + dt ≤ t → 2 ≤ a.status.rank) :
    (t + dt < b.occ + dt → b.status = .pending) ∧
    (b.occ + dt ≤ t + dt ∧ t + dt < b.occ + b.dur + dt → b.status = .happening) ∧
    (b.occ + b.dur + dt ≤ t + dt → 2 ≤ b.status.rank) := by
  obtain ⟨⟨-, ho, hd, -⟩, hst⟩ := stepRel_spec _ _ a b hab
  rw [← ho, ← hd]
  unfold lifeStatus at hst
  cases hs : a.status <;> cases hk : a.kind <;> cases hbs : b.status <;>
    simp only [hs, hk, hbs, Status.rank] at hst i1 i2 i3 ⊢ <;> grind

/-- occurrences and durations stay positive along a step -/
theorem dt_step_occ_pos (s s' : Sim d) (h : nextStep s = .ok s')
    (hocc : ∀ tr ∈ s.trackers, 0 < tr.occ ∧ 0 < tr.dur) :
    ∀ tr ∈ s'.trackers, 0 < tr.occ ∧ 0 < tr.dur := by
  obtain ⟨hrel, -, -⟩ := nextStep_rel s s' h
  intro b hb
  obtain ⟨a, ha, hab⟩ := forall₂_mem_right hrel b hb
  obtain ⟨⟨-, ho, hd, -⟩, -⟩ := stepRel_spec _ _ a b hab
  rw [← ho, ← hd]
  exact hocc a ha

/-- `prefix_run` for every step length: `k` steps taken at times `s.t + j · dt`, `j < k`, all before
    every occurrence -/
theorem dt_prefix_run (k : Nat) : ∀ (s s' : Sim d),
    (∀ tr ∈ s.trackers, tr.status = .pending) →
    (∀ tr ∈ s.trackers, ∀ j, j < k → s.t + j * s.dt < tr.occ) →
    runN k s = some s' → runN k s.forget = some s'.forget := by
  induction k with
  | zero =>
    intro s s' _ _ h
    simp only [runN, Option.some.injEq] at h ⊢
    rw [h]
  | succ k ih =>
    intro s s' hp ho h
    unfold runN at h ⊢
    split at h
    · rename_i s1 h1
      obtain ⟨hf, ht, hdt1, htr⟩ := prefix_step s s1 hp
        (fun tr htr => by have := ho tr htr 0 (Nat.succ_pos k); omega) h1
      rw [hf]
      simp only
      refine ih s1 s' (fun b hb => (htr b hb).1) ?_ h
      intro b hb j hj
      obtain ⟨-, a, ha, hocc⟩ := htr b hb
      have := ho a ha (j + 1) (Nat.succ_lt_succ hj)
      rw [ht, hdt1, hocc]
      rw [Nat.succ_mul] at this
      omega
    · cases h

end Boario
