/-
  Helper lemmas for C02 (step refinement).

  Part 1: the shape of an `ok` economic step, phase by phase, still in the vocabulary of the model
          (`StepShape`, `econStepM_shape`).
  Part 2: the folds, masks and guarded divisions of the model rewritten as the `∑`, `min`, `max`
          and plain divisions of the documented equations.
-/
import Boario.Lemmas.Sums
import Boario.Lemmas.Deliver
import Boario.Lemmas.Production
import Boario.Lemmas.Step
import Boario.Sim

namespace Boario
variable {d : Dims}

/-! ### Part 1: shape of an `ok` step -/

/-- the economic part of `nextStep` (same text as `econStep` of the property file) -/
def econStepM (p : Params d) (op : Bool) (e : Econ d) : Outcome (Econ d) :=
  let e1 := if op then overprodPhase p e else e
  (productionPhase p e1).bind fun e2 =>
  match distribute p e2 with
  | .ok e3 => orders p e3
  | .crashed e3 => .crashed e3
  | .rejected => .rejected
  | .internal => .internal

/-- delivered intermediate orders when production is `prod'` -/
def delivOrders (e : Econ d) (prod' : Ind d → Rat) (i j : Ind d) : Rat :=
  deliverCell (rowTot e.orders e.fd e.reb i) (prod' i) (e.orders i j)

/-- demand seen by the order module: recomputed after reconstruction deliveries -/
def dTotAfter (e e' : Econ d) : Ind d → Rat :=
  if e.reb.isEmpty then e.dTot else rowTot e.orders e.fd e'.reb

/-- what an `ok` step computes, field by field, in the model's own terms -/
structure StepShape (p : Params d) (op : Bool) (e e' : Econ d) : Prop where
  alpha : e'.alpha = if op then overprod p e.alpha e.dTot e.prod else e.alpha
  capOK : ¬ capNegative p e.deltaTot e'.alpha
  prod : e'.prod = production p e.stock (xOpt p e.dTot e.deltaTot e'.alpha)
  deltaTot : e'.deltaTot = e.deltaTot
  fd : e'.fd = e.fd
  rebProd : e'.rebProd = e.reb.map (deliverBlock (rowTot e.orders e.fd e.reb) e'.prod)
  reb : e'.reb = subBlocks e.reb e'.rebProd
  fdUnmet : ∀ i, e'.fdUnmet i = sumFd d fun c =>
    e.fd i c - deliverCell (rowTot e.orders e.fd e.reb i) (e'.prod i) (e.fd i c)
  stock : (addUseClose p e'.prod (delivOrders e e'.prod) ∧ e'.stock = e.stock) ∨
    (e'.stock = fun s f => e.stock s f - stockUse p e'.prod s f + stockAdd (delivOrders e e'.prod) s f)
  orders : ∃ gap : Fin d.n → Ind d → Rat,
    (gap = gapOpen p e'.stock (xOpt p (dTotAfter e e') e.deltaTot e'.alpha) ∨
      (ordersClose p e'.stock (xOpt p (dTotAfter e e') e.deltaTot e'.alpha) ∧ gap = fun _ _ => 0)) ∧
    e'.orders = fun i j => needWith p gap e'.prod i.2 j * supplierShare p e.deltaTot e'.alpha i j

theorem ordersFinish_shape (p : Params d) (e e' : Econ d) (gap : Fin d.n → Ind d → Rat)
    (h : ordersFinish p e gap = .ok e') :
    e' = { e with orders := ordersFrom p e gap, dTot := rowTot (ordersFrom p e gap) e.fd e.reb } := by
  unfold ordersFinish at h
  simp only at h
  split_ifs at h
  injection h with h
  exact h.symm

theorem orders_shapeS (p : Params d) (e e' : Econ d) (h : orders p e = .ok e') :
    ∃ gap : Fin d.n → Ind d → Rat,
      (gap = gapOpen p e.stock (xOpt p e.dTot e.deltaTot e.alpha) ∨
        (ordersClose p e.stock (xOpt p e.dTot e.deltaTot e.alpha) ∧ gap = fun _ _ => 0)) ∧
      e' = { e with orders := ordersFrom p e gap, dTot := rowTot (ordersFrom p e gap) e.fd e.reb } := by
  unfold orders at h
  split_ifs at h with hc hcl
  · exact ⟨_, Or.inr ⟨hcl, rfl⟩, ordersFinish_shape p e e' _ h⟩
  · exact ⟨_, Or.inl rfl, ordersFinish_shape p e e' _ h⟩

theorem productionPhase_shape (p : Params d) (e e2 : Econ d) (h : productionPhase p e = .ok e2) :
    ¬ capNegative p e.deltaTot e.alpha ∧
    e2 = { e with prod := production p e.stock (xOpt p e.dTot e.deltaTot e.alpha) } := by
  unfold productionPhase at h
  split_ifs at h with hc
  injection h with h
  exact ⟨hc, h.symm⟩

theorem distribute_shape (p : Params d) (e e3 : Econ d) (h : distribute p e = .ok e3) :
    ∃ stock', e3 = distributeFinish e (deliveries e) stock' ∧
      ((addUseClose p e.prod (deliveries e).orders ∧ stock' = e.stock) ∨
       stock' = stockUpdated p e (deliveries e).orders) := by
  rcases distribute_ok p e e3 h with ⟨hc, he⟩ | ⟨_, _, he⟩
  · exact ⟨_, he, Or.inl ⟨hc, rfl⟩⟩
  · exact ⟨_, he, Or.inr rfl⟩

theorem econStepM_shape (p : Params d) (op : Bool) (e e' : Econ d)
    (hs : econStepM p op e = .ok e') : StepShape p op e e' := by
  unfold econStepM at hs
  obtain ⟨e2, h2, hs⟩ := bind_ok _ _ _ hs
  obtain ⟨hcap, rfl⟩ := productionPhase_shape p _ e2 h2
  split at hs
  · rename_i e3 h3
    obtain ⟨stock', rfl, hst⟩ := distribute_shape p _ e3 h3
    obtain ⟨gap, hgap, rfl⟩ := orders_shapeS p _ e' hs
    cases op
    · exact
        { alpha := rfl, capOK := hcap, prod := rfl, deltaTot := rfl, fd := rfl, rebProd := rfl
          reb := rfl, fdUnmet := fun _ => rfl
          stock := by
            rcases hst with ⟨hc, rfl⟩ | rfl
            · exact Or.inl ⟨hc, rfl⟩
            · exact Or.inr rfl
          orders := ⟨gap, hgap, rfl⟩ }
    · exact
        { alpha := rfl, capOK := hcap, prod := rfl, deltaTot := rfl, fd := rfl, rebProd := rfl
          reb := rfl, fdUnmet := fun _ => rfl
          stock := by
            rcases hst with ⟨hc, rfl⟩ | rfl
            · exact Or.inl ⟨hc, rfl⟩
            · exact Or.inr rfl
          orders := ⟨gap, hgap, rfl⟩ }
  · cases hs
  · cases hs
  · cases hs

/-! ### Part 2: from folds and guards to `∑`, `min`, `max`, `/` -/

open Finset in
theorem rowTot_eq_sum (orders : Ind d → Ind d → Rat) (fd : Ind d → Fd d → Rat)
    (reb : List (RebBlock d)) (i : Ind d) :
    rowTot orders fd reb i = (∑ j : Ind d, orders i j) + (∑ c : Fd d, fd i c)
      + (reb.map fun b => (∑ j : Ind d, b.indus i j) + (∑ c : Fd d, b.house i c)).sum := by
  unfold rowTot rebTot
  rw [sumInd_eq_sum_prod, sumFd_eq_sum_prod, sumList_eq_sum]
  congr 2
  apply List.map_congr_left
  intro b _
  unfold blockTot
  rw [sumInd_eq_sum_prod, sumFd_eq_sum_prod]

theorem deliverCell_eq_div (tot prod cell : Rat) : deliverCell tot prod cell = cell / tot * prod := by
  rw [deliverCell_eq]; ring

theorem pos_eq_max (x : Rat) : pos x = max 0 x := by
  unfold pos
  split_ifs with h
  · exact (max_eq_left h.le).symm
  · exact (max_eq_right (not_lt.1 h)).symm

/-- `calc_overproduction` as the documented case distinction on the scarcity index -/
theorem overprod_eq (p : Params d) (alpha dTot prod : Ind d → Rat) (f : Ind d) :
    overprod p alpha dTot prod f =
      (let zeta := if dTot f = 0 then 0 else (dTot f - prod f) / dTot f
       max 1 (if 0 < zeta then alpha f + (p.aMax - alpha f) * zeta * p.aTau
              else alpha f + (p.aBase - alpha f) * p.aTau)) := by
  have hsc : scarcity dTot prod f = if dTot f = 0 then 0 else (dTot f - prod f) / dTot f := by
    unfold scarcity
    split_ifs <;> first | rfl | contradiction
  unfold overprod alphaChg
  rw [hsc]
  simp only
  generalize (if dTot f = 0 then 0 else (dTot f - prod f) / dTot f) = z
  by_cases h1 : 0 < z
  · rw [if_pos h1, if_neg (not_le.2 h1), if_pos h1, add_zero]
  · rw [if_neg h1, if_pos (not_lt.1 h1), if_neg h1, zero_add]

/-! #### production -/

section
variable {p : Params d} {stock : Fin d.n → Ind d → Rat} {x : Ind d → Rat}

theorem stockConstraint_iff (s : Fin d.n) (f : Ind d) :
    stockConstraint p stock x s f = true ↔
      p.thr s f = true ∧ (p.invDur s).isSome = true ∧ stock s f < cons p x s f := by
  unfold stockConstraint
  simp only [Bool.and_eq_true, decide_eq_true_eq, and_assoc]

/-- no real input short: the optimal level is produced -/
theorem production_free (h : ProdPre p stock x) (f : Ind d)
    (hn : ∀ s, stockConstraint p stock x s f = false) : production p stock x f = x f := by
  rw [production_eq_prodShortage h]
  apply le_antisymm (prodShortage_le f)
  apply le_minFin _ _ _ _ (le_refl _)
  intro s
  rw [ratio_eq_one_of_not_constraint h (hn s), mul_one]

theorem cons_pos_of_constraint (h : ProdPre p stock x) {s : Fin d.n} {f : Ind d}
    (hc : stockConstraint p stock x s f = true) : 0 < cons p x s f := by
  obtain ⟨_, hsome, hlt⟩ := (stockConstraint_iff s f).1 hc
  exact lt_of_le_of_lt (h.stock_nonneg s f hsome) hlt

/-- a short real input bounds production by the optimal level times its fill ratio -/
theorem production_short_le (h : ProdPre p stock x) (f : Ind d) (s : Fin d.n)
    (hc : stockConstraint p stock x s f = true) :
    production p stock x f ≤ x f * (stock s f / cons p x s f) := by
  rw [production_eq_prodShortage h]
  have hthr := ((stockConstraint_iff s f).1 hc).1
  exact le_trans (prodShortage_le_ratio s f)
    (mul_le_mul_of_nonneg_left (ratio_le_fill hthr (cons_pos_of_constraint h hc).ne') (h.x_nonneg f))

/-- with a short real input the optimal level is positive and production is strictly below it -/
theorem production_lt_of_short (h : ProdPre p stock x) (f : Ind d) (s : Fin d.n)
    (hc : stockConstraint p stock x s f = true) : production p stock x f < x f := by
  have hpos := cons_pos_of_constraint h hc
  have hlt := ((stockConstraint_iff s f).1 hc).2.2
  have hx : 0 < x f := by
    rcases (h.x_nonneg f).lt_or_eq with hx | hx
    · exact hx
    · exfalso
      have : cons p x s f = 0 := by unfold cons; rw [← hx]; ring
      exact hpos.ne' this
  have hr : stock s f / cons p x s f < 1 := (div_lt_one hpos).2 hlt
  calc production p stock x f ≤ x f * (stock s f / cons p x s f) := production_short_le h f s hc
    _ < x f * 1 := mul_lt_mul_of_pos_left hr hx
    _ = x f := mul_one _

/-- … and that bound is attained by one of the short real inputs -/
theorem production_short_eq (h : ProdPre p stock x) (f : Ind d)
    (hex : ∃ s, stockConstraint p stock x s f = true) :
    ∃ s, stockConstraint p stock x s f = true ∧
      production p stock x f = x f * (stock s f / cons p x s f) := by
  obtain ⟨s0, hs0⟩ := hex
  have hlt := production_lt_of_short h f s0 hs0
  have hx : 0 < x f := lt_of_le_of_lt (by
    rw [production_eq_prodShortage h]; exact prodShortage_nonneg h f) hlt
  rw [production_eq_prodShortage h] at hlt ⊢
  rcases prodShortage_tight (p := p) (stock := stock) (x := x) f with heq | ⟨s, hthr, hc, heq⟩
  · exact absurd heq hlt.ne
  · refine ⟨s, ?_, heq⟩
    have hpos := cons_pos h hc
    rw [stockConstraint_iff]
    refine ⟨hthr, isSome_of_cons_ne_zero hc, ?_⟩
    by_contra hge
    have hr : 1 ≤ stock s f / cons p x s f := (one_le_div hpos).2 (not_lt.1 hge)
    have : x f ≤ prodShortage p stock x f := by
      rw [heq]
      calc x f = x f * 1 := (mul_one _).symm
        _ ≤ x f * (stock s f / cons p x s f) := mul_le_mul_of_nonneg_left hr hx.le
    exact absurd hlt (not_lt.2 this)

end

/-! #### distribution -/

open Finset in
theorem stockAdd_delivOrders (e : Econ d) (prod' : Ind d → Rat) (s : Fin d.n) (f : Ind d) :
    stockAdd (delivOrders e prod') s f
      = ∑ r : Fin d.m, e.orders (r, s) f / rowTot e.orders e.fd e.reb (r, s) * prod' (r, s) := by
  unfold stockAdd delivOrders
  rw [sumFin_eq_sum]
  apply Finset.sum_congr rfl
  intro r _
  exact deliverCell_eq_div _ _ _

theorem subBlocks_map_length (g : RebBlock d → RebBlock d) (bs : List (RebBlock d)) :
    (subBlocks bs (bs.map g)).length = bs.length := by
  induction bs with
  | nil => rfl
  | cons b bs ih => simp only [List.map_cons, subBlocks, List.length_cons, ih]

theorem subBlocks_map_getD (g : RebBlock d → RebBlock d) (bs : List (RebBlock d)) (k : Nat)
    (hk : k < bs.length) :
    (subBlocks bs (bs.map g)).getD k zeroBlock
      = subBlock (bs.getD k zeroBlock) (g (bs.getD k zeroBlock)) := by
  induction bs generalizing k with
  | nil => cases hk
  | cons b bs ih =>
    cases k with
    | zero => rfl
    | succ k =>
      simp only [List.map_cons, subBlocks, List.getD_cons_succ]
      exact ih k (Nat.lt_of_succ_lt_succ hk)

/-! #### orders -/

theorem goal_of_some (p : Params d) (x : Ind d → Rat) (s : Fin d.n) (f : Ind d) (dur : Rat)
    (hv : p.invDur s = some dur) : goal p x s f = dur * x f * p.a s f := by
  unfold goal durOrZero
  rw [hv]; ring

theorem gapOpen_eq (p : Params d) (stock : Fin d.n → Ind d → Rat) (x : Ind d → Rat)
    (s : Fin d.n) (f : Ind d) :
    gapOpen p stock x s f = match p.invDur s with
      | some dur => p.rest s * max 0 (dur * x f * p.a s f - stock s f)
      | none => 0 := by
  unfold gapOpen
  cases hv : p.invDur s with
  | none => rfl
  | some dur =>
    simp only
    rw [pos_eq_max, goal_of_some p x s f dur hv]

theorem ordersClose_some (p : Params d) (stock : Fin d.n → Ind d → Rat) (x : Ind d → Rat)
    (h : ordersClose p stock x) (s : Fin d.n) (f : Ind d) (dur : Rat) (hv : p.invDur s = some dur) :
    isClose (stock s f) (dur * x f * p.a s f) := by
  have := h s f.1 f.2
  rw [hv] at this
  simp only at this
  rw [goal_of_some p x s (f.1, f.2) dur hv] at this
  exact this

open Finset in
/-- supplier shares: the fixed `Z^Share` or `Z ⊙ capacity ratio`, renormalised -/
theorem supplierShare_eq (p : Params d) (deltaTot alpha : Ind d → Rat) (cap : Ind d → Rat)
    (hcap : ∀ i, cap i = capacity p deltaTot alpha i) (i j : Ind d) :
    supplierShare p deltaTot alpha i j =
      if p.alt then
        (let w := fun i' : Ind d => p.Z0 i' j * (if p.x0 i' = 0 then 1 else cap i' / p.x0 i')
         if (∑ r : Fin d.m, w (r, i.2)) = 0 then 0 else w i / (∑ r : Fin d.m, w (r, i.2)))
      else p.Zshare i j := by
  unfold supplierShare
  split_ifs with halt
  · have hw : ∀ i' : Ind d, zProd p deltaTot alpha i' j
        = p.Z0 i' j * (if p.x0 i' = 0 then 1 else cap i' / p.x0 i') := by
      intro i'
      unfold zProd rho safeDiv
      rw [hcap]
    unfold altShare zCProd safeDiv
    rw [sumFin_eq_sum]
    simp only [hw]
  · rfl

end Boario
