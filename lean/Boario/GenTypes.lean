/-
  Types of the tables regenerated from the source by harness/translate.py (Boario/Gen/*.lean).
-/
namespace Boario.Gen

/-- one statement of `Simulation.next_step` -/
inductive Item where
  | call (name : String)
  | assign (target : String)
  | write (a listA b listB helper : String)      -- `if (a in listA) or (b in listB): helper()`
  | ifStepGt (n : Nat) (name : String)           -- `if self.current_temporal_unit > n: name()`
  | defaultArg (name : String)                   -- `if x is None: x = …`
  | equilibriumCheck
  | tryBegin
  | tryEnd (handlers returns : String)
  | incr (target value : String)
  | ret (v : String)
  | unknown (what : String)
  deriving DecidableEq, Repr

inductive DefaultKind where
  | none | immutable | mutableLiteral | callAtDefinition | other | missing
  deriving DecidableEq, Repr

/-- a column slice `base[rows, lo:hi]` found in the source; bounds as functions of
    (n_regions, n_sectors, n_fd_cat, _n_rebuilding_events, event id); `none` = open end -/
structure ColSlice where
  fn : String
  idx : Nat
  base : String
  allRows : Bool                 -- the row selector is `:`
  unitStep : Bool                -- no step in the column slice
  lo : Nat → Nat → Nat → Nat → Nat → Option Nat
  hi : Nat → Nat → Nat → Nat → Nat → Option Nat

/-- `np.zeros(shape=(rows, cols))` found in the source -/
structure ZerosShape where
  fn : String
  rows : Nat → Nat → Nat → Nat → Nat → Option Nat
  cols : Nat → Nat → Nat → Nat → Nat → Option Nat

/-- what the translator emits for element-wise code it cannot re-express: an opaque value, about which
    nothing can be proved -/
opaque unknownFormula (what : String) : Rat

end Boario.Gen
