/-
  Helper lemmas for C11 / C20: what `receive`, `recoverOne` and `compactIds` change in a tracker
  (`receive` and `recoverOne` are cut into their stages first).
-/
import Boario.Lemmas.Ids
import Boario.Lemmas.Orders

namespace Boario
variable {d : Dims}

theorem settle_nonneg (prec : Nat) (a b : Rat) : 0 ≤ settle prec a b := pos_nonneg _

/-- first stage of `receive`: the industrial ledger -/
def recvI (tr : Tracker d) (got : RebBlock d) : Tracker d :=
  match tr.remI with
  | none => tr
  | some rem =>
    if allZeroII (fun i j => settle tr.prec (rem i j) (got.indus i j)) then { tr with remI := none, dmg := none }
    else { tr with remI := some (fun i j => settle tr.prec (rem i j) (got.indus i j)),
                   dmg := some (dmgOfRemI tr.factor (fun i j => settle tr.prec (rem i j) (got.indus i j))) }

/-- second stage: the household ledger -/
def recvH (prec : Nat) (factor : Rat) (tr1 : Tracker d) (got : RebBlock d) : Tracker d :=
  match tr1.remH with
  | none => tr1
  | some rem =>
    if allZeroIF (fun i c => settle prec (rem i c) (got.house i c)) then { tr1 with remH := none, hdmg := none }
    else { tr1 with remH := some (fun i c => settle prec (rem i c) (got.house i c)),
                    hdmg := some (dmgOfRemH factor (fun i c => settle prec (rem i c) (got.house i c))) }

/-- third stage: the finishing test -/
def finishIf (tr2 : Tracker d) : Tracker d :=
  if tr2.dmg.isNone ∧ tr2.hdmg.isNone then { tr2 with status := .finished } else tr2

theorem receive_eq (tr : Tracker d) (got : RebBlock d) :
    receive tr got = finishIf (recvH tr.prec tr.factor (recvI tr got) got) := rfl

theorem recvI_facts (tr : Tracker d) (got : RebBlock d) :
    (recvI tr got).rid = tr.rid ∧ (recvI tr got).tau = tr.tau ∧ (recvI tr got).status = tr.status ∧
    (recvI tr got).remH = tr.remH ∧
    (∀ r, (recvI tr got).remI = some r → ∀ i j, 0 ≤ r i j) := by
  unfold recvI
  split
  · next h => refine ⟨rfl, rfl, rfl, rfl, ?_⟩; intro r hr; rw [h] at hr; cases hr
  · split_ifs
    · refine ⟨rfl, rfl, rfl, rfl, ?_⟩; intro r hr; cases hr
    · refine ⟨rfl, rfl, rfl, rfl, ?_⟩
      intro r hr i j
      injection hr with hr
      subst hr
      exact settle_nonneg _ _ _

theorem recvH_facts (prec : Nat) (factor : Rat) (tr : Tracker d) (got : RebBlock d) :
    (recvH prec factor tr got).rid = tr.rid ∧ (recvH prec factor tr got).tau = tr.tau ∧
    (recvH prec factor tr got).status = tr.status ∧ (recvH prec factor tr got).remI = tr.remI ∧
    (∀ r, (recvH prec factor tr got).remH = some r → ∀ i c, 0 ≤ r i c) := by
  unfold recvH
  split
  · next h => refine ⟨rfl, rfl, rfl, rfl, ?_⟩; intro r hr; rw [h] at hr; cases hr
  · split_ifs
    · refine ⟨rfl, rfl, rfl, rfl, ?_⟩; intro r hr; cases hr
    · refine ⟨rfl, rfl, rfl, rfl, ?_⟩
      intro r hr i j
      injection hr with hr
      subst hr
      exact settle_nonneg _ _ _

theorem finishIf_facts (tr : Tracker d) :
    (finishIf tr).rid = tr.rid ∧ (finishIf tr).tau = tr.tau ∧ (finishIf tr).remI = tr.remI ∧
    (finishIf tr).remH = tr.remH ∧ ((finishIf tr).status = tr.status ∨ (finishIf tr).status = .finished) := by
  unfold finishIf
  split_ifs
  · exact ⟨rfl, rfl, rfl, rfl, Or.inr rfl⟩
  · exact ⟨rfl, rfl, rfl, rfl, Or.inl rfl⟩

theorem receive_facts (tr : Tracker d) (got : RebBlock d) :
    (receive tr got).rid = tr.rid ∧ (receive tr got).tau = tr.tau ∧
    ((receive tr got).status = tr.status ∨ (receive tr got).status = .finished) ∧
    (∀ r, (receive tr got).remI = some r → ∀ i j, 0 ≤ r i j) ∧
    (∀ r, (receive tr got).remH = some r → ∀ i c, 0 ≤ r i c) := by
  rw [receive_eq]
  obtain ⟨a1, a2, a3, a4, a5⟩ := recvI_facts tr got
  obtain ⟨b1, b2, b3, b4, b5⟩ := recvH_facts tr.prec tr.factor (recvI tr got) got
  obtain ⟨c1, c2, c3, c4, c5⟩ := finishIf_facts (recvH tr.prec tr.factor (recvI tr got) got)
  refine ⟨by rw [c1, b1, a1], by rw [c2, b2, a2], ?_, ?_, ?_⟩
  · rw [b3, a3] at c5; exact c5
  · rw [c3, b4]; exact a5
  · rw [c4]; exact b5


/-- the capital part of `recoverOne` -/
def recovCap (el : Int) (tr : Tracker d) : Tracker d :=
  if tr.kind = .recover then
    { tr with
      dmg := match tr.dmg with
        | none => none
        | some _ => if allZeroI (roundI tr.prec (tr.curveI el tr.dmg0)) then none
                    else some (roundI tr.prec (tr.curveI el tr.dmg0))
      hdmg := match tr.hdmg, tr.hdmg0 with
        | some _, some h0 => if allZeroF (roundF tr.prec (tr.curveH el h0)) then none
                             else some (roundF tr.prec (tr.curveH el h0))
        | _, _ => none }
  else tr

/-- the arbitrary-loss part -/
def recovArb (el : Int) (tr1 : Tracker d) : Tracker d :=
  { tr1 with arb := match tr1.arb with
      | none => none
      | some _ => if allZeroI (roundI 6 (tr1.curveI el tr1.arb0)) then none
                  else some (roundI 6 (tr1.curveI el tr1.arb0)) }

def recovFinish (tr2 : Tracker d) : Tracker d :=
  if tr2.dmg.isNone ∧ tr2.hdmg.isNone ∧ tr2.arb.isNone then { tr2 with status := .finished } else tr2

theorem recoverOne_eq (t : Nat) (tr : Tracker d) :
    recoverOne t tr = if tr.status ≠ .recovering then tr else
      recovFinish (recovArb ((t : Int) - ((tr.occ : Int) + (tr.dur : Int)))
        (recovCap ((t : Int) - ((tr.occ : Int) + (tr.dur : Int))) tr)) := rfl

theorem recoverOne_facts (t : Nat) (tr : Tracker d) :
    (recoverOne t tr).rid = tr.rid ∧ (recoverOne t tr).tau = tr.tau ∧
    (recoverOne t tr).remI = tr.remI ∧ (recoverOne t tr).remH = tr.remH ∧
    ((recoverOne t tr).status = tr.status ∨
      (tr.status = .recovering ∧ (recoverOne t tr).status = .finished)) := by
  rw [recoverOne_eq]
  by_cases h : tr.status ≠ .recovering
  · rw [if_pos h]; exact ⟨rfl, rfl, rfl, rfl, Or.inl rfl⟩
  · rw [if_neg h]
    have h' : tr.status = .recovering := not_not.1 h
    generalize ((t : Int) - ((tr.occ : Int) + (tr.dur : Int))) = el
    have c : (recovCap el tr).rid = tr.rid ∧ (recovCap el tr).tau = tr.tau ∧
        (recovCap el tr).remI = tr.remI ∧ (recovCap el tr).remH = tr.remH ∧
        (recovCap el tr).status = tr.status := by
      unfold recovCap; split_ifs <;> exact ⟨rfl, rfl, rfl, rfl, rfl⟩
    obtain ⟨c1, c2, c3, c4, c5⟩ := c
    unfold recovFinish
    split_ifs
    · exact ⟨c1, c2, c3, c4, Or.inr ⟨h', rfl⟩⟩
    · exact ⟨c1, c2, c3, c4, Or.inl c5⟩

/-! ### `compactIds` -/

/-- the renumbering of block ids when the ids `rel` are released -/
def renum (rel : List Nat) (id : Nat) : Nat := id - (rel.filter (· < id)).length

/-- `compactIds` on one tracker -/
def compact1 (rel : List Nat) (tr : Tracker d) : Tracker d :=
  if tr.status = .finished then { tr with rid := none }
  else match tr.rid with
    | some id => { tr with rid := some (id - (rel.filter (· < id)).length) }
    | none => tr

theorem compactIds_eq (trs : List (Tracker d)) :
    compactIds trs = trs.map (compact1 (releasedIds trs)) := rfl

theorem compact1_facts (rel : List Nat) (tr : Tracker d) :
    (compact1 rel tr).status = tr.status ∧ (compact1 rel tr).tau = tr.tau ∧
    (compact1 rel tr).remI = tr.remI ∧ (compact1 rel tr).remH = tr.remH ∧
    (compact1 rel tr).rid = (if tr.status = .finished then none else tr.rid).map (renum rel) := by
  unfold compact1
  split_ifs with h
  · exact ⟨rfl, rfl, rfl, rfl, rfl⟩
  · split
    · next id hid => refine ⟨rfl, rfl, rfl, rfl, ?_⟩; rw [hid]; rfl
    · next hid => refine ⟨rfl, rfl, rfl, rfl, ?_⟩; rw [hid]; rfl

theorem filterMap_ite_sublist {α β : Type _} (f : α → Option β) (p : α → Prop) [DecidablePred p]
    (l : List α) : (l.filterMap fun x => if p x then f x else none).Sublist (l.filterMap f) := by
  induction l with
  | nil => exact List.Sublist.refl _
  | cons x xs ih =>
    simp only [List.filterMap_cons]
    by_cases hp : p x
    · simp only [if_pos hp]
      cases f x with
      | none => exact ih
      | some b => exact ih.cons_cons b
    · simp only [if_neg hp]
      cases f x with
      | none => exact ih
      | some b => exact ih.cons b

/-- ids are kept distinct and bounded when finished trackers release theirs -/
theorem idsOK_compact (L : List (Tracker d)) (nb : Nat)
    (h1 : ∀ tr ∈ L, tr.status = .rebuilding → ∃ id, tr.rid = some id ∧ id < nb)
    (h2 : ∀ tr ∈ L, tr.status ≠ .rebuilding → tr.status ≠ .finished → tr.rid = none)
    (h3 : (L.filterMap (·.rid)).Nodup) : IdsOK (compactIds L) nb := by
  rw [compactIds_eq]
  set rel := releasedIds L with hrel
  have hrelnd : rel.Nodup := by
    have : rel.Sublist (L.filterMap (·.rid)) :=
      filterMap_ite_sublist (fun tr : Tracker d => tr.rid) (fun tr => tr.status = .finished) L
    exact h3.sublist this
  refine ⟨?_, ?_, ?_⟩
  · intro tr' htr' hs
    obtain ⟨tr, htr, rfl⟩ := List.mem_map.1 htr'
    obtain ⟨c1, _, _, _, c5⟩ := compact1_facts rel tr
    rw [c1] at hs
    obtain ⟨id, e, hlt⟩ := h1 tr htr hs
    refine ⟨renum rel id, ?_, lt_of_le_of_lt (Nat.sub_le _ _) hlt⟩
    rw [c5, if_neg (by rw [hs]; decide), e]; rfl
  · intro tr' htr' hs
    obtain ⟨tr, htr, rfl⟩ := List.mem_map.1 htr'
    obtain ⟨c1, _, _, _, c5⟩ := compact1_facts rel tr
    rw [c1] at hs
    rw [c5]
    by_cases hf : tr.status = .finished
    · rw [if_pos hf]; rfl
    · rw [if_neg hf, h2 tr htr hs hf]; rfl
  · have e : (L.map (compact1 rel)).filterMap (·.rid)
        = (L.filterMap fun tr => if ¬ tr.status = .finished then tr.rid else none).map (renum rel) := by
      rw [List.filterMap_map, List.map_filterMap]
      congr 1
      funext tr
      simp only [Function.comp]
      rw [(compact1_facts rel tr).2.2.2.2]
      by_cases hf : tr.status = .finished
      · simp [hf]
      · simp [hf]
    rw [e]
    have hkeep : (L.filterMap fun tr => if ¬ tr.status = .finished then tr.rid else none).Nodup :=
      h3.sublist (filterMap_ite_sublist (fun tr : Tracker d => tr.rid) (fun tr => ¬ tr.status = .finished) L)
    have hdisj : ∀ a ∈ (L.filterMap fun tr => if ¬ tr.status = .finished then tr.rid else none), a ∉ rel := by
      intro a ha hr
      obtain ⟨tr1, m1, e1⟩ := List.mem_filterMap.1 ha
      obtain ⟨tr2, m2, e2⟩ := List.mem_filterMap.1 hr
      by_cases f1 : tr1.status = .finished
      · simp [f1] at e1
      · by_cases f2 : tr2.status = .finished
        · rw [if_pos f1] at e1
          rw [if_pos f2] at e2
          have := rid_unique L h3 tr1 m1 tr2 m2 a e1 e2
          exact f1 (this ▸ f2)
        · rw [if_neg f2] at e2; cases e2
    refine List.Nodup.map_on ?_ hkeep
    intro a ha b hb hab
    exact renumber_inj rel hrelnd a b (hdisj a ha) (hdisj b hb) hab


theorem receiveOne_facts (rp : List (RebBlock d)) (tr : Tracker d) :
    (receiveOne rp tr).rid = tr.rid ∧ (receiveOne rp tr).tau = tr.tau ∧
    ((receiveOne rp tr).status = tr.status ∨
      (tr.status = .rebuilding ∧ (receiveOne rp tr).status = .finished)) ∧
    (TrackerOK tr → TrackerOK (receiveOne rp tr)) := by
  unfold receiveOne
  split_ifs with h
  · split
    · next id hid =>
      obtain ⟨r1, r2, r3, r4, r5⟩ := receive_facts tr (gotOfId rp id)
      refine ⟨r1, r2, ?_, fun ok => ⟨r4, r5, by rw [r2]; exact ok.tau_pos⟩⟩
      rcases r3 with r3 | r3
      · exact Or.inl r3
      · exact Or.inr ⟨h, r3⟩
    · exact ⟨rfl, rfl, Or.inl rfl, id⟩
  · exact ⟨rfl, rfl, Or.inl rfl, id⟩

theorem idsOK_receive (rp : List (RebBlock d)) (trs : List (Tracker d)) (nb : Nat) (h : IdsOK trs nb) :
    IdsOK (receiveAll rp trs) nb := by
  unfold receiveAll
  apply idsOK_compact
  · intro tr' htr' hs
    obtain ⟨tr, htr, rfl⟩ := List.mem_map.1 htr'
    obtain ⟨r1, _, r3, _⟩ := receiveOne_facts rp tr
    rw [r1]
    rcases r3 with r3 | ⟨_, r3⟩
    · exact h.has_id tr htr (r3 ▸ hs)
    · rw [r3] at hs; cases hs
  · intro tr' htr' hs hf
    obtain ⟨tr, htr, rfl⟩ := List.mem_map.1 htr'
    obtain ⟨r1, _, r3, _⟩ := receiveOne_facts rp tr
    rw [r1]
    rcases r3 with r3 | ⟨_, r3⟩
    · exact h.only_rebuilding tr htr (r3 ▸ hs)
    · exact absurd r3 hf
  · rw [List.filterMap_map]
    have : ((fun x : Tracker d => x.rid) ∘ receiveOne rp) = fun x => x.rid := by
      funext tr; exact (receiveOne_facts rp tr).1
    rw [this]
    exact h.distinct

theorem trackerOK_compact (L : List (Tracker d)) (h : ∀ tr ∈ L, TrackerOK tr) :
    ∀ tr ∈ compactIds L, TrackerOK tr := by
  rw [compactIds_eq]
  intro tr' htr'
  obtain ⟨tr, htr, rfl⟩ := List.mem_map.1 htr'
  obtain ⟨_, c2, c3, c4, _⟩ := compact1_facts (releasedIds L) tr
  have ok := h tr htr
  exact ⟨by rw [c3]; exact ok.remI_nonneg, by rw [c4]; exact ok.remH_nonneg, by rw [c2]; exact ok.tau_pos⟩

/-- `rebuild_events` then `recover_events` keep the trackers well-formed -/
theorem trackers_post (t : Nat) (rp : List (RebBlock d)) (trs : List (Tracker d)) (nb : Nat)
    (hok : ∀ tr ∈ trs, TrackerOK tr) (hids : IdsOK trs nb) :
    (∀ tr ∈ recoverAll t (receiveAll rp trs), TrackerOK tr) ∧
    IdsOK (recoverAll t (receiveAll rp trs)) nb := by
  have hok1 : ∀ tr ∈ receiveAll rp trs, TrackerOK tr := by
    apply trackerOK_compact
    intro tr' htr'
    obtain ⟨tr, htr, rfl⟩ := List.mem_map.1 htr'
    exact (receiveOne_facts rp tr).2.2.2 (hok tr htr)
  have hids1 := idsOK_receive rp trs nb hids
  unfold recoverAll
  constructor
  · intro tr' htr'
    obtain ⟨tr, htr, rfl⟩ := List.mem_map.1 htr'
    obtain ⟨_, c2, c3, c4, _⟩ := recoverOne_facts t tr
    have ok := hok1 tr htr
    exact ⟨by rw [c3]; exact ok.remI_nonneg, by rw [c4]; exact ok.remH_nonneg, by rw [c2]; exact ok.tau_pos⟩
  · refine ⟨?_, ?_, ?_⟩
    · intro tr' htr' hs
      obtain ⟨tr, htr, rfl⟩ := List.mem_map.1 htr'
      obtain ⟨c1, _, _, _, c5⟩ := recoverOne_facts t tr
      rw [c1]
      rcases c5 with c5 | ⟨_, c5⟩
      · exact hids1.has_id tr htr (c5 ▸ hs)
      · rw [c5] at hs; cases hs
    · intro tr' htr' hs
      obtain ⟨tr, htr, rfl⟩ := List.mem_map.1 htr'
      obtain ⟨c1, _, _, _, c5⟩ := recoverOne_facts t tr
      rw [c1]
      rcases c5 with c5 | ⟨c5, _⟩
      · exact hids1.only_rebuilding tr htr (c5 ▸ hs)
      · exact hids1.only_rebuilding tr htr (by rw [c5]; decide)
    · rw [List.filterMap_map]
      have : ((fun x : Tracker d => x.rid) ∘ recoverOne t) = fun x => x.rid := by
        funext tr; exact (recoverOne_facts t tr).1
      rw [this]
      exact hids1.distinct

end Boario
