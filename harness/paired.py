"""Paired-run oracles: properties that relate two (or more) runs of the implementation
(C10 prefix, C11 order/adding mode, C13 units and scale, C15 label order, C17 determinism and
isolation, C18 model variants, C19 time shift)."""
from __future__ import annotations

import copy
import random
import tempfile

from harness.common import quiet_loop, np
from harness.oracles import viol
from harness import scen
from boario.simulation import Simulation  # noqa: E402

RECORDS = ["production_realised", "production_capacity", "final_demand", "intermediate_demand", "rebuild_demand",
           "overproduction", "final_demand_unmet", "rebuild_prod", "productive_capital_to_recover"]
MONETARY = ["production_realised", "production_capacity", "final_demand", "intermediate_demand", "rebuild_demand",
            "final_demand_unmet", "rebuild_prod", "productive_capital_to_recover"]


def run_records(sc, model=None, sim=None, register_stocks=False):
    """run with loop() and return the public record frames as arrays (+ status info)"""
    sc = copy.deepcopy(sc)
    if register_stocks:
        sc["sim"]["register_stocks"] = True
    try:
        sim = sim if sim is not None else scen.build_sim(sc, model=model)
        quiet_loop(sim)
    except Exception as e:
        return {"error": f"{type(e).__name__}: {getattr(e, '__cause__', None) or e}"}
    out = {r: getattr(sim, r).to_numpy(dtype=float).copy() for r in RECORDS}
    out["columns"] = list(sim.production_realised.columns)
    if register_stocks:
        out["inputs_stocks"] = sim.inputs_stocks.to_numpy(dtype=float).copy()
    out["n"] = int(sim.n_temporal_units_simulated)
    out["crashed"] = bool(sim.has_crashed)
    out["final_stock"] = np.array(sim.model.inputs_stock, dtype=float, copy=True)
    out["inv_duration"] = np.array(sim.model.inv_duration, dtype=float, copy=True)
    return out


def cmp_records(pid, a, b, what, rtol=0.0, atol_scale=0.0, names=RECORDS, rows_a=None, rows_b=None, scale_b=1.0, extra_abs=0.0,
                ignore_crash=False):
    """compare record sets; rtol = 0 means bitwise"""
    out = []
    if "error" in a or "error" in b:
        if ("error" in a) != ("error" in b):
            out.append(viol(pid, 0, f"{what}: one run failed and the other did not", a=a.get("error"), b=b.get("error")))
        return out
    nmin = None
    if ignore_crash:
        pass
    elif a["crashed"] != b["crashed"] or (a["crashed"] and a["n"] != b["n"]):
        if rtol == 0.0 and extra_abs == 0.0:
            out.append(viol(pid, 0, f"{what}: crashed flag / crash step differs", a=(a["crashed"], a["n"]), b=(b["crashed"], b["n"])))
            return out
        # a crash decided by rounding noise (inventory exactly exhausted) may fall on either side in
        # runs that agree only to within rounding: compare the rows both runs completed
        nmin = min(a["n"], b["n"])
    for r in names:
        x = a[r] if rows_a is None else a[r][rows_a]
        y = (b[r] if rows_b is None else b[r][rows_b]) / (scale_b if r in MONETARY else 1.0)
        if nmin is not None and rows_a is None and rows_b is None:
            kk = nmin * (x.shape[0] // max(1, a[RECORDS[0]].shape[0]))
            x, y = x[:kk], y[:kk]
        if x.shape != y.shape:
            out.append(viol(pid, 0, f"{what}: record {r} has different shapes {x.shape} / {y.shape}"))
            continue
        if rtol == 0.0 and extra_abs == 0.0:
            same = np.array_equal(x, y, equal_nan=True)
        else:
            both_nan = np.isnan(x) & np.isnan(y)
            # natural scale of the variable: the economy's output for monetary records, 1 for ratios
            ref = a["production_realised"]
            sc_ = float(np.nanmax(np.abs(np.where(np.isfinite(ref), ref, 0)))) if (r in MONETARY and ref.size) else 1.0
            with np.errstate(invalid="ignore"):
                same = bool(np.all(both_nan | (np.abs(x - y) <= rtol * np.maximum(np.abs(x), np.abs(y)) + atol_scale * sc_ + extra_abs)))
        if not same:
            with np.errstate(invalid="ignore"):
                dif = np.where(np.isnan(x) & np.isnan(y), 0.0, np.abs(x - y))
                dif = np.where(np.isnan(dif), np.inf, dif)
            i, j = np.unravel_index(int(np.argmax(dif)), x.shape)
            out.append(viol(pid, int(i), f"{what}: record {r} differs", row=int(i), col=int(j), a=float(x[i, j]), b=float(y[i, j])))
            if len(out) >= 3:
                break
    return out


# ------------------------------------------------------------------ C10: prefix


def c10_prefix(sc, base):
    if not sc["events"]:
        return []
    twin = copy.deepcopy(sc)
    twin["events"] = []
    b = run_records(twin)
    first = min(e["occ"] for e in sc["events"])
    if "error" in base or "error" in b:
        return []
    rows = slice(0, first)
    return cmp_records("C10", base, b, f"rows before the earliest occurrence ({first}) vs the event-free run", rows_a=rows, rows_b=rows,
                       ignore_crash=True)


# ------------------------------------------------------------------ C11: order of events, way of adding


def c11_order(sc, base, seed, pid="C11"):
    out = []
    q = 10.0 ** -(int(np.log10(sc["model"]["monetary_factor"])) + 1)
    out += _late_registration(sc, base, seed, pid)
    if len(sc["events"]) >= 2:
        tw = copy.deepcopy(sc)
        random.Random(seed).shuffle(tw["events"])
        if tw["events"] == sc["events"]:
            tw["events"] = list(reversed(tw["events"]))
        b = run_records(tw)
        q = 10.0 ** -(int(np.log10(sc["model"]["monetary_factor"])) + 1)
        # ("beyond rounding": with other block ids the float noise differs, and a ledger cell that sits on a rounding tie may
        #  land one quantum higher or lower — a few quanta are allowed, which only matters for economies of order one)
        out += cmp_records(pid, base, b, "events added in another order", rtol=1e-9, atol_scale=1e-9, extra_abs=20 * q)
    for mode in ("ctor", "list"):
        tw = copy.deepcopy(sc)
        tw["sim"]["events_mode"] = mode
        b = run_records(tw)
        out += cmp_records(pid, base, b, f"events passed via {mode} instead of one by one")
    # events registered while the simulation is already running (before any of them occurs): the first ones up front,
    # the others after a few steps, through add_event / add_events
    if sc["events"] and "error" not in base:
        dt = int(sc["model"].get("dt", 1))
        first = min(e["occ"] for e in sc["events"])
        steps_before = (first - 1) // dt          # steps at times 0 .. (steps_before-1)*dt < first occurrence
        if steps_before >= 1:
            rng = random.Random(seed + 17)
            j = rng.randint(1, steps_before)
            try:
                sim = Simulation(scen.build_model(sc["table"], sc["model"]), n_temporal_units_to_sim=sc["T"],
                                 register_stocks=sc["sim"].get("register_stocks", False))
                evs = [scen.build_event(e) for e in sc["events"]]
                k0 = rng.randint(0, len(evs) - 1)
                for ev_ in evs[:k0]:
                    sim.add_event(ev_)
                for _ in range(j):
                    sim.next_step()
                late = evs[k0:]
                if rng.random() < 0.5:
                    for ev_ in late:
                        sim.add_event(ev_)
                else:
                    sim.add_events(late)
                for _ in range(j * dt, sc["T"], dt):
                    if sim.next_step() == 1:
                        sim.has_crashed = True
                        break
                    sim.n_temporal_units_simulated = sim.current_temporal_unit
                sim.n_temporal_units_simulated = sim.current_temporal_unit
                b = {r: getattr(sim, r).to_numpy(dtype=float).copy() for r in RECORDS}
                b["n"] = int(sim.n_temporal_units_simulated)
                b["crashed"] = bool(sim.has_crashed)
                b["columns"] = list(sim.production_realised.columns)
            except Exception as e:
                b = {"error": f"{type(e).__name__}: {e}"}
            out += cmp_records(pid, base, b, f"some events registered after {j} steps (before any occurrence) instead of up front", rtol=1e-9, atol_scale=1e-9,
                               extra_abs=20 * q)
    return out


def c11_order_c10(sc, base, seed):
    return _late_registration(sc, base, seed, "C10")


def _late_registration(sc, base, seed, pid):
    """the event that occurs last is announced while earlier events are already under way (after they left the pending
    status, before its own occurrence), through add_events([..]) or add_event: same run as when all are known up front"""
    out = []
    if len(sc["events"]) < 2 or "error" in base:
        return out
    dt = int(sc["model"].get("dt", 1))
    order = sorted(range(len(sc["events"])), key=lambda i: sc["events"][i]["occ"])
    last = order[-1]
    occ_first, occ_last = sc["events"][order[0]]["occ"], sc["events"][last]["occ"]
    # steps are taken at times 0, dt, 2dt, ...; an event acts at the first step whose time is >= its occurrence
    lo = -(-occ_first // dt) + 1           # number of steps after which the first event has started
    hi = (occ_last - 1) // dt              # number of steps whose times are all < the last occurrence
    if lo > hi:
        return out
    rng = random.Random(seed + 23)
    j = rng.randint(lo, hi)
    via = "not reached"
    try:
        kw = dict(n_temporal_units_to_sim=sc["T"], register_stocks=sc["sim"].get("register_stocks", False))
        sim = Simulation(scen.build_model(sc["table"], sc["model"]), **kw)
        evs = [scen.build_event(e) for e in sc["events"]]
        for i, ev_ in enumerate(evs):
            if i != last:
                sim.add_event(ev_)
        crashed = False
        for _ in range(j):
            if sim.next_step() == 1:
                crashed = True
                break
        if not crashed:
            via = rng.choice(["add_events", "add_events", "add_event"])
            if via == "add_events":
                sim.add_events([evs[last]])
            else:
                sim.add_event(evs[last])
            for _ in range(j * dt, sc["T"], dt):
                if sim.next_step() == 1:
                    crashed = True
                    break
        sim.has_crashed = crashed
        sim.n_temporal_units_simulated = sim.current_temporal_unit
        b = {r: getattr(sim, r).to_numpy(dtype=float).copy() for r in RECORDS}
        b["n"] = int(sim.n_temporal_units_simulated)
        b["crashed"] = bool(crashed)
        b["columns"] = list(sim.production_realised.columns)
    except Exception as e:
        b = {"error": f"{type(e).__name__}: {e}"}
    # (the base run registers the events in scenario order, this one registers the last-occurring one last: compare as
    #  for another order of registration)
    q = 10.0 ** -(int(np.log10(sc["model"]["monetary_factor"])) + 1)
    out += cmp_records(pid, base, b, f"the event occurring last announced after {j} steps, while earlier events are under way ({via})",
                       rtol=1e-9, atol_scale=1e-9, extra_abs=20 * q)
    return out


# ------------------------------------------------------------------ C13: units and scale


def c13_units(sc, base, seed):
    out = []
    rng = random.Random(seed)
    mf = sc["model"]["monetary_factor"]
    q = 10.0 ** -(int(np.log10(mf)) + 1)
    # "to within a rounding quantum": when the economy itself is not large compared with the (absolute)
    # decimal quantum of the ledgers, rounding is a first-order effect and the paired comparison says nothing
    tbz = sc["table"]
    steply = sc["model"]["dt"] / sc["model"]["year_factor"]
    xs = [(sum(tbz["Z"][i]) + sum(tbz["Y"][i])) * steply for i in range(tbz["m"] * tbz["n"])]
    xs = [v for v in xs if v > 0]
    if not xs or min(xs) < 1e8 * q:
        return out
    cap_ev = [e for e in sc["events"] if e["type"] != "arbitrary"]
    if cap_ev:
        tw = copy.deepcopy(sc)
        for e in tw["events"]:
            if e["type"] == "arbitrary":
                continue
            new = rng.choice([f for f in (1, 10**3, 10**6) if f != e["emf"]])
            ratio = e["emf"] / new
            e["impact"] = {k: v * ratio for k, v in e["impact"].items()}
            if e.get("house"):
                e["house"] = {k: v * ratio for k, v in e["house"].items()}
            e["emf"] = new
        b = run_records(tw)
        # identical up to a rounding quantum that depends only on the model's unit; the quantum enters
        # the ledgers once per step and is then propagated by the dynamics
        n = base.get("n", 1) if "error" not in base else 1
        out += cmp_records("C13", base, b, "same events expressed with other monetary factors", rtol=1e-7,
                           extra_abs=q * 50, atol_scale=1e-9)
    # the same Event objects used a second time (conversion must not be written back into the event)
    if cap_ev:
        evs = [scen.build_event(e) for e in sc["events"]]
        runs = []
        for _ in range(2):
            try:
                sim = Simulation(scen.build_model(sc["table"], sc["model"]), n_temporal_units_to_sim=sc["T"])
                for ev in evs:
                    sim.add_event(ev)
                runs.append(run_records(sc, sim=sim))
            except Exception as e:
                runs.append({"error": f"{type(e).__name__}: {e}"})
        out += cmp_records("C13", runs[0], runs[1], "same Event objects used in a second simulation")
        out += cmp_records("C13", base, runs[0], "Event objects built once vs events of the base run")
    # common scale factor on table and impacts
    cfac = rng.choice([8.0, 1e3, 1e6])
    tw = copy.deepcopy(sc)
    tw["table"]["Z"] = [[v * cfac for v in row] for row in tw["table"]["Z"]]
    tw["table"]["Y"] = [[v * cfac for v in row] for row in tw["table"]["Y"]]
    if tw["model"]["capital"]["kind"] in ("ndarray", "series", "dataframe"):
        tw["model"]["capital"]["values"] = [v * cfac for v in tw["model"]["capital"]["values"]]
    for e in tw["events"]:
        if e["type"] == "arbitrary":
            continue
        e["impact"] = {k: v * cfac for k, v in e["impact"].items()}
        if e.get("house"):
            e["house"] = {k: v * cfac for k, v in e["house"].items()}
    b = run_records(tw)
    out += cmp_records("C13", base, b, f"table and impacts multiplied by {cfac:g}", rtol=1e-6, atol_scale=1e-7,
                       scale_b=cfac, extra_abs=q * 50)
    # the same economy in a smaller unit: table x 10^k, model factor / 10^k, events as they are (their own
    # unit).  This is `unit_change_simulation` (Properties/C13Run.lean): the quantum is the same amount of
    # money, so the two runs agree up to the branch of the closeness tests (absolute tolerance 1e-8)
    ks = [k for k in (3, 6) if mf >= 10 ** k]
    if ks:
        k = rng.choice(ks)
        c = 10.0 ** k
        tw = copy.deepcopy(sc)
        tw["table"]["Z"] = [[v * c for v in row] for row in tw["table"]["Z"]]
        tw["table"]["Y"] = [[v * c for v in row] for row in tw["table"]["Y"]]
        tw["model"]["monetary_factor"] = mf // 10 ** k
        if tw["model"]["capital"]["kind"] in ("ndarray", "series", "dataframe"):
            tw["model"]["capital"]["values"] = [v * c for v in tw["model"]["capital"]["values"]]
        b = run_records(tw)
        out += cmp_records("C13", base, b, f"same economy in a unit 10^{k} times smaller (model factor / 10^{k})",
                           rtol=1e-6, atol_scale=1e-7, scale_b=c, extra_abs=q * 50)
    return out


# ------------------------------------------------------------------ C18: model variants


def c18_variants(sc, seed):
    out = []
    # base class vs psi class with psi = 1 and restoration time = one step: bit-identical
    a = copy.deepcopy(sc)
    a["model"]["class"] = "base"
    b = copy.deepcopy(sc)
    b["model"]["class"] = "psi"
    b["model"]["psi"] = random.Random(seed).choice([1.0, 1, "1_0", "1", "1.0"])
    if seed % 6 == 0:
        # a step of 49 temporal units (a restoration time of one step is 49 units; 49 * (1 / 49) is not 1 in floats)
        for m_ in (a, b):
            m_["model"]["dt"] = 49
            m_["model"]["alpha_tau"] = max(m_["model"]["alpha_tau"], 49)
            m_["T"] = 49 * 8
        regs_, secs_, _c = scen.labels(sc["table"])
        ev49 = {"type": "arbitrary", "occ": 49, "dur": 49, "name": None, "impact": {f"{regs_[0]}|{secs_[0]}": 0.4}, "recovery_tau": 98, "curve": "linear"}
        a["events"], b["events"] = [copy.deepcopy(ev49)], [copy.deepcopy(ev49)]
    b["model"]["restoration_tau"] = int(a["model"]["dt"])
    if random.Random(seed + 2).random() < 0.3:
        # an input kept without any inventory (0 days: accepted with a warning, treated as the minimum of 2 steps)
        secs_ = scen.labels(sc["table"])[1]
        dd = {s_: (sc["model"].get("inventory_dict") or {}).get(s_, sc["model"]["main_inv_dur"]) for s_ in secs_}
        dd[secs_[seed % len(secs_)]] = 0
        a["model"]["inventory_dict"] = dict(dd)
        b["model"]["inventory_dict"] = dict(dd)
        a["model"]["inf_sect"] = b["model"]["inf_sect"] = None
    if random.Random(seed + 1).random() < 0.5:
        # the same restoration time given per input, as a dictionary
        b["model"]["restoration_tau"] = {s_: int(a["model"]["dt"]) for s_ in scen.labels(sc["table"])[1]}
    ra, rb = run_records(a, register_stocks=True), run_records(b, register_stocks=True)
    out += cmp_records("C18", ra, rb, "base model vs psi model with psi = 1 and restoration time of one step",
                       names=RECORDS + ["inputs_stocks"])
    return out


def c18_orders(sc, seed):
    """alt vs noalt on an event-free run (uniform relative capacity)"""
    out = []
    a = copy.deepcopy(sc)
    a["events"] = []
    a["model"]["order_type"] = "alt"
    b = copy.deepcopy(a)
    b["model"]["order_type"] = "noalt"
    ra, rb = run_records(a), run_records(b)
    out += cmp_records("C18", ra, rb, "alt vs noalt orders on an event-free run", rtol=1e-9, atol_scale=1e-9)
    # a shock that removes the same share of capacity from every supplier of an input (same sector in every
    # region), overproduction disabled: all suppliers of each input keep the same relative capacity
    rng = random.Random(seed + 5)
    regs, secs, cats = scen.labels(sc["table"])
    ssec = rng.choice(secs)
    ev = {"type": "arbitrary", "occ": 2, "dur": rng.randint(2, 5), "name": None,
          "impact": {f"{r}|{ssec}": 0.3 for r in regs}, "recovery_tau": rng.choice([3, 5]), "curve": "linear"}
    outs = []
    for ot in ("alt", "noalt"):
        tw = copy.deepcopy(sc)
        tw["events"] = [ev]
        tw["T"] = 20
        tw["model"]["order_type"] = ot
        tw["model"]["alpha_max"] = tw["model"]["alpha_base"]
        outs.append(run_records(tw))
    out += cmp_records("C18", outs[0], outs[1], "alt vs noalt under a uniform capacity loss of every supplier of an input",
                       rtol=1e-8, atol_scale=1e-9)
    # an unequal, small capacity loss that fades out slowly (per-step change of the capacity ratio far below 1e-5):
    # once it is over every supplier is back at the same relative capacity, and from the same state the alt orders are
    # the noalt orders again (the histories of two separate runs differ, so both variants are evaluated on one state)
    if rng.random() < 0.35 and sc["table"]["m"] >= 2:
        r0 = rng.choice(regs)
        ev2 = {"type": "arbitrary", "occ": 2, "dur": 1, "name": None, "impact": {f"{r0}|{ssec}": rng.choice([0.002, 0.004])},
               "recovery_tau": 420, "curve": "linear"}
        tw = copy.deepcopy(sc)
        tw["events"] = [ev2]
        tw["T"] = 450
        tw["model"]["dt"] = 1
        tw["model"]["order_type"] = "alt"
        tw["model"]["alpha_max"] = tw["model"]["alpha_base"]
        tw["sim"]["save_records"] = []
        tw["sim"]["show_progress"] = False
        try:
            sim = scen.build_sim(tw)
            model = sim.model
            orig = model.calc_orders
            seen = []

            def both():
                if sim.current_temporal_unit >= 430:
                    m2 = copy.deepcopy(model)
                    m2.order_type = "noalt"
                    type(model).calc_orders(m2)
                    other = np.array(m2.intermediate_demand, dtype=float, copy=True)
                    orig()
                    seen.append((int(sim.current_temporal_unit), np.array(model.intermediate_demand, dtype=float, copy=True), other))
                else:
                    orig()
            model.calc_orders = both
            for _ in range(450):
                if sim.next_step() == 1:
                    break
            for t, mine, other in seen:
                scale = float(np.max(np.abs(other), axis=0, keepdims=True).max()) or 1.0
                colmax = np.max(np.abs(other), axis=0)
                bad = np.abs(mine - other) > 1e-7 * np.maximum(colmax[None, :], 0.0) + 1e-12 * scale
                if bad.any():
                    i, j = np.argwhere(bad)[0]
                    out.append(viol("C18", t, "alt orders differ from noalt orders evaluated on the same state, after a small unequal capacity loss "
                                    "has faded out over 420 steps (all suppliers back at the same relative capacity)",
                                    supplier=int(i), client=int(j), alt=float(mine[i, j]), noalt=float(other[i, j])))
                    break
        except Exception:
            pass
    # technical coefficients given with 8 decimals (consistent with Z and x within the accepted tolerance only):
    # both variants must still take their supplier shares from the same flows.  Overproduction disabled: such a
    # table is not exactly at rest and the drift of alpha is not what is compared here
    if rng.random() < 0.5 and sc["table"]["scale"] >= 1:
        outs = []
        for ot in ("alt", "noalt"):
            tw = copy.deepcopy(sc)
            tw["table"]["A_round"] = 8
            # one industry sells mostly to final demand: its technical coefficients are small numbers, of which 8
            # decimals keep only a few significant digits
            jbig = (seed + 3) % len(tw["table"]["Y"])
            tw["table"]["Y"][jbig] = [abs(v) * 1e4 + 1.0 for v in tw["table"]["Y"][jbig]]
            tw["events"] = []
            tw["T"] = 6
            tw["model"]["order_type"] = ot
            tw["model"]["alpha_max"] = tw["model"]["alpha_base"]
            outs.append(run_records(tw))
        if "error" not in outs[0] and "error" not in outs[1]:
            out += cmp_records("C18", outs[0], outs[1], "alt vs noalt on an event-free run, coefficients published with 8 decimals",
                               rtol=1e-7, atol_scale=1e-9, names=["intermediate_demand", "production_realised"])
    return out


# ------------------------------------------------------------------ C19: time shift


def c19_shift(sc, base, seed):
    out = []
    if not sc["events"]:
        return out
    rng = random.Random(seed)
    k = rng.randint(1, 12)
    dt = int(sc["model"].get("dt", 1))
    steps = k
    k = k * dt                      # a delay of `steps` steps is `steps * dt` temporal units (rows of the records)
    half = random.Random(seed + 97).random() < 0.25
    if half:
        # occurrences given as half-integers (2.5: the event is picked up at the first step at or after it), delayed by whole steps
        sc = copy.deepcopy(sc)
        for e in sc["events"]:
            e["occ"] = e["occ"] + 0.5 if e["occ"] + 0.5 + e["dur"] <= sc["T"] else e["occ"]
        base = run_records(sc)
    tw = copy.deepcopy(sc)
    tw["T"] = sc["T"] + k
    for e in tw["events"]:
        e["occ"] += k
    if rng.random() < 0.4 and not half:
        # the delay applied to Event objects already built, through the public `occurrence` setter
        try:
            evs = [scen.build_event(e) for e in sc["events"]]
            for ev_ in evs:
                ev_.occurrence = ev_.occurrence + k
            simb = Simulation(scen.build_model(tw["table"], tw["model"]), n_temporal_units_to_sim=tw["T"])
            for ev_ in evs:
                simb.add_event(ev_)
            b = run_records(tw, sim=simb)
        except Exception as e:
            b = {"error": f"{type(e).__name__}: {e}"}
    else:
        b = run_records(tw)
    if "error" in base or "error" in b:
        if ("error" in base) != ("error" in b):
            out.append(viol("C19", 0, f"shift by {k}: one run failed and the other did not", a=base.get("error"), b=b.get("error")))
        return out
    n = min(base["n"], b["n"] - k)
    if base["crashed"] != b["crashed"]:
        # a crash one step earlier / later is a real difference
        out.append(viol("C19", 0, f"shift by {k}: crashed flag differs", a=base["crashed"], b=b["crashed"]))
        return out
    q = 10.0 ** -(int(np.log10(sc["model"]["monetary_factor"])) + 1)
    out += cmp_records("C19", base, b, f"all events{' (half-integer occurrences)' if half else ''} delayed by {steps} steps ({k} temporal units)", rtol=1e-9, atol_scale=1e-9,
                       rows_a=slice(0, n), rows_b=slice(k, k + n))
    # and the first k rows of the delayed run are the equilibrium
    return out


# ------------------------------------------------------------------ C17: determinism / isolation / inputs untouched


def c17_determinism(sc, base, seed):
    out = []
    b = run_records(sc)
    out += cmp_records("C17", base, b, "same inputs run twice")
    return out


def c19_late(sc, base, seed):
    """an event late in a long run (beyond the periodic equilibrium checks) behaves as the same event early"""
    out = []
    if not sc["events"] or seed % 8 != 0:
        return out
    dt = int(sc["model"].get("dt", 1))
    k = 735 * dt                    # 735 steps, in temporal units
    a = copy.deepcopy(sc)
    a["T"] = 30 * dt
    b = copy.deepcopy(sc)
    b["T"] = 30 * dt + k
    for e in a["events"]:
        e["occ"] = min(e["occ"], 3)
        e["dur"] = min(e["dur"], 3)
    b["events"] = copy.deepcopy(a["events"])
    for e in b["events"]:
        e["occ"] += k
    ra, rb = run_records(a), run_records(b)
    if "error" in ra or "error" in rb:
        if ("error" in ra) != ("error" in rb):
            out.append(viol("C19", 0, f"shift by {k}: one run failed and the other did not", a=ra.get("error"), b=rb.get("error")))
        return out
    if ra["crashed"] or rb["crashed"]:
        return out
    if rb["n"] != ra["n"] + k:
        out.append(viol("C19", 0, f"shift by {k}: the delayed run simulated {rb['n']} temporal units instead of {ra['n'] + k}"))
        return out
    n = ra["n"]
    out += cmp_records("C19", ra, rb, f"all events delayed by {k} temporal units (long horizon)", rtol=1e-9, atol_scale=1e-9,
                       rows_a=slice(0, n), rows_b=slice(k, k + n))
    return out


# ------------------------------------------------------------------ loop(): crash flag, horizon


def c05_loop(sc, base, seed, tr=None):
    """loop() (with the options of the scenario, progress bar included) stops where manual stepping meets the first
    negative inventory and flags the run as crashed; otherwise it covers the horizon"""
    out = []
    if tr is None or "error" in base or tr.step_error or tr.build_error:
        return out
    # (a crashing step returns 1 before the clock is advanced: the time reached is the time of that step)
    n_manual = (tr.steps[-1]["t"] + (0 if tr.crashed else int(sc["model"].get("dt", 1)))) if tr.steps else 0
    if bool(base["crashed"]) != bool(tr.crashed):
        out.append(viol("C05", n_manual, "loop() and manual stepping disagree on the crashed flag", loop=bool(base["crashed"]),
                        manual=bool(tr.crashed), show_progress=bool(sc["sim"].get("show_progress"))))
    elif tr.crashed and base["n"] != n_manual:
        out.append(viol("C05", n_manual, "loop() did not stop at the step where an inventory became negative", loop_units=base["n"], manual_units=n_manual))
    # the same run with the progress bar switched the other way
    tw = copy.deepcopy(sc)
    tw["sim"]["show_progress"] = not sc["sim"].get("show_progress", False)
    b = run_records(tw)
    if "error" not in b and (b["crashed"] != base["crashed"] or b["n"] != base["n"]):
        out.append(viol("C05", 0, "the crashed flag / number of temporal units simulated depends on show_progress",
                        with_bar=(b["crashed"], b["n"]) if tw["sim"]["show_progress"] else (base["crashed"], base["n"]),
                        without_bar=(base["crashed"], base["n"]) if tw["sim"]["show_progress"] else (b["crashed"], b["n"])))
    return out


def c05_loop_c20(sc, base, seed, tr=None):
    """a run that ends on a negative inventory is reported as crashed whatever the display options"""
    out = c05_loop(sc, base, seed, tr)
    for v in out:
        v["property"] = "C20"
    return out


def long_loop(sc, base, seed, pid="C10"):
    """a run longer than the periodic equilibrium checks of loop() (every 182 temporal units), with the scenario's first
    event moved late: loop() covers the whole horizon and the late event acts on schedule"""
    out = []
    if seed % 5 != 0:
        return out
    from harness import known as _known
    if _known.PREDICATES["F36"](sc):
        return out          # (known finding F36: rounding noise grows over hundreds of steps for this configuration)
    dt = int(sc["model"].get("dt", 1))
    tw = copy.deepcopy(sc)
    T = 800 * dt
    tw["T"] = T
    tw["sim"]["show_progress"] = False
    late = T - 40 * dt
    tw["events"] = copy.deepcopy(sc["events"][:1])
    for e in tw["events"]:
        e["occ"], e["dur"] = late, 1
    b = run_records(tw)
    if "error" in b:
        return out
    if not b["crashed"] and b["n"] != T:
        out.append(viol(pid, b["n"], f"loop() simulated {b['n']} temporal units of a horizon of {T}"))
        return out
    # inventories declared infinite are still infinite at the end (nothing the loop does periodically may touch them)
    if "final_stock" in b and not b["crashed"]:
        inf_rows = ~np.isfinite(b["inv_duration"])
        if inf_rows.any() and not np.isposinf(b["final_stock"][inf_rows]).all():
            out.append(viol(pid, T, "an inventory declared infinite is no longer infinite at the end of a long run"))
        if np.isnan(b["final_stock"]).any():
            out.append(viol(pid, T, "NaN in the inventories at the end of a long run"))
    rec = b["production_realised"]
    last = rec[T - dt]
    if not b["crashed"] and not np.isfinite(last).all():
        out.append(viol(pid, T - dt, "the last step of a long run was not recorded"))
    if pid == "C01" and not tw["events"] and not b["crashed"] and np.isfinite(last).all():
        sc0 = float(np.max(np.abs(rec[0]))) or 1.0
        dev = float(np.max(np.abs(last - rec[0]))) / sc0
        if dev > 1e-9:
            out.append(viol(pid, T - dt, "an event-free run of 800 steps has left the initial equilibrium", relative_deviation=dev))
    aff_positive = True
    if tw["events"] and not b["crashed"]:
        # (an event that only hits industries without any output cannot move a capacity that is zero)
        cols = [tuple(c_) for c_ in b["columns"]]
        idx = [cols.index(tuple(k_.split("|"))) for k_ in tw["events"][0]["impact"] if tuple(k_.split("|")) in cols]
        row0 = b["production_capacity"][0]
        aff_positive = any(row0[j_] > 0 for j_ in idx) if idx else True
    if tw["events"] and not b["crashed"] and aff_positive:
        cap = b["production_capacity"]
        before, at = cap[late - dt if late % dt == 0 else (late // dt) * dt], cap[((late + dt - 1) // dt) * dt]
        if np.allclose(before, at, rtol=1e-12, atol=0) and tw["events"][0]["type"] != "rebuild":
            # (a rebuilding event also changes capacity at its occurrence; kept simple: any event must move the capacity)
            out.append(viol(pid, late, f"an event occurring at {late} in a long run never acted on the production capacity"))
        elif np.allclose(before, at, rtol=1e-12, atol=0):
            out.append(viol(pid, late, f"an event occurring at {late} in a long run never acted on the production capacity"))
    return out


def long_loop_c01(sc, base, seed):
    tw = copy.deepcopy(sc)
    tw["events"] = []
    return long_loop(tw, base, seed, pid="C01")


def long_loop_c11(sc, base, seed):
    return long_loop(sc, base, seed, pid="C11")


def long_loop_c05(sc, base, seed):
    tw = copy.deepcopy(sc)
    if tw["model"].get("inventory_dict") is None and not tw["model"].get("inf_sect"):
        tw["model"]["inf_sect"] = [scen.labels(tw["table"])[1][0]]          # make sure one input has infinite inventories
    tw["events"] = []
    return long_loop(tw, base, seed * 5, pid="C05")


def event_reuse(sc, base, seed, pid="C08"):
    """the same Event objects tracked by two simulations one after the other: the second run is the run of fresh events"""
    out = []
    if not sc["events"] or "error" in base:
        return out
    try:
        shared = {}
        evs = [scen.build_event(e, shared=shared) for e in sc["events"]]
        runs = []
        for _ in range(2):
            sim = Simulation(scen.build_model(sc["table"], sc["model"]), n_temporal_units_to_sim=sc["T"],
                             register_stocks=sc["sim"].get("register_stocks", False))
            for ev in evs:
                sim.add_event(ev)
            runs.append(run_records(sc, sim=sim))
    except Exception as e:
        out.append(viol(pid, 0, f"Event objects cannot be used in two simulations: {type(e).__name__}: {str(e)[:120]}"))
        return out
    out += cmp_records(pid, runs[0], runs[1], "the same Event objects used in a second simulation (bitwise)")
    out += cmp_records(pid, base, runs[1], "Event objects already used in another simulation vs the events of the base run", rtol=1e-12, atol_scale=1e-12)
    return out


def event_reuse_c11(sc, base, seed):
    return event_reuse(sc, base, seed, pid="C11")



def event_reuse_c09(sc, base, seed):
    return event_reuse(sc, base, seed, pid="C09")


def table_reuse(sc, base, seed, pid="C01"):
    """the caller's IOSystem object is used for a first model, edited (another balanced table with the same labels) and
    used again: the second model is the model of the table as it is now (same as from a fresh object holding it)"""
    out = []
    try:
        rng = random.Random(seed + 31)
        tb1 = copy.deepcopy(sc["table"])
        tb1.pop("dtype", None)
        # another balanced table of the same shape: some final demands scaled, output re-balanced by construction
        f = [rng.choice([0.5, 1.0, 2.0, 3.0]) for _ in tb1["Y"]]
        if all(v == 1.0 for v in f):
            f[0] = 2.0
        tb1["Y"] = [[v * f[i] for v in row] for i, row in enumerate(tb1["Y"])]
        tb1.pop("x", None)
        io = scen.build_table(sc["table"])
        m_first = scen.build_model(sc["table"], sc["model"], io=io)
        io2 = scen.build_table(tb1)
        for attr in ("Z", "Y", "x", "A"):
            if getattr(io2, attr, None) is not None:
                setattr(io, attr, getattr(io2, attr).copy())
        m_again = scen.build_model(tb1, sc["model"], io=io)
        m_fresh = scen.build_model(tb1, sc["model"], io=scen.build_table(tb1))
    except Exception as e:
        return out          # (a table the models refuse: nothing to compare)
    for name in ("X_0", "Z_0", "Y_0", "tech_mat", "inputs_stock", "production", "intermediate_demand", "final_demand"):
        a, b = np.asarray(getattr(m_again, name), dtype=float), np.asarray(getattr(m_fresh, name), dtype=float)
        if a.shape != b.shape or not np.array_equal(a, b, equal_nan=True):
            out.append(viol(pid, 0, f"a model built on a table object that was used before and edited since is not the model of the table as it is now: {name} differs",
                            worst=float(np.nanmax(np.abs(a - b))) if a.shape == b.shape else None))
            break
    return out


def table_reuse_c17(sc, base, seed):
    return table_reuse(sc, base, seed, pid="C17")


def numeric_labels(sc, base, seed, pid="C05"):
    """a table whose sector labels are integers (ten or more of them: '10' sorts before '2' as text), inventories given per
    sector with one declared infinite: every duration belongs to the input it is given for, the infinite one never limits
    production, and the run is the run of the same table under text labels in the same order"""
    out = []
    if seed % 3 != 0:
        return out
    import pandas as pd
    import pymrio
    from boario import event as bev
    from boario.extended_models import ARIOPsiModel
    rng = random.Random(seed + 41)
    m, n = rng.choice([1, 2]), rng.choice([10, 11, 12])
    N = m * n
    Z = np.array([[rng.uniform(0.5, 10.0) for _ in range(N)] for _ in range(N)]) * 1000.0
    Y = np.array([[rng.uniform(20.0, 60.0)] for _ in range(N)]) * 1000.0 * m
    regs = scen.REG_NAMES[:m]
    inf_pos = rng.randrange(n)
    durs = [rng.choice([90, 60, 30, 10, 5]) for _ in range(n)]
    loss = rng.choice([0.6, 0.8])

    def run(sec_labels):
        ind = pd.MultiIndex.from_product([regs, sec_labels], names=["region", "sector"])
        fdi = pd.MultiIndex.from_product([regs, ["gov"]], names=["region", "category"])
        io = pymrio.IOSystem()
        io.Z = pd.DataFrame(Z, index=ind, columns=ind)
        io.Y = pd.DataFrame(np.tile(Y / m, (1, m)), index=ind, columns=fdi)
        io.x = pd.DataFrame(Z.sum(axis=1) + Y.sum(axis=1), index=ind, columns=["indout"])
        io.A = pymrio.calc_A(io.Z, io.x)
        inv = {lab: ("inf" if j == inf_pos else durs[j]) for j, lab in enumerate(sec_labels)}
        keys = list(inv)
        random.Random(seed + 43).shuffle(keys)
        model = ARIOPsiModel(io, inventory_dict={kk: inv[kk] for kk in keys}, psi_param=0.9, inventory_restoration_tau=30)
        sim = Simulation(model, n_temporal_units_to_sim=14)
        imp = pd.Series({(r, sec_labels[inf_pos]): loss for r in regs})
        imp.index = pd.MultiIndex.from_tuples(list(imp.index), names=["region", "sector"])
        sim.add_event(bev.from_series(imp, event_type="arbitrary", occurrence=2, duration=6, recovery_tau=3, recovery_function="linear"))
        quiet_loop(sim)
        return model, {r: getattr(sim, r).to_numpy(dtype=float).copy() for r in ("production_realised", "limiting_inputs", "final_demand_unmet")}

    try:
        m_int, r_int = run(list(range(1, n + 1)))
        m_txt, r_txt = run([f"s{j:02d}" for j in range(1, n + 1)])
    except Exception as e:
        out.append(viol(pid, 0, f"a table with integer sector labels cannot be simulated: {type(e).__name__}: {str(e)[:150]}"))
        return out
    want = np.array([np.inf if j == inf_pos else float(durs[j]) for j in range(n)])
    got = np.asarray(m_int.inv_duration, dtype=float).ravel()
    if got.shape != want.shape or not np.array_equal(got, np.where(want <= 1, 2, want)):
        out.append(viol(pid, 0, "integer sector labels: the inventory durations held by the model are not those given for each input",
                        given=[float(v) for v in want], held=[float(v) for v in got]))
    stock = np.asarray(m_int.inputs_stock, dtype=float)
    if not np.isposinf(stock[inf_pos]).all():
        out.append(viol(pid, 14, "integer sector labels: the input declared infinite has a finite inventory", input=inf_pos + 1))
    for r in ("production_realised", "final_demand_unmet", "limiting_inputs"):
        if not np.array_equal(r_int[r], r_txt[r], equal_nan=True):
            out.append(viol(pid, 0, f"integer sector labels vs the same table under text labels in the same order: record {r} differs"))
            break
    return out


def numeric_labels_c15(sc, base, seed):
    return numeric_labels(sc, base, seed, pid="C15")


def copy_midrun(sc, base, seed, pid="C10"):
    """the simulation is deep-copied (or pickled and loaded) in the middle of the run and the run is continued with the copy,
    the original being left alone: same records as the uninterrupted run"""
    out = []
    if "error" in base or seed % 2 != 0:
        return out
    import pickle
    dt = int(sc["model"].get("dt", 1))
    nsteps = len(range(0, sc["T"], dt))
    if nsteps < 3:
        return out
    rng = random.Random(seed + 53)
    j = rng.randint(1, nsteps - 1)
    how = rng.choice(["deepcopy", "deepcopy", "pickle"])
    tw = copy.deepcopy(sc)
    tw["sim"]["save_records"] = []          # (records kept as files are memory maps of one directory: not what is copied here)
    tw["sim"]["show_progress"] = False
    ref = base if not sc["sim"].get("save_records") else run_records(tw)
    if "error" in ref:
        return out
    try:
        sim = scen.build_sim(tw)
        crashed = False
        for _ in range(j):
            if sim.next_step() == 1:
                crashed = True
                break
        if crashed:
            return out
        if how == "pickle":
            try:
                sim2 = pickle.loads(pickle.dumps(sim))
            except Exception:
                how = "deepcopy"          # (user-defined recovery functions defined in a script do not pickle)
                sim2 = copy.deepcopy(sim)
        else:
            sim2 = copy.deepcopy(sim)
        for _ in range(j * dt, sc["T"], dt):
            if sim2.next_step() == 1:
                crashed = True
                break
        b = {r: getattr(sim2, r).to_numpy(dtype=float).copy() for r in RECORDS}
        b["n"] = int(sim2.current_temporal_unit)
        b["crashed"] = bool(crashed)
        b["columns"] = list(sim2.production_realised.columns)
        untouched = int(sim.current_temporal_unit)
    except Exception as e:
        out.append(viol(pid, j * dt, f"a simulation copied ({how}) after {j} steps cannot be continued: {type(e).__name__}: {str(e)[:150]}"))
        return out
    if untouched != j * dt:
        out.append(viol(pid, j * dt, f"continuing the copy ({how}) of a simulation advanced the original (clock {untouched}, expected {j * dt})"))
    out += cmp_records(pid, ref, b, f"run continued with a copy ({how}) of the simulation taken after {j} steps")
    return out


def copy_midrun_c09(sc, base, seed):
    return copy_midrun(sc, base, seed, pid="C09")


def copy_midrun_c11(sc, base, seed):
    return copy_midrun(sc, base, seed, pid="C11")


def copy_midrun_c08(sc, base, seed):
    return copy_midrun(sc, base, seed, pid="C08")


def copy_midrun_c02(sc, base, seed):
    return copy_midrun(sc, base, seed, pid="C02")


def copy_midrun_c04(sc, base, seed):
    return copy_midrun(sc, base, seed, pid="C04")


def copy_midrun_c06(sc, base, seed):
    return copy_midrun(sc, base, seed, pid="C06")


def c19_periodic(sc, base, seed, rebuild=False):
    """a horizon longer than the period of the simulation's own housekeeping (every 182 temporal units): an arbitrary loss still
    recovering when that date passes, against the same event 60 steps later (which passes it before it occurs)"""
    out = []
    if seed % 4 != 0:
        return out
    from harness import known as _known0
    if _known0.PREDICATES["F36"](sc):
        return out          # (known finding F36)
    rng = random.Random(seed + 61)
    regs, secs, cats = scen.labels(sc["table"])
    dt = int(sc["model"].get("dt", 1))
    occ = 150 * dt
    ev = {"type": "arbitrary", "occ": occ, "dur": 10 * dt, "name": None,
          "impact": {f"{rng.choice(regs)}|{rng.choice(secs)}": rng.choice([0.2, 0.4])}, "recovery_tau": 60 * dt, "curve": "linear"}
    if rebuild or seed % 8 == 4:
        # a reconstruction under way when that date passes (its rebuilding sector serves all demand thanks to overproduction)
        tb_, cfg_ = sc["table"], sc["model"]
        try:
            K_ = np.asarray(scen.build_model(tb_, cfg_).productive_capital, dtype=float).ravel()
        except Exception:
            return out
        r_, s_ = rng.choice(regs), rng.choice(secs)
        i_ = regs.index(r_) * len(secs) + secs.index(s_)
        if K_[i_] <= 0:
            return out
        ev = {"type": "rebuild", "occ": occ, "dur": 2 * dt, "name": None, "emf": cfg_["monetary_factor"],
              "impact": {f"{r_}|{s_}": float(K_[i_] * 0.1)}, "house": None, "rebuild_tau": 60 * dt,
              "reb_sectors": {rng.choice(secs): 1.0}, "factor": 1.0}
    a = copy.deepcopy(sc)
    a["events"] = [ev]
    if ev["type"] == "rebuild":
        from harness import known as _known
        scen.avoid_f13(a, rng)
        if not a["events"] or _known.match_scenario("C19", a):
            return out
        ev = a["events"][0]
    a["T"] = 260 * dt
    a["sim"]["save_records"] = []
    a["sim"]["show_progress"] = False
    k = 60 * dt
    b = copy.deepcopy(a)
    b["events"] = [dict(ev, occ=occ + k)]
    b["T"] = a["T"] + k
    ra, rb = run_records(a), run_records(b)
    if "error" in ra or "error" in rb:
        if ("error" in ra) != ("error" in rb):
            out.append(viol("C19", 0, f"long horizon, shift by {k}: one run failed and the other did not", a=ra.get("error"), b=rb.get("error")))
        return out
    if ra["crashed"] or rb["crashed"]:
        return out
    n = min(ra["n"], rb["n"] - k)
    out += cmp_records("C19", ra, rb, f"an arbitrary loss recovering across temporal unit 182, delayed by 60 steps ({k} temporal units)",
                       rtol=1e-9, atol_scale=1e-9, rows_a=slice(0, n), rows_b=slice(k, k + n))
    return out


def pure_manual(sc, base, seed, pid="C10"):
    """the same run driven by nothing but next_step() calls (no attribute of the simulation is touched in between): same records
    as loop()"""
    out = []
    if "error" in base or seed % 2 != 1:
        return out
    tw = copy.deepcopy(sc)
    tw["sim"]["show_progress"] = False
    try:
        sim = scen.build_sim(tw)
        dt = int(sc["model"].get("dt", 1))
        crashed = False
        # (the period of the simulation's own crash / equilibrium checks is a matter of reporting: with frequent checks the
        #  records are the same)
        kwn = {} if seed % 4 == 1 else {"check_period": 3 * dt, "min_steps_check": dt}
        for _ in range(0, sc["T"], dt):
            if sim.next_step(**kwn) == 1:
                crashed = True
                break
        b = {r: getattr(sim, r).to_numpy(dtype=float).copy() for r in RECORDS}
        b["n"] = int(sim.current_temporal_unit)
        b["crashed"] = bool(crashed)
        b["columns"] = list(sim.production_realised.columns)
    except Exception as e:
        b = {"error": f"{type(e).__name__}: {e}"}
    out += cmp_records(pid, base, b, "the run driven by next_step() calls only" + (" (equilibrium check every 3 steps)" if kwn else "") + ", against loop()")
    return out


def pure_manual_c09(sc, base, seed):
    return pure_manual(sc, base, seed, pid="C09")


def pure_manual_c16(sc, base, seed):
    return pure_manual(sc, base, seed, pid="C16")


def fd_rescale(sc, base, seed, pid="C04"):
    """final demand lowered in the middle of a run through the model's public property, once in place (`model.final_demand *= f`)
    and once by assigning a new array: the same run either way, and nobody is delivered more than asked"""
    out = []
    if "error" in base or seed % 3 != 0:
        return out
    rng = random.Random(seed + 71)
    dt = int(sc["model"].get("dt", 1))
    nsteps = len(range(0, sc["T"], dt))
    if nsteps < 4:
        return out
    j = rng.randint(1, nsteps - 2)
    f = rng.choice([0.6, 0.8, 3.0])
    runs = []
    hook_bad = []
    for how in ("inplace", "assign"):
        tw = copy.deepcopy(sc)
        tw["sim"]["save_records"] = []
        tw["sim"]["show_progress"] = False
        try:
            sim = scen.build_sim(tw)
            crashed = False
            for k in range(nsteps):
                if k == j:
                    if how == "inplace":
                        sim.model.final_demand *= f
                    else:
                        sim.model.final_demand = np.array(sim.model.final_demand, dtype=float) * f
                fd_before = np.array(sim.model.final_demand, dtype=float, copy=True)
                if sim.next_step() == 1:
                    crashed = True
                    break
                deliv = getattr(sim.model, "_verif_last_delivery", None)
                if how == "inplace" and deliv is not None and k >= j and not hook_bad:
                    N_ = sim.model.n_regions * sim.model.n_sectors
                    F_ = sim.model.n_regions * sim.model.n_fd_cat
                    got_fd = np.asarray(deliv, dtype=float)[:, N_:N_ + F_]
                    want_un = (fd_before - got_fd).sum(axis=1)
                    un_ = np.asarray(sim.model.final_demand_not_met, dtype=float).ravel()
                    tol_ = 1e-9 * max(float(np.abs(fd_before).sum(axis=1).max()), 1e-300)
                    if (np.abs(un_ - want_un) > tol_).any():
                        i_ = int(np.argmax(np.abs(un_ - want_un)))
                        hook_bad.append((k, i_, float(un_[i_]), float(want_un[i_])))
            b = {r: getattr(sim, r).to_numpy(dtype=float).copy() for r in RECORDS}
            b["n"] = int(sim.current_temporal_unit)
            b["crashed"] = bool(crashed)
            b["columns"] = list(sim.production_realised.columns)
        except Exception as e:
            b = {"error": f"{type(e).__name__}: {e}"}
        runs.append(b)
    if hook_bad:
        k_, i_, got_, want_ = hook_bad[0]
        out.append(viol(pid, k_ * dt, f"after final demand was scaled by {f}: unmet final demand reported is not final demand minus what final consumers were delivered",
                        industry=i_, reported=got_, expected=want_))
    out += cmp_records(pid, runs[1], runs[0], f"final demand scaled by {f} before step {j} in place (`*=` on the property) against assigning a new array")
    if "error" not in runs[0]:
        un = runs[0]["final_demand_unmet"]
        n_ = min(runs[0]["n"], un.shape[0])
        fin = un[:n_][np.isfinite(un[:n_]).all(axis=1)]
        scale = float(np.nanmax(np.abs(runs[0]["final_demand"][:n_]))) if n_ else 1.0
        if fin.size and (fin < -1e-9 * max(scale, 1e-300)).any():
            out.append(viol(pid, j * dt, f"unmet final demand is negative after final demand was scaled by {f} in place (clients received more than they asked)",
                            worst=float(fin.min())))
    return out


def c19_periodic_c14(sc, base, seed):
    out = c19_periodic(sc, base, seed, rebuild=True)
    for v in out:
        v["property"] = "C14"
    return out


def pure_manual_c14(sc, base, seed):
    return pure_manual(sc, base, seed, pid="C14")


def pure_manual_c02(sc, base, seed):
    return pure_manual(sc, base, seed, pid="C02")


def c11_order_c09(sc, base, seed):
    return _late_registration(sc, base, seed, "C09")


def long_loop_c13(sc, base, seed):
    return long_loop(sc, base, seed, pid="C13")


def pure_manual_c19(sc, base, seed):
    return pure_manual(sc, base, seed, pid="C19")


def subclass_events(sc, base, seed, pid="C10"):
    """the same events built from trivial user subclasses of the library's event classes (`class Flood(EventKapitalRecover): pass`):
    same run"""
    out = []
    if not sc["events"] or "error" in base or seed % 3 != 1:
        return out
    from boario import event as bev
    try:
        evs = []
        for e in sc["events"]:
            imp = scen._mi(dict(e["impact"]), ["region", "sector"], int_dtype=bool(e.get("int_dtype")))
            house = scen._mi(dict(e["house"]), ["region", "category"], int_dtype=bool(e.get("int_dtype"))) if e.get("house") else None
            if e["type"] == "arbitrary":
                cls = type("Heatwave", (bev.EventArbitraryProd,), {})
                evs.append(cls(impact=imp, recovery_tau=e["recovery_tau"], recovery_function=scen.curve_arg(e["curve"]), name=e.get("name"),
                               occurrence=e["occ"], duration=e["dur"]))
            elif e["type"] == "rebuild":
                cls = type("Earthquake", (bev.EventKapitalRebuild,), {})
                evs.append(cls(impact=imp, households_impact=house, name=e.get("name"), occurrence=e["occ"], duration=e["dur"],
                               event_monetary_factor=e["emf"], rebuild_tau=e["rebuild_tau"], rebuilding_sectors=dict(e["reb_sectors"]),
                               rebuilding_factor=scen._factor(e)))
            else:
                cls = type("Flood", (bev.EventKapitalRecover,), {})
                evs.append(cls(impact=imp, households_impact=house, name=e.get("name"), occurrence=e["occ"], duration=e["dur"],
                               event_monetary_factor=e["emf"], recovery_tau=e["recovery_tau"], recovery_function=scen.curve_arg(e["curve"])))
        tw = copy.deepcopy(sc)
        tw["sim"]["save_records"] = []
        tw["sim"]["show_progress"] = False
        sim = Simulation(scen.build_model(sc["table"], sc["model"]), n_temporal_units_to_sim=sc["T"],
                         register_stocks=sc["sim"].get("register_stocks", False))
        for ev in evs:
            sim.add_event(ev)
        b = run_records(tw, sim=sim)
    except Exception as e:
        b = {"error": f"{type(e).__name__}: {e}"}
    # (the class constructors take the impact Series as it is; the factories drop zero entries and sort: compare as for another order)
    out += cmp_records(pid, base, b, "the same events built from user subclasses of the event classes", rtol=1e-9, atol_scale=1e-9,
                       extra_abs=20 * 10.0 ** -(int(np.log10(sc["model"]["monetary_factor"])) + 1))
    return out


def _poison(shapes, k=6):
    """fill the allocator's free lists with NaN blocks of the shapes the model works with: an array that NumPy leaves
    uninitialised afterwards (np.empty, a masked ufunc without `out=`) receives one of them"""
    blocks = [np.full(s, np.nan) for s in shapes for _ in range(k)]
    del blocks


def poisoned_memory(sc, base, seed, pid="C17"):
    """the same simulation stepped twice, the second time with the process memory filled with NaN blocks between the steps
    (what other simulations created and dropped in the same process leave behind): bitwise the same records"""
    out = []
    tw = copy.deepcopy(sc)
    tw["sim"]["save_records"] = []
    tw["sim"]["show_progress"] = False
    dt = int(sc["model"].get("dt", 1))

    def run(poison):
        sim = scen.build_sim(copy.deepcopy(tw))
        shapes = sorted({v.shape for v in vars(sim.model).values() if isinstance(v, np.ndarray) and v.ndim in (1, 2) and v.size})
        for _ in range(0, sc["T"], dt):
            if poison:
                _poison(shapes)
            if sim.next_step() == 1:
                break
        return {r: getattr(sim, r).to_numpy(dtype=float).copy() for r in RECORDS}
    try:
        a = run(False)
    except Exception:
        return out
    try:
        b = run(True)
    except Exception as e:
        return [viol(pid, 0, f"a run fails only when freed memory holds NaN blocks: {type(e).__name__}: {str(e)[:120]}")]
    for r in RECORDS:
        if not np.array_equal(a[r], b[r], equal_nan=True):
            t = int(np.argwhere(~((a[r] == b[r]) | (np.isnan(a[r]) & np.isnan(b[r]))))[0][0])
            out.append(viol(pid, t, f"record {r} depends on what freed memory contains (uninitialised array read): "
                                    f"the same run with NaN blocks left in the allocator differs"))
            break
    return out
