/-
  Non-vacuity: the hypotheses of the property theorems are met by concrete, non-trivial inputs, and the
  general theorems then yield concrete facts about them.  One small economy (1 region × 2 sectors × 1
  final-demand category, balanced), one configuration of each model class, one event of each kind.
  Everything here is an `example`-style witness: if a hypothesis structure were unsatisfiable (so that
  the theorems that assume it said nothing) the corresponding witness below could not be proved.
-/
import Boario.Properties.C01
import Boario.Properties.C03
import Boario.Properties.C06
import Boario.Properties.C08
import Boario.Properties.C09Run
import Boario.Properties.C10Dt
import Boario.Properties.C13Run
import Boario.Properties.C14
import Boario.Properties.C18Run
import Boario.Properties.C19Dt
import Boario.Properties.C20
import Boario.Properties.Reach
import Boario.Lemmas.NonVacuity

namespace Boario.NV

abbrev d0 : Dims := ⟨1, 2, 1⟩

/-- Z = [[2, 3], [1, 4]], Y = [[5], [5]], x = Z·1 + Y·1 = [10, 10]; value added = x − column sums = [7, 3] -/
def tb0 : Table d0 where
  Z := fun i j => match i.2.val, j.2.val with
    | 0, 0 => 2 | 0, _ => 3 | _, 0 => 1 | _, _ => 4
  Y := fun _ _ => 5
  x := fun _ => 10

/-- psi model: dt = 1, 365 steps a year, α_b = 1 ≤ α_max = 5/4, τ_α = 365, inventories 90 / infinite, ψ = 4/5,
    restoration 60 -/
def cfgPsi : Config d0 where
  isPsi := true
  alt := true
  aBase := 1
  aMax := 5 / 4
  alphaTau := 365
  dt := 1
  yearFactor := 365
  inventories := fun s => if s.val = 0 then some 90 else none
  psi := 4 / 5
  restTau := fun _ => 60
  capital := .default

/-- base class, fixed supplier shares, step of 7 temporal units -/
def cfgBase : Config d0 := { cfgPsi with isPsi := false, alt := false, dt := 7, inventories := fun _ => some 30 }

theorem tb0_valid : ValidTable tb0 := by
  constructor
  · simp only [forall_ind_121]; simp [tb0]
  · intros; simp [tb0]
  · simp only [forall_ind_121, sumInd_121, sumFd_121]; simp [tb0]; norm_num
  · simp only [forall_ind_121, sumInd_121]; simp [tb0]; norm_num

theorem cfgPsi_valid : ValidConfig cfgPsi := by
  constructor
  · decide
  · decide
  · simp [cfgPsi]
  · simp [cfgPsi]; norm_num
  · intro _; simp [cfgPsi]; norm_num
  · intro s v h
    simp only [cfgPsi] at h
    split_ifs at h
    injection h with h
    rw [← h]; norm_num

theorem cfgBase_valid : ValidConfig cfgBase := by
  constructor
  · decide
  · decide
  · simp [cfgBase, cfgPsi]
  · simp [cfgBase, cfgPsi]; norm_num
  · intro h; simp [cfgBase] at h
  · intro s v h
    simp only [cfgBase] at h
    injection h with h
    rw [← h]; norm_num

theorem capital_nonneg (c : Config d0) (hc : c.capital = .default) : ∀ f, 0 ≤ capitalOf tb0 c f := by
  intro f
  unfold capitalOf valueAdded
  rw [hc]
  simp only
  split_ifs <;> linarith

/-- a rebuilding event: 1/10 of the capital of industry (0, 0) (capital = 4 × value added = 28), rebuilt by
    sector 1, occurrence 2, duration 1, τ = 5, expressed in thousands while the model is in millions -/
def evReb : EventSpec d0 where
  kind := .rebuild
  occ := 2
  dur := 1
  tau := 5
  impact := fun i => if i.2.val = 0 then 2800 else 0
  house := none
  emf := 1000
  shares := fun s => if s.val = 1 then 1 else 0
  isReb := fun s => decide (s.val = 1)
  factor := 1
  curve := .linear
  curveI := fun _ D => D
  curveH := fun _ D => D

/-- a capital-recovery event with the linear curve, and a capacity-loss event -/
def evRec : EventSpec d0 := { evReb with kind := .recover, occ := 1, dur := 2, tau := 3 }
def evArb : EventSpec d0 := { evReb with kind := .arbitrary, occ := 1, dur := 1, tau := 2,
                                         impact := fun i => if i.2.val = 1 then 3 / 10 else 0 }

/-! ### the hypotheses hold -/

/-- C20: the three events pass the modelled validators and are admitted on a horizon of 10 -/
theorem events_accepted :
    ¬ eventRejected evReb ∧ ¬ eventRejected evRec ∧ ¬ eventRejected evArb ∧
    admitted 10 evReb ∧ admitted 10 evRec ∧ admitted 10 evArb := by
  refine ⟨?_, ?_, ?_, by decide, by decide, by decide⟩
  · unfold eventRejected sharesSumOK
    simp [evReb, isClose_self, sumFin_two, Fin.exists_fin_two]
  · unfold eventRejected sharesSumOK
    simp [evReb, evRec, isClose_self, sumFin_two, Fin.exists_fin_two]
  · unfold eventRejected sharesSumOK
    simp [evReb, evArb, isClose_self, sumFin_two, Fin.forall_fin_two, Fin.exists_fin_two]
    norm_num

/-- C08: the rebuilding event satisfies `RebuildHyp` (shares sum to 1, sector 1 supplies industry (0,0)) -/
theorem evReb_rebuildHyp : RebuildHyp tb0 evReb := by
  constructor
  · simp [evReb, sumFin_two]
  · simp [evReb]
  · simp only [forall_ind_121, zC]; simp [evReb, tb0, sumFin_one, Fin.forall_fin_two]

theorem cfgPsi_paramsOK : ParamsOK (mkParams tb0 cfgPsi) := by
  refine params_ok tb0 cfgPsi tb0_valid.z_nonneg tb0_valid.y_nonneg (fun _ => by simp [tb0])
    cfgPsi_valid.dt_pos cfgPsi_valid.year_pos cfgPsi_valid.inv_pos ?_ ?_
    ⟨cfgPsi_valid.base_ge_one, cfgPsi_valid.base_le_max⟩ ?_
  · intro _; simp [cfgPsi]; norm_num
  · intro _; simp [cfgPsi]
  · simp [cfgPsi]

theorem cfgBase_paramsOK : ParamsOK (mkParams tb0 cfgBase) := by
  refine params_ok tb0 cfgBase tb0_valid.z_nonneg tb0_valid.y_nonneg (fun _ => by simp [tb0])
    cfgBase_valid.dt_pos cfgBase_valid.year_pos cfgBase_valid.inv_pos ?_ ?_
    ⟨cfgBase_valid.base_ge_one, cfgBase_valid.base_le_max⟩ ?_
  · intro h; simp [cfgBase] at h
  · intro _; simp [cfgBase, cfgPsi]
  · simp [cfgBase, cfgPsi]; norm_num

theorem alphaHyp_of_paramsOK {p : Params d0} (h : ParamsOK p) : AlphaHyp p :=
  ⟨le_trans h.one_le_base h.base_le_max, h.base_le_max, h.tau_nonneg, h.tau_le_one⟩

/-- the three trackers used below -/
abbrev trs0 : List (Tracker d0) :=
  [trackerInit tb0 1000000 6 evReb, trackerInit tb0 1000000 6 evRec, trackerInit tb0 1000000 6 evArb]

theorem trs0_ok : ∀ tr ∈ trs0, TrackerOK tr := by
  have hz := tb0_valid.z_nonneg
  have hy := tb0_valid.y_nonneg
  have h1 : ∀ i, 0 ≤ evReb.impact i := by intro i; simp only [evReb]; split_ifs <;> norm_num
  have h2 : ∀ i, 0 ≤ evArb.impact i := by intro i; simp only [evArb]; split_ifs <;> norm_num
  have h3 : ∀ s, 0 ≤ evReb.shares s := by intro s; simp only [evReb]; split_ifs <;> norm_num
  intro tr htr
  simp only [trs0, List.mem_cons, List.not_mem_nil, or_false] at htr
  rcases htr with rfl | rfl | rfl
  · exact tracker_init_ok tb0 _ _ evReb hz hy h1 (fun h hh => by cases hh) h3 (by simp [evReb])
      (by simp [evReb]) (by norm_num) (by decide)
  · exact tracker_init_ok tb0 _ _ evRec hz hy h1 (fun h hh => by cases hh) h3 (by simp [evRec, evReb])
      (by simp [evRec, evReb]) (by norm_num) (by decide)
  · exact tracker_init_ok tb0 _ _ evArb hz hy h2 (fun h hh => by cases hh) h3 (by simp [evArb, evReb])
      (by simp [evArb, evReb]) (by norm_num) (by decide)

/-- all three trackers are pending, with occurrence and duration ≥ 1 -/
theorem trs0_pending : ∀ tr ∈ trs0, tr.status = .pending ∧ 0 < tr.occ ∧ 0 < tr.dur := by
  intro tr htr
  simp only [trs0, List.mem_cons, List.not_mem_nil, or_false] at htr
  rcases htr with rfl | rfl | rfl <;> exact ⟨rfl, by decide, by decide⟩

theorem trs0_ids : IdsOK trs0 0 := by
  refine ⟨?_, ?_, ?_⟩
  · intro tr htr hs
    rw [(trs0_pending tr htr).1] at hs
    cases hs
  · intro tr htr _
    simp only [trs0, List.mem_cons, List.not_mem_nil, or_false] at htr
    rcases htr with rfl | rfl | rfl <;> rfl
  · simp [trs0, trackerInit]

/-- C20 / C11: the initial state with the three events is well-formed (`Inv`) -/
theorem init_inv :
    Inv (initSim (mkParams tb0 cfgPsi) 1
      [trackerInit tb0 1000000 6 evReb, trackerInit tb0 1000000 6 evRec, trackerInit tb0 1000000 6 evArb]) :=
  { params := cfgPsi_paramsOK
    econ := init_econ_ok _ cfgPsi_paramsOK
    trackers := trs0_ok
    ids := trs0_ids }

/-- C14 / C06 / C03: the parameter hypotheses hold for both configurations -/
theorem param_hyps :
    AlphaHyp (mkParams tb0 cfgPsi) ∧ AlphaHyp (mkParams tb0 cfgBase) ∧
    ShareSpec (mkParams tb0 cfgPsi) ∧ ShareSpec (mkParams tb0 cfgBase) ∧
    ParamsOK (mkParams tb0 cfgPsi) ∧ ParamsOK (mkParams tb0 cfgBase) :=
  ⟨alphaHyp_of_paramsOK cfgPsi_paramsOK, alphaHyp_of_paramsOK cfgBase_paramsOK,
    mkParams_shareSpec tb0 cfgPsi tb0_valid.z_nonneg cfgPsi_valid.dt_pos cfgPsi_valid.year_pos,
    cfgBase_paramsOK.shareSpec, cfgPsi_paramsOK, cfgBase_paramsOK⟩

/-! ### and the general theorems say something about them -/

/-- C01: the event-free run of either configuration never leaves the equilibrium, for 1000 steps -/
theorem rest_1000 :
    (∃ s', runN 1000 (initSim (mkParams tb0 cfgPsi) 1 []) = some s' ∧ AtEquilibrium (mkParams tb0 cfgPsi) s') ∧
    (∃ s', runN 1000 (initSim (mkParams tb0 cfgBase) 7 []) = some s' ∧ AtEquilibrium (mkParams tb0 cfgBase) s') :=
  ⟨equilibrium_forever tb0 cfgPsi tb0_valid cfgPsi_valid (capital_nonneg cfgPsi rfl) 1 1000,
    equilibrium_forever tb0 cfgBase tb0_valid cfgBase_valid (capital_nonneg cfgBase rfl) 7 1000⟩

/-- C19: delaying the three events by 40 steps delays the run (any horizon n) by exactly 40 steps -/
theorem shift_40 (n : Nat) :
    let trs := [trackerInit tb0 1000000 6 evReb, trackerInit tb0 1000000 6 evRec, trackerInit tb0 1000000 6 evArb]
    runN (40 + n) (initSim (mkParams tb0 cfgPsi) 1 (trs.map (shiftTracker 40)))
      = (runN n (initSim (mkParams tb0 cfgPsi) 1 trs)).map (shiftSim 40) :=
  shift_invariance tb0 cfgPsi tb0_valid cfgPsi_valid (capital_nonneg cfgPsi rfl) trs0 trs0_pending 40 n

/-- C10: the first step of the run with the three events (time 0: nothing is due yet) succeeds and leaves all
    of them pending — an `ok` step exists, so the statements about `nextStep s = .ok s'` are not vacuous -/
theorem first_step_ok :
    ∃ s', nextStep (initSim (mkParams tb0 cfgPsi) 1
        [trackerInit tb0 1000000 6 evReb, trackerInit tb0 1000000 6 evRec, trackerInit tb0 1000000 6 evArb]) = .ok s' ∧
      ∀ tr ∈ s'.trackers, tr.status = .pending :=
  ⟨_, equilibrium_step_exact tb0 cfgPsi tb0_valid cfgPsi_valid (capital_nonneg cfgPsi rfl)
      (initSim (mkParams tb0 cfgPsi) 1 trs0) rfl rfl rfl rfl
      (fun tr htr => ⟨(trs0_pending tr htr).1, (trs0_pending tr htr).2.1⟩),
    fun tr htr => (trs0_pending tr htr).1⟩

/-- C09: `FreshRecover` / `FreshArbitrary` are what `trackerInit` produces -/
theorem fresh_trackers :
    FreshRecover (trackerInit tb0 1000000 6 evRec) ∧ FreshArbitrary (trackerInit tb0 1000000 6 evArb) :=
  ⟨⟨rfl, rfl, rfl, rfl, by decide, by decide⟩, ⟨rfl, rfl, rfl, rfl, rfl, by decide, by decide⟩⟩

/-- C13: the trackers built by `trackerInit` from built-in curves satisfy `CurveHomog`, and their precision
    (7 decimals for a model in millions) leaves room for a change of unit by 10^3 -/
theorem unit_change_hyps :
    CurveHomog (trackerInit tb0 1000000 6 evReb) ∧ CurveHomog (trackerInit tb0 1000000 6 evRec) ∧
    3 ≤ (trackerInit tb0 1000000 6 evReb).prec :=
  ⟨trackerInit_curveHomog tb0 _ _ evReb (by decide), trackerInit_curveHomog tb0 _ _ evRec (by decide),
    by decide⟩

/-- C13: at the initial state (economy at rest) the closeness tests agree in every unit: `CloseAgree` holds -/
theorem closeAgree_initial (c : Rat) (hc : 0 < c) :
    CloseAgree c (initSim (mkParams tb0 cfgPsi) 1 []) :=
  closeAgree_init_gen (eqParams_of_valid tb0 cfgPsi tb0_valid cfgPsi_valid) (capital_nonneg cfgPsi rfl) c hc 1

/-! ### F37: the sign hypotheses of `tracker_init_ok` are necessary, and the validators now establish them -/

/-- the rebuilding event of the witnesses with shares 3/2 and −1/2 (they add up to 1): what the code accepted before F37 -/
def evNegShare : EventSpec d0 := { evReb with shares := fun s => if s.val = 1 then 3 / 2 else -1 / 2, isReb := fun _ => true }

/-- it is now rejected … -/
theorem negShare_rejected : eventRejected evNegShare :=
  event_negative_share_rejected evNegShare rfl ⟨0, by decide⟩ (by simp [evNegShare, evReb]; norm_num)

/-- … and the sign hypothesis of `tracker_init_ok` is necessary: the ledger this event would start with has a negative
    cell (supplier sector 0 of region 0, damaged industry (0, 0)) -/
theorem negShare_negative_demand : rem0I tb0 evNegShare 1000000 (⟨0, by decide⟩, ⟨0, by decide⟩) (⟨0, by decide⟩, ⟨0, by decide⟩) < 0 := by
  simp [rem0I, evNegShare, evReb, distI, zC, tb0, convFactor, sumFin, Fin.foldl_succ, Fin.foldl_zero]
  norm_num

end Boario.NV
