/-
  Helper lemmas about `rintEven`, `roundDec`, `pos`, `rabs` and the ledger cell `settle`.
-/
import Boario.Events
import Boario.Lemmas.Orders
import Mathlib.Data.Rat.Floor
import Mathlib.Algebra.Order.Field.Basic
import Mathlib.Tactic.Linarith
import Mathlib.Tactic.Ring
import Mathlib.Tactic.FieldSimp
import Mathlib.Tactic.Positivity

namespace Boario

theorem rat_floor_eq (x : Rat) : x.floor = ⌊x⌋ := rfl

/-- `rintEven` is within one half of its argument -/
theorem rintEven_bounds (x : Rat) :
    x - 1/2 ≤ (rintEven x : Rat) ∧ (rintEven x : Rat) ≤ x + 1/2 := by
  have h1 : ((x.floor : Int) : Rat) ≤ x := Int.floor_le x
  have h2 : x < ((x.floor : Int) : Rat) + 1 := Int.lt_floor_add_one x
  have key : ∀ r : Int, r = rintEven x → x - 1/2 ≤ (r : Rat) ∧ (r : Rat) ≤ x + 1/2 := by
    intro r hr
    unfold rintEven at hr
    simp only [] at hr
    split at hr
    · subst hr; constructor <;> linarith
    · split at hr
      · subst hr; constructor <;> push_cast <;> linarith
      · split at hr <;> subst hr <;> constructor <;> push_cast <;> linarith
  exact key _ rfl

/-- an upper integer bound passes through `rintEven` -/
theorem rintEven_le_of_le_int (x : Rat) (k : Int) (h : x ≤ (k : Rat)) : rintEven x ≤ k := by
  have hb := (rintEven_bounds x).2
  have : (rintEven x : Rat) < ((k + 1 : Int) : Rat) := by push_cast; linarith
  have := Int.cast_lt.1 this
  omega

theorem int_le_rintEven_of_int_le (x : Rat) (k : Int) (h : (k : Rat) ≤ x) : k ≤ rintEven x := by
  have hb := (rintEven_bounds x).1
  have : ((k - 1 : Int) : Rat) < (rintEven x : Rat) := by push_cast; linarith
  have := Int.cast_lt.1 this
  omega

theorem rintEven_intCast (k : Int) : rintEven (k : Rat) = k :=
  le_antisymm (rintEven_le_of_le_int _ k (le_refl _)) (int_le_rintEven_of_int_le _ k (le_refl _))

theorem rintEven_mono {x y : Rat} (h : x ≤ y) : rintEven x ≤ rintEven y := by
  -- via floors: both cases reduce to integer bounds
  by_contra hlt
  have hlt : rintEven y + 1 ≤ rintEven x := by omega
  have hx := (rintEven_bounds x).2
  have hy := (rintEven_bounds y).1
  have hc : ((rintEven y + 1 : Int) : Rat) ≤ (rintEven x : Rat) := Int.cast_le.2 hlt
  push_cast at hc
  -- then x = y - ... forces x = y and both are ties: rintEven x = rintEven y, contradiction
  have hxy : x = y := by linarith
  subst hxy
  omega

theorem pow10_pos (p : Nat) : (0 : Rat) < (10 : Rat) ^ p := by positivity

/-- `roundDec` is within half a quantum of its argument -/
theorem roundDec_bounds (p : Nat) (x : Rat) :
    x - 1 / (10 : Rat) ^ p / 2 ≤ roundDec p x ∧ roundDec p x ≤ x + 1 / (10 : Rat) ^ p / 2 := by
  have hp := pow10_pos p
  obtain ⟨h1, h2⟩ := rintEven_bounds (x * (10 : Rat) ^ p)
  unfold roundDec
  constructor
  · rw [le_div_iff₀ hp]
    have : (x - 1 / (10 : Rat) ^ p / 2) * (10 : Rat) ^ p = x * (10 : Rat) ^ p - 1 / 2 := by
      field_simp
    linarith
  · rw [div_le_iff₀ hp]
    have : (x + 1 / (10 : Rat) ^ p / 2) * (10 : Rat) ^ p = x * (10 : Rat) ^ p + 1 / 2 := by
      field_simp
    linarith

/-- rounding a value below a grid point stays below it -/
theorem roundDec_le_grid (p : Nat) (x : Rat) (k : Int) (h : x ≤ (k : Rat) / (10 : Rat) ^ p) :
    roundDec p x ≤ (k : Rat) / (10 : Rat) ^ p := by
  have hp := pow10_pos p
  unfold roundDec
  apply div_le_div_of_nonneg_right _ hp.le
  have : rintEven (x * (10 : Rat) ^ p) ≤ k :=
    rintEven_le_of_le_int _ k ((le_div_iff₀ hp).1 h)
  exact_mod_cast this

theorem roundDec_nonpos (p : Nat) (x : Rat) (h : x ≤ 0) : roundDec p x ≤ 0 := by
  have := roundDec_le_grid p x 0 (by simpa using h)
  simpa using this

theorem pos_le {x y : Rat} (h : x ≤ y) (hy : 0 ≤ y) : pos x ≤ y := by
  unfold pos; split_ifs <;> assumption

theorem rabs_le {x c : Rat} (h1 : -c ≤ x) (h2 : x ≤ c) : rabs x ≤ c := by
  unfold rabs; split_ifs <;> linarith

end Boario
