/-
  The statements of `Simulation.next_step`, regenerated from the source on every run, are the phase
  order the model composes (`Boario.Sim.nextStep`) and the record layer assumes.  Serves C02, C14, C16.
-/
import Boario.GenTypes
import Boario.Gen.NextStep

namespace Boario.Records
open Boario.Gen

/-- statements that decide the order of the phases: everything but the guarded record writes (whose
    position is the subject of `writes_after_their_phase`), the defaulting of optional arguments, assignments
    to local variables and the equilibrium check.  Two writes that follow the same phase may be listed in any
    order; any other difference is a difference of control. -/
def isControl : Item → Bool
  | .write _ _ _ _ _ => false
  | .defaultArg _ => false
  | .assign _ => false          -- local variables only: the translator emits assignments to attributes as `.unknown`
  | .equilibriumCheck => false
  | _ => true

/-- the control skeleton of `next_step` (regenerated on every run): the event phase, overproduction
    from the third step on, production, then — inside the crash handler — distribution and the ledger
    phases, then orders and the increment of the step counter -/
def expectedControl : List Item := [
  .tryBegin,
  .call "self._check_happening_events",
  .ifStepGt 1 "self.model.calc_overproduction",
  .call "self.model.calc_production",
  .tryBegin,
  .call "self.model.distribute_production",
  .call "self.rebuild_events",
  .call "self.recover_events",
  .tryEnd "RuntimeError" "1",
  .call "self.model.calc_orders",
  .incr "self.current_temporal_unit" "self.model.n_temporal_units_by_step",
  .ret "0",
  .tryEnd "Exception" "raise"
]

theorem phase_order : nextStepSkeleton.filter isControl = expectedControl := by
  decide

/-- one guarded write per record, no more -/
theorem one_write_per_record :
    (nextStepSkeleton.filter fun i => match i with | .write _ _ _ _ _ => true | _ => false).length = 11 := by
  decide

end Boario.Records
