/- helper lemmas for `Boario.Properties.C18Run` -/
import Boario.Properties.C01
import Boario.Lemmas.Lifecycle

namespace Boario
variable {d : Dims}

/-- the constructors copy `alt` and use it nowhere else -/
theorem altrun_mkParams (tb : Table d) (c : Config d) (b : Bool) :
    mkParams tb { c with alt := b } = { mkParams tb c with alt := b } := rfl

theorem altrun_validConfig (c : Config d) (b : Bool) (hc : ValidConfig c) :
    ValidConfig { c with alt := b } :=
  { dt_pos := hc.dt_pos, year_pos := hc.year_pos, base_ge_one := hc.base_ge_one
    base_le_max := hc.base_le_max, psi_le_one := hc.psi_le_one, inv_pos := hc.inv_pos }

theorem altrun_capitalOf (tb : Table d) (c : Config d) (b : Bool) (f : Ind d) :
    capitalOf tb { c with alt := b } f = capitalOf tb c f := rfl

/-- the clock of a run of `k` successful steps -/
theorem altrun_run_time (k : Nat) : ∀ (s s' : Sim d), runN k s = some s' →
    s'.t = s.t + k * s.dt ∧ s'.dt = s.dt := by
  induction k with
  | zero =>
    intro s s' h
    simp only [runN, Option.some.injEq] at h
    subst h
    exact ⟨by omega, rfl⟩
  | succ k ih =>
    intro s s' h
    unfold runN at h
    split at h
    · rename_i s1 h1
      obtain ⟨-, ht1, hdt1⟩ := nextStep_rel s s1 h1
      obtain ⟨ht', hdt'⟩ := ih s1 s' h
      refine ⟨?_, by rw [hdt', hdt1]⟩
      rw [ht', ht1, hdt1, Nat.succ_mul]
      omega
    · cases h

/-- what `AtEquilibrium` fixes of the economy does not depend on `alt` -/
theorem altrun_same_economy (tb : Table d) (c : Config d) (sa sn : Sim d)
    (ha : AtEquilibrium (mkParams tb { c with alt := true }) sa)
    (hn : AtEquilibrium (mkParams tb { c with alt := false }) sn) :
    (∀ i j, sa.econ.orders i j = sn.econ.orders i j) ∧ (∀ i x, sa.econ.fd i x = sn.econ.fd i x) ∧
    (∀ f, sa.econ.prod f = sn.econ.prod f) ∧ (∀ f, sa.econ.alpha f = sn.econ.alpha f) ∧
    (∀ f, sa.econ.dTot f = sn.econ.dTot f) ∧ (∀ f, sa.econ.fdUnmet f = sn.econ.fdUnmet f) ∧
    (∀ f, sa.econ.deltaTot f = sn.econ.deltaTot f) ∧ sa.econ.reb = sn.econ.reb ∧
    (∀ sec f, ((mkParams tb c).invDur sec).isSome = true → sa.econ.stock sec f = sn.econ.stock sec f) := by
  refine ⟨fun i j => ?_, fun i x => ?_, fun f => ?_, fun f => ?_, fun f => ?_, fun f => ?_, fun f => ?_,
    ?_, fun sec f h => ?_⟩
  · rw [ha.orders, hn.orders]; rfl
  · rw [ha.fd, hn.fd]; rfl
  · rw [ha.prod, hn.prod]; rfl
  · rw [ha.alpha, hn.alpha]; rfl
  · rw [ha.dTot, hn.dTot]; rfl
  · rw [ha.unmet, hn.unmet]
  · rw [ha.delta, hn.delta]
  · rw [ha.reb, hn.reb]
  · rw [ha.stock sec f h, hn.stock sec f h]; rfl

end Boario
