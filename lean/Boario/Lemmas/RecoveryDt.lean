/- helper lemmas for `Boario.Properties.C09Dt` -/
import Boario.Properties.C09Run
import Boario.Properties.C10Dt

namespace Boario
variable {d : Dims}

/-! ### one more case of `rr_step1`: woken and recovering in the same step (dt > dur) -/

theorem rd_step1_wake_start (t dt : Nat) (r : Option Nat) (x : Tracker d)
    (h1 : x.status = .pending) (h2 : t ≤ x.occ + dt ∧ x.occ ≤ t) (h3 : x.occ + x.dur ≤ t) :
    rr_step1 t dt r x = recoverOne t { x with status := .recovering, rid := r } := by
  have hw : wake t dt x = { x with status := .happening } := by
    unfold wake
    rw [if_pos ⟨h1, h2⟩]
  have ha : rr_adv t { x with status := .happening } = { x with status := .recovering } := by
    unfold rr_adv
    rw [if_pos ⟨rfl, h3⟩]
  unfold rr_step1
  rw [hw, ha]

/-! ### the invariant of a capital-recovery tracker, step length `dt`

`a`: the fresh tracker at t = 0, `b`: the same tracker after the steps at times 0, dt, …, (k−1)·dt
(the next step is taken at time `k * dt`). -/

def rd_InvR (dt k : Nat) (a b : Tracker d) : Prop :=
  SameTracker a b ∧ b.arb = none ∧ (a.hdmg = none → b.hdmg = none) ∧
  (k * dt < a.occ + dt → b.status = .pending ∧ b.dmg = some a.dmg0) ∧
  (a.occ + dt ≤ k * dt → k * dt < a.occ + a.dur + dt → b.status = .happening ∧ b.dmg = some a.dmg0) ∧
  (a.occ + a.dur + dt ≤ k * dt →
    (b.status = .recovering ∧ b.dmg = some (curveAt a ((k - 1) * dt)) ∧
      ¬ allZeroI (curveAt a ((k - 1) * dt))) ∨
    (b.dmg = none ∧ (b.status = .recovering ∨ b.status = .finished) ∧
      (b.hdmg = none → b.status = .finished) ∧
      ∃ j, j < k ∧ a.occ + a.dur ≤ j * dt ∧ allZeroI (curveAt a (j * dt))))

theorem rd_invR_recover (dt k : Nat) (a y : Tracker d) (hsame : SameTracker a y) (hk : a.kind = .recover)
    (hs : y.status = .recovering) (harb : y.arb = none) (hh : a.hdmg = none → y.hdmg = none)
    (hle : a.occ + a.dur ≤ k * dt)
    (hd : (∃ D, y.dmg = some D) ∨
      (y.dmg = none ∧ ∃ j, j < k ∧ a.occ + a.dur ≤ j * dt ∧ allZeroI (curveAt a (j * dt)))) :
    rd_InvR dt (k + 1) a (recoverOne (k * dt) y) := by
  have hky : y.kind = .recover := by rw [hsame.1, hk]
  obtain ⟨f1, f2, f3, f4, f5, f6⟩ := rr_recover_facts (k * dt) y hs hky harb
  rw [(rr_same_curveAt hsame (k * dt)).1] at f3
  unfold rd_InvR
  rw [Nat.add_sub_cancel, Nat.add_one_mul]
  refine ⟨rr_same_trans hsame (rr_same_recoverOne (k * dt) y), f1, fun h => f2 (hh h), fun h => by omega,
    fun h1 h2 => by omega, fun _ => ?_⟩
  rcases hd with ⟨D, hD⟩ | ⟨hD, j, j1, j2, j3⟩
  · rw [hD] at f3
    simp only at f3
    by_cases hz : allZeroI (curveAt a (k * dt))
    · rw [if_pos hz] at f3
      exact Or.inr ⟨f3, f4, f5 f3, k, Nat.lt_succ_self k, hle, hz⟩
    · rw [if_neg hz] at f3
      exact Or.inl ⟨f6 (by rw [f3]; simp), f3, hz⟩
  · rw [hD] at f3
    simp only at f3
    exact Or.inr ⟨f3, f4, f5 f3, j, by omega, j2, j3⟩

theorem rd_invR_step (dt k : Nat) (r : Option Nat) (a x : Tracker d) (hdt : 0 < dt)
    (hk : a.kind = .recover) (h : rd_InvR dt k a x) :
    rd_InvR dt (k + 1) a (rr_step1 (k * dt) dt r x) := by
  obtain ⟨hsame, harb, hh, i1, i2, i3⟩ := h
  have s2 : x.occ = a.occ := hsame.2.1
  have s3 : x.dur = a.dur := hsame.2.2.1
  by_cases c1 : k * dt < a.occ + dt
  · obtain ⟨p1, p2⟩ := i1 c1
    by_cases c1' : a.occ ≤ k * dt
    · by_cases c1'' : a.occ + a.dur ≤ k * dt
      · rw [rd_step1_wake_start (k * dt) dt r x p1 ⟨by omega, by omega⟩ (by omega)]
        exact rd_invR_recover dt k a _ hsame hk rfl harb hh c1'' (Or.inl ⟨_, p2⟩)
      · rw [rr_step1_wake (k * dt) dt r x p1 ⟨by omega, by omega⟩ (by omega)]
        unfold rd_InvR
        rw [Nat.add_one_mul]
        exact ⟨hsame, harb, hh, fun h => by omega, fun _ _ => ⟨rfl, p2⟩, fun h => by omega⟩
    · rw [rr_step1_idle (k * dt) dt r x (Or.inl ⟨p1, by omega⟩)]
      unfold rd_InvR
      rw [Nat.add_one_mul]
      exact ⟨hsame, harb, hh, fun _ => ⟨p1, p2⟩, fun h => by omega, fun h => by omega⟩
  · by_cases c2 : k * dt < a.occ + a.dur + dt
    · obtain ⟨p1, p2⟩ := i2 (by omega) c2
      by_cases c2' : a.occ + a.dur ≤ k * dt
      · rw [rr_step1_start (k * dt) dt r x p1 (by omega)]
        exact rd_invR_recover dt k a _ hsame hk rfl harb hh c2' (Or.inl ⟨_, p2⟩)
      · rw [rr_step1_idle (k * dt) dt r x (Or.inr (Or.inl ⟨p1, by omega⟩))]
        unfold rd_InvR
        rw [Nat.add_one_mul]
        exact ⟨hsame, harb, hh, fun h => by omega, fun _ _ => ⟨p1, p2⟩, fun h => by omega⟩
    · rcases i3 (by omega) with ⟨p1, p2, _⟩ | ⟨p1, p2 | p2, p3, j, j1, j2, j3⟩
      · rw [rr_step1_go (k * dt) dt r x p1]
        exact rd_invR_recover dt k a _ hsame hk p1 harb hh (by omega) (Or.inl ⟨_, p2⟩)
      · rw [rr_step1_go (k * dt) dt r x p2]
        exact rd_invR_recover dt k a _ hsame hk p2 harb hh (by omega) (Or.inr ⟨p1, j, j1, j2, j3⟩)
      · rw [rr_step1_idle (k * dt) dt r x (Or.inr (Or.inr p2))]
        unfold rd_InvR
        rw [Nat.add_one_mul]
        exact ⟨hsame, harb, hh, fun h => by omega, fun h1 h2 => by omega,
          fun _ => Or.inr ⟨p1, Or.inr p2, fun _ => p2, j, by omega, j2, j3⟩⟩

theorem rd_invR_init (dt : Nat) (hdt : 0 < dt) (a : Tracker d) (h : FreshRecover a) : rd_InvR dt 0 a a := by
  obtain ⟨_, h2, h3, h4, h5, h6⟩ := h
  unfold rd_InvR
  rw [Nat.zero_mul]
  exact ⟨rr_same_refl a, h4, id, fun _ => ⟨h2, h3⟩, fun h => by omega, fun h => by omega⟩

/-! ### the invariant of a capacity-loss tracker, step length `dt` -/

def rd_InvA (dt k : Nat) (a b : Tracker d) : Prop :=
  SameTracker a b ∧ b.dmg = none ∧ b.hdmg = none ∧
  (k * dt < a.occ + dt → b.status = .pending ∧ b.arb = some a.arb0) ∧
  (a.occ + dt ≤ k * dt → k * dt < a.occ + a.dur + dt → b.status = .happening ∧ b.arb = some a.arb0) ∧
  (a.occ + a.dur + dt ≤ k * dt →
    (b.status = .recovering ∧ b.arb = some (arbCurveAt a ((k - 1) * dt)) ∧
      ¬ allZeroI (arbCurveAt a ((k - 1) * dt))) ∨
    (b.arb = none ∧ b.status = .finished ∧
      ∃ j, j < k ∧ a.occ + a.dur ≤ j * dt ∧ allZeroI (arbCurveAt a (j * dt))))

theorem rd_invA_recover (dt k : Nat) (a y : Tracker d) (hsame : SameTracker a y) (hk : a.kind = .arbitrary)
    (hs : y.status = .recovering) (hdm : y.dmg = none) (hh : y.hdmg = none)
    (hle : a.occ + a.dur ≤ k * dt) (D : Ind d → Rat) (hD : y.arb = some D) :
    rd_InvA dt (k + 1) a (recoverOne (k * dt) y) := by
  have hky : y.kind = .arbitrary := by rw [hsame.1, hk]
  obtain ⟨f1, f2, f3, f4, f5⟩ := rr_arbitrary_facts (k * dt) y hs hky hdm hh
  rw [(rr_same_curveAt hsame (k * dt)).2] at f3
  unfold rd_InvA
  rw [Nat.add_sub_cancel, Nat.add_one_mul]
  refine ⟨rr_same_trans hsame (rr_same_recoverOne (k * dt) y), f1, f2, fun h => by omega,
    fun h1 h2 => by omega, fun _ => ?_⟩
  rw [hD] at f3
  simp only at f3
  by_cases hz : allZeroI (arbCurveAt a (k * dt))
  · rw [if_pos hz] at f3
    exact Or.inr ⟨f3, f4 f3, k, Nat.lt_succ_self k, hle, hz⟩
  · rw [if_neg hz] at f3
    exact Or.inl ⟨f5 (by rw [f3]; simp), f3, hz⟩

theorem rd_invA_step (dt k : Nat) (r : Option Nat) (a x : Tracker d) (hdt : 0 < dt)
    (hk : a.kind = .arbitrary) (h : rd_InvA dt k a x) :
    rd_InvA dt (k + 1) a (rr_step1 (k * dt) dt r x) := by
  obtain ⟨hsame, hdm, hh, i1, i2, i3⟩ := h
  have s2 : x.occ = a.occ := hsame.2.1
  have s3 : x.dur = a.dur := hsame.2.2.1
  by_cases c1 : k * dt < a.occ + dt
  · obtain ⟨p1, p2⟩ := i1 c1
    by_cases c1' : a.occ ≤ k * dt
    · by_cases c1'' : a.occ + a.dur ≤ k * dt
      · rw [rd_step1_wake_start (k * dt) dt r x p1 ⟨by omega, by omega⟩ (by omega)]
        exact rd_invA_recover dt k a _ hsame hk rfl hdm hh c1'' _ p2
      · rw [rr_step1_wake (k * dt) dt r x p1 ⟨by omega, by omega⟩ (by omega)]
        unfold rd_InvA
        rw [Nat.add_one_mul]
        exact ⟨hsame, hdm, hh, fun h => by omega, fun _ _ => ⟨rfl, p2⟩, fun h => by omega⟩
    · rw [rr_step1_idle (k * dt) dt r x (Or.inl ⟨p1, by omega⟩)]
      unfold rd_InvA
      rw [Nat.add_one_mul]
      exact ⟨hsame, hdm, hh, fun _ => ⟨p1, p2⟩, fun h => by omega, fun h => by omega⟩
  · by_cases c2 : k * dt < a.occ + a.dur + dt
    · obtain ⟨p1, p2⟩ := i2 (by omega) c2
      by_cases c2' : a.occ + a.dur ≤ k * dt
      · rw [rr_step1_start (k * dt) dt r x p1 (by omega)]
        exact rd_invA_recover dt k a _ hsame hk rfl hdm hh c2' _ p2
      · rw [rr_step1_idle (k * dt) dt r x (Or.inr (Or.inl ⟨p1, by omega⟩))]
        unfold rd_InvA
        rw [Nat.add_one_mul]
        exact ⟨hsame, hdm, hh, fun h => by omega, fun _ _ => ⟨p1, p2⟩, fun h => by omega⟩
    · rcases i3 (by omega) with ⟨p1, p2, _⟩ | ⟨p1, p2, j, j1, j2, j3⟩
      · rw [rr_step1_go (k * dt) dt r x p1]
        exact rd_invA_recover dt k a _ hsame hk p1 hdm hh (by omega) _ p2
      · rw [rr_step1_idle (k * dt) dt r x (Or.inr (Or.inr p2))]
        unfold rd_InvA
        rw [Nat.add_one_mul]
        exact ⟨hsame, hdm, hh, fun h => by omega, fun h1 h2 => by omega,
          fun _ => Or.inr ⟨p1, p2, j, by omega, j2, j3⟩⟩

theorem rd_invA_init (dt : Nat) (hdt : 0 < dt) (a : Tracker d) (h : FreshArbitrary a) :
    rd_InvA dt 0 a a := by
  obtain ⟨_, h2, h3, h4, h5, h6, h7⟩ := h
  unfold rd_InvA
  rw [Nat.zero_mul]
  exact ⟨rr_same_refl a, h4, h5, fun _ => ⟨h2, h3⟩, fun h => by omega, fun h => by omega⟩

/-! ### along a run -/

theorem rd_invR_nonrebuild (dt k : Nat) (a x : Tracker d) (hP : FreshRecover a) (h : rd_InvR dt k a x) :
    x.kind ≠ .rebuild ∧ x.status ≠ .rebuilding := by
  obtain ⟨hsame, _, _, i1, i2, i3⟩ := h
  refine ⟨by rw [hsame.1, hP.1]; decide, ?_⟩
  by_cases c1 : k * dt < a.occ + dt
  · rw [(i1 c1).1]; decide
  · by_cases c2 : k * dt < a.occ + a.dur + dt
    · rw [(i2 (by omega) c2).1]; decide
    · rcases i3 (by omega) with ⟨p, _⟩ | ⟨_, p | p, _⟩ <;> rw [p] <;> decide

theorem rd_invA_nonrebuild (dt k : Nat) (a x : Tracker d) (hP : FreshArbitrary a) (h : rd_InvA dt k a x) :
    x.kind ≠ .rebuild ∧ x.status ≠ .rebuilding := by
  obtain ⟨hsame, _, _, i1, i2, i3⟩ := h
  refine ⟨by rw [hsame.1, hP.1]; decide, ?_⟩
  by_cases c1 : k * dt < a.occ + dt
  · rw [(i1 c1).1]; decide
  · by_cases c2 : k * dt < a.occ + a.dur + dt
    · rw [(i2 (by omega) c2).1]; decide
    · rcases i3 (by omega) with ⟨p, _⟩ | ⟨_, p, _⟩ <;> rw [p] <;> decide

/-- an invariant of non-reconstruction trackers that every step (as a function, taken at time `k * dt`)
    preserves holds along every run of step length `dt`: the `k0`-th state of the run is at `t = k0 * dt` -/
theorem rd_run_inv (Inv : Nat → Nat → Tracker d → Tracker d → Prop) (P : Tracker d → Prop)
    (hstep : ∀ dt k r a x, 0 < dt → P a → Inv dt k a x → Inv dt (k + 1) a (rr_step1 (k * dt) dt r x))
    (hnr : ∀ dt k a x, P a → Inv dt k a x → x.kind ≠ .rebuild ∧ x.status ≠ .rebuilding)
    (L0 : List (Tracker d)) (n : Nat) : ∀ (k0 : Nat) (s s' : Sim d), 0 < s.dt → s.t = k0 * s.dt →
      runN n s = some s' →
      List.Forall₂ (fun a x => P a → Inv s.dt k0 a x) L0 s.trackers →
      List.Forall₂ (fun a b => P a → Inv s.dt (k0 + n) a b) L0 s'.trackers := by
  induction n with
  | zero =>
    intro k0 s s' _ _ h hinv
    simp only [runN, Option.some.injEq] at h
    subst h
    exact hinv
  | succ n ih =>
    intro k0 s s' hdt ht h hinv
    unfold runN at h
    split at h
    · rename_i s1 h1
      obtain ⟨hrel, ht1, hdt1⟩ := rr_nextStep_full s s1 h1
      have hinv1 : List.Forall₂ (fun a x => P a → Inv s1.dt (k0 + 1) a x) L0 s1.trackers := by
        refine forall₂_trans' ?_ hinv hrel
        intro a x b hax hxb hP
        obtain ⟨n1, n2⟩ := hnr s.dt k0 a x hP (hax hP)
        obtain ⟨r, rfl⟩ := rr_step_nonrebuild s.t s.dt x b hxb n1 n2
        rw [hdt1, ht]
        exact hstep s.dt k0 r a x hdt hP (hax hP)
      have ht1' : s1.t = (k0 + 1) * s1.dt := by rw [ht1, hdt1, ht, Nat.add_one_mul]
      have h' := ih (k0 + 1) s1 s' (by rw [hdt1]; exact hdt) ht1' h hinv1
      have e : k0 + 1 + n = k0 + (n + 1) := by omega
      rw [e, hdt1] at h'
      exact h'
    · cases h

end Boario
