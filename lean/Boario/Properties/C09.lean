/-
  C09 — Recovering damage follows the declared recovery curve.
  Schedule statements are for step length 1 (`dt = 1`), the only documented value.
-/
import Boario.Lemmas.Sums
import Boario.Init
import Boario.Lemmas.RoundE

namespace Boario
variable {d : Dims}

/-- elapsed time handed to the recovery function during step `t` -/
def elapsed (t : Nat) (tr : Tracker d) : Int := (t : Int) - ((tr.occ : Int) + (tr.dur : Int))

/-- the damage is untouched until recovery starts: `recover` only acts on recovering events … -/
theorem damage_before_recovery (t : Nat) (tr : Tracker d) (h : tr.status ≠ .recovering) :
    recoverOne t tr = tr := by
  unfold recoverOne
  simp [h]

/-- … and the life-cycle phase never touches any ledger -/
theorem wake_ledgers (t dt : Nat) (tr : Tracker d) :
    (wake t dt tr).dmg = tr.dmg ∧ (wake t dt tr).hdmg = tr.hdmg ∧ (wake t dt tr).arb = tr.arb ∧
    (wake t dt tr).dmg0 = tr.dmg0 ∧ (wake t dt tr).arb0 = tr.arb0 := by
  unfold wake
  split_ifs <;> simp

/-- during recovery the damage in force is the event's recovery function evaluated at the elapsed
    time, rounded to the ledger precision; holds for built-in curves and user callables alike -/
theorem damage_after (t : Nat) (tr : Tracker d) (hs : tr.status = .recovering) (hk : tr.kind = .recover)
    (D : Ind d → Rat) (hd : tr.dmg = some D) :
    (recoverOne t tr).dmg =
      (if allZeroI (roundI tr.prec (tr.curveI (elapsed t tr) tr.dmg0)) then none
       else some (roundI tr.prec (tr.curveI (elapsed t tr) tr.dmg0))) := by
  unfold recoverOne elapsed
  simp only [hs, hk, hd, ne_eq, not_true_eq_false, if_false, if_true]
  split_ifs <;> rfl

theorem arb_after (t : Nat) (tr : Tracker d) (hs : tr.status = .recovering) (hk : tr.kind = .arbitrary)
    (D : Ind d → Rat) (hd : tr.arb = some D) :
    (recoverOne t tr).arb =
      (if allZeroI (roundI 6 (tr.curveI (elapsed t tr) tr.arb0)) then none
       else some (roundI 6 (tr.curveI (elapsed t tr) tr.arb0))) := by
  unfold recoverOne elapsed
  have hk' : tr.kind ≠ .recover := by rw [hk]; decide
  simp only [hs, hk', hd, ne_eq, not_true_eq_false, if_false]
  split_ifs <;> rfl

/-- the closing test of `recover`: if all ledgers are empty afterwards, the status is `finished` -/
theorem finish_of_zero (tr2 : Tracker d)
    (h : (if tr2.dmg.isNone ∧ tr2.hdmg.isNone ∧ tr2.arb.isNone then { tr2 with status := .finished } else tr2).dmg = none ∧
         (if tr2.dmg.isNone ∧ tr2.hdmg.isNone ∧ tr2.arb.isNone then { tr2 with status := .finished } else tr2).hdmg = none ∧
         (if tr2.dmg.isNone ∧ tr2.hdmg.isNone ∧ tr2.arb.isNone then { tr2 with status := .finished } else tr2).arb = none) :
    (if tr2.dmg.isNone ∧ tr2.hdmg.isNone ∧ tr2.arb.isNone then { tr2 with status := .finished } else tr2).status
      = .finished := by
  by_cases hc : tr2.dmg.isNone ∧ tr2.hdmg.isNone ∧ tr2.arb.isNone
  · rw [if_pos hc]
  · rw [if_neg hc] at h
    exact absurd (by simp [h.1, h.2.1, h.2.2]) hc

/-- once every damage of the event is zero the event is finished … -/
theorem finished_when_zero (t : Nat) (tr : Tracker d) (hs : tr.status = .recovering)
    (h : (recoverOne t tr).dmg = none ∧ (recoverOne t tr).hdmg = none ∧ (recoverOne t tr).arb = none) :
    (recoverOne t tr).status = .finished := by
  unfold recoverOne at h ⊢
  rw [if_neg (not_not.mpr hs)] at h ⊢
  exact finish_of_zero _ h

/-- … and a finished event contributes no capacity loss -/
theorem finished_no_loss (tr : Tracker d) (h : tr.status = .finished) (i : Ind d) :
    tr.lostContribution i = 0 ∧ tr.arbContribution i = 0 := by
  unfold Tracker.lostContribution Tracker.arbContribution Tracker.active
  simp [h]

/-! ### the built-in curves -/

theorem convexe_base (tau : Nat) (ht : 0 < tau) :
    0 ≤ 1 - 1 / (tau : Rat) ∧ 1 - 1 / (tau : Rat) ≤ 1 := by
  have ht' : (1 : Rat) ≤ (tau : Rat) := by exact_mod_cast ht
  have h0 : (0 : Rat) < (tau : Rat) := by linarith
  have ha : 0 ≤ 1 / (tau : Rat) := div_nonneg zero_le_one (le_of_lt h0)
  have hb : 1 / (tau : Rat) ≤ 1 := by rw [div_le_iff₀ h0]; linarith
  constructor <;> linarith

/-- all three rational built-ins stay within [0, 1] × initial damage, for every elapsed time ≥ 0 -/
theorem linear_range (tau : Nat) (e : Int) (h0 : 0 ≤ e) (ht : 0 < tau) :
    0 ≤ gLinear tau e ∧ gLinear tau e ≤ 1 := by
  unfold gLinear
  have ht' : (0 : Rat) < (tau : Rat) := by exact_mod_cast ht
  have h0' : (0 : Rat) ≤ (e : Rat) := by exact_mod_cast h0
  have ha : 0 ≤ (e : Rat) / (tau : Rat) := div_nonneg h0' (le_of_lt ht')
  exact ⟨le_max_left _ _, max_le (by norm_num) (by linarith)⟩

theorem convexe_range (tau : Nat) (e : Int) (ht : 0 < tau) :
    (0 ≤ gConvexe tau e ∧ gConvexe tau e ≤ 1) ∧ (0 ≤ gConvexeScaled tau e ∧ gConvexeScaled tau e ≤ 1) := by
  have hb := convexe_base tau ht
  unfold gConvexe gConvexeScaled
  exact ⟨⟨pow_nonneg hb.1 _, pow_le_one₀ hb.1 hb.2⟩, ⟨pow_nonneg hb.1 _, pow_le_one₀ hb.1 hb.2⟩⟩

/-- and never increase -/
theorem linear_antitone (tau : Nat) (e e' : Int) (h : e ≤ e') (ht : 0 < tau) :
    gLinear tau e' ≤ gLinear tau e := by
  unfold gLinear
  have ht' : (0 : Rat) < (tau : Rat) := by exact_mod_cast ht
  have h' : (e : Rat) ≤ (e' : Rat) := by exact_mod_cast h
  have := div_le_div_of_nonneg_right h' (le_of_lt ht')
  exact max_le_max (le_refl _) (by linarith)

theorem convexe_antitone (tau : Nat) (e e' : Int) (h0 : 0 ≤ e) (h : e ≤ e') (ht : 0 < tau) :
    gConvexe tau e' ≤ gConvexe tau e ∧ gConvexeScaled tau e' ≤ gConvexeScaled tau e := by
  have _ := h0
  have hb := convexe_base tau ht
  have hn : e.toNat ≤ e'.toNat := Int.toNat_le_toNat h
  unfold gConvexe gConvexeScaled
  exact ⟨pow_le_pow_of_le_one hb.1 hb.2 hn, pow_le_pow_of_le_one hb.1 hb.2 (by omega)⟩

/-- with linear recovery the damage is zero once exactly `tau` recovery steps are completed … -/
theorem linear_zero_at_tau (tau : Nat) (ht : 0 < tau) : gLinear tau (tau : Int) = 0 := by
  unfold gLinear
  have ht' : (tau : Rat) ≠ 0 := by exact_mod_cast (Nat.pos_iff_ne_zero.mp ht)
  simp [div_self ht']

/-- … and stays zero afterwards (also when a step longer than one temporal unit jumps over `tau`) -/
theorem linear_zero_after_tau (tau : Nat) (e : Int) (ht : 0 < tau) (he : (tau : Int) ≤ e) : gLinear tau e = 0 := by
  unfold gLinear
  have ht' : (0 : Rat) < (tau : Rat) := by exact_mod_cast ht
  have he' : (tau : Rat) ≤ (e : Rat) := by exact_mod_cast he
  have : 1 ≤ (e : Rat) / (tau : Rat) := by rw [le_div_iff₀ ht']; linarith
  exact max_eq_left (by linarith)

/-- … so a linearly recovering capital event is finished at that step -/
theorem linear_finished_at_tau (t : Nat) (tr : Tracker d) (hs : tr.status = .recovering)
    (hk : tr.kind = .recover) (ht : 0 < tr.tau) (hel : elapsed t tr = (tr.tau : Int))
    (hcI : tr.curveI = cellwiseI (gLinear tr.tau)) (hcH : tr.curveH = cellwiseF (gLinear tr.tau))
    (harb : tr.arb = none) :
    (recoverOne t tr).status = .finished ∧ (recoverOne t tr).dmg = none := by
  have hz : gLinear tr.tau (tr.tau : Int) = 0 := linear_zero_at_tau tr.tau ht
  have hel' : (t : Int) - ((tr.occ : Int) + (tr.dur : Int)) = (tr.tau : Int) := hel
  have hI : ∀ D : Ind d → Rat, allZeroI (roundI tr.prec (tr.curveI (tr.tau : Int) D)) := by
    intro D r s
    simp only [roundI, hcI, cellwiseI, hz, mul_zero, roundDec_zero]
  have hH : ∀ D : Fd d → Rat, allZeroF (roundF tr.prec (tr.curveH (tr.tau : Int) D)) := by
    intro D r c
    simp only [roundF, hcH, cellwiseF, hz, mul_zero, roundDec_zero]
  unfold recoverOne
  rw [if_neg (not_not.mpr hs)]
  simp only [hk, if_true, hel', harb]
  have hI' := hI tr.dmg0
  cases tr.dmg <;> cases tr.hdmg <;> cases tr.hdmg0 <;> simp [hI', hH]

/-- rounding keeps a damage within [0, D] when D is on the ledger grid, and within half a quantum of
    the curve in any case -/
theorem rounded_range (p : Nat) (x D : Rat) (hx : 0 ≤ x ∧ x ≤ D) (hD : ∃ k : Int, D = (k : Rat) / (10 : Rat) ^ p) :
    0 ≤ roundDec p x ∧ roundDec p x ≤ D := by
  exact roundDec_range p x D hx hD

theorem rounded_close (p : Nat) (x : Rat) : rabs (roundDec p x - x) ≤ 1 / (10 : Rat) ^ p / 2 := by
  exact roundDec_close p x

/-- the concave built-in `D·tau / (tau + s·g(k))`, for any non-negative monotone `g` with `g 0 = 0`
    (that `k ↦ k ^ e`, `e > 0`, is such a `g` is a fact about real powers, outside the rational model):
    within [0, D], never increasing -/
theorem concave_shape (D tau s : Rat) (g : Nat → Rat) (hD : 0 ≤ D) (ht : 0 < tau) (hs : 0 ≤ s)
    (hg0 : g 0 = 0) (hg : ∀ a b, a ≤ b → g a ≤ g b) (k k' : Nat) (hk : k ≤ k') :
    0 ≤ D * tau / (tau + s * g k') ∧ D * tau / (tau + s * g k') ≤ D * tau / (tau + s * g k) ∧
    D * tau / (tau + s * g k) ≤ D ∧ D * tau / (tau + s * g 0) = D := by
  have hgk : 0 ≤ g k := by rw [← hg0]; exact hg 0 k (Nat.zero_le _)
  have hgk' : 0 ≤ g k' := le_trans hgk (hg k k' hk)
  have hdk : 0 < tau + s * g k := by have := mul_nonneg hs hgk; linarith
  have hdk' : 0 < tau + s * g k' := by have := mul_nonneg hs hgk'; linarith
  have hDt : 0 ≤ D * tau := mul_nonneg hD (le_of_lt ht)
  refine ⟨div_nonneg hDt (le_of_lt hdk'), ?_, ?_, ?_⟩
  · apply div_le_div_of_nonneg_left hDt hdk
    have := mul_le_mul_of_nonneg_left (hg k k' hk) hs
    linarith
  · rw [div_le_iff₀ hdk]
    have := mul_nonneg hD (mul_nonneg hs hgk)
    nlinarith
  · rw [hg0, mul_zero, add_zero, mul_div_assoc, div_self (ne_of_gt ht), mul_one]

end Boario
