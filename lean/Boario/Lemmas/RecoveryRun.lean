/- helper lemmas for `Boario.Properties.C09Run` -/
import Boario.Properties.C09
import Boario.Properties.C10
import Boario.Lemmas.Receive

namespace Boario
variable {d : Dims}

/-- a freshly created capital-recovery tracker (what `trackerInit` gives for kind `recover`) -/
def FreshRecover (tr : Tracker d) : Prop :=
  tr.kind = .recover ∧ tr.status = .pending ∧ tr.dmg = some tr.dmg0 ∧ tr.arb = none ∧ 0 < tr.occ ∧ 0 < tr.dur

/-- a freshly created capacity-loss tracker (kind `arbitrary`) -/
def FreshArbitrary (tr : Tracker d) : Prop :=
  tr.kind = .arbitrary ∧ tr.status = .pending ∧ tr.arb = some tr.arb0 ∧ tr.dmg = none ∧ tr.hdmg = none ∧
  0 < tr.occ ∧ 0 < tr.dur

/-- the rounded recovery curve of a capital event at step `j` -/
def curveAt (tr : Tracker d) (j : Nat) : Ind d → Rat :=
  roundI tr.prec (tr.curveI ((j : Int) - ((tr.occ : Int) + (tr.dur : Int))) tr.dmg0)

/-- the rounded recovery curve of a capacity-loss event at step `j` (six decimals) -/
def arbCurveAt (tr : Tracker d) (j : Nat) : Ind d → Rat :=
  roundI 6 (tr.curveI ((j : Int) - ((tr.occ : Int) + (tr.dur : Int))) tr.arb0)

/-- trackers keep their identity (position in the list and constant fields) along a run -/
def SameTracker (a b : Tracker d) : Prop :=
  b.kind = a.kind ∧ b.occ = a.occ ∧ b.dur = a.dur ∧ b.tau = a.tau ∧ b.prec = a.prec ∧
  b.curveI = a.curveI ∧ b.curveH = a.curveH ∧ b.dmg0 = a.dmg0 ∧ b.arb0 = a.arb0

/-! ### the constant fields through every phase -/

theorem rr_same_refl (a : Tracker d) : SameTracker a a :=
  ⟨rfl, rfl, rfl, rfl, rfl, rfl, rfl, rfl, rfl⟩

theorem rr_same_trans {a b c : Tracker d} (h1 : SameTracker a b) (h2 : SameTracker b c) :
    SameTracker a c := by
  obtain ⟨a1, a2, a3, a4, a5, a6, a7, a8, a9⟩ := h1
  obtain ⟨b1, b2, b3, b4, b5, b6, b7, b8, b9⟩ := h2
  exact ⟨b1.trans a1, b2.trans a2, b3.trans a3, b4.trans a4, b5.trans a5, b6.trans a6, b7.trans a7,
    b8.trans a8, b9.trans a9⟩

theorem rr_same_curveAt {a b : Tracker d} (h : SameTracker a b) (j : Nat) :
    curveAt b j = curveAt a j ∧ arbCurveAt b j = arbCurveAt a j := by
  obtain ⟨_, a2, a3, _, a5, a6, _, a8, a9⟩ := h
  unfold curveAt arbCurveAt
  rw [a2, a3, a5, a6, a8, a9]
  exact ⟨rfl, rfl⟩

theorem rr_same_wake (t dt : Nat) (a : Tracker d) : SameTracker a (wake t dt a) := by
  unfold wake
  split_ifs <;> exact rr_same_refl a

theorem rr_same_adv (t : Nat) (w b : Tracker d) (h : AdvRel t w b) : SameTracker w b := by
  rcases h with ⟨_, rfl⟩ | ⟨_, _, _, n, rfl⟩ | ⟨_, _, _, rfl⟩ <;> exact rr_same_refl _

theorem rr_same_receive (a : Tracker d) (got : RebBlock d) : SameTracker a (receive a got) := by
  unfold receive SameTracker
  simp only
  split_ifs <;> (repeat' split) <;> simp

theorem rr_same_receiveOne (rp : List (RebBlock d)) (a : Tracker d) :
    SameTracker a (receiveOne rp a) := by
  unfold receiveOne
  split_ifs
  · split
    · exact rr_same_receive a _
    · exact rr_same_refl a
  · exact rr_same_refl a

theorem rr_same_compact1 (rel : List Nat) (a : Tracker d) : SameTracker a (compact1 rel a) := by
  unfold compact1
  split_ifs
  · exact rr_same_refl a
  · split <;> exact rr_same_refl a

theorem rr_same_recoverOne (t : Nat) (a : Tracker d) : SameTracker a (recoverOne t a) := by
  unfold recoverOne SameTracker
  by_cases h : a.status = .recovering
  · rw [if_neg (not_not.mpr h)]
    simp only
    split_ifs <;> simp
  · rw [if_pos h]
    exact ⟨rfl, rfl, rfl, rfl, rfl, rfl, rfl, rfl, rfl⟩

/-! ### one tracker through a whole step, exactly -/

/-- one tracker through a whole step: life-cycle phase, `receiveOne`, id compaction, `recoverOne` -/
def rr_StepFull (t dt : Nat) (a b : Tracker d) : Prop :=
  ∃ (m : Tracker d) (rp : List (RebBlock d)) (rel : List Nat),
    AdvRel t (wake t dt a) m ∧ b = recoverOne t (compact1 rel (receiveOne rp m))

theorem rr_nextStep_full (s s' : Sim d) (h : nextStep s = .ok s') :
    List.Forall₂ (rr_StepFull s.t s.dt) s.trackers s'.trackers ∧ s'.t = s.t + s.dt ∧ s'.dt = s.dt := by
  obtain ⟨s1, rp, h1, htr, ht, hdt, _⟩ := nextStep_trackers s s' h
  obtain ⟨e1, _, e3, e4⟩ := eventsPre_trackers s s1 h1
  rw [e3, e4] at ht
  rw [e4] at hdt
  refine ⟨?_, ht, hdt⟩
  rw [htr, e1, e3]
  unfold recoverAll receiveAll
  rw [compactIds_eq]
  apply List.forall₂_map_right_iff.mpr
  apply List.forall₂_map_right_iff.mpr
  apply List.forall₂_map_right_iff.mpr
  exact (lifecycle_rel s.t s.dt s.trackers s.nBlocks).imp fun a m ham => ⟨m, rp, _, ham, rfl⟩

theorem rr_same_step (t dt : Nat) (a b : Tracker d) (h : rr_StepFull t dt a b) : SameTracker a b := by
  obtain ⟨m, rp, rel, hm, rfl⟩ := h
  exact rr_same_trans (rr_same_wake t dt a) (rr_same_trans (rr_same_adv t _ m hm)
    (rr_same_trans (rr_same_receiveOne rp m) (rr_same_trans (rr_same_compact1 rel _) (rr_same_recoverOne t _))))

/-! ### a tracker that is not a reconstruction event: the step is a function -/

/-- `advance` on a tracker whose kind is not `rebuild` -/
def rr_adv (t : Nat) (w : Tracker d) : Tracker d :=
  if w.status = .happening ∧ w.occ + w.dur ≤ t then { w with status := .recovering } else w

/-- the whole step on a tracker whose kind is not `rebuild` (`r`: the id field after compaction) -/
def rr_step1 (t dt : Nat) (r : Option Nat) (a : Tracker d) : Tracker d :=
  recoverOne t { rr_adv t (wake t dt a) with rid := r }

theorem rr_wake_status (t dt : Nat) (a : Tracker d) (h : a.status ≠ .rebuilding) :
    (wake t dt a).status ≠ .rebuilding := by
  unfold wake
  split_ifs
  · simp
  · exact h

theorem rr_step_nonrebuild (t dt : Nat) (a b : Tracker d) (h : rr_StepFull t dt a b)
    (hk : a.kind ≠ .rebuild) (hs : a.status ≠ .rebuilding) : ∃ r, b = rr_step1 t dt r a := by
  obtain ⟨m, rp, rel, hm, rfl⟩ := h
  have hwk : (wake t dt a).kind ≠ .rebuild := by rw [(wake_fields t dt a).1]; exact hk
  have hws := rr_wake_status t dt a hs
  have hm' : m = rr_adv t (wake t dt a) ∧ m.status ≠ .rebuilding := by
    unfold rr_adv
    rcases hm with ⟨hc, rfl⟩ | ⟨_, _, h3, _⟩ | ⟨h1, h2, _, rfl⟩
    · rw [if_neg hc]; exact ⟨rfl, hws⟩
    · exact absurd h3 hwk
    · rw [if_pos ⟨h1, h2⟩]; exact ⟨rfl, by simp⟩
  obtain ⟨rfl, hms⟩ := hm'
  have hrec : receiveOne rp (rr_adv t (wake t dt a)) = rr_adv t (wake t dt a) := by
    unfold receiveOne
    rw [if_neg hms]
  have hcomp : ∀ x : Tracker d, ∃ r, compact1 rel x = { x with rid := r } := by
    intro x
    unfold compact1
    split_ifs
    · exact ⟨_, rfl⟩
    · split
      · exact ⟨_, rfl⟩
      · next hr => exact ⟨none, by rw [← hr]⟩
  obtain ⟨r, hr⟩ := hcomp (rr_adv t (wake t dt a))
  exact ⟨r, by rw [hrec, hr]; rfl⟩

/-! ### the cases of `rr_step1` -/

theorem rr_step1_idle (t dt : Nat) (r : Option Nat) (x : Tracker d)
    (h : (x.status = .pending ∧ ¬ (t ≤ x.occ + dt ∧ x.occ ≤ t)) ∨
         (x.status = .happening ∧ ¬ (x.occ + x.dur ≤ t)) ∨ x.status = .finished) :
    rr_step1 t dt r x = { x with rid := r } := by
  have hw : wake t dt x = x := by
    unfold wake
    rcases h with ⟨h1, h2⟩ | ⟨h1, _⟩ | h1
    · rw [if_neg (fun hc => h2 hc.2)]
    · rw [if_neg (fun hc => by rw [h1] at hc; exact absurd hc.1 (by decide))]
    · rw [if_neg (fun hc => by rw [h1] at hc; exact absurd hc.1 (by decide))]
  have ha : rr_adv t x = x := by
    unfold rr_adv
    rcases h with ⟨h1, _⟩ | ⟨_, h2⟩ | h1
    · rw [if_neg (fun hc => by rw [h1] at hc; exact absurd hc.1 (by decide))]
    · rw [if_neg (fun hc => h2 hc.2)]
    · rw [if_neg (fun hc => by rw [h1] at hc; exact absurd hc.1 (by decide))]
  unfold rr_step1
  rw [hw, ha]
  apply damage_before_recovery
  rcases h with ⟨h1, _⟩ | ⟨h1, _⟩ | h1 <;> (show x.status ≠ _) <;> rw [h1] <;> decide

theorem rr_step1_wake (t dt : Nat) (r : Option Nat) (x : Tracker d)
    (h1 : x.status = .pending) (h2 : t ≤ x.occ + dt ∧ x.occ ≤ t) (h3 : ¬ (x.occ + x.dur ≤ t)) :
    rr_step1 t dt r x = { x with status := .happening, rid := r } := by
  have hw : wake t dt x = { x with status := .happening } := by
    unfold wake
    rw [if_pos ⟨h1, h2⟩]
  have ha : rr_adv t { x with status := .happening } = { x with status := .happening } := by
    unfold rr_adv
    rw [if_neg (fun hc => h3 hc.2)]
  unfold rr_step1
  rw [hw, ha]
  apply damage_before_recovery
  show Status.happening ≠ _
  decide

theorem rr_step1_start (t dt : Nat) (r : Option Nat) (x : Tracker d)
    (h1 : x.status = .happening) (h2 : x.occ + x.dur ≤ t) :
    rr_step1 t dt r x = recoverOne t { x with status := .recovering, rid := r } := by
  have hw : wake t dt x = x := by
    unfold wake
    rw [if_neg (fun hc => by rw [h1] at hc; exact absurd hc.1 (by decide))]
  have ha : rr_adv t x = { x with status := .recovering } := by
    unfold rr_adv
    rw [if_pos ⟨h1, h2⟩]
  unfold rr_step1
  rw [hw, ha]

theorem rr_step1_go (t dt : Nat) (r : Option Nat) (x : Tracker d) (h1 : x.status = .recovering) :
    rr_step1 t dt r x = recoverOne t { x with rid := r } := by
  have hw : wake t dt x = x := by
    unfold wake
    rw [if_neg (fun hc => by rw [h1] at hc; exact absurd hc.1 (by decide))]
  have ha : rr_adv t x = x := by
    unfold rr_adv
    rw [if_neg (fun hc => by rw [h1] at hc; exact absurd hc.1 (by decide))]
  unfold rr_step1
  rw [hw, ha]

/-! ### `recoverOne` on a recovering tracker -/

/-- capital event without capacity-loss ledger -/
theorem rr_recover_facts (t : Nat) (x : Tracker d) (hs : x.status = .recovering) (hk : x.kind = .recover)
    (ha : x.arb = none) :
    (recoverOne t x).arb = none ∧ (x.hdmg = none → (recoverOne t x).hdmg = none) ∧
    (recoverOne t x).dmg = (match x.dmg with
      | none => none
      | some _ => if allZeroI (curveAt x t) then none else some (curveAt x t)) ∧
    ((recoverOne t x).status = .recovering ∨ (recoverOne t x).status = .finished) ∧
    ((recoverOne t x).dmg = none → (recoverOne t x).hdmg = none → (recoverOne t x).status = .finished) ∧
    ((recoverOne t x).dmg ≠ none → (recoverOne t x).status = .recovering) := by
  rw [recoverOne_eq, if_neg (not_not.mpr hs)]
  unfold recovFinish recovArb recovCap curveAt
  simp only [hk, ha, if_true]
  cases x.dmg <;> cases x.hdmg <;> cases x.hdmg0 <;> simp only [] <;> split_ifs <;> simp_all

/-- capacity-loss event: no capital ledger at all -/
theorem rr_arbitrary_facts (t : Nat) (x : Tracker d) (hs : x.status = .recovering) (hk : x.kind = .arbitrary)
    (hd : x.dmg = none) (hh : x.hdmg = none) :
    (recoverOne t x).dmg = none ∧ (recoverOne t x).hdmg = none ∧
    (recoverOne t x).arb = (match x.arb with
      | none => none
      | some _ => if allZeroI (arbCurveAt x t) then none else some (arbCurveAt x t)) ∧
    ((recoverOne t x).arb = none → (recoverOne t x).status = .finished) ∧
    ((recoverOne t x).arb ≠ none → (recoverOne t x).status = .recovering) := by
  have hk' : x.kind ≠ .recover := by rw [hk]; decide
  rw [recoverOne_eq, if_neg (not_not.mpr hs)]
  unfold recovFinish recovArb recovCap arbCurveAt
  simp only [hk', hd, hh, if_false]
  cases x.arb <;> simp only [] <;> split_ifs <;> simp_all

/-! ### the invariant of a capital-recovery tracker (step length 1) -/

/-- `a`: the fresh tracker at t = 0, `b`: the same tracker after steps 0 … k-1 -/
def rr_InvR (k : Nat) (a b : Tracker d) : Prop :=
  SameTracker a b ∧ b.arb = none ∧ (a.hdmg = none → b.hdmg = none) ∧
  (k ≤ a.occ → b.status = .pending ∧ b.dmg = some a.dmg0) ∧
  (a.occ < k → k ≤ a.occ + a.dur → b.status = .happening ∧ b.dmg = some a.dmg0) ∧
  (a.occ + a.dur < k →
    (b.status = .recovering ∧ b.dmg = some (curveAt a (k - 1)) ∧ ¬ allZeroI (curveAt a (k - 1))) ∨
    (b.dmg = none ∧ (b.status = .recovering ∨ b.status = .finished) ∧
      (b.hdmg = none → b.status = .finished) ∧
      ∃ j, a.occ + a.dur ≤ j ∧ j < k ∧ allZeroI (curveAt a j)))

theorem rr_invR_recover (k : Nat) (a y : Tracker d) (hsame : SameTracker a y) (hk : a.kind = .recover)
    (hs : y.status = .recovering) (harb : y.arb = none) (hh : a.hdmg = none → y.hdmg = none)
    (hle : a.occ + a.dur ≤ k)
    (hd : (∃ D, y.dmg = some D) ∨
      (y.dmg = none ∧ ∃ j, a.occ + a.dur ≤ j ∧ j < k ∧ allZeroI (curveAt a j))) :
    rr_InvR (k + 1) a (recoverOne k y) := by
  have hky : y.kind = .recover := by rw [hsame.1, hk]
  obtain ⟨f1, f2, f3, f4, f5, f6⟩ := rr_recover_facts k y hs hky harb
  rw [(rr_same_curveAt hsame k).1] at f3
  refine ⟨rr_same_trans hsame (rr_same_recoverOne k y), f1, fun h => f2 (hh h), fun h => by omega,
    fun h1 h2 => by omega, fun _ => ?_⟩
  rw [Nat.add_sub_cancel]
  rcases hd with ⟨D, hD⟩ | ⟨hD, j, j1, j2, j3⟩
  · rw [hD] at f3
    simp only at f3
    by_cases hz : allZeroI (curveAt a k)
    · rw [if_pos hz] at f3
      exact Or.inr ⟨f3, f4, f5 f3, k, hle, Nat.lt_succ_self k, hz⟩
    · rw [if_neg hz] at f3
      exact Or.inl ⟨f6 (by rw [f3]; simp), f3, hz⟩
  · rw [hD] at f3
    simp only at f3
    exact Or.inr ⟨f3, f4, f5 f3, j, j1, by omega, j3⟩

theorem rr_invR_step (k : Nat) (r : Option Nat) (a x : Tracker d) (hk : a.kind = .recover)
    (hd : 0 < a.dur) (h : rr_InvR k a x) : rr_InvR (k + 1) a (rr_step1 k 1 r x) := by
  obtain ⟨hsame, harb, hh, i1, i2, i3⟩ := h
  have s2 : x.occ = a.occ := hsame.2.1
  have s3 : x.dur = a.dur := hsame.2.2.1
  by_cases c1 : k ≤ a.occ
  · obtain ⟨p1, p2⟩ := i1 c1
    by_cases c1' : k = a.occ
    · rw [rr_step1_wake k 1 r x p1 ⟨by omega, by omega⟩ (by omega)]
      exact ⟨hsame, harb, hh, fun h => by omega, fun _ _ => ⟨rfl, p2⟩, fun h => by omega⟩
    · rw [rr_step1_idle k 1 r x (Or.inl ⟨p1, by omega⟩)]
      exact ⟨hsame, harb, hh, fun _ => ⟨p1, p2⟩, fun h => by omega, fun h => by omega⟩
  · by_cases c2 : k ≤ a.occ + a.dur
    · obtain ⟨p1, p2⟩ := i2 (by omega) c2
      by_cases c2' : k = a.occ + a.dur
      · rw [rr_step1_start k 1 r x p1 (by omega)]
        exact rr_invR_recover k a _ hsame hk rfl harb hh (by omega) (Or.inl ⟨_, p2⟩)
      · rw [rr_step1_idle k 1 r x (Or.inr (Or.inl ⟨p1, by omega⟩))]
        exact ⟨hsame, harb, hh, fun h => by omega, fun _ _ => ⟨p1, p2⟩, fun h => by omega⟩
    · rcases i3 (by omega) with ⟨p1, p2, _⟩ | ⟨p1, p2 | p2, p3, j, j1, j2, j3⟩
      · rw [rr_step1_go k 1 r x p1]
        exact rr_invR_recover k a _ hsame hk p1 harb hh (by omega) (Or.inl ⟨_, p2⟩)
      · rw [rr_step1_go k 1 r x p2]
        exact rr_invR_recover k a _ hsame hk p2 harb hh (by omega) (Or.inr ⟨p1, j, j1, j2, j3⟩)
      · rw [rr_step1_idle k 1 r x (Or.inr (Or.inr p2))]
        exact ⟨hsame, harb, hh, fun h => by omega, fun h1 h2 => by omega,
          fun _ => Or.inr ⟨p1, Or.inr p2, fun _ => p2, j, j1, by omega, j3⟩⟩

theorem rr_invR_init (a : Tracker d) (h : FreshRecover a) : rr_InvR 0 a a := by
  obtain ⟨_, h2, h3, h4, h5, h6⟩ := h
  exact ⟨rr_same_refl a, h4, id, fun _ => ⟨h2, h3⟩, fun h => by omega, fun h => by omega⟩

/-! ### the invariant of a capacity-loss tracker (step length 1) -/

def rr_InvA (k : Nat) (a b : Tracker d) : Prop :=
  SameTracker a b ∧ b.dmg = none ∧ b.hdmg = none ∧
  (k ≤ a.occ → b.status = .pending ∧ b.arb = some a.arb0) ∧
  (a.occ < k → k ≤ a.occ + a.dur → b.status = .happening ∧ b.arb = some a.arb0) ∧
  (a.occ + a.dur < k →
    (b.status = .recovering ∧ b.arb = some (arbCurveAt a (k - 1)) ∧ ¬ allZeroI (arbCurveAt a (k - 1))) ∨
    (b.arb = none ∧ b.status = .finished ∧
      ∃ j, a.occ + a.dur ≤ j ∧ j < k ∧ allZeroI (arbCurveAt a j)))

theorem rr_invA_recover (k : Nat) (a y : Tracker d) (hsame : SameTracker a y) (hk : a.kind = .arbitrary)
    (hs : y.status = .recovering) (hdm : y.dmg = none) (hh : y.hdmg = none)
    (hle : a.occ + a.dur ≤ k) (D : Ind d → Rat) (hD : y.arb = some D) :
    rr_InvA (k + 1) a (recoverOne k y) := by
  have hky : y.kind = .arbitrary := by rw [hsame.1, hk]
  obtain ⟨f1, f2, f3, f4, f5⟩ := rr_arbitrary_facts k y hs hky hdm hh
  rw [(rr_same_curveAt hsame k).2] at f3
  refine ⟨rr_same_trans hsame (rr_same_recoverOne k y), f1, f2, fun h => by omega,
    fun h1 h2 => by omega, fun _ => ?_⟩
  rw [Nat.add_sub_cancel]
  rw [hD] at f3
  simp only at f3
  by_cases hz : allZeroI (arbCurveAt a k)
  · rw [if_pos hz] at f3
    exact Or.inr ⟨f3, f4 f3, k, hle, Nat.lt_succ_self k, hz⟩
  · rw [if_neg hz] at f3
    exact Or.inl ⟨f5 (by rw [f3]; simp), f3, hz⟩

theorem rr_invA_step (k : Nat) (r : Option Nat) (a x : Tracker d) (hk : a.kind = .arbitrary)
    (hd : 0 < a.dur) (h : rr_InvA k a x) : rr_InvA (k + 1) a (rr_step1 k 1 r x) := by
  obtain ⟨hsame, hdm, hh, i1, i2, i3⟩ := h
  have s2 : x.occ = a.occ := hsame.2.1
  have s3 : x.dur = a.dur := hsame.2.2.1
  by_cases c1 : k ≤ a.occ
  · obtain ⟨p1, p2⟩ := i1 c1
    by_cases c1' : k = a.occ
    · rw [rr_step1_wake k 1 r x p1 ⟨by omega, by omega⟩ (by omega)]
      exact ⟨hsame, hdm, hh, fun h => by omega, fun _ _ => ⟨rfl, p2⟩, fun h => by omega⟩
    · rw [rr_step1_idle k 1 r x (Or.inl ⟨p1, by omega⟩)]
      exact ⟨hsame, hdm, hh, fun _ => ⟨p1, p2⟩, fun h => by omega, fun h => by omega⟩
  · by_cases c2 : k ≤ a.occ + a.dur
    · obtain ⟨p1, p2⟩ := i2 (by omega) c2
      by_cases c2' : k = a.occ + a.dur
      · rw [rr_step1_start k 1 r x p1 (by omega)]
        exact rr_invA_recover k a _ hsame hk rfl hdm hh (by omega) _ p2
      · rw [rr_step1_idle k 1 r x (Or.inr (Or.inl ⟨p1, by omega⟩))]
        exact ⟨hsame, hdm, hh, fun h => by omega, fun _ _ => ⟨p1, p2⟩, fun h => by omega⟩
    · rcases i3 (by omega) with ⟨p1, p2, _⟩ | ⟨p1, p2, j, j1, j2, j3⟩
      · rw [rr_step1_go k 1 r x p1]
        exact rr_invA_recover k a _ hsame hk p1 hdm hh (by omega) _ p2
      · rw [rr_step1_idle k 1 r x (Or.inr (Or.inr p2))]
        exact ⟨hsame, hdm, hh, fun h => by omega, fun h1 h2 => by omega,
          fun _ => Or.inr ⟨p1, p2, j, j1, by omega, j3⟩⟩

theorem rr_invA_init (a : Tracker d) (h : FreshArbitrary a) : rr_InvA 0 a a := by
  obtain ⟨_, h2, h3, h4, h5, h6, h7⟩ := h
  exact ⟨rr_same_refl a, h4, h5, fun _ => ⟨h2, h3⟩, fun h => by omega, fun h => by omega⟩

/-! ### along a run -/

theorem rr_invR_nonrebuild (k : Nat) (a x : Tracker d) (hP : FreshRecover a) (h : rr_InvR k a x) :
    x.kind ≠ .rebuild ∧ x.status ≠ .rebuilding := by
  obtain ⟨hsame, _, _, i1, i2, i3⟩ := h
  refine ⟨by rw [hsame.1, hP.1]; decide, ?_⟩
  by_cases c1 : k ≤ a.occ
  · rw [(i1 c1).1]; decide
  · by_cases c2 : k ≤ a.occ + a.dur
    · rw [(i2 (by omega) c2).1]; decide
    · rcases i3 (by omega) with ⟨p, _⟩ | ⟨_, p | p, _⟩ <;> rw [p] <;> decide

theorem rr_invA_nonrebuild (k : Nat) (a x : Tracker d) (hP : FreshArbitrary a) (h : rr_InvA k a x) :
    x.kind ≠ .rebuild ∧ x.status ≠ .rebuilding := by
  obtain ⟨hsame, _, _, i1, i2, i3⟩ := h
  refine ⟨by rw [hsame.1, hP.1]; decide, ?_⟩
  by_cases c1 : k ≤ a.occ
  · rw [(i1 c1).1]; decide
  · by_cases c2 : k ≤ a.occ + a.dur
    · rw [(i2 (by omega) c2).1]; decide
    · rcases i3 (by omega) with ⟨p, _⟩ | ⟨_, p, _⟩ <;> rw [p] <;> decide

/-- an invariant of non-reconstruction trackers that every step (as a function) preserves holds along
    every run of step length 1 -/
theorem rr_run_inv (Inv : Nat → Tracker d → Tracker d → Prop) (P : Tracker d → Prop)
    (hstep : ∀ k r a x, P a → Inv k a x → Inv (k + 1) a (rr_step1 k 1 r x))
    (hnr : ∀ k a x, P a → Inv k a x → x.kind ≠ .rebuild ∧ x.status ≠ .rebuilding)
    (L0 : List (Tracker d)) (k : Nat) : ∀ (s s' : Sim d), s.dt = 1 → runN k s = some s' →
      List.Forall₂ (fun a x => P a → Inv s.t a x) L0 s.trackers →
      List.Forall₂ (fun a b => P a → Inv (s.t + k) a b) L0 s'.trackers := by
  induction k with
  | zero =>
    intro s s' _ h hinv
    simp only [runN, Option.some.injEq] at h
    subst h
    exact hinv
  | succ k ih =>
    intro s s' hdt h hinv
    unfold runN at h
    split at h
    · rename_i s1 h1
      obtain ⟨hrel, ht1, hdt1⟩ := rr_nextStep_full s s1 h1
      rw [hdt] at hrel ht1 hdt1
      have hinv1 : List.Forall₂ (fun a x => P a → Inv s1.t a x) L0 s1.trackers := by
        refine forall₂_trans' ?_ hinv hrel
        intro a x b hax hxb hP
        obtain ⟨n1, n2⟩ := hnr s.t a x hP (hax hP)
        obtain ⟨r, rfl⟩ := rr_step_nonrebuild s.t 1 x b hxb n1 n2
        rw [ht1]
        exact hstep s.t r a x hP (hax hP)
      have h' := ih s1 s' hdt1 h hinv1
      have e : s1.t + k = s.t + (k + 1) := by omega
      rw [e] at h'
      exact h'
    · cases h

theorem rr_run_same (k : Nat) : ∀ (s s' : Sim d), runN k s = some s' →
    List.Forall₂ SameTracker s.trackers s'.trackers := by
  induction k with
  | zero =>
    intro s s' h
    simp only [runN, Option.some.injEq] at h
    subst h
    exact List.forall₂_same.mpr fun a _ => rr_same_refl a
  | succ k ih =>
    intro s s' h
    unfold runN at h
    split at h
    · rename_i s1 h1
      obtain ⟨hrel, -, -⟩ := rr_nextStep_full s s1 h1
      exact forall₂_trans' (fun a x b hax hxb => rr_same_trans (rr_same_step _ _ a x hax) hxb) hrel
        (ih s1 s' h)
    · cases h

theorem rr_forall₂_mem_left {α β : Type} {R : α → β → Prop} :
    ∀ {l1 : List α} {l2 : List β}, List.Forall₂ R l1 l2 → ∀ a ∈ l1, ∃ b ∈ l2, R a b
  | _, _, .nil, a, ha => by cases ha
  | _, _, .cons (b := b) h1 t1, a, ha => by
    rcases List.mem_cons.mp ha with rfl | ha
    · exact ⟨b, List.mem_cons_self .., h1⟩
    · obtain ⟨b', hb', hr⟩ := rr_forall₂_mem_left t1 a ha
      exact ⟨b', List.mem_cons_of_mem _ hb', hr⟩

/-- the linear curve, rounded, is all zero from recovery step `tau` on -/
theorem rr_linear_allZero (a : Tracker d) (htau : 0 < a.tau) (hcI : a.curveI = cellwiseI (gLinear a.tau))
    (j : Nat) (hj : a.occ + a.dur + a.tau ≤ j) : allZeroI (curveAt a j) := by
  have hz : gLinear a.tau ((j : Int) - ((a.occ : Int) + (a.dur : Int))) = 0 :=
    linear_zero_after_tau a.tau _ htau (by omega)
  intro r s
  simp only [curveAt, roundI, hcI, cellwiseI, hz, mul_zero, roundDec_zero]

end Boario
