/-
  Column arithmetic of the code = `Boario.Layout`, for every size (serves C04, C08, C11).

  `Boario.Gen.Slices` is regenerated from the source on every run: every column slice and every
  `np.zeros` shape of the functions that address the combined demand / delivery matrix, as functions
  of (n_regions m, n_sectors n, n_fd_cat k, _n_rebuilding_events nb, event id).  The theorems below say
  that those expressions are the ranges of `Boario.Layout` (whose disjointness / cover / writer = reader
  theorems are in `LayoutThm`), for all m n k nb id.  A changed slice expression in the source changes the
  generated file and the corresponding theorem no longer checks.
-/
import Boario.Gen.Slices
import Boario.Layout
import Boario.Properties.LayoutThm
import Mathlib.Tactic.Ring

namespace Boario.Gen
open Boario.Layout

/-- the slice number `idx` of function `fn` -/
def sliceOf (fn : String) (idx : Nat) : Option ColSlice :=
  colSlices.find? fun s => s.fn == fn && s.idx == idx

def shapeOf (fn : String) : Option ZerosShape := zerosShapes.find? fun s => s.fn == fn

/-- bounds of a slice at given sizes -/
def bounds (fn : String) (idx : Nat) (m n k nb id : Nat) : Option (Option Nat × Option Nat) :=
  (sliceOf fn idx).map fun s => (s.lo m n k nb id, s.hi m n k nb id)

/-- the slices found, in source order: function, ordinal, sliced array -/
def sliceTable : List (String × Nat × String) := colSlices.map fun s => (s.fn, s.idx, s.base)

/-- nothing was added to or removed from the column arithmetic the model knows about -/
theorem slice_table :
    sliceTable = [
      ("ARIOBaseModel._chg_events_number", 0, "new_entire_demand"),
      ("ARIOBaseModel._chg_events_number", 1, "self.entire_demand"),
      ("ARIOBaseModel.intermediate_demand.getter", 0, "self._entire_demand"),
      ("ARIOBaseModel.intermediate_demand.setter", 0, "self._entire_demand"),
      ("ARIOBaseModel.final_demand.getter", 0, "self._entire_demand"),
      ("ARIOBaseModel.final_demand.setter", 0, "self._entire_demand"),
      ("ARIOBaseModel.rebuild_demand.getter", 0, "self._entire_demand"),
      ("ARIOBaseModel.rebuild_demand.setter", 0, "self.rebuild_demand"),
      ("ARIOBaseModel.rebuild_demand.setter", 1, "self.rebuild_demand"),
      ("ARIOBaseModel.rebuild_demand.setter", 2, "self._entire_demand"),
      ("ARIOBaseModel.rebuild_demand_house.getter", 0, "self._entire_demand"),
      ("ARIOBaseModel.rebuild_demand_indus.getter", 0, "self._entire_demand"),
      ("ARIOBaseModel.rebuild_prod_indus.getter", 0, "self._rebuild_prod"),
      ("ARIOBaseModel.rebuild_prod_house.getter", 0, "self._rebuild_prod"),
      ("ARIOBaseModel.rebuild_prod_indus_event", 0, "indus"),
      ("ARIOBaseModel.rebuild_prod_house_event", 0, "house"),
      ("ARIOBaseModel.distribute_production", 0, "distributed_production"),
      ("ARIOBaseModel.distribute_production", 1, "distributed_production"),
      ("ARIOBaseModel.distribute_production", 2, "distributed_production"),
      ("Simulation.update_rebuild_demand", 0, "_rebuilding_demand"),
      ("Simulation.update_rebuild_demand", 1, "_rebuilding_demand")] := by
  decide

/-- every slice takes all rows and has no step -/
theorem slices_plain : colSlices.all (fun s => s.allRows && s.unitStep) = true := by decide

/-- closes the goals below whatever the order in which the source writes its sums and products: unfold
    the generated table and `Layout`, then normalise the arithmetic -/
macro "slice_arith" : tactic =>
  `(tactic| (simp only [bounds, sliceOf, shapeOf, colSlices, zerosShapes, List.find?, Option.map, ordersRange, fdRange,
      absolute, width, writeIndus, writeHouse, readIndus, readHouse, beq_self_eq_true, Bool.and_true, Bool.true_and,
      Bool.and_false, Bool.false_and, String.reduceBEq, Nat.reduceBEq, Option.some.injEq, Prod.mk.injEq, true_and, and_true,
      Nat.zero_add, Nat.add_zero] <;>
    (try simp) <;> (try (constructor <;> ring)) <;> (try ring)))

section
variable (m n k nb id : Nat)

/-- orders: `intermediate_demand` (read and write) is columns [0, N) -/
theorem orders_columns :
    bounds "ARIOBaseModel.intermediate_demand.getter" 0 m n k nb id = some (none, some (ordersRange (m * n)).hi) ∧
    bounds "ARIOBaseModel.intermediate_demand.setter" 0 m n k nb id = some (none, some (ordersRange (m * n)).hi) := by
  refine ⟨?_, ?_⟩ <;> slice_arith

/-- final demand (read and write) is columns [N, N + F) -/
theorem final_demand_columns :
    bounds "ARIOBaseModel.final_demand.getter" 0 m n k nb id
      = some (some (fdRange (m * n) (m * k)).lo, some (fdRange (m * n) (m * k)).hi) ∧
    bounds "ARIOBaseModel.final_demand.setter" 0 m n k nb id
      = some (some (fdRange (m * n) (m * k)).lo, some (fdRange (m * n) (m * k)).hi) := by
  refine ⟨?_, ?_⟩ <;> slice_arith

/-- the rebuilding part (read and write) starts at N + F and runs to the end -/
theorem rebuild_part_columns :
    bounds "ARIOBaseModel.rebuild_demand.getter" 0 m n k nb id
      = some (some (absolute (m * n) (m * k) ⟨0, (m * n + m * k) * nb⟩).lo, none) ∧
    bounds "ARIOBaseModel.rebuild_demand.setter" 2 m n k nb id
      = some (some (absolute (m * n) (m * k) ⟨0, (m * n + m * k) * nb⟩).lo, none) := by
  refine ⟨?_, ?_⟩ <;> slice_arith

/-- industrial and household rebuilding parts: [N+F, N+F+N·nb) and [N+F+N·nb, end) -/
theorem rebuild_parts_split :
    bounds "ARIOBaseModel.rebuild_demand_indus.getter" 0 m n k nb id
      = some (some (absolute (m * n) (m * k) ⟨0, m * n * nb⟩).lo, some (absolute (m * n) (m * k) ⟨0, m * n * nb⟩).hi) ∧
    bounds "ARIOBaseModel.rebuild_demand_house.getter" 0 m n k nb id
      = some (some (absolute (m * n) (m * k) ⟨m * n * nb, (m * n + m * k) * nb⟩).lo, none) ∧
    -- the totals of the setter split the rebuilding part at the same column
    bounds "ARIOBaseModel.rebuild_demand.setter" 0 m n k nb id = some (none, some (m * n * nb)) ∧
    bounds "ARIOBaseModel.rebuild_demand.setter" 1 m n k nb id = some (some (m * n * nb), none) := by
  refine ⟨?_, ?_, ?_, ?_⟩ <;> slice_arith

/-- `_chg_events_number` allocates `Layout.width` columns and copies exactly orders + final demand -/
theorem resize_keeps_orders_and_final_demand :
    (shapeOf "ARIOBaseModel._chg_events_number").map (fun s => s.cols m n k nb id)
      = some (some (width (m * n) (m * k) nb)) ∧
    bounds "ARIOBaseModel._chg_events_number" 0 m n k nb id = some (none, some (fdRange (m * n) (m * k)).hi) ∧
    bounds "ARIOBaseModel._chg_events_number" 1 m n k nb id = some (none, some (fdRange (m * n) (m * k)).hi) := by
  refine ⟨?_, ?_, ?_⟩ <;> slice_arith

/-- the delivered matrix is cut at the same columns as the demand matrix -/
theorem delivery_columns :
    bounds "ARIOBaseModel.distribute_production" 0 m n k nb id = some (none, some (ordersRange (m * n)).hi) ∧
    bounds "ARIOBaseModel.distribute_production" 1 m n k nb id
      = some (some (fdRange (m * n) (m * k)).lo, some (fdRange (m * n) (m * k)).hi) ∧
    bounds "ARIOBaseModel.distribute_production" 2 m n k nb id
      = some (some (absolute (m * n) (m * k) ⟨0, 0⟩).lo, none) := by
  refine ⟨?_, ?_, ?_⟩ <;> slice_arith

/-- THE WRITER: `update_rebuild_demand` writes event `id` at `Layout.writeIndus` / `Layout.writeHouse`,
    in a buffer as wide as the rebuilding part -/
theorem writer_is_layout :
    bounds "Simulation.update_rebuild_demand" 0 m n k nb id
      = some (some (writeIndus (m * n) id).lo, some (writeIndus (m * n) id).hi) ∧
    bounds "Simulation.update_rebuild_demand" 1 m n k nb id
      = some (some (writeHouse (m * n) (m * k) nb id).lo, some (writeHouse (m * n) (m * k) nb id).hi) ∧
    (shapeOf "Simulation.update_rebuild_demand").map (fun s => s.cols m n k nb id)
      = some (some ((m * n + m * k) * nb)) := by
  refine ⟨?_, ?_, ?_⟩ <;> slice_arith

/-- THE READER: `rebuild_prod_indus_event(id)` / `rebuild_prod_house_event(id)`, composed with the
    slices `rebuild_prod_indus` / `rebuild_prod_house` they are taken from, read `Layout.readIndus` /
    `Layout.readHouse` -/
theorem reader_is_layout :
    -- industrial: a slice of `rebuild_prod[:, :N·nb]`
    bounds "ARIOBaseModel.rebuild_prod_indus.getter" 0 m n k nb id = some (none, some (m * n * nb)) ∧
    bounds "ARIOBaseModel.rebuild_prod_indus_event" 0 m n k nb id
      = some (some (readIndus (m * n) id).lo, some (readIndus (m * n) id).hi) ∧
    -- household: a slice of `rebuild_prod[:, N·nb:]`, so absolute columns are offset by N·nb
    bounds "ARIOBaseModel.rebuild_prod_house.getter" 0 m n k nb id = some (some (m * n * nb), none) ∧
    (bounds "ARIOBaseModel.rebuild_prod_house_event" 0 m n k nb id).map
        (fun b => (b.1.map (m * n * nb + ·), b.2.map (m * n * nb + ·)))
      = some (some (readHouse (m * n) (m * k) nb id).lo, some (readHouse (m * n) (m * k) nb id).hi) := by
  refine ⟨?_, ?_, ?_, ?_⟩ <;> slice_arith

/-- what is written for an event is what is read back for it (C11), and an industrial block read for an
    event with `id < nb` stays inside the industrial part (the slice is not silently truncated) -/
theorem code_writer_reader_agree (h : id < nb) :
    bounds "Simulation.update_rebuild_demand" 0 m n k nb id = bounds "ARIOBaseModel.rebuild_prod_indus_event" 0 m n k nb id ∧
    (bounds "Simulation.update_rebuild_demand" 1 m n k nb id)
      = (bounds "ARIOBaseModel.rebuild_prod_house_event" 0 m n k nb id).map
          (fun b => (b.1.map (m * n * nb + ·), b.2.map (m * n * nb + ·))) ∧
    (readIndus (m * n) id).hi ≤ m * n * nb ∧ (readHouse (m * n) (m * k) nb id).hi ≤ (m * n + m * k) * nb := by
  have hb := blocks_inside (m * n) (m * k) nb id h
  refine ⟨?_, ?_, ?_, ?_⟩
  · slice_arith
  · slice_arith
  · simpa [readIndus, writeIndus] using hb.1
  · simpa [readHouse, writeHouse] using hb.2.2

end

end Boario.Gen
