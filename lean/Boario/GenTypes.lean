/-
  Types of the tables regenerated from the source by harness/translate.py (Boario/Gen/*.lean).
-/
namespace Boario.Gen

/-- one statement of `Simulation.next_step` -/
inductive Item where
  | call (name : String)
  | assign (target : String)
  | write (a listA b listB helper : String)      -- `if (a in listA) or (b in listB): helper()`
  | ifStepGt (n : Nat) (name : String)           -- `if self.current_temporal_unit > n: name()`
  | defaultArg (name : String)                   -- `if x is None: x = …`
  | equilibriumCheck
  | tryBegin
  | tryEnd (handlers returns : String)
  | incr (target value : String)
  | ret (v : String)
  | unknown (what : String)
  deriving DecidableEq, Repr

inductive DefaultKind where
  | none | immutable | mutableLiteral | callAtDefinition | other | missing
  deriving DecidableEq, Repr

end Boario.Gen
