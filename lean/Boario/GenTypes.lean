/-
  Types of the tables regenerated from the source by harness/translate.py (Boario/Gen/*.lean).
-/
namespace Boario.Gen

/-- one statement of `Simulation.next_step` -/
inductive Item where
  | call (name : String)
  | assign (target : String)
  | write (a listA b listB helper : String)      -- `if (a in listA) or (b in listB): helper()`
  | ifStepGt (n : Nat) (name : String)           -- `if self.current_temporal_unit > n: name()`
  | defaultArg (name : String)                   -- `if x is None: x = …`
  | equilibriumCheck
  | tryBegin
  | tryEnd (handlers returns : String)
  | incr (target value : String)
  | ret (v : String)
  | unknown (what : String)
  deriving DecidableEq, Repr

inductive DefaultKind where
  | none | immutable | mutableLiteral | callAtDefinition | other | missing
  deriving DecidableEq, Repr

/-- a column slice `base[rows, lo:hi]` found in the source; bounds as functions of
    (n_regions, n_sectors, n_fd_cat, _n_rebuilding_events, event id); `none` = open end -/
structure ColSlice where
  fn : String
  idx : Nat
  base : String
  allRows : Bool                 -- the row selector is `:`
  unitStep : Bool                -- no step in the column slice
  lo : Nat → Nat → Nat → Nat → Nat → Option Nat
  hi : Nat → Nat → Nat → Nat → Nat → Option Nat

/-- `np.zeros(shape=(rows, cols))` found in the source -/
structure ZerosShape where
  fn : String
  rows : Nat → Nat → Nat → Nat → Nat → Option Nat
  cols : Nat → Nat → Nat → Nat → Nat → Option Nat

/-- how the array passed as `out=` to a masked ufunc was created: by a constructor that fills it (`np.zeros`, `np.ones`,
    `np.full`, …), by one that leaves it uninitialised (`np.empty`, `np.ndarray`), as the value of some other expression,
    not at all (`out=` absent: NumPy allocates an uninitialised result), or in a way the translator does not resolve -/
inductive OutInit where
  | filled | raw | computed | missing | unknown
  deriving DecidableEq, Repr

/-- `np.<ufunc>(..., where=mask[, out=arr])` found in the source -/
structure MaskedCall where
  fn : String
  idx : Nat
  ufunc : String
  out : OutInit
  deriving DecidableEq, Repr

/-- `np.empty(...)`, `np.empty_like(...)` or `np.ndarray(...)` found in the source; `filledNext`: the first later statement that
    mentions the array is `<name>.fill(v)` -/
structure RawAlloc where
  fn : String
  idx : Nat
  ctor : String
  filledNext : Bool
  deriving DecidableEq, Repr

/-- what the translator emits for element-wise code it cannot re-express: an opaque value, about which
    nothing can be proved -/
opaque unknownFormula (what : String) : Rat

end Boario.Gen
