/- helper lemmas for `Boario.Properties.C19Dt`: the dt-general versions of the exact equilibrium step and
   run of `Boario.Lemmas.ShiftRun` -/
import Boario.Properties.C19Run

namespace Boario
variable {d : Dims}

/-- `equilibrium_step_exact_gen` for every step length -/
theorem sd_equilibrium_step_exact_gen {p : Params d} (hp : EqParams p) (hK : ∀ f, 0 ≤ p.K f) (s : Sim d)
    (hsp : s.p = p) (he : s.econ = initEcon s.p) (hnb : s.nBlocks = 0)
    (hidle : ∀ tr ∈ s.trackers, tr.status = .pending ∧ s.t < tr.occ) :
    nextStep s = .ok { s with t := s.t + s.dt } := by
  obtain ⟨p', dt, econ, trackers, nBlocks, t⟩ := s
  simp only at hsp he hnb hidle
  subst hsp he hnb
  have h1 := eventsPre_idle_exact (⟨p', dt, initEcon p', trackers, 0, t⟩ : Sim d) hK rfl
    (fun tr h => (hidle tr h).1) (fun tr h => (hidle tr h).2)
  have h2 : productionPhase p' (if 1 < t then overprodPhase p' (initEcon p') else initEcon p')
      = .ok (initEcon p') := by
    rw [overprodPhase_initEcon hp, ite_self]
    exact productionPhase_initEcon hp
  have h := nextStep_of_phases _ _ _ _ _ h1 h2 (distribute_initEcon hp) (orders_initEcon hp)
  rw [h]
  simp only
  rw [receiveAll_pending _ _ (fun tr h => (hidle tr h).1),
    recoverAll_pending _ _ (fun tr h => (hidle tr h).1)]

/-- while every event is pending and not due before `j` steps of length `dt` have elapsed, `j` steps at
    the constructed equilibrium only move the clock -/
theorem sd_equilibrium_run_exact {p : Params d} (hp : EqParams p) (hK : ∀ f, 0 ≤ p.K f) (dt : Nat)
    (hdt : 0 < dt) (j : Nat) :
    ∀ (s : Sim d), s.p = p → s.econ = initEcon s.p → s.nBlocks = 0 → s.dt = dt →
      (∀ tr ∈ s.trackers, tr.status = .pending ∧ s.t + j * dt ≤ tr.occ) →
      runN j s = some { s with t := s.t + j * dt } := by
  induction j with
  | zero => intro s _ _ _ _ _; simp [runN]
  | succ j ih =>
    intro s hsp he hnb hsdt hidle
    simp only [runN]
    have hmul : (j + 1) * dt = j * dt + dt := Nat.succ_mul j dt
    rw [sd_equilibrium_step_exact_gen hp hK s hsp he hnb
      (fun tr h => ⟨(hidle tr h).1, by have := (hidle tr h).2; rw [hmul] at this; omega⟩)]
    simp only
    rw [ih { s with t := s.t + s.dt } hsp he hnb hsdt
      (fun tr h => ⟨(hidle tr h).1, by
        have := (hidle tr h).2; rw [hmul] at this
        show s.t + s.dt + j * dt ≤ tr.occ
        rw [hsdt]; omega⟩)]
    simp only [hsdt, hmul, Nat.add_assoc, Nat.add_comm dt (j * dt)]

end Boario
