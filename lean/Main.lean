/-
  driver — JSON-lines front end to the *executable definitions* of the model.
  One request object per input line, one answer object per output line.
  Numbers travel as strings "num/den" (exact); `null` is `None`.
  Unknown or malformed requests answer {"bad-op": ...}; nothing is ever defaulted.
-/
import Lean.Data.Json
import Boario.Sim
import Boario.Init
import Boario.Layout
import Boario.Impact
import Boario.Labels
import Boario.Records

open Lean Boario

/-! ## rationals <-> strings -/

def parseRat (s : String) : Except String Rat :=
  match s.splitOn "/" with
  | [a] => match a.toInt? with
    | some n => .ok (n : Rat)
    | none => .error s!"bad number {s}"
  | [a, b] => match a.toInt?, b.toNat? with
    | some n, some dn => if dn = 0 then .error s!"zero denominator {s}" else .ok (mkRat n dn)
    | _, _ => .error s!"bad number {s}"
  | _ => .error s!"bad number {s}"

def showRat (r : Rat) : String :=
  if r.den = 1 then toString r.num else toString r.num ++ "/" ++ toString r.den

def jRat (r : Rat) : Json := Json.str (showRat r)

/-! ## JSON accessors -/

def fld (j : Json) (k : String) : Except String Json :=
  match j.getObjVal? k with
  | .ok v => .ok v
  | .error _ => .error s!"missing field {k}"

def getRat (j : Json) : Except String Rat := do
  match j with
  | .str s => parseRat s
  | _ => .error "number must be a string num/den"

def getRatArr (j : Json) (len : Nat) (what : String) : Except String (Array Rat) := do
  let arr ← match j.getArr? with
    | .ok a => pure a
    | .error _ => throw s!"{what}: array expected"
  if arr.size ≠ len then throw s!"{what}: expected {len} entries, got {arr.size}"
  arr.mapM getRat

def getBoolArr (j : Json) (len : Nat) (what : String) : Except String (Array Bool) := do
  let arr ← match j.getArr? with
    | .ok a => pure a
    | .error _ => throw s!"{what}: array expected"
  if arr.size ≠ len then throw s!"{what}: expected {len} entries, got {arr.size}"
  arr.mapM fun b => match b.getBool? with
    | .ok v => pure v
    | .error _ => throw s!"{what}: bool expected"

def getOptRatArr (j : Json) (len : Nat) (what : String) : Except String (Array (Option Rat)) := do
  let arr ← match j.getArr? with
    | .ok a => pure a
    | .error _ => throw s!"{what}: array expected"
  if arr.size ≠ len then throw s!"{what}: expected {len} entries, got {arr.size}"
  arr.mapM fun v => match v with
    | .null => pure none
    | _ => do let r ← getRat v; pure (some r)

def getNat (j : Json) (k : String) : Except String Nat := do
  let v ← fld j k
  match v.getNat? with
  | .ok n => pure n
  | .error _ => throw s!"{k}: natural number expected"

def getInt (j : Json) (k : String) : Except String Int := do
  let v ← fld j k
  match v.getInt? with
  | .ok n => pure n
  | .error _ => throw s!"{k}: integer expected"

def getBool (j : Json) (k : String) : Except String Bool := do
  let v ← fld j k
  match v.getBool? with
  | .ok n => pure n
  | .error _ => throw s!"{k}: bool expected"

def getStr (j : Json) (k : String) : Except String String := do
  let v ← fld j k
  match v.getStr? with
  | .ok n => pure n
  | .error _ => throw s!"{k}: string expected"

def getRatF (j : Json) (k : String) : Except String Rat := do getRat (← fld j k)

/-! ## arrays <-> functions on index types -/

section Tab
variable (d : Dims)

def nInd : Nat := d.m * d.n
def nFd : Nat := d.m * d.k

def flatI (i : Ind d) : Nat := i.1.val * d.n + i.2.val
def flatF (c : Fd d) : Nat := c.1.val * d.k + c.2.val

def allInd : Array (Ind d) :=
  (Array.ofFn fun (r : Fin d.m) => Array.ofFn fun (s : Fin d.n) => (r, s)).flatten
def allFd : Array (Fd d) :=
  (Array.ofFn fun (r : Fin d.m) => Array.ofFn fun (c : Fin d.k) => (r, c)).flatten
def allSec : Array (Fin d.n) := Array.ofFn fun (s : Fin d.n) => s

def vecI (a : Array Rat) : Ind d → Rat := fun i => a.getD (flatI d i) 0
def vecF (a : Array Rat) : Fd d → Rat := fun c => a.getD (flatF d c) 0
def matII (a : Array Rat) : Ind d → Ind d → Rat := fun i j => a.getD (flatI d i * nInd d + flatI d j) 0
def matIF (a : Array Rat) : Ind d → Fd d → Rat := fun i c => a.getD (flatI d i * nFd d + flatF d c) 0
def matSI (a : Array Rat) : Fin d.n → Ind d → Rat := fun s f => a.getD (s.val * nInd d + flatI d f) 0
def matSIb (a : Array Bool) : Fin d.n → Ind d → Bool := fun s f => a.getD (s.val * nInd d + flatI d f) false

def tabI (f : Ind d → Rat) : Array Rat := (allInd d).map f
def tabF (f : Fd d → Rat) : Array Rat := (allFd d).map f
def tabII (f : Ind d → Ind d → Rat) : Array Rat := (allInd d).flatMap fun i => (allInd d).map (f i)
def tabIF (f : Ind d → Fd d → Rat) : Array Rat := (allInd d).flatMap fun i => (allFd d).map (f i)
def tabSI (f : Fin d.n → Ind d → Rat) : Array Rat := (allSec d).flatMap fun s => (allInd d).map (f s)
def tabSIb (f : Fin d.n → Ind d → Bool) : Array Bool := (allSec d).flatMap fun s => (allInd d).map (f s)

def jArr (a : Array Rat) : Json := Json.arr (a.map jRat)
def jBArr (a : Array Bool) : Json := Json.arr (a.map Json.bool)

def getBlock (j : Json) : Except String (RebBlock d) := do
  let i ← getRatArr (← fld j "indus") (nInd d * nInd d) "block.indus"
  let h ← getRatArr (← fld j "house") (nInd d * nFd d) "block.house"
  pure { indus := matII d i, house := matIF d h }

def getBlocks (j : Json) : Except String (List (RebBlock d)) := do
  let arr ← match j.getArr? with
    | .ok a => pure a
    | .error _ => throw "blocks: array expected"
  arr.toList.mapM (getBlock d)

/-- tabulate a block and return both its JSON and a re-indexed (cheap) copy -/
def freezeBlock (b : RebBlock d) : RebBlock d × Json :=
  let i := tabII d b.indus
  let h := tabIF d b.house
  ({ indus := matII d i, house := matIF d h },
   Json.mkObj [("indus", jArr i), ("house", jArr h)])

def jBlocks (bs : List (RebBlock d)) : Json :=
  Json.arr (bs.map fun b => (freezeBlock d b).2).toArray

end Tab

/-! ## requests -/

structure Ctx where
  d : Dims
  p : Params d

def parseParams (j : Json) : Except String Ctx := do
  let m ← getNat j "m"; let n ← getNat j "n"; let k ← getNat j "k"
  let d : Dims := ⟨m, n, k⟩
  let N := nInd d; let F := nFd d
  let x0 ← getRatArr (← fld j "x0") N "x0"
  let Z0 ← getRatArr (← fld j "Z0") (N * N) "Z0"
  let Y0 ← getRatArr (← fld j "Y0") (N * F) "Y0"
  let a ← getRatArr (← fld j "a") (n * N) "a"
  let thr ← getBoolArr (← fld j "thr") (n * N) "thr"
  let inv ← getOptRatArr (← fld j "invDur") n "invDur"
  let rest ← getRatArr (← fld j "rest") n "rest"
  let Zs ← getRatArr (← fld j "Zshare") (N * N) "Zshare"
  let K ← getRatArr (← fld j "K") N "K"
  let p : Params d := {
    x0 := vecI d x0, Z0 := matII d Z0, Y0 := matIF d Y0, a := matSI d a, thr := matSIb d thr
    invDur := fun s => inv.getD s.val none
    psi := ← getRatF j "psi", rest := fun s => rest.getD s.val 0
    aBase := ← getRatF j "aBase", aMax := ← getRatF j "aMax", aTau := ← getRatF j "aTau"
    alt := ← getBool j "alt", Zshare := matII d Zs, K := vecI d K }
  pure ⟨d, p⟩

def parseEcon (d : Dims) (j : Json) : Except String (Econ d) := do
  let N := nInd d; let F := nFd d
  let orders ← getRatArr (← fld j "orders") (N * N) "orders"
  let fd ← getRatArr (← fld j "fd") (N * F) "fd"
  let reb ← getBlocks d (← fld j "reb")
  let dTot ← getRatArr (← fld j "dTot") N "dTot"
  let stock ← getRatArr (← fld j "stock") (d.n * N) "stock"
  let prod ← getRatArr (← fld j "prod") N "prod"
  let alpha ← getRatArr (← fld j "alpha") N "alpha"
  let delta ← getRatArr (← fld j "deltaTot") N "deltaTot"
  pure { orders := matII d orders, fd := matIF d fd, reb := reb, dTot := vecI d dTot
         stock := matSI d stock, prod := vecI d prod, alpha := vecI d alpha
         deltaTot := vecI d delta, fdUnmet := fun _ => 0, rebProd := [] }

def maxArr (a : Array Rat) (init : Rat) : Rat := a.foldl max init
def minArr (a : Array Rat) (init : Rat) : Rat := a.foldl min init

def opOverprod (c : Ctx) (j : Json) : Except String Json := do
  let e ← parseEcon c.d j
  let e' := overprodPhase c.p e
  let sc := tabI c.d (scarcity e.dTot e.prod)
  pure <| Json.mkObj [("alpha", jArr (tabI c.d e'.alpha)), ("scarcity", jArr sc)]

def opProduction (c : Ctx) (j : Json) : Except String Json := do
  let d := c.d
  let e ← parseEcon d j
  if capNegative c.p e.deltaTot e.alpha then
    return Json.mkObj [("out", "rejected")]
  let x := vecI d (tabI d (xOpt c.p e.dTot e.deltaTot e.alpha))
  let prod := tabI d (production c.p e.stock x)
  let mask := tabSIb d (stockConstraint c.p e.stock x)
  -- margins of the `stock < constraint` tests (positive: constrained)
  let marg := tabSI d fun s f => cons c.p x s f - e.stock s f
  let cap := tabI d (capacity c.p e.deltaTot e.alpha)
  pure <| Json.mkObj [("out", "ok"), ("prod", jArr prod), ("mask", jBArr mask),
    ("margin", jArr marg), ("xOpt", jArr (tabI d x)), ("cap", jArr cap)]

def econOut (d : Dims) (e : Econ d) : List (String × Json) :=
  [("stock", jArr (tabSI d e.stock)), ("fdUnmet", jArr (tabI d e.fdUnmet)),
   ("rebProd", jBlocks d e.rebProd), ("reb", jBlocks d e.reb), ("dTot", jArr (tabI d e.dTot))]

def opDistribute (c : Ctx) (j : Json) : Except String Json := do
  let d := c.d
  let e ← parseEcon d j
  let dl := deliveries e
  let dlo := tabII d dl.orders
  let dlf := tabIF d dl.fd
  let dlr := dl.reb.map fun b => (freezeBlock d b).1
  let dl' : Delivered d := { orders := matII d dlo, fd := matIF d dlf, reb := dlr }
  -- closeness margin: max over cells of |add - use| - tol  (positive: update)
  let cm := maxArr (tabSI d fun s f => closeMargin (stockAdd dl'.orders s f) (stockUse c.p e.prod s f)) (-1)
  let isClose := decide (addUseClose c.p e.prod dl'.orders)
  let stockU := tabSI d (stockUpdated c.p e dl'.orders)
  let stockU' := matSI d stockU
  let neg := decide (stockNegative c.p stockU')
  let minStock := minArr (tabSI d fun s f => if (c.p.invDur s).isSome then stockU' s f else 0) 0
  let finSkip := distributeFinish e dl' e.stock
  let finUpd := distributeFinish e dl' stockU'
  let deliv := Json.mkObj [("orders", jArr dlo), ("fd", jArr dlf), ("reb", jBlocks d dlr)]
  pure <| Json.mkObj [
    ("close", isClose), ("closeMargin", jRat cm), ("negative", neg), ("minStock", jRat minStock),
    ("deliv", deliv),
    ("skip", Json.mkObj (econOut d finSkip)),
    ("update", Json.mkObj (econOut d finUpd)),
    ("tot", jArr (tabI d (rowTot e.orders e.fd e.reb)))]

def opOrders (c : Ctx) (j : Json) : Except String Json := do
  let d := c.d
  let e ← parseEcon d j
  if capNegative c.p e.deltaTot e.alpha then
    return Json.mkObj [("out", "rejected")]
  let x := vecI d (tabI d (xOpt c.p e.dTot e.deltaTot e.alpha))
  let isClose := decide (ordersClose c.p e.stock x)
  -- margin over tracked rows (positive: not close); an infinite row that breaks closeness is reported apart
  let cm := maxArr (tabSI d fun s f => if (c.p.invDur s).isSome then closeMargin (e.stock s f) (goal c.p x s f) else -1) (-1)
  let infBreak := (tabSI d fun s f => if (c.p.invDur s).isNone ∧ x f * c.p.a s f = 0 then 1 else 0).any (· ≠ 0)
  let outOf (gap : Fin d.n → Ind d → Rat) : Json :=
    let o := tabII d (ordersFrom c.p e gap)
    let o' := matII d o
    let neg := decide (ordersNegative o')
    Json.mkObj [("negative", neg), ("orders", jArr o), ("dTot", jArr (tabI d (rowTot o' e.fd e.reb)))]
  let gapO := matSI d (tabSI d (gapOpen c.p e.stock x))
  pure <| Json.mkObj [("out", "ok"), ("close", isClose), ("closeMargin", jRat cm), ("infBreak", infBreak),
    ("closed", outOf fun _ _ => 0), ("open", outOf gapO),
    ("need", jArr (tabSI d (needWith c.p (if isClose then fun _ _ => 0 else gapO) e.prod)))]

/-! ### event layer -/

def parseKind (s : String) : Except String EvKind :=
  match s with
  | "rebuild" => .ok .rebuild
  | "recover" => .ok .recover
  | "arbitrary" => .ok .arbitrary
  | _ => .error s!"unknown kind {s}"

def parseStatus (s : String) : Except String Status :=
  match s with
  | "pending" => .ok .pending
  | "happening" => .ok .happening
  | "rebuilding" => .ok .rebuilding
  | "recovering" => .ok .recovering
  | "finished" => .ok .finished
  | _ => .error s!"unknown status {s}"

def showStatus : Status → String
  | .pending => "pending" | .happening => "happening" | .rebuilding => "rebuilding"
  | .recovering => "recovering" | .finished => "finished"

def optArr (j : Json) (k : String) (len : Nat) : Except String (Option (Array Rat)) := do
  match j.getObjVal? k with
  | .ok .null => pure none
  | .ok v => do let a ← getRatArr v len k; pure (some a)
  | .error _ => throw s!"missing field {k}"

/-- recovery curve of a tracker: a built-in rational curve, or raw values supplied by the harness
    (`concave` has an irrational exponent; user callables are opaque): `raw[elapsed]`. -/
def parseTracker (d : Dims) (j : Json) : Except String (Tracker d) := do
  let N := nInd d; let F := nFd d
  let kind ← parseKind (← getStr j "kind")
  let status ← parseStatus (← getStr j "status")
  let tau ← getNat j "tau"
  let curve ← getStr j "curve"
  let g : Except String (Int → Rat) := match curve with
    | "linear" => .ok (gLinear tau)
    | "convexe" => .ok (gConvexeScaled tau)
    | "convexe noscale" => .ok (gConvexe tau)
    | "raw" => .ok (fun _ => 0)
    | _ => .error s!"unknown curve {curve}"
  let g ← g
  -- raw curve values for the current elapsed time only (enough for one `recover` call)
  let rawI ← optArr j "rawI" N
  let rawH ← optArr j "rawH" F
  let curveI : Int → (Ind d → Rat) → Ind d → Rat :=
    match curve, rawI with
    | "raw", some a => fun _ _ => vecI d a
    | _, _ => cellwiseI g
  let curveH : Int → (Fd d → Rat) → Fd d → Rat :=
    match curve, rawH with
    | "raw", some a => fun _ _ => vecF d a
    | _, _ => cellwiseF g
  let dmg0 ← getRatArr (← fld j "dmg0") N "dmg0"
  let dmg ← optArr j "dmg" N
  let hdmg0 ← optArr j "hdmg0" F
  let hdmg ← optArr j "hdmg" F
  let arb0 ← getRatArr (← fld j "arb0") N "arb0"
  let arb ← optArr j "arb" N
  let remI ← optArr j "remI" (N * N)
  let remH ← optArr j "remH" (N * F)
  let rid ← match j.getObjVal? "rid" with
    | .ok .null => pure none
    | .ok v => match v.getNat? with
      | .ok n => pure (some n)
      | .error _ => throw "rid: nat expected"
    | .error _ => throw "missing field rid"
  pure { kind := kind, occ := ← getNat j "occ", dur := ← getNat j "dur", tau := tau
         factor := ← getRatF j "factor", prec := ← getNat j "prec"
         curveI := curveI, curveH := curveH, status := status
         dmg0 := vecI d dmg0, dmg := dmg.map (vecI d), hdmg0 := hdmg0.map (vecF d), hdmg := hdmg.map (vecF d)
         arb0 := vecI d arb0, arb := arb.map (vecI d), remI := remI.map (matII d), remH := remH.map (matIF d)
         rid := rid }

def jOpt (f : Option Json) : Json := match f with | some j => j | none => Json.null

def trackerOut (d : Dims) (tr : Tracker d) : Json :=
  Json.mkObj [
    ("status", showStatus tr.status),
    ("dmg", jOpt (tr.dmg.map fun f => jArr (tabI d f))),
    ("hdmg", jOpt (tr.hdmg.map fun f => jArr (tabF d f))),
    ("arb", jOpt (tr.arb.map fun f => jArr (tabI d f))),
    ("remI", jOpt (tr.remI.map fun f => jArr (tabII d f))),
    ("remH", jOpt (tr.remH.map fun f => jArr (tabIF d f))),
    ("rid", match tr.rid with | some n => (n : Json) | none => Json.null)]

def parseTrackers (d : Dims) (j : Json) : Except String (List (Tracker d)) := do
  let arr ← match j.getArr? with
    | .ok a => pure a
    | .error _ => throw "trackers: array expected"
  arr.toList.mapM (parseTracker d)

/-- freeze the ledgers of a tracker (evaluate once) -/
def freezeTracker (d : Dims) (tr : Tracker d) : Tracker d :=
  { tr with
    dmg := tr.dmg.map fun f => vecI d (tabI d f)
    hdmg := tr.hdmg.map fun f => vecF d (tabF d f)
    arb := tr.arb.map fun f => vecI d (tabI d f)
    remI := tr.remI.map fun f => matII d (tabII d f)
    remH := tr.remH.map fun f => matIF d (tabIF d f) }

/-- `_check_happening_events` -/
def opEventsPre (c : Ctx) (j : Json) : Except String Json := do
  let d := c.d
  let e ← parseEcon d (← fld j "econ")
  let trs ← parseTrackers d (← fld j "trackers")
  let s : Sim d := { p := c.p, dt := ← getNat j "dt", econ := e, trackers := trs,
                     nBlocks := ← getNat j "nBlocks", t := ← getNat j "t" }
  let (trs1, nb) := lifecycle s.t s.dt s.trackers s.nBlocks
  let lost := tabI d (lostCapital trs1)
  let excessMargin := maxArr (tabI d fun i => vecI d lost i - c.p.K i) (-1)
  match eventsPre s with
  | .ok s' =>
    pure <| Json.mkObj [("out", "ok"), ("nBlocks", (s'.nBlocks : Json)),
      ("trackers", Json.arr (s'.trackers.map (trackerOut d)).toArray),
      ("lost", jArr lost), ("excessMargin", jRat excessMargin),
      ("arb", jArr (tabI d (arbDelta trs1))),
      ("deltaTot", jArr (tabI d s'.econ.deltaTot)),
      ("reb", jBlocks d s'.econ.reb), ("dTot", jArr (tabI d s'.econ.dTot))]
  | .rejected => pure <| Json.mkObj [("out", "rejected"), ("lost", jArr lost),
      ("excessMargin", jRat excessMargin), ("nBlocks", (nb : Json))]
  | _ => pure <| Json.mkObj [("out", "internal")]

/-- `rebuild_events` + `recover_events` -/
def opEventsPost (c : Ctx) (j : Json) : Except String Json := do
  let d := c.d
  let trs ← parseTrackers d (← fld j "trackers")
  let rebProd ← getBlocks d (← fld j "rebProd")
  let t ← getNat j "t"
  let trs1 := (receiveAll rebProd trs).map (freezeTracker d)
  let trs2 := recoverAll t trs1
  -- tie margins of the roundings of this step (smallest distance to a half-way point)
  let margins : List Rat := trs.map fun tr =>
    match tr.status, tr.rid with
    | .rebuilding, some id =>
      let got := gotOfId rebProd id
      let rel (x : Rat) : Rat := roundTieMargin tr.prec x / max 1 (rabs (x * (10 : Rat) ^ tr.prec))
      let mi := match tr.remI with
        | some r => minArr (tabII d fun i jj => rel (r i jj - got.indus i jj)) 1
        | none => 1
      let mh := match tr.remH with
        | some r => minArr (tabIF d fun i cc => rel (r i cc - got.house i cc)) 1
        | none => 1
      min mi mh
    | .recovering, _ =>
      let el : Int := (t : Int) - ((tr.occ : Int) + (tr.dur : Int))
      let rel (p : Nat) (x : Rat) : Rat := roundTieMargin p x / max 1 (rabs (x * (10 : Rat) ^ p))
      let mi := match tr.kind, tr.dmg with
        | .recover, some _ => minArr (tabI d fun i => rel tr.prec (tr.curveI el tr.dmg0 i)) 1
        | _, _ => 1
      let mh := match tr.kind, tr.hdmg, tr.hdmg0 with
        | .recover, some _, some h0 => minArr (tabF d fun c => rel tr.prec (tr.curveH el h0 c)) 1
        | _, _, _ => 1
      let ma := match tr.arb with
        | some _ => minArr (tabI d fun i => rel 6 (tr.curveI el tr.arb0 i)) 1
        | none => 1
      min mi (min mh ma)
    | _, _ => 1
  pure <| Json.mkObj [("trackers", Json.arr (trs2.map (trackerOut d)).toArray),
    ("roundMargins", Json.arr (margins.map jRat).toArray)]

/-! ### construction -/

def parseTable (j : Json) : Except String ((d : Dims) × Table d) := do
  let m ← getNat j "m"; let n ← getNat j "n"; let k ← getNat j "k"
  let d : Dims := ⟨m, n, k⟩
  let N := nInd d; let F := nFd d
  let Z ← getRatArr (← fld j "Z") (N * N) "Z"
  let Y ← getRatArr (← fld j "Y") (N * F) "Y"
  let x ← getRatArr (← fld j "x") N "x"
  pure ⟨d, { Z := matII d Z, Y := matIF d Y, x := vecI d x }⟩

def parseConfig (d : Dims) (j : Json) : Except String (Config d) := do
  let inv ← getOptRatArr (← fld j "inventories") d.n "inventories"
  let rest ← getRatArr (← fld j "restTau") d.n "restTau"
  let cap ← fld j "capital"
  let kind ← getStr cap "kind"
  let capital : CapitalSpec d ← match kind with
    | "default" => pure CapitalSpec.default
    | "ratio" => do
      let r ← getRatArr (← fld cap "values") d.n "capital.values"
      pure (CapitalSpec.ratio fun s => r.getD s.val 0)
    | "vector" => do
      let v ← getRatArr (← fld cap "values") (nInd d) "capital.values"
      pure (CapitalSpec.vector (vecI d v))
    | _ => throw s!"unknown capital kind {kind}"
  pure { isPsi := ← getBool j "isPsi", alt := ← getBool j "alt", aBase := ← getRatF j "aBase"
         aMax := ← getRatF j "aMax", alphaTau := ← getRatF j "alphaTau", dt := ← getNat j "dt"
         yearFactor := ← getNat j "yearFactor", inventories := fun s => inv.getD s.val none
         psi := ← getRatF j "psi", restTau := fun s => rest.getD s.val 1, capital := capital }

def opMkParams (j : Json) : Except String Json := do
  let ⟨d, tb⟩ ← parseTable j
  let c ← parseConfig d (← fld j "cfg")
  if cfgRejected c then return Json.mkObj [("out", "rejected")]
  let p := mkParams tb c
  let e := initEcon p
  pure <| Json.mkObj [("out", "ok"),
    ("x0", jArr (tabI d p.x0)), ("Z0", jArr (tabII d p.Z0)), ("Y0", jArr (tabIF d p.Y0)),
    ("a", jArr (tabSI d p.a)), ("thr", jBArr (tabSIb d p.thr)),
    ("invDur", Json.arr ((allSec d).map fun s => match p.invDur s with | some v => jRat v | none => Json.null)),
    ("psi", jRat p.psi), ("rest", Json.arr ((allSec d).map fun s => jRat (p.rest s))),
    ("aBase", jRat p.aBase), ("aMax", jRat p.aMax), ("aTau", jRat p.aTau),
    ("Zshare", jArr (tabII d p.Zshare)), ("K", jArr (tabI d p.K)),
    ("stock0", jArr (tabSI d e.stock)), ("dTot0", jArr (tabI d e.dTot))]

def opTrackerInit (j : Json) : Except String Json := do
  let ⟨d, tb⟩ ← parseTable j
  let N := nInd d; let F := nFd d
  let ej ← fld j "ev"
  let kind ← parseKind (← getStr ej "kind")
  let impact ← getRatArr (← fld ej "impact") N "impact"
  let house ← optArr ej "house" F
  let shares ← getRatArr (← fld ej "shares") d.n "shares"
  let isReb ← getBoolArr (← fld ej "isReb") d.n "isReb"
  let curve ← getStr ej "curve"
  let cn : CurveName := match curve with
    | "linear" => .linear | "convexe" => .convexe | "convexe noscale" => .convexeNoscale | _ => .other
  let ev : EventSpec d := {
    kind := kind, occ := ← getNat ej "occ", dur := ← getNat ej "dur", tau := ← getNat ej "tau"
    impact := vecI d impact, house := house.map (vecF d), emf := ← getRatF ej "emf"
    shares := fun s => shares.getD s.val 0, isReb := fun s => isReb.getD s.val false
    factor := ← getRatF ej "factor", curve := cn
    curveI := fun _ _ _ => 0, curveH := fun _ _ _ => 0 }
  if eventRejected ev then return Json.mkObj [("out", "rejected")]
  let tr := trackerInit tb (← getRatF j "mf") (← getNat j "mfLog10") ev
  pure <| Json.mkObj [("out", "ok"), ("tracker", trackerOut d tr), ("dmg0", jArr (tabI d tr.dmg0)),
    ("hdmg0", jOpt (tr.hdmg0.map fun f => jArr (tabF d f))), ("arb0", jArr (tabI d tr.arb0)),
    ("prec", (tr.prec : Json))]

/-! ### impact distribution, label canonicalisation, layout -/

def getLabelled (j : Json) : Except String (List (Nat × Rat)) := do
  let arr ← match j.getArr? with
    | .ok a => pure a
    | .error _ => throw "labelled list: array expected"
  arr.toList.mapM fun p => do
    let pr ← match p.getArr? with
      | .ok a => pure a
      | .error _ => throw "labelled entry: pair expected"
    if pr.size ≠ 2 then throw "labelled entry: pair expected"
    let k ← match pr[0]!.getNat? with
      | .ok n => pure n
      | .error _ => throw "label: nat expected"
    let v ← getRat pr[1]!
    pure (k, v)

def getOptLabelled (j : Json) (k : String) : Except String (Option (List (Nat × Rat))) := do
  match j.getObjVal? k with
  | .ok .null => pure none
  | .ok v => do let l ← getLabelled v; pure (some l)
  | .error _ => throw s!"missing field {k}"

def getNatList (j : Json) (k : String) : Except String (List Nat) := do
  let v ← fld j k
  let arr ← match v.getArr? with
    | .ok a => pure a
    | .error _ => throw s!"{k}: array expected"
  arr.toList.mapM fun x => match x.getNat? with
    | .ok n => pure n
    | .error _ => throw s!"{k}: nat expected"

def jLabelled (l : List (Nat × Rat)) : Json :=
  Json.arr (l.map fun p => Json.arr #[(p.1 : Json), jRat p.2]).toArray

def showReject : Impact.Reject → String
  | .nullImpact => "nullImpact" | .empty => "empty" | .weightsMissing => "weightsMissing"
  | .notNormalisable => "notNormalisable" | .negative => "negative"

def opImpact (j : Json) : Except String Json := do
  let kind ← getStr j "kind"
  let impact ← getRatF j "impact"
  let res ← match kind with
    | "industries" => do
      let aff ← getNatList j "aff"
      let w ← getOptLabelled j "weights"
      pure (Impact.distributeIndustries impact aff w)
    | "regions_sectors" => do
      let regs ← getNatList j "regs"
      let secs ← getNatList j "secs"
      let nSec ← getNat j "nSec"
      let wr ← getOptLabelled j "wr"
      let ws ← getOptLabelled j "ws"
      pure (Impact.regionsSectors impact regs secs nSec wr ws)
    | "series" => do
      let l ← getLabelled (← fld j "l")
      pure (Impact.fromSeries l)
    | _ => throw s!"unknown impact kind {kind}"
  match res with
  | .ok l => pure <| Json.mkObj [("out", "ok"), ("l", jLabelled l)]
  | .error e => pure <| Json.mkObj [("out", "reject"), ("why", showReject e)]

def opCanon (j : Json) : Except String Json := do
  let l ← getLabelled (← fld j "l")
  let n ← match j.getObjVal? "widen" with
    | .ok v => match v.getNat? with
      | .ok n => pure (some n)
      | .error _ => throw "widen: nat expected"
    | .error _ => pure none
  let base := [("canon", jLabelled (Labels.canon l)), ("values", Json.arr ((Labels.values l).map jRat).toArray)]
  match n with
  | some n => pure <| Json.mkObj (base ++ [("wide", Json.arr ((Labels.widen n l).map jRat).toArray)])
  | none => pure <| Json.mkObj base

def jRange (r : Layout.Range) : Json := Json.arr #[(r.lo : Json), (r.hi : Json)]

def opLayout (j : Json) : Except String Json := do
  let N ← getNat j "N"; let F ← getNat j "F"; let nb ← getNat j "nb"; let id ← getNat j "id"
  pure <| Json.mkObj [("width", (Layout.width N F nb : Json)),
    ("writeIndus", jRange (Layout.writeIndus N id)), ("writeHouse", jRange (Layout.writeHouse N F nb id)),
    ("readIndus", jRange (Layout.readIndus N id)), ("readHouse", jRange (Layout.readHouse N F nb id))]

def opAdmit (j : Json) : Except String Json := do
  let T ← getNat j "T"; let occ ← getNat j "occ"; let dur ← getNat j "dur"
  let ok := decide (0 < occ ∧ occ ≤ T ∧ 0 < occ + dur ∧ occ + dur ≤ T)
  pure <| Json.mkObj [("admitted", ok)]

/-! ### record layer -/

def parseEnd (s : String) : Except String Records.StepEnd :=
  match s with
  | "ok" => .ok .ok
  | "crash" => .ok .crash
  | "exc:events" => .ok (.excIn .events)
  | "exc:overprod" => .ok (.excIn .overprod)
  | "exc:production" => .ok (.excIn .production)
  | "exc:distribution" => .ok (.excIn .distribution)
  | _ => .error s!"unknown step end {s}"

def opRecords (j : Json) : Except String Json := do
  let savedJ ← fld j "saved"
  let savedArr ← match savedJ.getArr? with
    | .ok a => pure a
    | .error _ => throw "saved: array expected"
  let saved ← savedArr.toList.mapM fun x => match x.getStr? with
    | .ok s => pure s
    | .error _ => throw "saved: string expected"
  for nm in saved do
    if !(Records.allRecs.any fun r => r.name == nm) then throw s!"unknown record {nm}"
  let reg ← getBool j "registerStocks"
  let T ← getNat j "T"
  let dt ← getNat j "dt"
  let endsJ ← fld j "ends"
  let endsArr ← match endsJ.getArr? with
    | .ok a => pure a
    | .error _ => throw "ends: array expected"
  let ends ← endsArr.toList.mapM fun x => match x.getStr? with
    | .ok s => parseEnd s
    | .error _ => throw "ends: string expected"
  let cfg : Records.Cfg := { saved := fun r => saved.contains r.name, registerStocks := reg }
  -- the value recorded at step t is t itself: enough to read off which rows were written
  let steps : List ((Records.Rec → Nat) × Records.StepEnd) := ends.zipIdx.map fun (e, t) => ((fun _ => t), e)
  let (log, done) := Records.runLog cfg dt steps 0 Records.emptyLog
  let written := Records.allRecs.map fun r =>
    (r.name, Json.arr (((List.range T).filter (fun t => (log r t).isSome)).map (fun (t : Nat) => Json.num (t : Nat))).toArray)
  pure <| Json.mkObj [("written", Json.mkObj written), ("completed", (done : Json))]

/-! ### dispatcher -/

def handle (ctx : Option Ctx) (line : String) : Option Ctx × Json :=
  match Json.parse line with
  | .error e => (ctx, Json.mkObj [("bad-op", Json.str s!"parse error: {e}")])
  | .ok j =>
    match getStr j "op" with
    | .error e => (ctx, Json.mkObj [("bad-op", Json.str e)])
    | .ok op =>
      let run (f : Ctx → Json → Except String Json) : Option Ctx × Json :=
        match ctx with
        | none => (ctx, Json.mkObj [("bad-op", "no params set")])
        | some c => match f c j with
          | .ok r => (ctx, r)
          | .error e => (ctx, Json.mkObj [("bad-op", Json.str e)])
      let pure' (f : Json → Except String Json) : Option Ctx × Json :=
        match f j with
        | .ok r => (ctx, r)
        | .error e => (ctx, Json.mkObj [("bad-op", Json.str e)])
      match op with
      | "params" => match parseParams j with
        | .ok c => (some c, Json.mkObj [("ok", true)])
        | .error e => (ctx, Json.mkObj [("bad-op", Json.str e)])
      | "overprod" => run opOverprod
      | "production" => run opProduction
      | "distribute" => run opDistribute
      | "orders" => run opOrders
      | "events_pre" => run opEventsPre
      | "events_post" => run opEventsPost
      | "mkparams" => pure' opMkParams
      | "trackerinit" => pure' opTrackerInit
      | "layout" => pure' opLayout
      | "admission" => pure' opAdmit
      | "impact" => pure' opImpact
      | "canon" => pure' opCanon
      | "records" => pure' opRecords
      | _ => (ctx, Json.mkObj [("bad-op", Json.str s!"unknown op {op}")])

partial def loop (h : IO.FS.Stream) (out : IO.FS.Stream) (ctx : Option Ctx) : IO Unit := do
  let line ← h.getLine
  if line.isEmpty then return ()
  if line.trimAscii.isEmpty then loop h out ctx else
  let (ctx', ans) := handle ctx line
  out.putStrLn ans.compress
  out.flush
  loop h out ctx'

def main : IO Unit := do
  loop (← IO.getStdin) (← IO.getStdout) none
