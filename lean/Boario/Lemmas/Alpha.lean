/-
  Helper lemmas for C14: the scarcity index and the overproduction update.
-/
import Boario.Lemmas.Sums

namespace Boario
variable {d : Dims}

theorem scarcity_le_one (dTot prod : Ind d → Rat) (f : Ind d) (hd : 0 ≤ dTot f) (hp : 0 ≤ prod f) :
    scarcity dTot prod f ≤ 1 := by
  unfold scarcity
  split_ifs with h0
  · have hpos : 0 < dTot f := lt_of_le_of_ne hd (Ne.symm h0)
    rw [div_le_one hpos]
    linarith
  · exact zero_le_one

theorem scarcity_pos_imp (dTot prod : Ind d → Rat) (f : Ind d) (hd : 0 ≤ dTot f)
    (hsc : 0 < scarcity dTot prod f) : prod f < dTot f := by
  unfold scarcity at hsc
  split_ifs at hsc with h0
  · have hpos : 0 < dTot f := lt_of_le_of_ne hd (Ne.symm h0)
    have := (div_pos_iff_of_pos_right hpos).1 hsc
    linarith
  · exact absurd hsc (lt_irrefl _)

/-- a strict increase (base 1) forces positive scarcity, and the `max 1` is not active -/
theorem alpha_increase_aux (p : Params d) (alpha dTot prod : Ind d → Rat)
    (ht0 : 0 ≤ p.aTau) (hb : p.aBase = 1) (f : Ind d)
    (ha : 1 ≤ alpha f ∧ alpha f ≤ p.aMax)
    (hinc : alpha f < overprod p alpha dTot prod f) :
    0 < scarcity dTot prod f ∧
    overprod p alpha dTot prod f
      = alpha f + (p.aMax - alpha f) * scarcity dTot prod f * p.aTau := by
  obtain ⟨ha1, _⟩ := ha
  unfold overprod at hinc ⊢
  have hlt : alpha f < alpha f + alphaChg p alpha dTot prod f := by
    rcases lt_max_iff.1 hinc with h1 | h1
    · linarith
    · exact h1
  rw [max_eq_right (by linarith)]
  unfold alphaChg at hlt ⊢
  by_cases h0 : 0 < scarcity dTot prod f
  · rw [if_pos h0, if_neg (not_le.2 h0), add_zero]
    exact ⟨h0, rfl⟩
  · rw [if_neg h0, if_pos (not_lt.1 h0), zero_add, hb] at hlt
    have : (1 - alpha f) * p.aTau ≤ 0 :=
      mul_nonpos_of_nonpos_of_nonneg (by linarith) ht0
    linarith

theorem scarcity_nonpos_of_met (dTot prod : Ind d → Rat) (f : Ind d) (hd : 0 ≤ dTot f)
    (hmet : dTot f ≤ prod f) : scarcity dTot prod f ≤ 0 := by
  unfold scarcity
  split_ifs with h0
  · have hpos : 0 < dTot f := lt_of_le_of_ne hd (Ne.symm h0)
    exact div_nonpos_of_nonpos_of_nonneg (by linarith) hpos.le
  · exact le_refl _

theorem scarcity_eq_zero_of_eq (dTot prod : Ind d → Rat) (f : Ind d) (hmet : dTot f = prod f) :
    scarcity dTot prod f = 0 := by
  unfold scarcity
  split_ifs with h0
  · rw [hmet, sub_self, zero_div]
  · rfl

theorem scarcity_of_ne_zero (dTot prod : Ind d → Rat) (f : Ind d) (hne : dTot f ≠ 0) :
    scarcity dTot prod f = (dTot f - prod f) / dTot f := by
  unfold scarcity; rw [if_pos hne]

theorem ne_zero_of_scarcity_pos (dTot prod : Ind d → Rat) (f : Ind d)
    (hsc : 0 < scarcity dTot prod f) : dTot f ≠ 0 := by
  intro h0
  unfold scarcity at hsc
  rw [if_neg (not_not.2 h0)] at hsc
  exact lt_irrefl _ hsc

theorem alphaChg_of_pos (p : Params d) (alpha dTot prod : Ind d → Rat) (f : Ind d)
    (hsc : 0 < scarcity dTot prod f) :
    alphaChg p alpha dTot prod f = (p.aMax - alpha f) * scarcity dTot prod f * p.aTau := by
  unfold alphaChg
  rw [if_pos hsc, if_neg (not_le.2 hsc), add_zero]

theorem alphaChg_of_nonpos (p : Params d) (alpha dTot prod : Ind d → Rat) (f : Ind d)
    (hsc : scarcity dTot prod f ≤ 0) :
    alphaChg p alpha dTot prod f = (p.aBase - alpha f) * p.aTau := by
  unfold alphaChg
  rw [if_neg (not_lt.2 hsc), if_pos hsc, zero_add]

end Boario
