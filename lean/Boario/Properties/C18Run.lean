/-
  C18 (run level) — "the two order variants produce the same orders … in particular for any event-free
  run": the event-free runs of the `alt` and `noalt` variants of the same model coincide at every step.
-/
import Boario.Properties.C18
import Boario.Properties.C01
import Boario.Lemmas.AltRun

namespace Boario
variable {d : Dims}

/-- everything the records expose of the economy -/
def SameEconomy (p : Params d) (a b : Econ d) : Prop :=
  (∀ i j, a.orders i j = b.orders i j) ∧ (∀ i x, a.fd i x = b.fd i x) ∧ (∀ f, a.prod f = b.prod f) ∧
  (∀ f, a.alpha f = b.alpha f) ∧ (∀ f, a.dTot f = b.dTot f) ∧ (∀ f, a.fdUnmet f = b.fdUnmet f) ∧
  (∀ f, a.deltaTot f = b.deltaTot f) ∧ a.reb = b.reb ∧
  (∀ sec f, (p.invDur sec).isSome = true → a.stock sec f = b.stock sec f)

theorem alt_noalt_event_free_run (tb : Table d) (c : Config d) (ht : ValidTable tb) (hc : ValidConfig c)
    (hK : ∀ f, 0 ≤ capitalOf tb c f) (dt n : Nat) :
    ∃ sa sn, runN n (initSim (mkParams tb { c with alt := true }) dt []) = some sa ∧
             runN n (initSim (mkParams tb { c with alt := false }) dt []) = some sn ∧
             sa.t = sn.t ∧ SameEconomy (mkParams tb c) sa.econ sn.econ := by
  obtain ⟨sa, hra, hea⟩ := equilibrium_forever tb { c with alt := true } ht
    (altrun_validConfig c true hc) hK dt n
  obtain ⟨sn, hrn, hen⟩ := equilibrium_forever tb { c with alt := false } ht
    (altrun_validConfig c false hc) hK dt n
  refine ⟨sa, sn, hra, hrn, ?_, altrun_same_economy tb c sa sn hea hen⟩
  rw [(altrun_run_time n _ sa hra).1, (altrun_run_time n _ sn hrn).1]
  rfl

/-- and the loop ends the same way (never crashes, never raises) -/
theorem alt_noalt_event_free_loop (tb : Table d) (c : Config d) (ht : ValidTable tb) (hc : ValidConfig c)
    (hK : ∀ f, 0 ≤ capitalOf tb c f) (dt n : Nat) :
    ∃ sa sn, loopN n (initSim (mkParams tb { c with alt := true }) dt []) = .done sa false ∧
             loopN n (initSim (mkParams tb { c with alt := false }) dt []) = .done sn false ∧
             SameEconomy (mkParams tb c) sa.econ sn.econ := by
  obtain ⟨sa, hra, hea⟩ := equilibrium_loop tb { c with alt := true } ht
    (altrun_validConfig c true hc) hK dt n
  obtain ⟨sn, hrn, hen⟩ := equilibrium_loop tb { c with alt := false } ht
    (altrun_validConfig c false hc) hK dt n
  exact ⟨sa, sn, hra, hrn, altrun_same_economy tb c sa sn hea hen⟩

end Boario
