/-
  Helper lemmas for C06: signs of needs and supplier shares, shares summing to one.
-/
import Boario.Lemmas.Sums

namespace Boario
variable {d : Dims}

theorem pos_nonneg (x : Rat) : 0 ≤ pos x := by
  unfold pos
  split_ifs with h
  · exact le_refl _
  · exact not_lt.1 h

theorem safeDiv_nonneg {a b fill : Rat} (ha : 0 ≤ a) (hb : 0 ≤ b) (hf : 0 ≤ fill) :
    0 ≤ safeDiv a b fill := by
  unfold safeDiv
  split_ifs
  · exact hf
  · exact div_nonneg ha hb

theorem safeDiv_zero_left (b : Rat) : safeDiv 0 b 0 = 0 := by
  unfold safeDiv
  split_ifs <;> simp

theorem sumFin_nonneg (n : Nat) (f : Fin n → Rat) (h : ∀ i, 0 ≤ f i) : 0 ≤ sumFin n f := by
  rw [sumFin_eq_sum]
  exact Finset.sum_nonneg fun i _ => h i

/-- `Σ_r c · safeDiv (f r) (Σ f) 0 = c` when the denominator is not zero -/
theorem sumFin_mul_safeDiv (n : Nat) (f : Fin n → Rat) (c : Rat) (h : sumFin n f ≠ 0) :
    (sumFin n fun r => c * safeDiv (f r) (sumFin n f) 0) = c := by
  unfold safeDiv
  simp only [if_neg h]
  rw [sumFin_eq_sum] at h ⊢
  rw [sumFin_eq_sum, ← Finset.mul_sum, ← Finset.sum_div, div_self h, mul_one]

theorem sumFin_safeDiv (n : Nat) (f : Fin n → Rat) (h : sumFin n f ≠ 0) :
    (sumFin n fun r => safeDiv (f r) (sumFin n f) 0) = 1 := by
  have := sumFin_mul_safeDiv n f 1 h
  simpa using this

section
variable (p : Params d)

theorem gapOpen_nonneg (stock : Fin d.n → Ind d → Rat) (x : Ind d → Rat)
    (hr : ∀ s, 0 ≤ p.rest s) (s : Fin d.n) (f : Ind d) : 0 ≤ gapOpen p stock x s f := by
  unfold gapOpen
  split
  · exact mul_nonneg (hr s) (pos_nonneg _)
  · exact le_refl _

theorem rho_nonneg (deltaTot alpha : Ind d → Rat) (i : Ind d)
    (hx : 0 ≤ p.x0 i) (hc : 0 ≤ capacity p deltaTot alpha i) : 0 ≤ rho p deltaTot alpha i := by
  unfold rho
  exact safeDiv_nonneg hc hx zero_le_one

theorem zProd_nonneg (deltaTot alpha : Ind d → Rat) (i j : Ind d) (hz : 0 ≤ p.Z0 i j)
    (hx : 0 ≤ p.x0 i) (hc : 0 ≤ capacity p deltaTot alpha i) : 0 ≤ zProd p deltaTot alpha i j := by
  unfold zProd
  exact mul_nonneg hz (rho_nonneg p deltaTot alpha i hx hc)

theorem altShare_nonneg (deltaTot alpha : Ind d → Rat) (i j : Ind d) (hz : ∀ i j, 0 ≤ p.Z0 i j)
    (hx : ∀ f, 0 ≤ p.x0 f) (hc : ∀ f, 0 ≤ capacity p deltaTot alpha f) :
    0 ≤ altShare p deltaTot alpha i j := by
  unfold altShare
  apply safeDiv_nonneg (zProd_nonneg p deltaTot alpha i j (hz _ _) (hx _) (hc _)) _ (le_refl _)
  unfold zCProd
  exact sumFin_nonneg _ _ fun r => zProd_nonneg p deltaTot alpha _ j (hz _ _) (hx _) (hc _)

theorem altShare_sum (deltaTot alpha : Ind d → Rat) (s : Fin d.n) (j : Ind d)
    (h : zCProd p deltaTot alpha s j ≠ 0) :
    (sumFin d.m fun r => altShare p deltaTot alpha (r, s) j) = 1 :=
  sumFin_safeDiv d.m (fun r => zProd p deltaTot alpha (r, s) j) h

end
end Boario
