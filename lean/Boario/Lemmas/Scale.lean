/-
  Helper lemmas for C13: how the numeric primitives of the model behave when every monetary
  quantity is multiplied by a positive constant `c`.
-/
import Boario.Lemmas.Sums
import Boario.Lemmas.Deliver
import Boario.Init

namespace Boario
variable {d : Dims}

theorem safeDiv_scale (a b fill c : Rat) (hc : c ≠ 0) :
    safeDiv (a * c) (b * c) fill = safeDiv a b fill := by
  unfold safeDiv
  by_cases hb : b = 0
  · simp [hb]
  · rw [if_neg hb, if_neg (mul_ne_zero hb hc), mul_div_mul_right _ _ hc]

theorem pos_scale (y c : Rat) (hc : 0 < c) : pos (y * c) = pos y * c := by
  unfold pos
  by_cases hy : y < 0
  · rw [if_pos hy, if_pos (mul_neg_of_neg_of_pos hy hc), zero_mul]
  · rw [if_neg hy, if_neg (not_lt.2 (mul_nonneg (not_lt.1 hy) hc.le))]

theorem min_scale (a b c : Rat) (hc : 0 ≤ c) : min (a * c) (b * c) = min a b * c :=
  (min_mul_of_nonneg a b hc).symm

theorem minFin_scale (n : Nat) (init c : Rat) (f : Fin n → Rat) (hc : 0 ≤ c) :
    minFin n (init * c) (fun i => f i * c) = minFin n init f * c := by
  unfold minFin
  induction n with
  | zero => simp [Fin.foldl_zero]
  | succ n ih =>
    rw [Fin.foldl_succ_last, Fin.foldl_succ_last, ih (fun i => f i.castSucc), min_scale _ _ _ hc]

theorem deliverCell_scale (tot prod cell c : Rat) (hc : c ≠ 0) :
    deliverCell (tot * c) (prod * c) (cell * c) = deliverCell tot prod cell * c := by
  rw [deliverCell_eq, deliverCell_eq, mul_div_mul_right _ _ hc]; ring

/-- the conversion ratio absorbs a re-expression of the event's unit -/
theorem convFactor_reexpress (emf mf c : Rat) (hc : c ≠ 0) (hmf : mf ≠ 0) :
    c * convFactor (emf / c) mf = convFactor emf mf := by
  have h : ∀ a : Rat, convFactor a mf = a / mf := by
    intro a
    unfold convFactor
    split_ifs with h
    · rw [h, div_self hmf]
    · rfl
  rw [h, h]; field_simp

end Boario
