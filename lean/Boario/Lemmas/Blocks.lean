/-
  Helper lemmas for C11 / C20: the reconstruction-demand blocks (`presented`, `blockOfId`,
  `rebuildDemand`) are non-negative, one per rebuilding tracker, and their total does not depend on
  the order of the trackers.
-/
import Boario.Lemmas.Receive
import Mathlib.Algebra.BigOperators.Group.List.Basic
import Mathlib.Algebra.BigOperators.Intervals

namespace Boario
variable {d : Dims}

/-! ### well-formed trackers through the life-cycle phase -/

theorem trackerOK_lifecycle (t dt : Nat) (trs : List (Tracker d)) (nb : Nat)
    (h : ∀ tr ∈ trs, TrackerOK tr) : ∀ tr ∈ (lifecycle t dt trs nb).1, TrackerOK tr := by
  unfold lifecycle
  apply advance_forall t TrackerOK
  · intro tr s r ok
    exact ⟨ok.remI_nonneg, ok.remH_nonneg, ok.tau_pos⟩
  · intro tr' htr'
    obtain ⟨tr, htr, rfl⟩ := List.mem_map.1 htr'
    have ok := h tr htr
    unfold wake
    split_ifs
    · exact ⟨ok.remI_nonneg, ok.remH_nonneg, ok.tau_pos⟩
    · exact ok

/-! ### blocks of the reconstruction demand -/

theorem presented_nonneg (dt : Nat) (tr : Tracker d) (ok : TrackerOK tr) : BlockNonneg (presented dt tr) := by
  have hq : (0 : Rat) ≤ (dt : Rat) / (tr.tau : Rat) :=
    div_nonneg (Nat.cast_nonneg _) (Nat.cast_nonneg _)
  constructor
  · intro i j
    show 0 ≤ (match tr.remI with | some r => r i j * ((dt : Rat) / (tr.tau : Rat)) | none => 0)
    split
    · next r hr => exact mul_nonneg (ok.remI_nonneg r hr i j) hq
    · exact le_refl _
  · intro i c
    show 0 ≤ (match tr.remH with | some r => r i c * ((dt : Rat) / (tr.tau : Rat)) | none => 0)
    split
    · next r hr => exact mul_nonneg (ok.remH_nonneg r hr i c) hq
    · exact le_refl _

theorem zeroBlock_nonneg : BlockNonneg (zeroBlock : RebBlock d) :=
  ⟨fun _ _ => le_refl _, fun _ _ => le_refl _⟩

theorem blockOfId_nonneg (dt : Nat) (trs : List (Tracker d)) (h : ∀ tr ∈ trs, TrackerOK tr) (id : Nat) :
    BlockNonneg (blockOfId dt trs id) := by
  unfold blockOfId
  split
  · next tr htr => exact presented_nonneg dt tr (h tr (List.mem_of_find?_eq_some htr))
  · exact zeroBlock_nonneg

theorem rebuildDemand_nonneg (dt : Nat) (trs : List (Tracker d)) (nb : Nat) (h : ∀ tr ∈ trs, TrackerOK tr) :
    ∀ b ∈ rebuildDemand dt trs nb, BlockNonneg b := by
  intro b hb
  unfold rebuildDemand at hb
  obtain ⟨id, _, rfl⟩ := List.mem_map.1 hb
  exact blockOfId_nonneg dt trs h id

/-- with distinct ids, the block of id `id` is the one of the tracker that holds `id` -/
theorem find_rid (L : List (Tracker d)) (hnd : (L.filterMap (·.rid)).Nodup)
    (tr : Tracker d) (htr : tr ∈ L) (hs : tr.status = .rebuilding) (id : Nat) (hid : tr.rid = some id) :
    L.find? (fun tr => tr.status = .rebuilding && tr.rid = some id) = some tr := by
  cases hf : L.find? (fun tr => tr.status = .rebuilding && tr.rid = some id) with
  | none =>
    have := List.find?_eq_none.1 hf tr htr
    simp [hs, hid] at this
  | some tr' =>
    have hm := List.mem_of_find?_eq_some hf
    have hp := List.find?_some hf
    simp only [Bool.and_eq_true, decide_eq_true_eq] at hp
    rw [rid_unique L hnd tr' hm tr htr id hp.2 hid]

theorem blockOfId_of_mem (dt : Nat) (L : List (Tracker d)) (hnd : (L.filterMap (·.rid)).Nodup)
    (tr : Tracker d) (htr : tr ∈ L) (hs : tr.status = .rebuilding) (id : Nat) (hid : tr.rid = some id) :
    blockOfId dt L id = presented dt tr := by
  unfold blockOfId
  rw [find_rid L hnd tr htr hs id hid]

theorem blockOfId_of_none (dt : Nat) (L : List (Tracker d)) (id : Nat)
    (h : ∀ tr ∈ L, tr.status = .rebuilding → tr.rid ≠ some id) : blockOfId dt L id = zeroBlock := by
  unfold blockOfId
  have : L.find? (fun tr => tr.status = .rebuilding && tr.rid = some id) = none := by
    apply List.find?_eq_none.2
    intro tr htr
    simp only [Bool.and_eq_true, decide_eq_true_eq, not_and]
    exact h tr htr
  rw [this]

theorem rebuildDemand_getD (dt : Nat) (trs : List (Tracker d)) (nb id : Nat) (h : id < nb) :
    (rebuildDemand dt trs nb).getD id zeroBlock = blockOfId dt trs id := by
  unfold rebuildDemand
  simp [List.getD_eq_getElem?_getD, h]


theorem list_range_sum (n : Nat) (f : Nat → Rat) :
    ((List.range n).map f).sum = ∑ id ∈ Finset.range n, f id := by
  induction n with
  | zero => simp
  | succ n ih => rw [List.range_succ, List.map_append, List.sum_append, ih, Finset.sum_range_succ]; simp

theorem blockTot_zeroBlock (i : Ind d) : blockTot (zeroBlock : RebBlock d) i = 0 := by
  unfold blockTot zeroBlock
  rw [sumInd_eq_sum_prod, sumFd_eq_sum_prod]
  simp

/-- what one tracker adds to the reconstruction demand addressed to supplier `i` -/
def rebContribution (dt : Nat) (i : Ind d) (tr : Tracker d) : Rat :=
  if tr.status = .rebuilding then blockTot (presented dt tr) i else 0

theorem rebTot_rebuildDemand_eq (dt : Nat) (L : List (Tracker d)) (nb : Nat) (i : Ind d) :
    rebTot (rebuildDemand dt L nb) i = ∑ id ∈ Finset.range nb, blockTot (blockOfId dt L id) i := by
  unfold rebTot rebuildDemand
  rw [sumList_eq_sum, List.map_map, list_range_sum]
  rfl

/-- the blocks are one per rebuilding tracker: their total is the sum over the rebuilding trackers -/
theorem rebTot_rebuildDemand (dt : Nat) (nb : Nat) (i : Ind d) : ∀ (L : List (Tracker d)),
    (L.filterMap (·.rid)).Nodup →
    (∀ tr ∈ L, tr.status = .rebuilding → ∃ id, tr.rid = some id ∧ id < nb) →
    rebTot (rebuildDemand dt L nb) i = (L.map (rebContribution dt i)).sum := by
  intro L
  induction L with
  | nil =>
    intro _ _
    rw [rebTot_rebuildDemand_eq]
    simp [blockOfId, blockTot_zeroBlock]
  | cons x xs ih =>
    intro hnd hid
    have hid' : ∀ tr ∈ xs, tr.status = .rebuilding → ∃ id, tr.rid = some id ∧ id < nb :=
      fun tr h => hid tr (List.mem_cons_of_mem _ h)
    rw [rebTot_rebuildDemand_eq, List.map_cons, List.sum_cons]
    by_cases hs : x.status = .rebuilding
    · obtain ⟨k, hk, hlt⟩ := hid x List.mem_cons_self hs
      rw [filterMap_rid_cons_some x xs k hk] at hnd
      obtain ⟨hknot, hnd'⟩ := List.nodup_cons.1 hnd
      rw [← ih hnd' hid', rebTot_rebuildDemand_eq]
      have hzero : blockTot (blockOfId dt xs k) i = 0 := by
        rw [blockOfId_of_none dt xs k, blockTot_zeroBlock]
        intro tr htr _ e
        exact hknot (List.mem_filterMap.2 ⟨tr, htr, e⟩)
      have hpt : ∀ id, blockTot (blockOfId dt (x :: xs) id) i
          = blockTot (blockOfId dt xs id) i + (if id = k then rebContribution dt i x else 0) := by
        intro id
        unfold blockOfId
        rw [List.find?_cons]
        by_cases e : id = k
        · subst e
          simp only [hs, hk, decide_true, Bool.and_self, if_true]
          unfold blockOfId at hzero
          rw [hzero, zero_add, rebContribution, if_pos hs]
        · have : (decide (x.status = .rebuilding) && decide (x.rid = some id)) = false := by
            rw [hk]
            simp only [Bool.and_eq_false_imp, decide_eq_true_eq, decide_eq_false_iff_not, Option.some.injEq]
            intro _ e'; exact e e'.symm
          rw [this]
          simp only [if_neg e, add_zero]
      simp only [hpt]
      rw [Finset.sum_add_distrib, Finset.sum_ite_eq' (Finset.range nb) k, if_pos (Finset.mem_range.2 hlt)]
      ring
    · have hnd' : (xs.filterMap (·.rid)).Nodup := by
        cases hx : x.rid with
        | none => rwa [filterMap_rid_cons_none x xs hx] at hnd
        | some k =>
          rw [filterMap_rid_cons_some x xs k hx] at hnd
          exact (List.nodup_cons.1 hnd).2
      rw [← ih hnd' hid', rebTot_rebuildDemand_eq, rebContribution, if_neg hs, zero_add]
      apply Finset.sum_congr rfl
      intro id _
      unfold blockOfId
      rw [List.find?_cons]
      simp [hs]

end Boario
