/-
  Helper lemmas for C15: insertion sort by key (`Labels.insert`, `Labels.canon`).
-/
import Boario.Labels
import Mathlib.Data.List.Sort
import Mathlib.Data.List.Perm.Basic
import Mathlib.Data.List.Nodup

namespace Boario.Labels

variable {α : Type}

theorem insert_perm (p : Nat × α) (l : Labelled α) : (insert p l).Perm (p :: l) := by
  induction l with
  | nil => exact List.Perm.refl _
  | cons q qs ih =>
    simp only [insert]
    split
    · exact List.Perm.refl _
    · exact (List.Perm.cons q ih).trans (List.Perm.swap p q qs)

theorem insert_sorted (p : Nat × α) (l : Labelled α) (h : l.Pairwise (fun a b => a.1 ≤ b.1)) :
    (insert p l).Pairwise (fun a b => a.1 ≤ b.1) := by
  induction l with
  | nil => simp [insert]
  | cons q qs ih =>
    simp only [insert]
    rw [List.pairwise_cons] at h
    split
    · rename_i hle
      refine List.pairwise_cons.2 ⟨?_, List.pairwise_cons.2 h⟩
      intro b hb
      rcases List.mem_cons.1 hb with rfl | hb
      · exact hle
      · exact le_trans hle (h.1 b hb)
    · rename_i hnle
      refine List.pairwise_cons.2 ⟨?_, ih h.2⟩
      intro b hb
      rcases List.mem_cons.1 ((insert_perm p qs).mem_iff.1 hb) with rfl | hb
      · exact Nat.le_of_lt (Nat.lt_of_not_le hnle)
      · exact h.1 b hb

theorem canon_cons (p : Nat × α) (l : Labelled α) : canon (p :: l) = insert p (canon l) := rfl

/-- two lists sorted by key with distinct keys that are permutations of each other are equal -/
theorem eq_of_perm_sorted_nodupKeys (l₁ l₂ : Labelled α) (hp : l₁.Perm l₂)
    (hk : (l₁.map (·.1)).Nodup)
    (h₁ : l₁.Pairwise (fun a b => a.1 ≤ b.1)) (h₂ : l₂.Pairwise (fun a b => a.1 ≤ b.1)) :
    l₁ = l₂ := by
  have hinj : ∀ a ∈ l₁, ∀ b ∈ l₁, a.1 = b.1 → a = b :=
    List.inj_on_of_nodup_map hk
  refine List.Perm.eq_of_pairwise (le := fun a b => a.1 ≤ b.1) ?_ h₁ h₂ hp
  intro a b ha hb hab hba
  exact hinj a ha b (hp.mem_iff.2 hb) (Nat.le_antisymm hab hba)

theorem find?_key_of_mem (l : Labelled α) (hk : (l.map (·.1)).Nodup) (k : Nat) (v : α)
    (hm : (k, v) ∈ l) : l.find? (fun p => p.1 = k) = some (k, v) := by
  induction l with
  | nil => cases hm
  | cons q qs ih =>
    rw [List.map_cons, List.nodup_cons] at hk
    rcases List.mem_cons.1 hm with rfl | hm
    · simp
    · have hne : q.1 ≠ k := by
        intro h
        exact hk.1 (h ▸ List.mem_map_of_mem (f := (·.1)) hm)
      rw [List.find?_cons_of_neg (by simpa using hne)]
      exact ih hk.2 hm

theorem find?_key_perm (l₁ l₂ : Labelled α) (hp : l₁.Perm l₂) (hk : (l₁.map (·.1)).Nodup) (k : Nat) :
    l₁.find? (fun p => p.1 = k) = l₂.find? (fun p => p.1 = k) := by
  have hk₂ : (l₂.map (·.1)).Nodup := ((hp.map (·.1)).nodup_iff).1 hk
  cases h : l₁.find? (fun p => p.1 = k) with
  | none =>
    symm
    rw [List.find?_eq_none] at h ⊢
    intro x hx
    exact h x (hp.mem_iff.2 hx)
  | some p =>
    have hm := List.mem_of_find?_eq_some h
    have hpk : p.1 = k := by simpa using List.find?_some h
    obtain ⟨a, b⟩ := p
    simp only at hpk
    subst hpk
    exact (find?_key_of_mem l₂ hk₂ a b (hp.mem_iff.1 hm)).symm

/-- re-labelling the row contents does not change the row keys -/
theorem map_keys_mapRows {β : Type} (g : Labelled α → β) (t : Labelled (Labelled α)) :
    (t.map fun r => (r.1, g r.2)).map (·.1) = t.map (·.1) := by
  rw [List.map_map]; rfl

/-- rows that correspond position by position (same key, contents identified by `g`) give the same
    list of canonicalised rows -/
theorem mapRows_eq_of_forall₂ {β : Type} (g : Labelled α → β) (R : Labelled α → Labelled α → Prop)
    (hg : ∀ a b, R a b → g a = g b) (t₁ t₂ : Labelled (Labelled α))
    (h : List.Forall₂ (fun a b => a.1 = b.1 ∧ R a.2 b.2) t₁ t₂) :
    (t₁.map fun r => (r.1, g r.2)) = t₂.map fun r => (r.1, g r.2) := by
  induction h with
  | nil => rfl
  | cons hab _ ih =>
    rw [List.map_cons, List.map_cons, ih, hab.1, hg _ _ hab.2]

end Boario.Labels
