/- helper lemmas for `Boario.Properties.Coherence` -/
import Boario.Properties.C03
import Boario.Lemmas.Step
import Boario.Init

namespace Boario
variable {d : Dims}

/-- the block counter never decreases in `advance` -/
theorem coh_advance_ge (t : Nat) (trs : List (Tracker d)) (nb : Nat) :
    nb ≤ (advance t trs nb).2 := by
  induction trs generalizing nb with
  | nil => exact Nat.le_refl _
  | cons tr rest ih =>
    unfold advance
    split_ifs with hc
    · cases hk : tr.kind
      · exact Nat.le_trans (Nat.le_succ nb) (ih (nb + 1))
      · exact ih nb
      · exact ih nb
    · exact ih nb

/-- `advance` takes a new block id only when it turns a tracker into `rebuilding` -/
theorem coh_advance_any (t : Nat) (trs : List (Tracker d)) (nb : Nat)
    (h : (advance t trs nb).2 ≠ nb) : anyRebuilding (advance t trs nb).1 = true := by
  induction trs generalizing nb with
  | nil => exact absurd rfl h
  | cons tr rest ih =>
    unfold advance at h ⊢
    split_ifs at h ⊢ with hc
    · cases hk : tr.kind
      · simp [anyRebuilding]
      · rw [hk] at h
        have := ih nb h
        simp only [anyRebuilding, List.any_cons] at this ⊢
        rw [this, Bool.or_true]
      · rw [hk] at h
        have := ih nb h
        simp only [anyRebuilding, List.any_cons] at this ⊢
        rw [this, Bool.or_true]
    · have := ih nb h
      simp only [anyRebuilding, List.any_cons] at this ⊢
      rw [this, Bool.or_true]

theorem coh_lifecycle_any (t dt : Nat) (trs : List (Tracker d)) (nb : Nat)
    (h : (lifecycle t dt trs nb).2 ≠ nb) : anyRebuilding (lifecycle t dt trs nb).1 = true :=
  coh_advance_any t _ nb h

theorem coh_ordersFinish (p : Params d) (e e4 : Econ d) (gap : Fin d.n → Ind d → Rat)
    (h : ordersFinish p e gap = .ok e4) : ∀ i, e4.dTot i = rowTot e4.orders e4.fd e4.reb i := by
  unfold ordersFinish at h
  simp only at h
  split_ifs at h
  injection h with h
  subst h
  intro i
  rfl

theorem coh_orders (p : Params d) (e e4 : Econ d) (h : orders p e = .ok e4) :
    ∀ i, e4.dTot i = rowTot e4.orders e4.fd e4.reb i := by
  unfold orders at h
  split_ifs at h
  · exact coh_ordersFinish p e e4 _ h
  · exact coh_ordersFinish p e e4 _ h

theorem coh_eventsPre (s s1 : Sim d) (h : eventsPre s = .ok s1)
    (hc : ∀ i, s.econ.dTot i = rowTot s.econ.orders s.econ.fd s.econ.reb i) :
    ∀ i, s1.econ.dTot i = rowTot s1.econ.orders s1.econ.fd s1.econ.reb i := by
  unfold eventsPre at h
  simp only at h
  split_ifs at h with h1 h2 h3
  · injection h with h
    subst h
    intro i
    rfl
  · exact absurd (coh_lifecycle_any _ _ _ _ h3) (by simpa using h2)
  · injection h with h
    subst h
    exact hc
end Boario
