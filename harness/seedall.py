"""Run harness/seedtest.py over all seeded changes with several workers (each worker has its own scratch worktree and
scratch copy of /verif), then merge the results into seeded/RESULTS.json.

    python -m harness.seedall [--jobs 8]
"""
import json, subprocess, sys, os
from pathlib import Path

VERIF = Path(__file__).resolve().parent.parent


def main(jobs, only=None):
    names = sorted(d.name for d in (VERIF / "seeded").iterdir() if d.is_dir())
    if only:
        names = [n for n in names if any(n.endswith(suf) for suf in only)]
    chunks = [names[i::jobs] for i in range(jobs)]
    procs = []
    for i, ch in enumerate(chunks):
        if not ch:
            continue
        Path(f"/tmp/seedall_{i}.json").unlink(missing_ok=True)          # no stale entries from an earlier run
        out = open(f"/tmp/seedall_{i}.log", "w")
        env = dict(os.environ, SEEDTEST_RESULTS=f"/tmp/seedall_{i}.json")
        procs.append((subprocess.Popen(["/venv/bin/python", "-m", "harness.seedtest", *ch, "--save"], cwd=str(VERIF), stdout=out,
                                       stderr=subprocess.STDOUT, env=env), i))
    for p, i in procs:
        p.wait()
    merged = {}
    for _, i in procs:
        f = Path(f"/tmp/seedall_{i}.json")
        if f.exists():
            merged.update(json.loads(f.read_text()))
    path = VERIF / "seeded" / "RESULTS.json"
    if only and path.exists():
        old = json.loads(path.read_text())
        old.update(merged)
        merged = old
    path.write_text(json.dumps(merged, indent=1, sort_keys=True))
    missed = sorted(k for k, v in merged.items() if v.get("exit") != 1)
    nofail = sorted(k for k, v in merged.items() if "no-failing-input-found" in v.get("line", ""))
    print(f"{len(merged)} results; not detected: {missed}; detected without a failing input: {nofail}")


if __name__ == "__main__":
    j = 8
    if "--jobs" in sys.argv:
        j = int(sys.argv[sys.argv.index("--jobs") + 1])
    only = None
    if "--suffix" in sys.argv:
        only = sys.argv[sys.argv.index("--suffix") + 1].split(",")
    main(j, only)
