/-
  C05 — Inventories obey stock-flow accounting and never go negative.
-/
import Boario.Lemmas.Sums
import Boario.Sim
import Boario.Lemmas.Deliver
import Boario.Lemmas.Step

namespace Boario
variable {d : Dims}

/-- tracked (finite-duration) inventories are non-negative -/
def StockNonneg (p : Params d) (stock : Fin d.n → Ind d → Rat) : Prop :=
  ∀ s f, (p.invDur s).isSome = true → 0 ≤ stock s f

section
variable (p : Params d) (e : Econ d)

/-- stock after = stock before − use + deliveries received, unless resupply and use coincide to
    within the closeness tolerance, in which case the update is skipped -/
theorem stock_update (e' : Econ d) (h : distribute p e = .ok e') :
    (¬ addUseClose p e.prod (deliveries e).orders ∧
        ∀ s f, e'.stock s f = e.stock s f - e.prod f * p.a s f
                               + sumFin d.m (fun r => (deliveries e).orders (r, s) f)) ∨
    (addUseClose p e.prod (deliveries e).orders ∧ e'.stock = e.stock) := by
  rcases distribute_ok p e e' h with ⟨hc, rfl⟩ | ⟨hc, _, rfl⟩
  · exact Or.inr ⟨hc, rfl⟩
  · exact Or.inl ⟨hc, fun s f => rfl⟩

/-- a step that would make a tracked inventory negative does not continue: it is flagged as crashed -/
theorem stock_negative_crashes (hne : ¬ addUseClose p e.prod (deliveries e).orders)
    (hneg : stockNegative p (stockUpdated p e (deliveries e).orders)) :
    ∃ e', distribute p e = .crashed e' := by
  refine ⟨{ e with stock := stockUpdated p e (deliveries e).orders }, ?_⟩
  unfold distribute
  rw [if_neg hne]
  unfold distributeUpdate
  simp only
  rw [if_pos hneg]

/-- conversely an `ok` distribution leaves every tracked inventory non-negative -/
theorem stock_nonneg_distribute (e' : Econ d) (h : distribute p e = .ok e')
    (h0 : StockNonneg p e.stock) : StockNonneg p e'.stock := by
  exact distribute_ok_stock_nonneg p e e' h h0

/-- inputs with infinite inventories never limit production … -/
theorem infinite_never_binds (x : Ind d → Rat) (s : Fin d.n) (f : Ind d) (hinf : p.invDur s = none) :
    stockConstraint p e.stock x s f = false ∧ ratio p e.stock x s f = 1 ∧ gapOpen p e.stock x s f = 0 := by
  have hc : cons p x s f = 0 := by simp [cons, durOrZero, hinf]
  refine ⟨?_, ?_, ?_⟩
  · simp [stockConstraint, hinf]
  · simp [ratio, hc]
  · simp [gapOpen, hinf]

/-- … and production does not depend on whatever value their (untracked) stock cell holds -/
theorem production_ignores_infinite (x : Ind d → Rat) (st st' : Fin d.n → Ind d → Rat)
    (hag : ∀ s f, (p.invDur s).isSome = true → st s f = st' s f) (f : Ind d) :
    production p st x f = production p st' x f := by
  have hsc : ∀ s g, stockConstraint p st x s g = stockConstraint p st' x s g := by
    intro s g
    unfold stockConstraint
    cases hs : (p.invDur s).isSome
    · simp
    · rw [hag s g hs]
  have hr : ∀ s g, ratio p st x s g = ratio p st' x s g := by
    intro s g
    cases hs : (p.invDur s).isSome
    · have hinf : p.invDur s = none := by simpa using hs
      have hc : cons p x s g = 0 := by simp [cons, durOrZero, hinf]
      simp [ratio, hc]
    · unfold ratio
      rw [hag s g hs]
  have hany : anyConstraint p st x ↔ anyConstraint p st' x := by
    unfold anyConstraint
    simp only [hsc]
  unfold production prodShortage
  simp only [hr, hany]

end

/-- the whole step preserves non-negativity of tracked inventories -/
theorem stock_nonneg_step (s s' : Sim d) (h : nextStep s = .ok s')
    (h0 : StockNonneg s.p s.econ.stock) : StockNonneg s'.p s'.econ.stock := by
  obtain ⟨s1, e2, e3, e4, h1, h2, h3, h4, hp, he⟩ := nextStep_ok s s' h
  obtain ⟨hp1, hs1⟩ := eventsPre_ok s s1 h1
  have hs2 := productionPhase_ok _ _ _ h2
  have hs4 := orders_ok _ _ _ h4
  have h2' : StockNonneg s1.p e2.stock := by
    have : (if 1 < s1.t then overprodPhase s1.p s1.econ else s1.econ).stock = s.econ.stock := by
      split_ifs
      · exact hs1
      · exact hs1
    rw [hs2, this, hp1]
    exact h0
  rw [hp, he, hs4]
  exact stock_nonneg_distribute s1.p e2 e3 h3 h2'

/-- a crashing step stops the loop with the crashed flag set -/
theorem loop_stops_on_crash (k : Nat) (s s' : Sim d) (h : nextStep s = .crashed s') :
    loopN (k + 1) s = .done s' true := by
  simp only [loopN, h]

/-- every state reached by the loop through `ok` steps has non-negative tracked inventories -/
theorem stock_nonneg_reach (k : Nat) (s s' : Sim d) (c : Bool) (h : loopN k s = .done s' c)
    (hc : c = false) (h0 : StockNonneg s.p s.econ.stock) : StockNonneg s'.p s'.econ.stock := by
  induction k generalizing s with
  | zero =>
    simp only [loopN] at h
    injection h with h1 _
    subst h1
    exact h0
  | succ k ih =>
    simp only [loopN] at h
    split at h
    · rename_i s1 hs1
      exact ih s1 h (stock_nonneg_step s s1 hs1 h0)
    · injection h with _ h2
      subst hc
      cases h2
    · cases h
    · cases h

end Boario
