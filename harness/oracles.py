"""Property oracles: each property's statement as an executable predicate over a real trace of the
implementation (the failing-input search of DESIGN.md §3.2).  Pure NumPy, independent of the Lean
model; tolerances are relative 1e-9 of the operands' scale."""
from __future__ import annotations

import math

from harness.common import np

R = 1e-9


def viol(prop, t, what, **kw):
    d = {"property": prop, "t": t, "what": what}
    d.update(kw)
    return d


def _le(a, b, scale):
    """a <= b up to rounding relative to scale"""
    return a <= b + R * scale + 1e-300


def consts(model, cfg=None, secs=None):
    """constants the oracles use.  With the scenario's configuration at hand, the parameters the constructors
    *derive* from it (restoration share, overproduction rate) are re-derived here from the documented formulas
    (characteristic time in temporal units -> per-step rate dt / tau) instead of being read back from the model."""
    c = _consts_from_model(model)
    if cfg is not None:
        dt = float(cfg.get("dt", 1))
        c["aTau"] = dt / float(cfg["alpha_tau"])
        c["alt"] = cfg["order_type"] == "alt"            # the variant that was asked for
        if cfg.get("class") == "psi":
            rt = cfg.get("restoration_tau", 60)
            names = sorted(secs) if secs is not None else None
            if isinstance(rt, dict) and names is not None:
                c["rest"] = np.array([dt / float(rt[s_]) for s_ in names])
            elif not isinstance(rt, dict):
                c["rest"] = np.full(model.n_sectors, dt / float(rt))
    return c


def _consts_from_model(model):
    n = model.n_sectors
    inv = np.asarray(model.inv_duration, dtype=float)
    return {
        "x0": np.asarray(model.X_0, dtype=float), "Z0": np.asarray(model.Z_0, dtype=float),
        "Y0": np.asarray(model.Y_0, dtype=float), "a": np.asarray(model.tech_mat, dtype=float),
        "thr": np.asarray(model.threshold_not_input, dtype=bool), "inv": inv,
        "fin": np.isfinite(inv), "dur0": np.where(np.isfinite(inv), inv, 0.0),
        "psi": float(getattr(model, "psi", 1.0)),
        "rest": np.asarray(getattr(model, "restoration_tau", np.ones(n)), dtype=float),
        "aBase": float(model.overprod_base), "aMax": float(model.overprod_max), "aTau": float(model.overprod_tau),
        "alt": model.order_type == "alt", "K": np.asarray(model.productive_capital, dtype=float).ravel(),
        "m": model.n_regions, "n": n, "k": model.n_fd_cat,
    }


def fresh_total(e):
    """total demand addressed to each industry, from the demand matrix itself (not from the model's cached row sums)"""
    tot = e["orders"].sum(axis=1) + e["fd"].sum(axis=1)
    if e.get("reb") is not None and np.size(e["reb"]):
        tot = tot + np.asarray(e["reb"]).reshape(tot.shape[0], -1).sum(axis=1)
    return tot


def capacity(c, e):
    delta = e["deltaTot"] if e["deltaTot"] is not None else 0.0
    return c["x0"] * (1 - delta) * e["alpha"]


# ------------------------------------------------------------------ C03


def c03(tr, st, c):
    out = []
    ph = st["phases"].get("production")
    if not ph or ph.get("exc") or ph["post"] is None:
        return out
    pre, post = ph["pre"]["econ"], ph["post"]["econ"]
    d, p, stock = fresh_total(pre), post["prod"], pre["stock"]
    cap = capacity(c, pre)
    t = st["t"]
    # the demand bound the production module reads is the model's cached total: it has to be the demand actually
    # addressed to the industry (row sums of the demand matrix) when production is decided
    if pre.get("dTot") is not None:
        ref = float(np.max(np.abs(d))) if d.size else 0.0
        gap = np.abs(np.asarray(pre["dTot"], dtype=float) - d)
        if (gap > 1e-9 * ref + 1e-300).any():
            i = int(np.argmax(gap))
            out.append(viol("C03", t, "the total demand bounding production is not the demand addressed to the industry (stale total)",
                            cell=i, total_used=float(pre["dTot"][i]), demand_matrix_row_sum=float(d[i])))
    xo = np.fmin(d, cap)
    sc = np.maximum(np.abs(xo), 1e-300)
    t = st["t"]
    if (p < -R * sc).any():
        out.append(viol("C03", t, "negative production", cell=int(np.argmin(p)), value=float(p.min())))
    if not _le(p, d, sc).all():
        i = int(np.argmax(p - d))
        out.append(viol("C03", t, "production exceeds total demand", cell=i, prod=float(p[i]), demand=float(d[i])))
    if not _le(p, cap, sc).all():
        i = int(np.argmax(p - cap))
        out.append(viol("C03", t, "production exceeds capacity", cell=i, prod=float(p[i]), capacity=float(cap[i])))
    cons = xo[None, :] * c["a"] * c["psi"] * c["dur0"][:, None]
    real = c["thr"] & c["fin"][:, None] & (cons != 0)
    need = p[None, :] * c["a"] * c["psi"] * c["dur0"][:, None]
    st_f = np.where(np.isfinite(stock), stock, np.inf)
    bad = real & ~(need <= st_f + R * np.maximum(np.abs(st_f), np.abs(need)))
    if bad.any():
        s, f = np.argwhere(bad)[0]
        out.append(viol("C03", t, "production above what the scarcest inventory supports", input=int(s), cell=int(f),
                        needs=float(need[s, f]), stock=float(st_f[s, f])))
    with np.errstate(divide="ignore", invalid="ignore"):
        ratio = np.where(real, np.minimum(1.0, st_f / np.where(cons != 0, cons, 1.0)), 1.0)
    support = xo * ratio.min(axis=0) if ratio.shape[0] else xo
    want = np.minimum(np.minimum(d, cap), support)
    if not np.allclose(p, want, rtol=R, atol=R * float(np.max(sc)) * 1e-3):
        i = int(np.argmax(np.abs(p - want)))
        out.append(viol("C03", t, "production is not the smallest of the three bounds", cell=i, prod=float(p[i]),
                        demand=float(d[i]), capacity=float(cap[i]), support=float(support[i])))
    return out


# ------------------------------------------------------------------ C04


def c04(tr, st, c):
    out = []
    ph = st["phases"].get("distribute")
    if not ph or ph["post"] is None:
        return out
    pre, post = ph["pre"]["econ"], ph["post"]["econ"]
    t = st["t"]
    dm = post.get("deliv")
    if dm is None:
        return out
    dem = np.concatenate([pre["orders"], pre["fd"]] + ([pre["reb"]] if pre["reb"] is not None and pre["nE"] > 0 else []), axis=1)
    if dm.shape != dem.shape:
        out.append(viol("C04", t, f"delivery matrix shape {dm.shape} differs from demand matrix shape {dem.shape}"))
        return out
    tot = dem.sum(axis=1)
    p = pre["prod"]
    nz = tot != 0
    rs = dm.sum(axis=1)
    if not np.allclose(rs[nz], p[nz], rtol=R, atol=0):
        i = int(np.argmax(np.where(nz, np.abs(rs - p), 0)))
        out.append(viol("C04", t, "deliveries do not add up to production", supplier=i, delivered=float(rs[i]), prod=float(p[i])))
    if (np.abs(dm[~nz]) > 0).any():
        out.append(viol("C04", t, "deliveries from a supplier without demand"))
    with np.errstate(divide="ignore", invalid="ignore"):
        frac = np.where(nz, p / np.where(nz, tot, 1.0), 0.0)
    want = dem * frac[:, None]
    if not np.allclose(dm, want, rtol=R, atol=0):
        i, j = np.unravel_index(int(np.argmax(np.abs(dm - want))), dm.shape)
        out.append(viol("C04", t, "a client does not receive production/demand of what it asked", supplier=int(i),
                        column=int(j), delivered=float(dm[i, j]), expected=float(want[i, j])))
    # (cells of the demand matrix can hold float residues of either sign, e.g. -1e-41 left by
    # `rebuild_demand - rebuild_prod` once an event has been served: compare up to rounding of the largest cell)
    slack = R * np.abs(dem) + 1e-18 * (float(np.max(np.abs(dem))) if dem.size else 0.0) + 1e-300
    if not (dm <= dem + slack).all():
        i, j = np.unravel_index(int(np.argmax(dm - dem - slack)), dm.shape)
        out.append(viol("C04", t, "a client receives more than it asked", supplier=int(i), column=int(j),
                        delivered=float(dm[i, j]), asked=float(dem[i, j])))
    if ph.get("exc"):
        return out
    N, F = pre["orders"].shape[1], pre["fd"].shape[1]
    fdd = dm[:, N:N + F]
    um = (pre["fd"] - fdd).sum(axis=1)
    fdt = pre["fd"].sum(axis=1)
    if not np.allclose(post["fdUnmet"], um, rtol=R, atol=R * max(float(fdt.max()), 1e-300)):
        i = int(np.argmax(np.abs(post["fdUnmet"] - um)))
        out.append(viol("C04", t, "unmet final demand differs from final demand minus deliveries", cell=i,
                        reported=float(post["fdUnmet"][i]), expected=float(um[i])))
    if (post["fdUnmet"] < -R * np.maximum(fdt, 1e-300)).any() or (post["fdUnmet"] > fdt * (1 + R) + 1e-300).any():
        i = int(np.argmax(np.maximum(-post["fdUnmet"], post["fdUnmet"] - fdt)))
        out.append(viol("C04", t, "unmet final demand outside [0, final demand]", cell=i, reported=float(post["fdUnmet"][i]),
                        final_demand=float(fdt[i])))
    if pre["nE"] > 0 and post["rebProd"] is not None:
        if not np.allclose(post["rebProd"], dm[:, N + F:], rtol=R, atol=0):
            out.append(viol("C04", t, "production credited to rebuilding differs from what was delivered to it"))
    return out


# ------------------------------------------------------------------ C05


def c05(tr, st, c):
    out = []
    ph = st["phases"].get("distribute")
    if not ph or ph["post"] is None:
        return out
    pre, post = ph["pre"]["econ"], ph["post"]["econ"]
    t = st["t"]
    m, n = c["m"], c["n"]
    N = m * n
    fin = c["fin"]
    inf_rows = ~fin
    # infinite inventories stay infinite (before and after), and never limit production
    for tag, e in (("before", pre), ("after", post)):
        if inf_rows.any() and not np.isposinf(e["stock"][inf_rows, :]).all():
            out.append(viol("C05", t, f"an infinite inventory is not infinite {tag} the step"))
    dm = post.get("deliv")
    if dm is None:
        return out
    p = pre["prod"]
    use = p[None, :] * c["a"]
    add = dm[:, :N].reshape(m, n, N).sum(axis=0)
    s0, s1 = pre["stock"], post["stock"]
    want = s0 - use + add
    scale = np.maximum(np.abs(np.where(np.isfinite(s0), s0, 0.0)), np.abs(use))
    upd_ok = np.abs(np.where(fin[:, None], s1 - want, 0.0)) <= R * scale + 1e-300
    skip_ok = np.array_equal(s1[fin], s0[fin]) and np.allclose(add, use)
    crashed = bool(ph.get("exc")) and ph["exc"][0] == "RuntimeError"
    if not (upd_ok.all() or skip_ok):
        bad = ~upd_ok
        s, f = np.argwhere(bad)[0]
        out.append(viol("C05", t, "inventory after the step is not before - use + resupply (and the update was not a permitted skip)",
                        input=int(s), cell=int(f), after=float(s1[s, f]), expected=float(want[s, f]), before=float(s0[s, f])))
    neg = (s1[fin] < -R * np.maximum(scale[fin], 1e-300)).any() if fin.any() else False
    if neg and not crashed:
        out.append(viol("C05", t, "negative inventory without the run being stopped", min=float(s1[fin].min())))
    if crashed and not (s1[fin] < 0).any():
        out.append(viol("C05", t, "run flagged as crashed without a negative inventory"))
    return out


def c05_run(tr, c):
    out = []
    # the loop must stop at a crash and flag it: checked through the trace
    for k, st in enumerate(tr.steps):
        if st["res"] == 1 and k != len(tr.steps) - 1:
            out.append(viol("C05", st["t"], "the run continued after a crash"))
    # a step in which the distribution found a negative inventory ends with the return code 1 (crashed), not with an exception
    last = tr.steps[-1] if tr.steps else None
    if last is not None and last["res"] == "raised":
        ph = last["phases"].get("distribute")
        if ph and ph.get("exc") and tr.step_error:
            out.append(viol("C05", last["t"], f"the distribution phase failed ({ph.get('exc')[0]}) and next_step() raised {tr.step_error[1]} instead of "
                                              f"returning the crashed code", message=str(tr.step_error[2])[:160]))
    return out


def c05_run_c20(tr, c):
    out = c05_run(tr, c)
    for v in out:
        v["property"] = "C20"
    return out


# ------------------------------------------------------------------ C06


def c06(tr, st, c):
    out = []
    ph = st["phases"].get("orders")
    if not ph or ph.get("exc") or ph["post"] is None:
        return out
    pre, post = ph["pre"]["econ"], ph["post"]["econ"]
    t = st["t"]
    m, n = c["m"], c["n"]
    N = m * n
    o = post["orders"]
    if not np.isfinite(o).all():
        out.append(viol("C06", t, "orders are not finite"))
        return out
    if (o < 0).any():
        out.append(viol("C06", t, "negative orders", min=float(o.min())))
    cap = capacity(c, pre)
    # total demand addressed to each industry, from the demand matrix itself (not from the model's cached row sums:
    # a stale cache would make the inventory target follow demand that has already been served)
    tot = pre["orders"].sum(axis=1) + pre["fd"].sum(axis=1)
    if pre.get("reb") is not None and np.size(pre["reb"]):
        tot = tot + np.asarray(pre["reb"]).reshape(tot.shape[0], -1).sum(axis=1)
    xo = np.fmin(tot, cap)
    goal = xo[None, :] * c["a"] * c["dur0"][:, None]
    st_f = np.where(c["fin"][:, None], pre["stock"], 0.0)
    gap_open = np.where(c["fin"][:, None], np.maximum(0.0, goal - st_f), 0.0) * c["rest"][:, None]
    used = pre["prod"][None, :] * c["a"]
    need_open = gap_open + used
    need_closed = used
    agg = o.reshape(m, n, N).sum(axis=0)        # orders summed over supplying regions
    Z0 = c["Z0"]
    if c["alt"]:
        with np.errstate(divide="ignore", invalid="ignore"):
            rho = np.where(c["x0"] != 0, cap / np.where(c["x0"] != 0, c["x0"], 1.0), 1.0)
        Zp = Z0 * rho[:, None]
    else:
        Zp = Z0
    ZC = Zp.reshape(m, n, N).sum(axis=0)
    avail = ZC != 0
    sc = np.maximum(np.abs(need_open), 1e-300)
    ok_open = np.abs(agg - need_open) <= R * sc * 10 + 1e-300
    ok_closed = np.abs(agg - need_closed) <= R * sc * 10 + 1e-300
    # the "all inventories close to goal" shortcut is global: one of the two must hold for all cells
    # ... and the gap may be dropped only when every inventory is within the stated closeness tolerance
    # (NumPy's default rtol 1e-5 / atol 1e-8; 10 % slack so that exact ties never alarm)
    fin2 = c["fin"][:, None] & np.ones_like(goal, dtype=bool)
    may_close = bool(np.all(np.abs(st_f - goal)[fin2] <= 1.1e-8 + 1.1e-5 * np.abs(goal)[fin2])) if fin2.any() else True
    if not (np.where(avail, ok_open, True).all() or (may_close and np.where(avail, ok_closed, True).all())):
        bad = avail & ~ok_open
        s, f = np.argwhere(bad)[0]
        out.append(viol("C06", t, "orders summed over suppliers differ from the need for the input", input=int(s), cell=int(f),
                        ordered=float(agg[s, f]), need=float(need_open[s, f]), need_without_gap=float(need_closed[s, f])))
    if (o[Z0 == 0] != 0).any():
        out.append(viol("C06", t, "orders addressed to an industry that is not an initial supplier"))
    # shares
    with np.errstate(divide="ignore", invalid="ignore"):
        share_want = np.where(np.tile(ZC, (m, 1)) != 0, Zp / np.where(np.tile(ZC, (m, 1)) != 0, np.tile(ZC, (m, 1)), 1.0), 0.0)
        agg_t = np.tile(agg, (m, 1))
        share_got = np.where(agg_t != 0, o / np.where(agg_t != 0, agg_t, 1.0), share_want)
    if not np.allclose(share_got, share_want, rtol=1e-8, atol=1e-9):
        i, j = np.unravel_index(int(np.argmax(np.abs(share_got - share_want))), o.shape)
        out.append(viol("C06", t, "supplier share differs from the one of the order variant", supplier=int(i), client=int(j),
                        share=float(share_got[i, j]), expected=float(share_want[i, j])))
    return out


# ------------------------------------------------------------------ C07


def c07(tr, st, c):
    out = []
    ph = st["phases"].get("events_pre")
    if not ph or ph["post"] is None or ph.get("exc"):
        return out
    post = ph["post"]
    t = st["t"]
    K = c["K"]
    N = K.shape[0]
    lost = np.zeros(N)
    arb = np.zeros(N)
    aff = np.zeros(N, dtype=bool)
    for trk in post["trackers"]:
        if trk["status"] in ("happening", "rebuilding", "recovering") and trk["dmg"] is not None:
            lost += trk["dmg"]
            aff |= trk["dmg"] != 0
        if trk["status"] in ("happening", "recovering") and trk["arb"] is not None:
            arb = np.maximum(arb, trk["arb"])
            aff |= trk["arb"] != 0
    with np.errstate(divide="ignore", invalid="ignore"):
        dcap = np.where(K != 0, lost / np.where(K != 0, K, 1.0), 0.0)
    want = np.maximum(dcap, arb)
    got = post["econ"]["deltaTot"]
    if got is None:
        got = np.zeros(N)
    if not np.allclose(got, want, rtol=R, atol=1e-15):
        i = int(np.argmax(np.abs(got - want)))
        out.append(viol("C07", t, "share of capacity lost differs from destroyed capital / capital stock (or the largest arbitrary loss)",
                        cell=i, delta=float(got[i]), expected=float(want[i])))
    if (got < 0).any() or (got > 1 + R).any():
        out.append(viol("C07", t, "share of capacity lost outside [0, 1]", min=float(got.min()), max=float(got.max())))
    if (got[~aff] != 0).any():
        out.append(viol("C07", t, "capacity loss for an industry no active event affects"))
    if (lost > K * (1 + R)).any():
        out.append(viol("C07", t, "destroyed capital above the capital stock was accepted", cell=int(np.argmax(lost - K))))
    # while an event is happening (before reconstruction / recovery starts) the capital it destroyed is its declared
    # impact, converted to the model's unit by event factor / model factor
    sc = getattr(tr, "sc", None)
    if sc is not None and len(sc["events"]) == len(post["trackers"]):
        from harness import scen as _scen
        regs, secs, _c = _scen.labels(sc["table"])
        regs, secs = sorted(regs), sorted(secs)
        mf = float(sc["model"]["monetary_factor"])
        for i, (ev, trk) in enumerate(zip(sc["events"], post["trackers"])):
            if ev["type"] == "arbitrary" or trk["status"] != "happening" or trk["dmg"] is None or trk["occ"] != ev["occ"]:
                continue
            want_d = np.zeros(N)
            for key, v in ev["impact"].items():
                r_, s_ = key.split("|")
                want_d[regs.index(r_) * len(secs) + secs.index(s_)] = float(v) * float(ev["emf"]) / mf
            if not np.allclose(trk["dmg"], want_d, rtol=1e-9, atol=0):
                j = int(np.argmax(np.abs(trk["dmg"] - want_d)))
                out.append(viol("C07", t, f"event {i}: capital counted as destroyed differs from the declared impact x event factor / model factor",
                                cell=j, counted=float(trk["dmg"][j]), declared=float(want_d[j])))
    return out


def c07_capital(tr, c):
    """capital stock = user-supplied vector, else value added x declared ratio"""
    out = []
    sc = tr.sc
    tb, cfg = sc["table"], sc["model"]
    Z = np.array(tb["Z"], dtype=float)
    Y = np.array(tb["Y"], dtype=float)
    x = Z.sum(axis=1) + Y.sum(axis=1)
    va = np.maximum(0.0, x - Z.sum(axis=0))
    cap = cfg["capital"]
    secs = sorted(__import__("harness.scen", fromlist=["labels"]).labels(tb)[1])
    if cap["kind"] == "default":
        want = va * 4
    elif cap["kind"] == "dict":
        want = va * np.tile(np.array([cap["values"][s] for s in secs], dtype=float), tb["m"])
    else:
        want = np.array(cap["values"], dtype=float)
    if not np.allclose(c["K"], want, rtol=R, atol=0):
        i = int(np.argmax(np.abs(c["K"] - want)))
        out.append(viol("C07", 0, "capital stock is not the user-supplied one / value added x ratio", cell=i,
                        capital=float(c["K"][i]), expected=float(want[i])))
    return out


# ------------------------------------------------------------------ C14


def c14(tr, st, c):
    out = []
    ph = st["phases"].get("overprod")
    t = st["t"]
    # bounds hold at every step, whether or not the update ran
    e_any = None
    for name in ("orders", "production", "events_pre"):
        p_ = st["phases"].get(name)
        if p_ and p_["post"] is not None:
            e_any = p_["post"]["econ"] if "econ" in p_["post"] else None
            if e_any is not None:
                break
    if e_any is not None:
        al = e_any["alpha"]
        lo = min(1.0, c["aBase"])
        # upper bound: for tau >= one step (the property's quantifier).  With a step longer than alpha_tau the
        # rule "rise by (max - current) x scarcity / tau" itself leads above the maximum (rate dt / tau > 1), so the
        # two clauses of the property cannot both hold: outside its domain, only the lower bound is checked there
        if (al < 1 - 1e-12).any() or (c["aTau"] <= 1.0 and (al > c["aMax"] * (1 + 1e-12)).any()):
            out.append(viol("C14", t, "overproduction factor outside [1, max]", min=float(al.min()), max=float(al.max()), amax=c["aMax"]))
    if not ph or ph["post"] is None:
        return out
    pre, post = ph["pre"]["econ"], ph["post"]["econ"]
    a0, a1 = pre["alpha"], post["alpha"]
    d, p = fresh_total(pre), pre["prod"]
    if c["aBase"] == 1.0:
        inc = a1 > a0 * (1 + 1e-12)          # (a rise at the level of float rounding of the demand total is not a rise)
        if (inc & ~(d > p)).any():
            i = int(np.argmax(inc & ~(d > p)))
            out.append(viol("C14", t, "overproduction factor rose although demand did not exceed last production", cell=i,
                            before=float(a0[i]), after=float(a1[i]), demand=float(d[i]), produced=float(p[i])))
        with np.errstate(divide="ignore", invalid="ignore"):
            sc = np.where(d != 0, (d - p) / np.where(d != 0, d, 1.0), 0.0)
        want = a0 + (c["aMax"] - a0) * sc * c["aTau"]
        bad = inc & ~np.isclose(a1, want, rtol=R, atol=0)
        if bad.any():
            i = int(np.argmax(bad))
            out.append(viol("C14", t, "increase differs from (max - current) x scarcity / tau", cell=i, after=float(a1[i]), expected=float(want[i])))
        met = d <= p
        if (met & (a1 > a0 * (1 + 1e-12))).any():
            out.append(viol("C14", t, "factor increased while demand was met"))
        # under scarcity the factor moves by exactly (max - current) x scarcity / tau
        scarce = (d > p) & (sc > 1e-12)
        bad2 = scarce & ~np.isclose(a1, np.maximum(1.0, want), rtol=R, atol=0)
        if bad2.any():
            i = int(np.argmax(bad2))
            out.append(viol("C14", t, "under scarcity the factor did not move by (max - current) x scarcity / tau", cell=i,
                            before=float(a0[i]), after=float(a1[i]), expected=float(want[i]), scarcity=float(sc[i])))
    return out


# ------------------------------------------------------------------ C01 (event-free runs)


def c01(tr, c):
    out = []
    if tr.build_error:
        out.append(viol("C01", 0, f"construction failed: {tr.build_error[0]}: {tr.build_error[1]}"))
        return out
    if tr.step_error:
        out.append(viol("C01", tr.step_error[0], f"run failed: {tr.step_error[1]}: {tr.step_error[2]}"))
    init = tr.init_econ
    x0 = c["x0"]
    fin = c["fin"]
    for st in tr.steps:
        ph = st["phases"].get("orders")
        if not ph or ph["post"] is None:
            if st["res"] == 1:
                out.append(viol("C01", st["t"], "event-free run crashed"))
            continue
        e = ph["post"]["econ"]
        t = st["t"]
        if not np.isfinite(e["prod"]).all() or not np.isfinite(e["orders"]).all() or np.isnan(e["stock"]).any():
            out.append(viol("C01", t, "NaN / inf in the state of an event-free run"))
            break
        if not np.allclose(e["prod"], x0, rtol=R, atol=0):
            i = int(np.argmax(np.abs(e["prod"] - x0)))
            out.append(viol("C01", t, "production left its initial value", cell=i, prod=float(e["prod"][i]), initial=float(x0[i])))
        if fin.any() and not np.allclose(e["stock"][fin], init["stock"][fin], rtol=R, atol=0):
            out.append(viol("C01", t, "inventories left their initial value"))
        if not np.allclose(e["orders"], c["Z0"], rtol=R, atol=R * 1e-3 * float(np.max(c["Z0"])) if c["Z0"].size else 0):
            i, j = np.unravel_index(int(np.argmax(np.abs(e["orders"] - c["Z0"]))), c["Z0"].shape)
            out.append(viol("C01", t, "orders left their initial value", supplier=int(i), client=int(j),
                            orders=float(e["orders"][i, j]), initial=float(c["Z0"][i, j])))
        if not np.allclose(e["alpha"], c["aBase"], rtol=R, atol=0):
            out.append(viol("C01", t, "overproduction factor left its base value", max=float(e["alpha"].max())))
        fdt = c["Y0"].sum(axis=1)
        if (np.abs(e["fdUnmet"]) > R * np.maximum(fdt, float(x0.max()) * 1e-6) + 1e-300).any():
            i = int(np.argmax(np.abs(e["fdUnmet"])))
            out.append(viol("C01", t, "unmet final demand in an event-free run", cell=i, unmet=float(e["fdUnmet"][i])))
        if out:
            break
    return out


# ------------------------------------------------------------------ C20 (finiteness / sign of every state)


def c20_state(tr, st, c):
    out = []
    t = st["t"]
    for name, ph in st["phases"].items():
        if ph["post"] is None or "econ" not in ph["post"]:
            continue
        e = ph["post"]["econ"]
        crashed = bool(ph.get("exc"))
        for var in ("orders", "fd", "dTot", "prod", "alpha", "fdUnmet", "reb", "rebProd", "deltaTot"):
            v = e.get(var)
            if v is None:
                continue
            if not np.isfinite(v).all():
                out.append(viol("C20", t, f"non-finite {var} after {name}", exc=ph.get("exc")))
                return out
            scale = max(float(np.max(np.abs(v))) if v.size else 0.0, float(np.max(c["x0"])) * 1e-6, 1e-300)
            if (v < -R * scale).any() and not crashed:
                out.append(viol("C20", t, f"negative {var} after {name}", min=float(v.min())))
                return out
        s = e["stock"]
        if np.isnan(s).any() or np.isneginf(s).any() or (np.isposinf(s) & c["fin"][:, None]).any():
            out.append(viol("C20", t, f"non-finite inventory (other than a declared infinite one) after {name}"))
            return out
        if c["fin"].any() and (s[c["fin"]] < -R * max(float(np.max(np.abs(s[c["fin"]]))), 1e-300)).any() and not crashed:
            out.append(viol("C20", t, f"negative inventory after {name} without crash"))
            return out
    pe = st["phases"].get("events_pre")
    if pe and pe["post"] is not None and not pe.get("exc"):
        lost = pe["post"]["econ"]["lost"]
        if lost is not None and (lost > c["K"] * (1 + R) + 1e-300).any():
            i = int(np.argmax(lost - c["K"]))
            out.append(viol("C20", t, "an impact larger than the capital stock of an industry was accepted", cell=i,
                            destroyed=float(lost[i]), capital=float(c["K"][i])))
            return out
    for ph_name in ("events_pre", "events_post"):
        ph = st["phases"].get(ph_name)
        if not ph or ph["post"] is None:
            continue
        for i, trk in enumerate(ph["post"]["trackers"]):
            for var in ("dmg", "hdmg", "arb", "remI", "remH"):
                v = trk[var]
                if v is None:
                    continue
                if not np.isfinite(v).all():
                    out.append(viol("C20", t, f"non-finite {var} of event {i} after {ph_name}"))
                    return out
                if (v < 0).any():
                    out.append(viol("C20", t, f"negative {var} of event {i} after {ph_name}", min=float(v.min())))
                    return out
    return out


EXPECTED_ORDER = ["_check_happening_events", "calc_overproduction", "calc_production", "distribute_production",
                  "rebuild_events", "recover_events", "calc_orders"]


def phase_sequence(tr, st, c, prop="C02"):
    """the phases of a completed step run in the documented order: events, overproduction (from the third
    step on), production, distribution, ledgers, orders"""
    out = []
    if st.get("res") != 0:
        return out
    want = [n for n in EXPECTED_ORDER if n != "calc_overproduction" or st["t"] > 1]
    got = st.get("order", [])
    if got != want:
        out.append(viol(prop, st["t"], "phases of the step did not run in the documented order", got=got, expected=want))
    return out


PER_STEP = {"C03": c03, "C04": c04, "C05": c05, "C06": c06, "C07": c07, "C14": c14, "C20": c20_state}


# ------------------------------------------------------------------ C02: the documented recurrences


def _close(a, b, ref=None, rtol=R):
    a = np.asarray(a, dtype=float)
    b = np.asarray(b, dtype=float)
    mag = np.maximum(np.abs(a), np.abs(b))
    if ref is not None:
        mag = np.maximum(mag, np.abs(ref))
    with np.errstate(invalid="ignore"):
        return np.abs(a - b) <= rtol * mag + 1e-300


def c02(tr, st, c):
    """docs/source/boario-math.rst applied to the pre-step state, phase by phase.  Where the other
    properties fix a reading the prose leaves open (C03: technology mask and cap at 1; C06/C18: both
    classes order inputs used + share of the gap, capacity-weighted shares) that reading is used."""
    out = []
    t = st["t"]
    m, n = c["m"], c["n"]
    N = m * n
    ph = st["phases"]

    def both(name):
        p = ph.get(name)
        if not p or p["post"] is None or p.get("exc"):
            return None
        return p["pre"]["econ"], p["post"]["econ"]

    # --- overproduction module:  zeta = (D - x)/D ;  alpha' = alpha + (amax - alpha) zeta / tau  if zeta > 0
    #                                                  alpha' = alpha + (ab - alpha) / tau          if zeta <= 0
    bp = both("overprod")
    if bp:
        pre, post = bp
        D, x, al = pre["dTot"], pre["prod"], pre["alpha"]
        with np.errstate(divide="ignore", invalid="ignore"):
            zeta = np.where(D != 0, (D - x) / np.where(D != 0, D, 1.0), 0.0)
        up = al + (c["aMax"] - al) * zeta * c["aTau"]
        down = al + (c["aBase"] - al) * c["aTau"]
        want = np.maximum(1.0, np.where(zeta > 0, up, down))
        ok = _close(post["alpha"], want)
        # exact ties of the threshold test (zeta = 0 up to rounding) are accepted either way
        tie = np.abs(zeta) <= 1e-12
        alt_ = np.maximum(1.0, np.where(zeta > 0, down, up))
        ok |= tie & _close(post["alpha"], alt_)
        if not ok.all():
            i = int(np.argmax(~ok))
            out.append(viol("C02", t, "overproduction factor differs from the documented scarcity rule", cell=i,
                            got=float(post["alpha"][i]), documented=float(want[i]), scarcity=float(zeta[i]), before=float(al[i])))
    # --- production module
    bp = both("production")
    if bp:
        pre, post = bp
        cap = capacity(c, pre)
        D = pre["dTot"]
        xo = np.minimum(D, cap)
        cons = xo[None, :] * c["a"] * c["psi"] * c["dur0"][:, None]
        real = c["thr"] & c["fin"][:, None] & (cons != 0)
        st_f = np.where(np.isfinite(pre["stock"]), pre["stock"], np.inf)
        with np.errstate(divide="ignore", invalid="ignore"):
            ratio = np.where(real, st_f / np.where(cons != 0, cons, 1.0), np.inf)
        worst = ratio.min(axis=0) if n else np.full(N, np.inf)
        want = xo * np.minimum(1.0, worst)
        if not _close(post["prod"], want, ref=xo).all():
            i = int(np.argmax(~_close(post["prod"], want, ref=xo)))
            out.append(viol("C02", t, "realised production differs from demand-and-capacity-limited production reduced by the tightest input shortage",
                            cell=i, got=float(post["prod"][i]), documented=float(want[i])))
    # --- distribution and inventory module
    p = ph.get("distribute")
    if p and p["post"] is not None and not p.get("exc"):
        pre, post = p["pre"]["econ"], p["post"]["econ"]
        dem = np.concatenate([pre["orders"], pre["fd"]] + ([pre["reb"]] if pre["reb"] is not None and pre["nE"] > 0 else []), axis=1)
        D = dem.sum(axis=1)
        x = pre["prod"]
        with np.errstate(divide="ignore", invalid="ignore"):
            recv = dem * np.where(D != 0, x / np.where(D != 0, D, 1.0), 0.0)[:, None]
        if post.get("deliv") is not None and not _close(post["deliv"], recv, ref=dem).all():
            out.append(viol("C02", t, "deliveries differ from proportional rationing"))
        add = recv[:, :N].reshape(m, n, N).sum(axis=0)
        use = x[None, :] * c["a"]
        want = pre["stock"] - use + add
        fin = c["fin"]
        okU = _close(post["stock"][fin], want[fin], ref=pre["stock"][fin]).all() if fin.any() else True
        okS = np.array_equal(post["stock"][fin], pre["stock"][fin]) and np.allclose(add, use)
        if not (okU or okS):
            out.append(viol("C02", t, "inventories differ from stock + orders received - inputs used"))
        F = pre["fd"].shape[1]
        um = (pre["fd"] - recv[:, N:N + F]).sum(axis=1)
        if not _close(post["fdUnmet"], um, ref=pre["fd"].sum(axis=1)).all():
            out.append(viol("C02", t, "unmet final demand differs from final demand minus deliveries"))
    # --- order module
    bp = both("orders")
    if bp:
        pre, post = bp
        cap = capacity(c, pre)
        xo = np.minimum(pre["dTot"], cap)
        goal = xo[None, :] * c["a"] * c["dur0"][:, None]
        st_f = np.where(c["fin"][:, None], pre["stock"], 0.0)
        gap = np.where(c["fin"][:, None], np.maximum(0.0, goal - st_f), 0.0)
        tot = c["rest"][:, None] * gap + pre["prod"][None, :] * c["a"]
        tot0 = pre["prod"][None, :] * c["a"]
        if c["alt"]:
            with np.errstate(divide="ignore", invalid="ignore"):
                rho = np.where(c["x0"] != 0, cap / np.where(c["x0"] != 0, c["x0"], 1.0), 1.0)
            Zs = c["Z0"] * rho[:, None]
        else:
            Zs = c["Z0"]
        ZC = np.tile(Zs.reshape(m, n, N).sum(axis=0), (m, 1))
        with np.errstate(divide="ignore", invalid="ignore"):
            share = np.where(ZC != 0, Zs / np.where(ZC != 0, ZC, 1.0), 0.0)
        want = np.tile(tot, (m, 1)) * share
        want0 = np.tile(tot0, (m, 1)) * share
        fin2 = c["fin"][:, None] & np.ones_like(goal, dtype=bool)
        may_close = bool(np.all(np.abs(st_f - goal)[fin2] <= 1.1e-8 + 1.1e-5 * np.abs(goal)[fin2])) if fin2.any() else True
        ref = np.tile(np.maximum(np.abs(tot), np.abs(goal)), (m, 1))
        if not (_close(post["orders"], want, ref=None, rtol=1e-8).all() or (may_close and _close(post["orders"], want0, rtol=1e-8).all())):
            bad = ~_close(post["orders"], want, rtol=1e-8)
            i, j = np.argwhere(bad)[0]
            out.append(viol("C02", t, "orders differ from (gap / tau_inv + inputs used) x supplier share", supplier=int(i), client=int(j),
                            got=float(post["orders"][i, j]), documented=float(want[i, j])))
    return out


def c02_same_capacity(tr, st, c):
    """the capacity (share lost, overproduction factor) that bounds the orders' inventory goal is the one production was
    decided with in the same step: nothing between the two modules changes it"""
    out = []
    pp, po = st["phases"].get("production"), st["phases"].get("orders")
    if not pp or not po or pp.get("pre") is None or po.get("pre") is None:
        return out
    a, b = pp["pre"]["econ"], po["pre"]["econ"]
    for key, what in (("deltaTot", "share of capacity lost"), ("alpha", "overproduction factor")):
        va, vb = a.get(key), b.get(key)
        if va is None or vb is None:
            continue
        if not np.array_equal(np.asarray(va, dtype=float), np.asarray(vb, dtype=float), equal_nan=True):
            i = int(np.argmax(np.abs(np.asarray(va, dtype=float) - np.asarray(vb, dtype=float))))
            out.append(viol("C02", st["t"], f"the {what} changed between the production and the order modules of the same step",
                            cell=i, at_production=float(np.asarray(va).ravel()[i]), at_orders=float(np.asarray(vb).ravel()[i])))
    return out


def c02_all(tr, st, c):
    return c02(tr, st, c) + phase_sequence(tr, st, c, "C02") + c02_same_capacity(tr, st, c)


def c14_all(tr, st, c):
    return c14(tr, st, c) + phase_sequence(tr, st, c, "C14")


PER_STEP["C02"] = c02_all
PER_STEP["C14"] = c14_all
