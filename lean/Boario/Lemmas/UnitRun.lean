/- helper lemmas for `Boario.Properties.C13Run` (phase-by-phase commutation with the change of unit) -/
import Boario.Properties.C13
import Boario.Properties.C19
import Boario.Lemmas.Round
import Boario.Lemmas.Receive
import Boario.Lemmas.Lifecycle
import Boario.Lemmas.Shift
import Mathlib.Algebra.BigOperators.Group.List.Basic
import Mathlib.Algebra.BigOperators.Ring.List

namespace Boario
variable {d : Dims}

/-! ### the definitions of the run-level statement (moved here from `Properties/C13Run.lean`) -/

/-- the tracker of the same event when the model's unit is `c = 10^k` times smaller -/
def scaleTracker (c : Rat) (k : Nat) (tr : Tracker d) : Tracker d :=
  { tr with prec := tr.prec - k
            dmg0 := fun i => tr.dmg0 i * c
            dmg := tr.dmg.map fun f i => f i * c
            hdmg0 := tr.hdmg0.map fun f x => f x * c
            hdmg := tr.hdmg.map fun f x => f x * c
            remI := tr.remI.map fun f i j => f i j * c
            remH := tr.remH.map fun f i x => f i x * c }

def scaleSim (c : Rat) (k : Nat) (s : Sim d) : Sim d :=
  { s with p := scaleParams c s.p, econ := scaleEcon c s.econ,
           trackers := s.trackers.map (scaleTracker c k) }

/-- the recovery function acts on amounts proportionally (true of every built-in curve) -/
def CurveHomog (tr : Tracker d) : Prop :=
  (∀ (c : Rat) (e : Int) (D : Ind d → Rat) (i : Ind d),
      tr.curveI e (fun j => D j * c) i = tr.curveI e D i * c) ∧
  (∀ (c : Rat) (e : Int) (D : Fd d → Rat) (x : Fd d),
      tr.curveH e (fun y => D y * c) x = tr.curveH e D x * c)

/-- the economy as `distribute_production` finds it in the step from `s` -/
def preDistribute (s : Sim d) : Option (Sim d × Econ d) :=
  match eventsPre s with
  | .ok s1 =>
    match productionPhase s1.p (if 1 < s1.t then overprodPhase s1.p s1.econ else s1.econ) with
    | .ok e2 => some (s1, e2)
    | _ => none
  | _ => none

/-- the state as `calc_orders` finds it in the step from `s` -/
def preOrders (s : Sim d) : Option (Sim d) :=
  match preDistribute s with
  | some (s1, e2) =>
    match distribute s1.p e2 with
    | .ok e3 => some (eventsPost { s1 with econ := e3 })
    | _ => none
  | none => none

/-- both closeness tests of the step from `s` (`allclose(stock_add, stock_use)` in the distribution,
    `allclose(inputs_stock, goal)` in the orders) take the same branch in both units -/
def CloseAgree (c : Rat) (s : Sim d) : Prop :=
  (∀ s1 e2, preDistribute s = some (s1, e2) →
    (addUseClose (scaleParams c s1.p) (scaleEcon c e2).prod (deliveries (scaleEcon c e2)).orders ↔
     addUseClose s1.p e2.prod (deliveries e2).orders)) ∧
  (∀ s3, preOrders s = some s3 →
    (ordersClose (scaleParams c s3.p) (scaleEcon c s3.econ).stock
        (xOpt (scaleParams c s3.p) (scaleEcon c s3.econ).dTot s3.econ.deltaTot s3.econ.alpha) ↔
     ordersClose s3.p s3.econ.stock (xOpt s3.p s3.econ.dTot s3.econ.deltaTot s3.econ.alpha)))

/-- a pair on which the relative tolerance alone decides: close by the relative part, or not close at all -/
def Decisive (a b : Rat) : Prop := rabs (a - b) ≤ rtol * rabs b ∨ atol + rtol * rabs b < rabs (a - b)

/-- no monetary ledger: event-free runs and capacity-loss (arbitrary) events -/
def Dimensionless (tr : Tracker d) : Prop :=
  tr.kind = .arbitrary ∧ tr.dmg = none ∧ tr.hdmg = none ∧ tr.hdmg0 = none ∧ tr.remI = none ∧ tr.remH = none

/-! ### helper lemmas -/

/-- what a tracker must satisfy for its ledger operations to commute with the change of unit
    `(c, k)`: no monetary ledger at all, or a homogeneous curve and a rounding that follows the unit -/
def UnitOK (c : Rat) (k : Nat) (tr : Tracker d) : Prop :=
  Dimensionless tr ∨ (CurveHomog tr ∧ ∀ x, roundDec (tr.prec - k) (x * c) = roundDec tr.prec x * c)

theorem u_roundDec_pow (p k : Nat) (hk : k ≤ p) (x : Rat) :
    roundDec (p - k) (x * (10 : Rat) ^ k) = roundDec p x * (10 : Rat) ^ k := by
  have h10 : (10 : Rat) ^ p = (10 : Rat) ^ (p - k) * (10 : Rat) ^ k := by
    rw [← pow_add, Nat.sub_add_cancel hk]
  have hk0 : (10 : Rat) ^ k ≠ 0 := (pow10_pos k).ne'
  have hpk0 : (10 : Rat) ^ (p - k) ≠ 0 := (pow10_pos (p - k)).ne'
  unfold roundDec
  have e : x * (10 : Rat) ^ k * (10 : Rat) ^ (p - k) = x * (10 : Rat) ^ p := by rw [h10]; ring
  rw [e, h10]
  field_simp

/-! #### numeric -/

theorem u_rabs_scale (x c : Rat) (hc : 0 < c) : rabs (x * c) = rabs x * c := by
  unfold rabs
  by_cases hx : x < 0
  · rw [if_pos hx, if_pos (mul_neg_of_neg_of_pos hx hc)]; ring
  · rw [if_neg hx, if_neg (not_lt.2 (mul_nonneg (not_lt.1 hx) hc.le))]

theorem u_rabs_nonneg (x : Rat) : 0 ≤ rabs x := by
  unfold rabs; split_ifs with h <;> linarith

theorem u_zeroBlock (c : Rat) : scaleBlock c (zeroBlock : RebBlock d) = zeroBlock := by
  simp [scaleBlock, zeroBlock]

theorem u_sumList_map_mul {α : Type} (l : List α) (f : α → Rat) (c : Rat) :
    sumList (l.map fun a => f a * c) = sumList (l.map f) * c := by
  rw [sumList_eq_sum, sumList_eq_sum, List.sum_map_mul_right]

/-! #### life-cycle -/

theorem u_wake (c : Rat) (k t dt : Nat) (tr : Tracker d) :
    wake t dt (scaleTracker c k tr) = scaleTracker c k (wake t dt tr) := by
  unfold wake
  show (if tr.status = .pending ∧ t ≤ tr.occ + dt ∧ tr.occ ≤ t then _ else _) = _
  split_ifs <;> rfl

theorem u_advance (c : Rat) (k t : Nat) (trs : List (Tracker d)) (nb : Nat) :
    advance t (trs.map (scaleTracker c k)) nb
      = ((advance t trs nb).1.map (scaleTracker c k), (advance t trs nb).2) := by
  induction trs generalizing nb with
  | nil => rfl
  | cons tr rest ih =>
    simp only [List.map_cons, advance]
    show (if tr.status = .happening ∧ tr.occ + tr.dur ≤ t then _ else _) = _
    by_cases h : tr.status = .happening ∧ tr.occ + tr.dur ≤ t
    · rw [if_pos h, if_pos h]
      have hkind : (scaleTracker c k tr).kind = tr.kind := rfl
      rw [hkind]
      cases tr.kind <;> simp only [ih] <;> rfl
    · rw [if_neg h, if_neg h]
      simp only [ih]
      rfl

theorem u_lifecycle (c : Rat) (k t dt : Nat) (trs : List (Tracker d)) (nb : Nat) :
    lifecycle t dt (trs.map (scaleTracker c k)) nb
      = ((lifecycle t dt trs nb).1.map (scaleTracker c k), (lifecycle t dt trs nb).2) := by
  unfold lifecycle
  rw [List.map_map]
  have : (wake t dt ∘ scaleTracker c k : Tracker d → Tracker d) = scaleTracker c k ∘ wake t dt := by
    funext tr; exact u_wake c k t dt tr
  rw [this, ← List.map_map, u_advance]

/-! #### what the economy sees of the trackers -/

theorem u_lostContribution (c : Rat) (k : Nat) (tr : Tracker d) (i : Ind d) :
    (scaleTracker c k tr).lostContribution i = tr.lostContribution i * c := by
  unfold Tracker.lostContribution
  show (if tr.active then (match tr.dmg.map (fun f i => f i * c) with
      | some f => f i | none => 0) else 0) = _
  cases tr.dmg <;> split_ifs <;> simp

theorem u_lostCapital (c : Rat) (k : Nat) (trs : List (Tracker d)) :
    lostCapital (trs.map (scaleTracker c k)) = fun i => lostCapital trs i * c := by
  funext i
  unfold lostCapital
  rw [List.map_map, ← u_sumList_map_mul]
  congr 1
  apply List.map_congr_left
  intro tr _
  exact u_lostContribution c k tr i

theorem u_arbDelta (c : Rat) (k : Nat) (trs : List (Tracker d)) :
    arbDelta (trs.map (scaleTracker c k)) = arbDelta trs := by
  funext i
  unfold arbDelta
  rw [List.map_map]
  rfl

theorem u_anyRebuilding (c : Rat) (k : Nat) (trs : List (Tracker d)) :
    anyRebuilding (trs.map (scaleTracker c k)) = anyRebuilding trs := by
  unfold anyRebuilding
  rw [List.any_map]
  rfl

theorem u_presented (c : Rat) (k dt : Nat) (tr : Tracker d) :
    presented dt (scaleTracker c k tr) = scaleBlock c (presented dt tr) := by
  unfold presented scaleBlock
  show ({ indus := fun i j => match tr.remI.map (fun f i j => f i j * c) with
            | some r => r i j * ((dt : Rat) / (tr.tau : Rat))
            | none => 0
          house := fun i x => match tr.remH.map (fun f i x => f i x * c) with
            | some r => r i x * ((dt : Rat) / (tr.tau : Rat))
            | none => 0 } : RebBlock d) = _
  congr 1
  · funext i j
    cases tr.remI
    · simp
    · simp only [Option.map_some]; ring
  · funext i x
    cases tr.remH
    · simp
    · simp only [Option.map_some]; ring

theorem u_blockOfId (c : Rat) (k dt : Nat) (trs : List (Tracker d)) (id : Nat) :
    blockOfId dt (trs.map (scaleTracker c k)) id = scaleBlock c (blockOfId dt trs id) := by
  unfold blockOfId
  rw [List.find?_map]
  have : ((fun tr : Tracker d => decide (tr.status = .rebuilding) && decide (tr.rid = some id))
        ∘ scaleTracker c k)
      = fun tr : Tracker d => decide (tr.status = .rebuilding) && decide (tr.rid = some id) := rfl
  rw [this]
  cases List.find? (fun tr : Tracker d => decide (tr.status = .rebuilding) && decide (tr.rid = some id)) trs
  · exact (u_zeroBlock c).symm
  · exact u_presented c k dt _

theorem u_rebuildDemand (c : Rat) (k dt : Nat) (trs : List (Tracker d)) (nb : Nat) :
    rebuildDemand dt (trs.map (scaleTracker c k)) nb = (rebuildDemand dt trs nb).map (scaleBlock c) := by
  unfold rebuildDemand
  rw [List.map_map]
  apply List.map_congr_left
  intro id _
  exact u_blockOfId c k dt trs id

/-! #### the event phase -/

theorem u_lostExceeds (p : Params d) (c : Rat) (hc : 0 < c) (lost : Ind d → Rat) :
    lostExceeds (scaleParams c p) (fun i => lost i * c) ↔ lostExceeds p lost := by
  unfold lostExceeds
  show (∃ r s, p.K (r, s) * c < lost (r, s) * c) ↔ _
  simp only [mul_lt_mul_iff_of_pos_right hc]

theorem u_deltaTotOf (p : Params d) (c : Rat) (hc : 0 < c) (lost arb : Ind d → Rat) :
    deltaTotOf (scaleParams c p) (fun i => lost i * c) arb = deltaTotOf p lost arb := by
  funext i
  unfold deltaTotOf
  rw [deltaCap_homogeneous p c hc]

theorem u_preWith (c : Rat) (hc : 0 < c) (k : Nat) (s : Sim d) (trs : List (Tracker d)) (nb : Nat) :
    preWith (scaleSim c k s) (trs.map (scaleTracker c k)) nb
      = (preWith s trs nb).mapAll (scaleSim c k) := by
  unfold preWith
  simp only [u_lostCapital, u_arbDelta, u_anyRebuilding, u_rebuildDemand]
  show (if lostExceeds (scaleParams c s.p) (fun i => lostCapital trs i * c) then _ else _) = _
  have hnb : (scaleSim c k s).nBlocks = s.nBlocks := rfl
  have hdt : (scaleSim c k s).dt = s.dt := rfl
  have hp : (scaleSim c k s).p = scaleParams c s.p := rfl
  have he : (scaleSim c k s).econ = scaleEcon c s.econ := rfl
  rw [hnb, hdt, hp, he, u_deltaTotOf s.p c hc]
  have hrow : rowTot (scaleEcon c s.econ).orders (scaleEcon c s.econ).fd
      ((rebuildDemand s.dt trs nb).map (scaleBlock c))
      = fun i => rowTot s.econ.orders s.econ.fd (rebuildDemand s.dt trs nb) i * c := by
    funext i
    exact rowTot_scale c s.econ.orders s.econ.fd _ i
  have hz : (List.range nb).map (fun _ => (zeroBlock : RebBlock d))
      = ((List.range nb).map (fun _ => (zeroBlock : RebBlock d))).map (scaleBlock c) := by
    rw [List.map_map]
    apply List.map_congr_left
    intro _ _
    exact (u_zeroBlock c).symm
  rw [hrow]
  by_cases hx : lostExceeds s.p (lostCapital trs)
  · rw [if_pos hx, if_pos ((u_lostExceeds s.p c hc _).2 hx)]; rfl
  · rw [if_neg hx, if_neg (fun h => hx ((u_lostExceeds s.p c hc _).1 h))]
    split_ifs
    · rfl
    · simp only [Outcome.mapAll, scaleSim]
      congr 2
      show _ = scaleEcon c _
      simp only [scaleEcon]
      rw [← hz]
    · rfl

theorem u_eventsPre (c : Rat) (hc : 0 < c) (k : Nat) (s : Sim d) :
    eventsPre (scaleSim c k s) = (eventsPre s).mapAll (scaleSim c k) := by
  rw [eventsPre_eqs, eventsPre_eqs]
  show preWith (scaleSim c k s) (lifecycle s.t s.dt (s.trackers.map (scaleTracker c k)) s.nBlocks).1
    (lifecycle s.t s.dt (s.trackers.map (scaleTracker c k)) s.nBlocks).2 = _
  rw [u_lifecycle]
  exact u_preWith c hc k s _ _

/-! #### the economic phases -/

theorem u_capNegative (p : Params d) (c : Rat) (hc : 0 < c) (dl al : Ind d → Rat) :
    capNegative (scaleParams c p) dl al ↔ capNegative p dl al := by
  have h : ∀ x : Rat, x * c < 0 ↔ x < 0 := fun x =>
    ⟨fun hx => by by_contra hn; exact absurd (mul_nonneg (not_lt.1 hn) hc.le) (not_le.2 hx),
     fun hx => mul_neg_of_neg_of_pos hx hc⟩
  unfold capNegative
  simp only [capacity_scale, h]

theorem u_overprodPhase (p : Params d) (c : Rat) (hc : 0 < c) (e : Econ d) :
    overprodPhase (scaleParams c p) (scaleEcon c e) = scaleEcon c (overprodPhase p e) := by
  unfold overprodPhase
  have h : overprod (scaleParams c p) (scaleEcon c e).alpha (scaleEcon c e).dTot (scaleEcon c e).prod
      = overprod p e.alpha e.dTot e.prod := by
    funext f; exact overprod_homogeneous p e c hc f
  rw [h]
  rfl

theorem u_productionPhase (p : Params d) (c : Rat) (hc : 0 < c) (e : Econ d) :
    productionPhase (scaleParams c p) (scaleEcon c e) = (productionPhase p e).mapAll (scaleEcon c) := by
  unfold productionPhase
  have h : production (scaleParams c p) (scaleEcon c e).stock
        (xOpt (scaleParams c p) (scaleEcon c e).dTot (scaleEcon c e).deltaTot (scaleEcon c e).alpha)
      = fun f => production p e.stock (xOpt p e.dTot e.deltaTot e.alpha) f * c := by
    funext f; exact production_homogeneous p e c hc f
  rw [h]
  show (if capNegative (scaleParams c p) e.deltaTot e.alpha then _ else _) = _
  by_cases hn : capNegative p e.deltaTot e.alpha
  · rw [if_pos hn, if_pos ((u_capNegative p c hc _ _).2 hn)]; rfl
  · rw [if_neg hn, if_neg (fun h => hn ((u_capNegative p c hc _ _).1 h))]; rfl

/-! #### distribution -/

/-- the deliveries in the smaller unit -/
def scaleDelivered (c : Rat) (dl : Delivered d) : Delivered d :=
  { orders := fun i j => dl.orders i j * c, fd := fun i x => dl.fd i x * c,
    reb := dl.reb.map (scaleBlock c) }

theorem u_deliverBlock (c : Rat) (hc : c ≠ 0) (tot prod : Ind d → Rat) (b : RebBlock d) :
    deliverBlock (fun i => tot i * c) (fun i => prod i * c) (scaleBlock c b)
      = scaleBlock c (deliverBlock tot prod b) := by
  simp only [deliverBlock, scaleBlock, deliverCell_scale _ _ _ _ hc]

theorem u_deliveries (c : Rat) (hc : 0 < c) (e : Econ d) :
    deliveries (scaleEcon c e) = scaleDelivered c (deliveries e) := by
  have htot : rowTot (scaleEcon c e).orders (scaleEcon c e).fd (scaleEcon c e).reb
      = fun i => rowTot e.orders e.fd e.reb i * c := by
    funext i; exact rowTot_scale c e.orders e.fd e.reb i
  unfold deliveries
  simp only [htot]
  simp only [scaleEcon, scaleDelivered, deliverCell_scale _ _ _ _ hc.ne', List.map_map]
  congr 1
  apply List.map_congr_left
  intro b _
  exact u_deliverBlock c hc.ne' _ _ b

theorem u_stockUse (p : Params d) (c : Rat) (prod : Ind d → Rat) (s : Fin d.n) (f : Ind d) :
    stockUse (scaleParams c p) (fun f => prod f * c) s f = stockUse p prod s f * c := by
  simp only [stockUse, scaleParams]; ring

theorem u_stockAdd (c : Rat) (dl : Ind d → Ind d → Rat) (s : Fin d.n) (f : Ind d) :
    stockAdd (fun i j => dl i j * c) s f = stockAdd dl s f * c := by
  unfold stockAdd
  rw [sumFin_mul_const]

theorem u_stockUpdated (p : Params d) (c : Rat) (e : Econ d) (dl : Ind d → Ind d → Rat) :
    stockUpdated (scaleParams c p) (scaleEcon c e) (fun i j => dl i j * c)
      = fun s f => stockUpdated p e dl s f * c := by
  funext s f
  unfold stockUpdated
  have h : (scaleEcon c e).prod = fun f => e.prod f * c := rfl
  rw [h, u_stockUse, u_stockAdd]
  simp only [scaleEcon]; ring

theorem u_stockNegative (p : Params d) (c : Rat) (hc : 0 < c) (st : Fin d.n → Ind d → Rat) :
    stockNegative (scaleParams c p) (fun s f => st s f * c) ↔ stockNegative p st := by
  have h : ∀ x : Rat, x * c < 0 ↔ x < 0 := fun x =>
    ⟨fun hx => by by_contra hn; exact absurd (mul_nonneg (not_lt.1 hn) hc.le) (not_le.2 hx),
     fun hx => mul_neg_of_neg_of_pos hx hc⟩
  unfold stockNegative
  simp only [h]
  rfl

theorem u_subBlocks (c : Rat) : ∀ (l l' : List (RebBlock d)),
    subBlocks (l.map (scaleBlock c)) (l'.map (scaleBlock c)) = (subBlocks l l').map (scaleBlock c)
  | [], [] => rfl
  | [], _ :: _ => rfl
  | _ :: _, [] => rfl
  | b :: bs, b' :: bs' => by
    simp only [List.map_cons, subBlocks, u_subBlocks c bs bs']
    congr 1
    simp only [subBlock, scaleBlock, sub_mul]

theorem u_fdUnmetOf (c : Rat) (e : Econ d) (dl : Delivered d) :
    fdUnmetOf (scaleEcon c e) (scaleDelivered c dl) = fun i => fdUnmetOf e dl i * c := by
  funext i
  unfold fdUnmetOf
  rw [← sumFd_mul_const]
  simp only [scaleEcon, scaleDelivered, sub_mul]

theorem u_distributeFinish (c : Rat) (e : Econ d) (dl : Delivered d) (st : Fin d.n → Ind d → Rat) :
    distributeFinish (scaleEcon c e) (scaleDelivered c dl) (fun s f => st s f * c)
      = scaleEcon c (distributeFinish e dl st) := by
  unfold distributeFinish
  simp only [u_fdUnmetOf]
  have h1 : (scaleEcon c e).reb = e.reb.map (scaleBlock c) := rfl
  have h2 : (scaleDelivered c dl).reb = dl.reb.map (scaleBlock c) := rfl
  have h3 : (scaleEcon c e).orders = fun i j => e.orders i j * c := rfl
  have h4 : (scaleEcon c e).fd = fun i x => e.fd i x * c := rfl
  have h5 : (scaleEcon c e).dTot = fun i => e.dTot i * c := rfl
  have hrow : rowTot (fun i j => e.orders i j * c) (fun i x => e.fd i x * c)
      ((subBlocks e.reb dl.reb).map (scaleBlock c))
      = fun i => rowTot e.orders e.fd (subBlocks e.reb dl.reb) i * c := by
    funext i; exact rowTot_scale c _ _ _ i
  rw [h1, h2, h3, h4, h5, u_subBlocks, hrow]
  have hemp : (e.reb.map (scaleBlock c)).isEmpty = e.reb.isEmpty := by
    cases e.reb <;> rfl
  rw [hemp]
  cases hb : e.reb.isEmpty <;> simp [scaleEcon]

theorem u_distribute (p : Params d) (c : Rat) (hc : 0 < c) (e : Econ d)
    (hclose : addUseClose (scaleParams c p) (scaleEcon c e).prod (deliveries (scaleEcon c e)).orders ↔
      addUseClose p e.prod (deliveries e).orders) :
    distribute (scaleParams c p) (scaleEcon c e) = (distribute p e).mapAll (scaleEcon c) := by
  unfold distribute
  have hskip : distributeSkip (scaleEcon c e) = (distributeSkip e).mapAll (scaleEcon c) := by
    unfold distributeSkip
    rw [u_deliveries c hc]
    simp only [Outcome.mapAll]
    congr 1
    exact u_distributeFinish c e _ _
  have hupd : distributeUpdate (scaleParams c p) (scaleEcon c e)
      = (distributeUpdate p e).mapAll (scaleEcon c) := by
    unfold distributeUpdate
    simp only
    rw [u_deliveries c hc]
    have ho : (scaleDelivered c (deliveries e)).orders = fun i j => (deliveries e).orders i j * c := rfl
    rw [ho, u_stockUpdated]
    by_cases hn : stockNegative p (stockUpdated p e (deliveries e).orders)
    · rw [if_pos hn, if_pos ((u_stockNegative p c hc _).2 hn)]; rfl
    · rw [if_neg hn, if_neg (fun h => hn ((u_stockNegative p c hc _).1 h))]
      simp only [Outcome.mapAll]
      congr 1
      exact u_distributeFinish c e _ _
  by_cases h : addUseClose p e.prod (deliveries e).orders
  · rw [if_pos h, if_pos (hclose.2 h)]; exact hskip
  · rw [if_neg h, if_neg (fun h' => h (hclose.1 h'))]; exact hupd

/-! #### orders -/

theorem u_ordersNegative (c : Rat) (hc : 0 < c) (o : Ind d → Ind d → Rat) :
    ordersNegative (fun i j => o i j * c) ↔ ordersNegative o := by
  have h : ∀ x : Rat, x * c < 0 ↔ x < 0 := fun x =>
    ⟨fun hx => by by_contra hn; exact absurd (mul_nonneg (not_lt.1 hn) hc.le) (not_le.2 hx),
     fun hx => mul_neg_of_neg_of_pos hx hc⟩
  unfold ordersNegative
  simp only [h]

theorem u_ordersFinish (p : Params d) (c : Rat) (hc : 0 < c) (e : Econ d) (gap : Fin d.n → Ind d → Rat) :
    ordersFinish (scaleParams c p) (scaleEcon c e) (fun s f => gap s f * c)
      = (ordersFinish p e gap).mapAll (scaleEcon c) := by
  unfold ordersFinish
  have ho : ordersFrom (scaleParams c p) (scaleEcon c e) (fun s f => gap s f * c)
      = fun i j => ordersFrom p e gap i j * c := by
    funext i j; exact orders_homogeneous_same_branch p e c hc gap i j
  simp only [ho]
  have hrow : rowTot (fun i j => ordersFrom p e gap i j * c) (scaleEcon c e).fd (scaleEcon c e).reb
      = fun i => rowTot (ordersFrom p e gap) e.fd e.reb i * c := by
    funext i; exact rowTot_scale c _ e.fd e.reb i
  rw [hrow]
  by_cases hn : ordersNegative (ordersFrom p e gap)
  · rw [if_pos hn, if_pos ((u_ordersNegative c hc _).2 hn)]; rfl
  · rw [if_neg hn, if_neg (fun h => hn ((u_ordersNegative c hc _).1 h))]; rfl

theorem u_orders (p : Params d) (c : Rat) (hc : 0 < c) (e : Econ d)
    (hclose : ordersClose (scaleParams c p) (scaleEcon c e).stock
        (xOpt (scaleParams c p) (scaleEcon c e).dTot e.deltaTot e.alpha) ↔
      ordersClose p e.stock (xOpt p e.dTot e.deltaTot e.alpha)) :
    orders (scaleParams c p) (scaleEcon c e) = (orders p e).mapAll (scaleEcon c) := by
  unfold orders
  show (if capNegative (scaleParams c p) e.deltaTot e.alpha then _ else
    if ordersClose (scaleParams c p) (scaleEcon c e).stock
        (xOpt (scaleParams c p) (scaleEcon c e).dTot e.deltaTot e.alpha) then _ else _) = _
  by_cases hn : capNegative p e.deltaTot e.alpha
  · rw [if_pos hn, if_pos ((u_capNegative p c hc _ _).2 hn)]; rfl
  · rw [if_neg hn, if_neg (fun h => hn ((u_capNegative p c hc _ _).1 h))]
    by_cases h : ordersClose p e.stock (xOpt p e.dTot e.deltaTot e.alpha)
    · rw [if_pos h, if_pos (hclose.2 h)]
      unfold ordersClosed
      have hz : (fun s f => (fun _ _ => 0 : Fin d.n → Ind d → Rat) s f * c) = fun _ _ => (0 : Rat) := by
        funext _ _; simp
      have h0 := u_ordersFinish p c hc e (fun _ _ => 0)
      rw [hz] at h0
      exact h0
    · rw [if_neg h, if_neg (fun h' => h (hclose.1 h'))]
      unfold ordersOpen
      have hg : gapOpen (scaleParams c p) (scaleEcon c e).stock
          (xOpt (scaleParams c p) (scaleEcon c e).dTot (scaleEcon c e).deltaTot (scaleEcon c e).alpha)
          = fun s f => gapOpen p e.stock (xOpt p e.dTot e.deltaTot e.alpha) s f * c := by
        funext s f; exact gapOpen_homogeneous p e c hc s f
      rw [hg]
      exact u_ordersFinish p c hc e _

/-! #### the ledgers: production received -/

theorem u_settle (c : Rat) (hc : 0 < c) (p k : Nat)
    (hr : ∀ x, roundDec (p - k) (x * c) = roundDec p x * c) (rem got : Rat) :
    settle (p - k) (rem * c) (got * c) = settle p rem got * c := by
  unfold settle
  rw [← sub_mul, hr, pos_scale _ _ hc]

theorem u_allZeroII (c : Rat) (hc : c ≠ 0) (f : Ind d → Ind d → Rat) :
    allZeroII (fun i j => f i j * c) ↔ allZeroII f := by
  unfold allZeroII; simp only [mul_eq_zero, hc, or_false]

theorem u_allZeroIF (c : Rat) (hc : c ≠ 0) (f : Ind d → Fd d → Rat) :
    allZeroIF (fun i j => f i j * c) ↔ allZeroIF f := by
  unfold allZeroIF; simp only [mul_eq_zero, hc, or_false]

theorem u_allZeroI (c : Rat) (hc : c ≠ 0) (f : Ind d → Rat) :
    allZeroI (fun i => f i * c) ↔ allZeroI f := by
  unfold allZeroI; simp only [mul_eq_zero, hc, or_false]

theorem u_allZeroF (c : Rat) (hc : c ≠ 0) (f : Fd d → Rat) :
    allZeroF (fun i => f i * c) ↔ allZeroF f := by
  unfold allZeroF; simp only [mul_eq_zero, hc, or_false]

theorem u_dmgOfRemI (c factor : Rat) (rem : Ind d → Ind d → Rat) :
    dmgOfRemI factor (fun i j => rem i j * c) = fun j => dmgOfRemI factor rem j * c := by
  funext j
  unfold dmgOfRemI
  rw [sumInd_mul_const]; ring

theorem u_dmgOfRemH (c factor : Rat) (rem : Ind d → Fd d → Rat) :
    dmgOfRemH factor (fun i j => rem i j * c) = fun j => dmgOfRemH factor rem j * c := by
  funext j
  unfold dmgOfRemH
  rw [sumInd_mul_const]; ring

theorem u_recvI (c : Rat) (hc : 0 < c) (k : Nat) (tr : Tracker d) (got : RebBlock d)
    (h : tr.remI = none ∨ ∀ x, roundDec (tr.prec - k) (x * c) = roundDec tr.prec x * c) :
    recvI (scaleTracker c k tr) (scaleBlock c got) = scaleTracker c k (recvI tr got) := by
  rcases tr with ⟨kind, occ, dur, tau, factor, prec, cI, cH, status, dmg0, dmg, hdmg0, hdmg, arb0, arb,
    remI, remH, rid⟩
  rcases remI with _ | rem
  · rfl
  · have hr : ∀ x, roundDec (prec - k) (x * c) = roundDec prec x * c := by
      rcases h with h | h
      · cases h
      · exact h
    have hs : (fun i j => settle (prec - k) (rem i j * c) ((scaleBlock c got).indus i j))
        = fun i j => settle prec (rem i j) (got.indus i j) * c := by
      funext i j; exact u_settle c hc prec k hr _ _
    simp only [recvI, scaleTracker, Option.map_some, hs, u_dmgOfRemI]
    by_cases hz : allZeroII (fun i j => settle prec (rem i j) (got.indus i j))
    · rw [if_pos hz, if_pos ((u_allZeroII c hc.ne' _).2 hz)]; rfl
    · rw [if_neg hz, if_neg (fun h' => hz ((u_allZeroII c hc.ne' _).1 h'))]; rfl

theorem u_recvH (c : Rat) (hc : 0 < c) (k prec : Nat) (factor : Rat) (tr : Tracker d) (got : RebBlock d)
    (h : tr.remH = none ∨ ∀ x, roundDec (prec - k) (x * c) = roundDec prec x * c) :
    recvH (prec - k) factor (scaleTracker c k tr) (scaleBlock c got)
      = scaleTracker c k (recvH prec factor tr got) := by
  rcases tr with ⟨kind, occ, dur, tau, factor', prec', cI, cH, status, dmg0, dmg, hdmg0, hdmg, arb0, arb,
    remI, remH, rid⟩
  rcases remH with _ | rem
  · rfl
  · have hr : ∀ x, roundDec (prec - k) (x * c) = roundDec prec x * c := by
      rcases h with h | h
      · cases h
      · exact h
    have hs : (fun i j => settle (prec - k) (rem i j * c) ((scaleBlock c got).house i j))
        = fun i j => settle prec (rem i j) (got.house i j) * c := by
      funext i j; exact u_settle c hc prec k hr _ _
    simp only [recvH, scaleTracker, Option.map_some, hs, u_dmgOfRemH]
    by_cases hz : allZeroIF (fun i j => settle prec (rem i j) (got.house i j))
    · rw [if_pos hz, if_pos ((u_allZeroIF c hc.ne' _).2 hz)]; rfl
    · rw [if_neg hz, if_neg (fun h' => hz ((u_allZeroIF c hc.ne' _).1 h'))]; rfl

theorem u_finishIf (c : Rat) (k : Nat) (tr : Tracker d) :
    finishIf (scaleTracker c k tr) = scaleTracker c k (finishIf tr) := by
  unfold finishIf
  show (if (tr.dmg.map _).isNone ∧ (tr.hdmg.map _).isNone then _ else _) = _
  simp only [Option.isNone_map]
  split_ifs <;> rfl

theorem u_receive (c : Rat) (hc : 0 < c) (k : Nat) (tr : Tracker d) (got : RebBlock d)
    (h : UnitOK c k tr) :
    receive (scaleTracker c k tr) (scaleBlock c got) = scaleTracker c k (receive tr got) := by
  rw [receive_eq, receive_eq]
  have hI : tr.remI = none ∨ ∀ x, roundDec (tr.prec - k) (x * c) = roundDec tr.prec x * c := by
    rcases h with h | h
    · exact Or.inl h.2.2.2.2.1
    · exact Or.inr h.2
  have hH : (recvI tr got).remH = none ∨ ∀ x, roundDec (tr.prec - k) (x * c) = roundDec tr.prec x * c := by
    rw [(recvI_facts tr got).2.2.2.1]
    rcases h with h | h
    · exact Or.inl h.2.2.2.2.2
    · exact Or.inr h.2
  show finishIf (recvH (tr.prec - k) tr.factor (recvI (scaleTracker c k tr) (scaleBlock c got))
    (scaleBlock c got)) = _
  rw [u_recvI c hc k tr got hI, u_recvH c hc k tr.prec tr.factor _ got hH, u_finishIf]

theorem u_gotOfId (c : Rat) (rp : List (RebBlock d)) (id : Nat) :
    gotOfId (rp.map (scaleBlock c)) id = scaleBlock c (gotOfId rp id) := by
  unfold gotOfId
  conv_lhs => rw [← u_zeroBlock (d := d) c]
  simp [List.getD_eq_getElem?_getD, List.getElem?_map]

theorem u_receiveOne (c : Rat) (hc : 0 < c) (k : Nat) (rp : List (RebBlock d)) (tr : Tracker d)
    (h : UnitOK c k tr) :
    receiveOne (rp.map (scaleBlock c)) (scaleTracker c k tr) = scaleTracker c k (receiveOne rp tr) := by
  unfold receiveOne
  show (if tr.status = .rebuilding then (match tr.rid with
      | some id => receive (scaleTracker c k tr) (gotOfId (rp.map (scaleBlock c)) id)
      | none => scaleTracker c k tr) else scaleTracker c k tr) = _
  split_ifs
  · cases tr.rid
    · rfl
    · simp only [u_gotOfId]
      exact u_receive c hc k tr _ h
  · rfl

theorem u_releasedIds (c : Rat) (k : Nat) (trs : List (Tracker d)) :
    releasedIds (trs.map (scaleTracker c k)) = releasedIds trs := by
  unfold releasedIds
  rw [List.filterMap_map]
  rfl

theorem u_compactIds (c : Rat) (k : Nat) (trs : List (Tracker d)) :
    compactIds (trs.map (scaleTracker c k)) = (compactIds trs).map (scaleTracker c k) := by
  unfold compactIds
  simp only [u_releasedIds, List.map_map]
  apply List.map_congr_left
  intro tr _
  show (if tr.status = .finished then _ else match tr.rid with
      | some id => _
      | none => _) = scaleTracker c k (if tr.status = .finished then _ else match tr.rid with
      | some id => _
      | none => _)
  split_ifs
  · rfl
  · cases tr.rid <;> rfl

/-! #### the ledgers: recovery -/

theorem u_recovCap (c : Rat) (hc : 0 < c) (k : Nat) (el : Int) (tr : Tracker d) (h : UnitOK c k tr) :
    recovCap el (scaleTracker c k tr) = scaleTracker c k (recovCap el tr) := by
  unfold recovCap
  show (if tr.kind = .recover then _ else _) = _
  by_cases hk : tr.kind = .recover
  · rw [if_pos hk, if_pos hk]
    rcases h with h | ⟨⟨hI, hH⟩, hr⟩
    · rw [h.1] at hk; cases hk
    · rcases tr with ⟨kind, occ, dur, tau, factor, prec, cI, cH, status, dmg0, dmg, hdmg0, hdmg, arb0, arb,
        remI, remH, rid⟩
      simp only at hI hH hr
      have h1 : roundI (prec - k) (cI el fun i => dmg0 i * c) = fun i => roundI prec (cI el dmg0) i * c := by
        funext i
        unfold roundI
        rw [hI, hr]
      have h2 : ∀ h0 : Fd d → Rat,
          roundF (prec - k) (cH el fun x => h0 x * c) = fun x => roundF prec (cH el h0) x * c := by
        intro h0
        funext x
        unfold roundF
        rw [hH, hr]
      simp only [scaleTracker]
      congr 1
      · cases dmg with
        | none => rfl
        | some f =>
          simp only [Option.map_some, h1]
          by_cases hz : allZeroI (roundI prec (cI el dmg0))
          · rw [if_pos hz, if_pos ((u_allZeroI c hc.ne' _).2 hz)]; rfl
          · rw [if_neg hz, if_neg (fun h' => hz ((u_allZeroI c hc.ne' _).1 h'))]; rfl
      · cases hdmg with
        | none => rfl
        | some f =>
          cases hdmg0 with
          | none => rfl
          | some h0 =>
            simp only [Option.map_some, h2]
            by_cases hz : allZeroF (roundF prec (cH el h0))
            · rw [if_pos hz, if_pos ((u_allZeroF c hc.ne' _).2 hz)]; rfl
            · rw [if_neg hz, if_neg (fun h' => hz ((u_allZeroF c hc.ne' _).1 h'))]; rfl
  · rw [if_neg hk, if_neg hk]

theorem u_recovArb (c : Rat) (k : Nat) (el : Int) (tr : Tracker d) :
    recovArb el (scaleTracker c k tr) = scaleTracker c k (recovArb el tr) := rfl

theorem u_recovFinish (c : Rat) (k : Nat) (tr : Tracker d) :
    recovFinish (scaleTracker c k tr) = scaleTracker c k (recovFinish tr) := by
  unfold recovFinish
  show (if (tr.dmg.map _).isNone ∧ (tr.hdmg.map _).isNone ∧ tr.arb.isNone then _ else _) = _
  simp only [Option.isNone_map]
  split_ifs <;> rfl

theorem u_recoverOne (c : Rat) (hc : 0 < c) (k t : Nat) (tr : Tracker d) (h : UnitOK c k tr) :
    recoverOne t (scaleTracker c k tr) = scaleTracker c k (recoverOne t tr) := by
  rw [recoverOne_eq, recoverOne_eq]
  show (if tr.status ≠ .recovering then _ else
    recovFinish (recovArb ((t : Int) - ((tr.occ : Int) + (tr.dur : Int)))
      (recovCap ((t : Int) - ((tr.occ : Int) + (tr.dur : Int))) (scaleTracker c k tr)))) = _
  by_cases hs : tr.status ≠ .recovering
  · rw [if_pos hs, if_pos hs]
  · rw [if_neg hs, if_neg hs, u_recovCap c hc k _ tr h, u_recovArb, u_recovFinish]

/-! #### what the tracker operations keep: decimals, curves, absence of monetary ledgers -/

/-- `b` has the decimals and the curves of `a`, and no monetary ledger if `a` has none -/
def USame (a b : Tracker d) : Prop :=
  b.prec = a.prec ∧ b.curveI = a.curveI ∧ b.curveH = a.curveH ∧ (Dimensionless a → Dimensionless b)

theorem USame.refl (a : Tracker d) : USame a a := ⟨rfl, rfl, rfl, id⟩

theorem USame.trans {a b c : Tracker d} (h1 : USame a b) (h2 : USame b c) : USame a c :=
  ⟨h2.1.trans h1.1, h2.2.1.trans h1.2.1, h2.2.2.1.trans h1.2.2.1, fun h => h2.2.2.2 (h1.2.2.2 h)⟩

theorem USame.unitOK {c : Rat} {k : Nat} {a b : Tracker d} (h : USame a b) (ha : UnitOK c k a) :
    UnitOK c k b := by
  rcases ha with ha | ⟨⟨hI, hH⟩, hr⟩
  · exact Or.inl (h.2.2.2 ha)
  · right
    unfold CurveHomog
    rw [h.1, h.2.1, h.2.2.1]
    exact ⟨⟨hI, hH⟩, hr⟩

theorem USame.curveHomog {a b : Tracker d} (h : USame a b) (ha : CurveHomog a) : CurveHomog b := by
  unfold CurveHomog
  rw [h.2.1, h.2.2.1]
  exact ha

theorem u_same_status_rid (a : Tracker d) (s : Status) (r : Option Nat) :
    USame a { a with status := s, rid := r } := ⟨rfl, rfl, rfl, id⟩

theorem u_same_wake (t dt : Nat) (a : Tracker d) : USame a (wake t dt a) := by
  unfold wake
  split_ifs
  · exact ⟨rfl, rfl, rfl, id⟩
  · exact USame.refl a

theorem u_same_advance (t : Nat) (trs : List (Tracker d)) (nb : Nat) :
    ∀ b ∈ (advance t trs nb).1, ∃ a ∈ trs, USame a b := by
  apply advance_forall t (fun b => ∃ a ∈ trs, USame a b)
  · rintro tr s r ⟨a, ha, hab⟩
    exact ⟨a, ha, hab.trans (u_same_status_rid tr s r)⟩
  · intro tr htr
    exact ⟨tr, htr, USame.refl tr⟩

theorem u_same_lifecycle (t dt : Nat) (trs : List (Tracker d)) (nb : Nat) :
    ∀ b ∈ (lifecycle t dt trs nb).1, ∃ a ∈ trs, USame a b := by
  intro b hb
  unfold lifecycle at hb
  obtain ⟨w, hw, hwb⟩ := u_same_advance t _ nb b hb
  obtain ⟨a, ha, rfl⟩ := List.mem_map.mp hw
  exact ⟨a, ha, (u_same_wake t dt a).trans hwb⟩

theorem u_same_recvI (a : Tracker d) (got : RebBlock d) : USame a (recvI a got) := by
  unfold recvI
  split
  · exact USame.refl a
  · next rem hrem =>
    split_ifs
    · exact ⟨rfl, rfl, rfl, fun h => by rw [h.2.2.2.2.1] at hrem; cases hrem⟩
    · exact ⟨rfl, rfl, rfl, fun h => by rw [h.2.2.2.2.1] at hrem; cases hrem⟩

theorem u_same_recvH (prec : Nat) (factor : Rat) (a : Tracker d) (got : RebBlock d) :
    USame a (recvH prec factor a got) := by
  unfold recvH
  split
  · exact USame.refl a
  · next rem hrem =>
    split_ifs
    · exact ⟨rfl, rfl, rfl, fun h => by rw [h.2.2.2.2.2] at hrem; cases hrem⟩
    · exact ⟨rfl, rfl, rfl, fun h => by rw [h.2.2.2.2.2] at hrem; cases hrem⟩

theorem u_same_finishIf (a : Tracker d) : USame a (finishIf a) := by
  unfold finishIf
  split_ifs
  · exact ⟨rfl, rfl, rfl, id⟩
  · exact USame.refl a

theorem u_same_receiveOne (rp : List (RebBlock d)) (a : Tracker d) : USame a (receiveOne rp a) := by
  unfold receiveOne
  split_ifs
  · split
    · rw [receive_eq]
      exact ((u_same_recvI a _).trans (u_same_recvH _ _ _ _)).trans (u_same_finishIf _)
    · exact USame.refl a
  · exact USame.refl a

theorem u_same_compact1 (rel : List Nat) (a : Tracker d) : USame a (compact1 rel a) := by
  unfold compact1
  split_ifs
  · exact ⟨rfl, rfl, rfl, id⟩
  · split
    · exact ⟨rfl, rfl, rfl, id⟩
    · exact USame.refl a

theorem u_same_recoverOne (t : Nat) (a : Tracker d) : USame a (recoverOne t a) := by
  rw [recoverOne_eq]
  split_ifs
  · exact USame.refl a
  · generalize ((t : Int) - ((a.occ : Int) + (a.dur : Int))) = el
    have h1 : USame a (recovCap el a) := by
      unfold recovCap
      by_cases hk : a.kind = .recover
      · rw [if_pos hk]; exact ⟨rfl, rfl, rfl, fun h => by rw [h.1] at hk; cases hk⟩
      · rw [if_neg hk]; exact USame.refl a
    have h2 : USame (recovCap el a) (recovArb el (recovCap el a)) := ⟨rfl, rfl, rfl, id⟩
    have h3 : USame (recovArb el (recovCap el a)) (recovFinish (recovArb el (recovCap el a))) := by
      unfold recovFinish
      split_ifs
      · exact ⟨rfl, rfl, rfl, id⟩
      · exact USame.refl _
    exact (h1.trans h2).trans h3

theorem u_same_receiveAll (rp : List (RebBlock d)) (trs : List (Tracker d)) :
    ∀ b ∈ receiveAll rp trs, ∃ a ∈ trs, USame a b := by
  intro b hb
  unfold receiveAll at hb
  rw [compactIds_eq] at hb
  obtain ⟨m, hm, rfl⟩ := List.mem_map.mp hb
  obtain ⟨a, ha, rfl⟩ := List.mem_map.mp hm
  exact ⟨a, ha, (u_same_receiveOne rp a).trans (u_same_compact1 _ _)⟩

theorem u_same_post (t : Nat) (rp : List (RebBlock d)) (trs : List (Tracker d)) :
    ∀ b ∈ recoverAll t (receiveAll rp trs), ∃ a ∈ trs, USame a b := by
  intro b hb
  unfold recoverAll at hb
  obtain ⟨m, hm, rfl⟩ := List.mem_map.mp hb
  obtain ⟨a, ha, ham⟩ := u_same_receiveAll rp trs m hm
  exact ⟨a, ha, ham.trans (u_same_recoverOne t m)⟩

/-- every tracker after an `ok` step descends from a tracker before it -/
theorem u_same_step (s s' : Sim d) (h : nextStep s = .ok s') :
    ∀ b ∈ s'.trackers, ∃ a ∈ s.trackers, USame a b := by
  obtain ⟨s1, rp, h1, htr, _, _, _⟩ := nextStep_trackers s s' h
  obtain ⟨e1, _, _, _⟩ := eventsPre_trackers s s1 h1
  intro b hb
  rw [htr] at hb
  obtain ⟨m, hm, hmb⟩ := u_same_post _ _ _ b hb
  rw [e1] at hm
  obtain ⟨a, ha, ham⟩ := u_same_lifecycle _ _ _ _ m hm
  exact ⟨a, ha, ham.trans hmb⟩

/-! #### the ledger phase -/

theorem u_receiveAll (c : Rat) (hc : 0 < c) (k : Nat) (rp : List (RebBlock d)) (trs : List (Tracker d))
    (h : ∀ tr ∈ trs, UnitOK c k tr) :
    receiveAll (rp.map (scaleBlock c)) (trs.map (scaleTracker c k))
      = (receiveAll rp trs).map (scaleTracker c k) := by
  unfold receiveAll
  rw [List.map_map]
  have : trs.map (receiveOne (rp.map (scaleBlock c)) ∘ scaleTracker c k)
      = (trs.map (receiveOne rp)).map (scaleTracker c k) := by
    rw [List.map_map]
    apply List.map_congr_left
    intro tr htr
    exact u_receiveOne c hc k rp tr (h tr htr)
  rw [this, u_compactIds]

theorem u_recoverAll (c : Rat) (hc : 0 < c) (k t : Nat) (trs : List (Tracker d))
    (h : ∀ tr ∈ trs, UnitOK c k tr) :
    recoverAll t (trs.map (scaleTracker c k)) = (recoverAll t trs).map (scaleTracker c k) := by
  unfold recoverAll
  rw [List.map_map, List.map_map]
  apply List.map_congr_left
  intro tr htr
  exact u_recoverOne c hc k t tr (h tr htr)

theorem u_eventsPost (c : Rat) (hc : 0 < c) (k : Nat) (s : Sim d)
    (h : ∀ tr ∈ s.trackers, UnitOK c k tr) :
    eventsPost (scaleSim c k s) = scaleSim c k (eventsPost s) := by
  unfold eventsPost
  have h2 : ∀ tr ∈ receiveAll s.econ.rebProd s.trackers, UnitOK c k tr := by
    intro b hb
    obtain ⟨a, ha, hab⟩ := u_same_receiveAll _ _ b hb
    exact hab.unitOK (h a ha)
  have h3 : recoverAll s.t (receiveAll (s.econ.rebProd.map (scaleBlock c)) (s.trackers.map (scaleTracker c k)))
      = (recoverAll s.t (receiveAll s.econ.rebProd s.trackers)).map (scaleTracker c k) := by
    rw [u_receiveAll c hc k _ _ h, u_recoverAll c hc k _ _ h2]
  have hrp : (scaleEcon c s.econ).rebProd = s.econ.rebProd.map (scaleBlock c) := rfl
  simp only [scaleSim, hrp, h3]

/-! #### the whole step -/

theorem u_stepAfter (c : Rat) (hc : 0 < c) (k : Nat) (e1 : Econ d) (s1 : Sim d)
    (hok : ∀ tr ∈ s1.trackers, UnitOK c k tr)
    (H1 : ∀ e2, productionPhase s1.p e1 = .ok e2 →
      (addUseClose (scaleParams c s1.p) (scaleEcon c e2).prod (deliveries (scaleEcon c e2)).orders ↔
        addUseClose s1.p e2.prod (deliveries e2).orders))
    (H2 : ∀ e2 e3, productionPhase s1.p e1 = .ok e2 → distribute s1.p e2 = .ok e3 →
      ∀ s3, s3 = eventsPost { s1 with econ := e3 } →
      (ordersClose (scaleParams c s3.p) (scaleEcon c s3.econ).stock
          (xOpt (scaleParams c s3.p) (scaleEcon c s3.econ).dTot s3.econ.deltaTot s3.econ.alpha) ↔
        ordersClose s3.p s3.econ.stock (xOpt s3.p s3.econ.dTot s3.econ.deltaTot s3.econ.alpha))) :
    stepAfter (scaleEcon c e1) (scaleSim c k s1) = (stepAfter e1 s1).mapAll (scaleSim c k) := by
  unfold stepAfter
  show (productionPhase (scaleParams c s1.p) (scaleEcon c e1)).bind _ = _
  rw [u_productionPhase s1.p c hc e1]
  cases hp : productionPhase s1.p e1 with
  | ok e2 =>
    simp only [Outcome.bind, Outcome.mapAll]
    show (match distribute (scaleParams c s1.p) (scaleEcon c e2) with
      | .crashed e3 => _
      | .rejected => _
      | .internal => _
      | .ok e3 => _) = _
    rw [u_distribute s1.p c hc e2 (H1 e2 hp)]
    cases hd : distribute s1.p e2 with
    | ok e3 =>
      simp only [Outcome.mapAll]
      have hpost : eventsPost { scaleSim c k s1 with econ := scaleEcon c e3 }
          = scaleSim c k (eventsPost { s1 with econ := e3 }) :=
        u_eventsPost c hc k { s1 with econ := e3 } hok
      rw [hpost]
      have hcl := H2 e2 e3 hp hd _ rfl
      generalize eventsPost { s1 with econ := e3 } = s3 at hcl ⊢
      show (orders (scaleParams c s3.p) (scaleEcon c s3.econ)).bind _ = _
      rw [u_orders s3.p c hc s3.econ hcl]
      cases orders s3.p s3.econ with
      | ok e4 => rfl
      | crashed _ => rfl
      | rejected => rfl
      | internal => rfl
    | crashed _ => rfl
    | rejected => rfl
    | internal => rfl
  | crashed _ => rfl
  | rejected => rfl
  | internal => rfl

/-- ONE STEP, generic: positive factor, every tracker either without monetary ledger or with a
    homogeneous curve and a rounding that follows the unit -/
theorem u_step (c : Rat) (hc : 0 < c) (k : Nat) (s : Sim d)
    (hok : ∀ tr ∈ s.trackers, UnitOK c k tr) (hclose : CloseAgree c s) :
    nextStep (scaleSim c k s) = (nextStep s).mapOk (scaleSim c k) := by
  rw [mapOk_eq, nextStep_eq, nextStep_eq, u_eventsPre c hc k s]
  cases hpre : eventsPre s with
  | ok s1 =>
    simp only [Outcome.mapAll, Outcome.bind]
    have hok1 : ∀ tr ∈ s1.trackers, UnitOK c k tr := by
      intro b hb
      rw [(eventsPre_trackers s s1 hpre).1] at hb
      obtain ⟨a, ha, hab⟩ := u_same_lifecycle _ _ _ _ b hb
      exact hab.unitOK (hok a ha)
    have he : (if 1 < (scaleSim c k s1).t then
          overprodPhase (scaleSim c k s1).p (scaleSim c k s1).econ else (scaleSim c k s1).econ)
        = scaleEcon c (if 1 < s1.t then overprodPhase s1.p s1.econ else s1.econ) := by
      show (if 1 < s1.t then overprodPhase (scaleParams c s1.p) (scaleEcon c s1.econ)
        else scaleEcon c s1.econ) = _
      split_ifs
      · exact u_overprodPhase s1.p c hc s1.econ
      · rfl
    rw [he]
    apply u_stepAfter c hc k _ s1 hok1
    · intro e2 hp
      apply hclose.1 s1 e2
      unfold preDistribute
      rw [hpre]
      simp only [hp]
    · intro e2 e3 hp hd s3 hs3
      apply hclose.2 s3
      unfold preOrders preDistribute
      rw [hpre]
      simp only [hp, hd, hs3]
  | crashed _ => rfl
  | rejected => rfl
  | internal => rfl

theorem u_unitOK_step (c : Rat) (k : Nat) (s s' : Sim d) (h : nextStep s = .ok s')
    (hok : ∀ tr ∈ s.trackers, UnitOK c k tr) : ∀ tr ∈ s'.trackers, UnitOK c k tr := by
  intro b hb
  obtain ⟨a, ha, hab⟩ := u_same_step s s' h b hb
  exact hab.unitOK (hok a ha)

/-- THE RUN, generic -/
theorem u_run (c : Rat) (hc : 0 < c) (k n : Nat) (s : Sim d)
    (hok : ∀ tr ∈ s.trackers, UnitOK c k tr)
    (hclose : ∀ i s', i < n → runN i s = some s' → CloseAgree c s') :
    runN n (scaleSim c k s) = (runN n s).map (scaleSim c k) := by
  induction n generalizing s with
  | zero => rfl
  | succ n ih =>
    simp only [runN]
    rw [u_step c hc k s hok (hclose 0 s (Nat.succ_pos n) rfl)]
    cases hn : nextStep s with
    | ok s' =>
      simp only [Outcome.mapOk]
      apply ih s' (u_unitOK_step c k s s' hn hok)
      intro i s'' hi hr
      apply hclose (i + 1) s'' (Nat.succ_lt_succ hi)
      simp only [runN, hn]
      exact hr
    | crashed _ => rfl
    | rejected => rfl
    | internal => rfl

/-! ### construction: the table and the events in the smaller unit -/

def scaleTable (c : Rat) (tb : Table d) : Table d :=
  { Z := fun i j => tb.Z i j * c, Y := fun i x => tb.Y i x * c, x := fun f => tb.x f * c }

def scaleConfig (c : Rat) (cfg : Config d) : Config d :=
  { cfg with capital := match cfg.capital with
      | .vector kv => .vector fun f => kv f * c
      | other => other }

theorem u_zC (c : Rat) (tb : Table d) (s : Fin d.n) (j : Ind d) :
    zC (scaleTable c tb) s j = zC tb s j * c := by
  unfold zC scaleTable
  exact sumFin_mul_const _ _ _

theorem u_yC (c : Rat) (tb : Table d) (s : Fin d.n) (x : Fd d) :
    yC (scaleTable c tb) s x = yC tb s x * c := by
  unfold yC scaleTable
  exact sumFin_mul_const _ _ _

theorem u_zShare (c : Rat) (hc : c ≠ 0) (tb : Table d) : zShare (scaleTable c tb) = zShare tb := by
  funext i j
  unfold zShare
  rw [u_zC]
  exact safeDiv_scale _ _ _ _ hc

theorem u_coefA (c : Rat) (hc : c ≠ 0) (tb : Table d) (i j : Ind d) :
    coefA (scaleTable c tb) i j = coefA tb i j := by
  unfold coefA
  show (if tb.x j * c = 0 then 0 else tb.Z i j * c * (1 / (tb.x j * c))) = _
  by_cases hx : tb.x j = 0
  · simp [hx]
  · rw [if_neg hx, if_neg (mul_ne_zero hx hc)]
    field_simp

theorem u_techCoef (c : Rat) (hc : c ≠ 0) (tb : Table d) : techCoef (scaleTable c tb) = techCoef tb := by
  funext s f
  unfold techCoef
  simp only [u_coefA c hc]

theorem u_thrOf (c : Rat) (hc : 0 < c) (tb : Table d) (cfg : Config d) :
    thrOf (scaleTable c tb) (scaleConfig c cfg) = thrOf tb cfg := by
  funext s f
  unfold thrOf
  rw [u_zC]
  have hst : steply (scaleConfig c cfg) = steply cfg := rfl
  have hx : (scaleTable c tb).x f = tb.x f * c := rfl
  rw [hst, hx]
  have : tb.x f * c * steply cfg * techThreshold = tb.x f * steply cfg * techThreshold * c := by ring
  rw [this]
  simp only [mul_lt_mul_iff_of_pos_right hc]

theorem u_valueAdded (c : Rat) (hc : 0 < c) (tb : Table d) (f : Ind d) :
    valueAdded (scaleTable c tb) f = valueAdded tb f * c := by
  unfold valueAdded
  have h : (scaleTable c tb).x f - sumInd d (fun i => (scaleTable c tb).Z i f)
      = (tb.x f - sumInd d (fun i => tb.Z i f)) * c := by
    show tb.x f * c - sumInd d (fun i => tb.Z i f * c) = _
    rw [sumInd_mul_const]; ring
  simp only [h]
  have := pos_scale (tb.x f - sumInd d (fun i => tb.Z i f)) c hc
  unfold pos at this
  exact this

theorem u_capitalOf (c : Rat) (hc : 0 < c) (tb : Table d) (cfg : Config d) (f : Ind d) :
    capitalOf (scaleTable c tb) (scaleConfig c cfg) f = capitalOf tb cfg f * c := by
  unfold capitalOf scaleConfig
  cases cfg.capital with
  | default => simp only [u_valueAdded c hc]; ring
  | ratio r => simp only [u_valueAdded c hc]; ring
  | vector kv => rfl

theorem u_mkParams (c : Rat) (hc : 0 < c) (tb : Table d) (cfg : Config d) :
    mkParams (scaleTable c tb) (scaleConfig c cfg) = scaleParams c (mkParams tb cfg) := by
  have hst : steply (scaleConfig c cfg) = steply cfg := rfl
  have hK : capitalOf (scaleTable c tb) (scaleConfig c cfg) = fun f => capitalOf tb cfg f * c := by
    funext f; exact u_capitalOf c hc tb cfg f
  unfold mkParams scaleParams
  simp only [u_techCoef c hc.ne', u_thrOf c hc, u_zShare c hc.ne', hK, hst]
  simp only [Params.mk.injEq]
  refine ⟨?_, ?_, ?_, trivial, trivial, rfl, rfl, rfl, rfl, rfl, rfl, rfl, trivial, trivial⟩
  · funext f; show tb.x f * c * steply cfg = tb.x f * steply cfg * c; ring
  · funext i j; show tb.Z i j * c * steply cfg = tb.Z i j * steply cfg * c; ring
  · funext i j; show tb.Y i j * c * steply cfg = tb.Y i j * steply cfg * c; ring

theorem u_initEcon (c : Rat) (p : Params d) : initEcon (scaleParams c p) = scaleEcon c (initEcon p) := by
  have hrow : rowTot (scaleParams c p).Z0 (scaleParams c p).Y0 [] = fun f => rowTot p.Z0 p.Y0 [] f * c := by
    funext f
    exact rowTot_scale c p.Z0 p.Y0 [] f
  unfold initEcon
  rw [hrow]
  simp only [scaleEcon, Econ.mk.injEq, List.map_nil, and_true, true_and]
  refine ⟨rfl, rfl, ?_, rfl, rfl, ?_⟩
  · funext s f
    simp only [stock0, durOrZero, scaleParams]; ring
  · funext _; simp

/-! #### events -/

theorem u_convFactor (emf mf c : Rat) (hc : c ≠ 0) (hmf : mf ≠ 0) :
    convFactor emf (mf / c) = convFactor emf mf * c := by
  rw [conv_eq mf emf hmf, conv_eq (mf / c) emf (div_ne_zero hmf hc)]
  field_simp

theorem u_distI (c : Rat) (hc : c ≠ 0) (tb : Table d) (i j : Ind d) :
    distI (scaleTable c tb) i j = distI tb i j := by
  unfold distI
  rw [u_zC]
  exact mul_div_mul_right _ _ hc

theorem u_distH (c : Rat) (hc : c ≠ 0) (tb : Table d) (i : Ind d) (x : Fd d) :
    distH (scaleTable c tb) i x = distH tb i x := by
  unfold distH
  rw [u_yC]
  exact mul_div_mul_right _ _ hc

theorem u_rem0I (c : Rat) (hc : c ≠ 0) (tb : Table d) (ev : EventSpec d) (mf : Rat) (hmf : mf ≠ 0) :
    rem0I (scaleTable c tb) ev (mf / c) = fun i j => rem0I tb ev mf i j * c := by
  funext i j
  unfold rem0I
  rw [u_convFactor _ _ _ hc hmf, u_distI c hc]
  split_ifs
  · ring
  · simp

theorem u_rem0H (c : Rat) (hc : c ≠ 0) (tb : Table d) (ev : EventSpec d) (mf : Rat) (hmf : mf ≠ 0)
    (h : Fd d → Rat) :
    rem0H (scaleTable c tb) ev (mf / c) h = fun i x => rem0H tb ev mf h i x * c := by
  funext i x
  unfold rem0H
  rw [u_convFactor _ _ _ hc hmf, u_distH c hc]
  split_ifs
  · ring
  · simp

theorem u_trackerInit (c : Rat) (hc : c ≠ 0) (k L : Nat) (hk : k ≤ L) (tb : Table d) (mf : Rat)
    (hmf : mf ≠ 0) (ev : EventSpec d) :
    trackerInit (scaleTable c tb) (mf / c) (L - k) ev = scaleTracker c k (trackerInit tb mf L ev) := by
  have hp : precOf (L - k) = precOf L - k := by unfold precOf; omega
  have hcv := u_convFactor ev.emf mf c hc hmf
  have hI := u_rem0I c hc tb ev mf hmf
  have hH := u_rem0H c hc tb ev mf hmf
  unfold trackerInit scaleTracker
  simp only [hp, hcv, hI]
  rcases ev with ⟨kind, occ, dur, tau, impact, house, emf, shares, isReb, factor, curve, cI, cH⟩
  cases kind <;> cases house <;> simp [mul_assoc, hH]

theorem u_trackerInit_curveHomog (tb : Table d) (mf : Rat) (L : Nat) (ev : EventSpec d)
    (h : ev.curve ≠ .other) : CurveHomog (trackerInit tb mf L ev) := by
  unfold CurveHomog trackerInit
  simp only [if_neg h, cellwiseI, cellwiseF]
  constructor
  · intro c e D i; ring
  · intro c e D x; ring

/-! ### the closeness tests -/

theorem u_isClose_scale (a b c : Rat) (hc : 0 < c) :
    isClose (a * c) (b * c) ↔ rabs (a - b) * c ≤ atol + rtol * rabs b * c := by
  unfold isClose
  rw [← sub_mul, u_rabs_scale _ _ hc, u_rabs_scale _ _ hc, mul_assoc]

theorem u_isClose_decisive (a b c : Rat) (hc : 1 ≤ c) (h : Decisive a b) :
    isClose (a * c) (b * c) ↔ isClose a b := by
  have hc0 : 0 < c := lt_of_lt_of_le one_pos hc
  have hat : (0 : Rat) < atol := by unfold atol; norm_num
  rw [u_isClose_scale a b c hc0]
  unfold isClose
  rcases h with h | h
  · constructor
    · intro _; linarith
    · intro _
      have := mul_le_mul_of_nonneg_right h hc0.le
      linarith
  · constructor
    · intro h1
      exfalso
      have h2 := mul_lt_mul_of_pos_right h hc0
      have h3 : atol ≤ atol * c := le_mul_of_one_le_right hat.le hc
      nlinarith
    · intro h1
      exact absurd h1 (not_le.2 h)

theorem u_isClose_exact (a c : Rat) : isClose (a * c) (a * c) ↔ isClose a a := by
  have hat : (0 : Rat) < atol := by unfold atol; norm_num
  have hrt : (0 : Rat) < rtol := by unfold rtol; norm_num
  have h : ∀ x : Rat, isClose x x := by
    intro x
    unfold isClose
    rw [sub_self]
    have h0 : rabs 0 = 0 := by unfold rabs; simp
    rw [h0]
    have := mul_nonneg hrt.le (u_rabs_nonneg x)
    linarith
  exact ⟨fun _ => h a, fun _ => h (a * c)⟩

theorem u_addUseClose_iff (p : Params d) (c : Rat) (hc : 0 < c) (e : Econ d)
    (h : ∀ s r t,
      (isClose (stockAdd (deliveries e).orders s (r, t) * c) (stockUse p e.prod s (r, t) * c) ↔
        isClose (stockAdd (deliveries e).orders s (r, t)) (stockUse p e.prod s (r, t)))) :
    addUseClose (scaleParams c p) (scaleEcon c e).prod (deliveries (scaleEcon c e)).orders ↔
      addUseClose p e.prod (deliveries e).orders := by
  unfold addUseClose
  rw [u_deliveries c hc]
  have h1 : (scaleDelivered c (deliveries e)).orders = fun i j => (deliveries e).orders i j * c := rfl
  have h2 : (scaleEcon c e).prod = fun f => e.prod f * c := rfl
  simp only [h1, h2, u_stockAdd, u_stockUse, h]

theorem u_ordersClose_iff (p : Params d) (c : Rat) (hc : 0 < c) (e : Econ d)
    (h : ∀ s r t, (p.invDur s).isSome →
      (isClose (e.stock s (r, t) * c) (goal p (xOpt p e.dTot e.deltaTot e.alpha) s (r, t) * c) ↔
        isClose (e.stock s (r, t)) (goal p (xOpt p e.dTot e.deltaTot e.alpha) s (r, t)))) :
    ordersClose (scaleParams c p) (scaleEcon c e).stock
        (xOpt (scaleParams c p) (scaleEcon c e).dTot e.deltaTot e.alpha) ↔
      ordersClose p e.stock (xOpt p e.dTot e.deltaTot e.alpha) := by
  unfold ordersClose
  have h1 : (scaleEcon c e).stock = fun s f => e.stock s f * c := rfl
  have h2 : (scaleEcon c e).dTot = fun f => e.dTot f * c := rfl
  have h3 : ∀ s, (scaleParams c p).invDur s = p.invDur s := fun _ => rfl
  rw [h1, h2, xOpt_scale p c hc]
  simp only [goal_scale, h3]
  refine forall_congr' fun s => forall_congr' fun r => forall_congr' fun t => ?_
  have hs := h s r t
  cases hinv : p.invDur s with
  | none => simp
  | some v =>
    rw [hinv] at hs
    exact hs rfl

theorem u_isClose_not_unit_free :
    isClose (1 / 100000000) 0 ∧ ¬ isClose (1 / 100000000 * 1000000) (0 * 1000000) := by
  unfold isClose rabs atol rtol
  norm_num

end Boario
