/-
  The statements of `Simulation.next_step`, regenerated from the source on every run, are the phase
  order the model composes (`Boario.Sim.nextStep`) and the record layer assumes.  Serves C02, C14, C16.
-/
import Boario.GenTypes
import Boario.Gen.NextStep

namespace Boario.Records
open Boario.Gen

/-- the statements of `next_step` are exactly these, in this order (regenerated on every run): the
    event phase, the stocks record, overproduction from the third step on, the four demand records,
    production, the four production records, then — inside the crash handler — distribution, its two
    records and the ledger phases, then orders and the increment of the step counter -/
def expectedSkeleton : List Item := [
  .tryBegin,
  .defaultArg "min_steps_check",
  .defaultArg "min_failing_regions",
  .call "self._check_happening_events",
  .write "_inputs_evolution" "self._files_to_record" "_inputs_evolution" "self._vars_to_record" "self._write_stocks",
  .ifStepGt 1 "self.model.calc_overproduction",
  .write "_overproduction_evolution" "self._files_to_record" "_overproduction_evolution" "self._vars_to_record" "self._write_overproduction",
  .write "_rebuild_demand_evolution" "self._files_to_record" "_rebuild_demand_evolution" "self._vars_to_record" "self._write_rebuild_demand",
  .write "_final_demand_evolution" "self._files_to_record" "_final_demand_evolution" "self._vars_to_record" "self._write_final_demand",
  .write "_io_demand_evolution" "self._files_to_record" "_io_demand_evolution" "self._vars_to_record" "self._write_io_demand",
  .call "self.model.calc_production",
  .write "_limiting_inputs_evolution" "self._files_to_record" "_limiting_inputs_evolution" "self._vars_to_record" "self._write_limiting_stocks",
  .write "_production_evolution" "self._files_to_record" "_production_evolution" "self._vars_to_record" "self._write_production",
  .write "_production_cap_evolution" "self._files_to_record" "_production_cap_evolution" "self._vars_to_record" "self._write_production_max",
  .write "_regional_sectoral_productive_capital_destroyed_evolution" "self._files_to_record" "_regional_sectoral_productive_capital_destroyed_evolution" "self._vars_to_record" "self._write_productive_capital_lost",
  .tryBegin,
  .call "self.model.distribute_production",
  .write "_final_demand_unmet_evolution" "self._files_to_record" "_final_demand_unmet_evolution" "self._vars_to_record" "self._write_final_demand_unmet",
  .write "_rebuild_production_evolution" "self._files_to_record" "_rebuild_production_evolution" "self._vars_to_record" "self._write_rebuild_prod",
  .call "self.rebuild_events",
  .call "self.recover_events",
  .tryEnd "RuntimeError" "1",
  .call "self.model.calc_orders",
  .assign "n_checks",
  .equilibriumCheck,
  .incr "self.current_temporal_unit" "self.model.n_temporal_units_by_step",
  .ret "0",
  .tryEnd "Exception" "raise"
]

theorem phase_order : nextStepSkeleton = expectedSkeleton := by
  rfl

end Boario.Records
