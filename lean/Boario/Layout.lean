/-
  Boario.Layout — the flat column arithmetic of the combined demand matrix `_entire_demand`
  (concrete layer).  `N = n_regions·n_sectors`, `F = n_regions·n_fd_cat`, `nb = _n_rebuilding_events`.

      [0, N)                      intermediate orders
      [N, N+F)                    final demand
      [N+F, N+F + nb·N)           industrial rebuilding blocks, block `id` at N+F + id·N
      [N+F + nb·N, N+F + nb·(N+F)) household rebuilding blocks, block `id` at N+F + nb·N + id·F

  Python                                           | here
  -------------------------------------------------+------------------------------
  update_rebuild_demand (writer, relative to N+F)  | `writeIndus`, `writeHouse`
  rebuild_prod_indus_event / _house_event (reader) | `readIndus`, `readHouse`
  _chg_events_number (width)                       | `width`
-/
namespace Boario.Layout

/-- a half-open column range -/
structure Range where
  lo : Nat
  hi : Nat
  deriving DecidableEq, Repr

def Range.mem (r : Range) (c : Nat) : Prop := r.lo ≤ c ∧ c < r.hi
def Range.disjoint (a b : Range) : Prop := a.hi ≤ b.lo ∨ b.hi ≤ a.lo

/-- total width of the demand matrix -/
def width (N F nb : Nat) : Nat := N + F + (N + F) * nb

def ordersRange (N : Nat) : Range := ⟨0, N⟩
def fdRange (N F : Nat) : Range := ⟨N, N + F⟩

/-- columns (relative to the start of the rebuilding part) that `update_rebuild_demand` writes -/
def writeIndus (N id : Nat) : Range := ⟨N * id, N * (id + 1)⟩
def writeHouse (N F nb id : Nat) : Range := ⟨N * nb + F * id, N * nb + F * (id + 1)⟩

/-- columns (relative to the start of `rebuild_prod`) that `rebuild_prod_*_event(id)` reads -/
def readIndus (N id : Nat) : Range := ⟨N * id, N * (id + 1)⟩
def readHouse (N F nb id : Nat) : Range := ⟨N * nb + F * id, N * nb + F * (id + 1)⟩

/-- absolute position in the whole matrix -/
def absolute (N F : Nat) (r : Range) : Range := ⟨N + F + r.lo, N + F + r.hi⟩

end Boario.Layout
