/-
  Boario.Invariant — the well-formedness invariant of reachable states (definitions only; the
  preservation theorems are property theorems of C11 / C20).
-/
import Boario.Init

namespace Boario
variable {d : Dims}

/-- constants produced by the constructors from a non-negative table and an accepted configuration -/
structure ParamsOK (p : Params d) : Prop where
  x0_nonneg : ∀ f, 0 ≤ p.x0 f
  z_nonneg : ∀ i j, 0 ≤ p.Z0 i j
  y_nonneg : ∀ i c, 0 ≤ p.Y0 i c
  a_nonneg : ∀ s f, 0 ≤ p.a s f
  psi_nonneg : 0 ≤ p.psi
  rest_nonneg : ∀ s, 0 ≤ p.rest s
  dur_pos : ∀ s v, p.invDur s = some v → 0 < v
  zshare : ∀ i j, p.Zshare i j = safeDiv (p.Z0 i j) (sumFin d.m fun r => p.Z0 (r, i.2) j) 0
  one_le_base : 1 ≤ p.aBase
  base_le_max : p.aBase ≤ p.aMax
  tau_nonneg : 0 ≤ p.aTau
  tau_le_one : p.aTau ≤ 1

def BlockNonneg (b : RebBlock d) : Prop := (∀ i j, 0 ≤ b.indus i j) ∧ (∀ i c, 0 ≤ b.house i c)

/-- the economic state: every physical quantity non-negative, demand cache fresh -/
structure EconOK (p : Params d) (e : Econ d) : Prop where
  orders_nonneg : ∀ i j, 0 ≤ e.orders i j
  fd_nonneg : ∀ i c, 0 ≤ e.fd i c
  reb_nonneg : ∀ b ∈ e.reb, BlockNonneg b
  dTot_fresh : ∀ i, e.dTot i = rowTot e.orders e.fd e.reb i
  stock_nonneg : ∀ s f, (p.invDur s).isSome = true → 0 ≤ e.stock s f
  prod_nonneg : ∀ f, 0 ≤ e.prod f
  alpha_range : ∀ f, 1 ≤ e.alpha f ∧ e.alpha f ≤ p.aMax

/-- one tracker: non-negative reconstruction ledgers, positive characteristic time -/
structure TrackerOK (tr : Tracker d) : Prop where
  remI_nonneg : ∀ r, tr.remI = some r → ∀ i j, 0 ≤ r i j
  remH_nonneg : ∀ r, tr.remH = some r → ∀ i c, 0 ≤ r i c
  tau_pos : 0 < tr.tau

/-- block ids: exactly the rebuilding trackers hold one, ids are distinct and below the block count -/
structure IdsOK (trs : List (Tracker d)) (nb : Nat) : Prop where
  has_id : ∀ tr ∈ trs, tr.status = .rebuilding → ∃ id, tr.rid = some id ∧ id < nb
  only_rebuilding : ∀ tr ∈ trs, tr.status ≠ .rebuilding → tr.rid = none
  distinct : (trs.filterMap (·.rid)).Nodup

structure Inv (s : Sim d) : Prop where
  params : ParamsOK s.p
  econ : EconOK s.p s.econ
  trackers : ∀ tr ∈ s.trackers, TrackerOK tr
  ids : IdsOK s.trackers s.nBlocks

end Boario
