"""Run a scenario on the implementation under test and snapshot its state around every phase of
every step.  Instance-level wrappers only (no source change); public accessors where they exist."""
from __future__ import annotations

import math
import traceback

from harness.common import np
from harness import scen

import pandas as pd  # noqa: E402
from boario.event import EventArbitraryProd, EventKapitalRebuild, EventKapitalRecover  # noqa: E402


def _arr(x):
    if x is None:
        return None
    if isinstance(x, (pd.Series, pd.DataFrame)):
        return x.to_numpy(dtype=float).copy()
    return np.array(x, dtype=float, copy=True)


def snap_econ(model) -> dict:
    rd = model.rebuild_demand
    rp = getattr(model, "_rebuild_prod", None)
    return {
        "orders": _arr(model.intermediate_demand),
        "fd": _arr(model.final_demand),
        "reb": _arr(rd),
        "nE": int(model._n_rebuilding_events),
        "dTot": _arr(model.entire_demand_tot),
        "stock": _arr(model.inputs_stock),
        "prod": _arr(model.production),
        "alpha": _arr(model.overprod),
        "deltaTot": _arr(model.prod_cap_delta_tot) if hasattr(model, "_prod_cap_delta_tot") else None,
        "fdUnmet": _arr(model.final_demand_not_met),
        "rebProd": _arr(rp),
        "lost": _arr(model.productive_capital_lost),
        "arbDelta": _arr(model.prod_cap_delta_arbitrary),
        "deliv": _arr(getattr(model, "_verif_last_delivery", None)),
        "in_shortage": bool(model.in_shortage),
        "ordersTot": _arr(getattr(model, "_intermediate_demand_tot", None)),
        "fdTot": _arr(getattr(model, "_final_demand_tot", None)),
        "rebTot": _arr(getattr(model, "_rebuild_demand_tot", None)),
        "rebProdTot": _arr(getattr(model, "_rebuild_prod_tot", None)),
    }


def kind_of(ev) -> str:
    if isinstance(ev, EventKapitalRebuild):
        return "rebuild"
    if isinstance(ev, EventKapitalRecover):
        return "recover"
    if isinstance(ev, EventArbitraryProd):
        return "arbitrary"
    return "other"


def snap_tracker(tr) -> dict:
    ev = tr.event
    return {
        "kind": kind_of(ev),
        "status": tr.status,
        "occ": int(ev.occurrence),
        "dur": int(ev.duration),
        "dmg0": _arr(tr.productive_capital_dmg_init),
        "dmg": _arr(tr.productive_capital_dmg),
        "hdmg0": _arr(tr.households_damages_init),
        "hdmg": _arr(tr.households_damages),
        "arb0": _arr(tr._prod_delta_from_arb_0),
        "arb": _arr(tr.prod_delta_arbitrary),
        "remI": _arr(tr.distributed_reb_dem_indus),
        "remH": _arr(tr.distributed_reb_dem_house),
        "rid": tr._rebuild_id,
    }


def snap_trackers(sim) -> list:
    return [snap_tracker(tr) for tr in sim._event_tracking]


class Trace:
    """Everything observed on one run."""

    def __init__(self, sc):
        self.sc = sc
        self.steps = []          # list of dict phase -> {"pre":…, "post":…, "exc":…}
        self.build_error = None  # (type name, message) if construction / admission raised
        self.step_error = None   # (step index, type name, message, traceback)
        self.crashed = False
        self.sim = None
        self.model = None
        self.init_econ = None
        self.init_trackers = []
        self.step_results = []


PHASES = ("events_pre", "overprod", "production", "distribute", "events_post", "orders")


def run(sc: dict, manual=True, keep=True, max_steps=None, sim=None) -> Trace:
    tr = Trace(sc)
    try:
        if sim is None:
            sim = scen.build_sim(sc)
    except Exception as e:  # construction / admission error
        tr.build_error = (type(e).__name__, str(e), traceback.format_exc())
        return tr
    model = sim.model
    tr.sim, tr.model = sim, model
    tr.init_econ = snap_econ(model)
    tr.init_trackers = snap_trackers(sim)
    cur = {}

    def full_pre():
        return {"econ": snap_econ(model), "trackers": snap_trackers(sim), "t": int(sim.current_temporal_unit),
                "nBlocks": int(model._n_rebuilding_events)}

    def wrap(obj, name, phase, pre_fn, post_fn, start=True, end=True):
        orig = getattr(obj, name)

        def w(*a, **k):
            cur.setdefault("_order", []).append(name)
            if start:
                cur[phase] = {"pre": pre_fn(), "post": None, "exc": None}
            try:
                ret = orig(*a, **k)
            except Exception as e:
                cur[phase]["exc"] = (type(e).__name__, str(e))
                cur[phase]["post"] = post_fn()
                raise
            if end:
                cur[phase]["post"] = post_fn()
                cur[phase]["ret"] = ret
            return ret

        setattr(obj, name, w)

    wrap(sim, "_check_happening_events", "events_pre", full_pre, full_pre)
    wrap(model, "calc_overproduction", "overprod", lambda: {"econ": snap_econ(model)}, lambda: {"econ": snap_econ(model)})
    wrap(model, "calc_production", "production", lambda: {"econ": snap_econ(model)}, lambda: {"econ": snap_econ(model)})
    wrap(model, "distribute_production", "distribute", lambda: {"econ": snap_econ(model)}, lambda: {"econ": snap_econ(model)})
    wrap(sim, "rebuild_events", "events_post", full_pre, full_pre, start=True, end=False)
    wrap(sim, "recover_events", "events_post", full_pre, full_pre, start=False, end=True)
    wrap(model, "calc_orders", "orders", lambda: {"econ": snap_econ(model)}, lambda: {"econ": snap_econ(model)})

    nsteps = len(range(0, sc["T"], max(1, math.floor(model.n_temporal_units_by_step))))
    if max_steps is not None:
        nsteps = min(nsteps, max_steps)
    for k in range(nsteps):
        cur.clear()
        t0 = int(sim.current_temporal_unit)
        try:
            res = sim.next_step()
        except Exception as e:
            cause = e.__cause__ if e.__cause__ is not None else e
            tr.step_error = (k, type(cause).__name__, str(cause), traceback.format_exc())
            order = cur.pop("_order", [])
            tr.steps.append({"t": t0, "phases": dict(cur), "res": "raised", "order": order})
            break
        order = cur.pop("_order", [])
        tr.steps.append({"t": t0, "phases": dict(cur), "res": res, "order": order})
        tr.step_results.append(res)
        sim.n_temporal_units_simulated = sim.current_temporal_unit
        if res == 1:
            tr.crashed = True
            sim.has_crashed = True
            break
    return tr
