/-
  Helper lemmas about proportional rationing (`deliverCell`, `deliverBlock`, `deliveries`)
  and about the shape of an `ok` result of `distribute`.
-/
import Boario.Lemmas.Sums

namespace Boario
variable {d : Dims}

/-- closed form of one delivered cell (also valid for `tot = 0`, since `x / 0 = 0`) -/
theorem deliverCell_eq (tot prod cell : Rat) : deliverCell tot prod cell = cell * (prod / tot) := by
  unfold deliverCell safeDiv
  split_ifs with h
  · subst h; simp
  · ring

theorem deliverCell_le (tot prod cell : Rat) (hc : 0 ≤ cell) (hp : 0 ≤ prod) (hle : prod ≤ tot) :
    deliverCell tot prod cell ≤ cell := by
  rw [deliverCell_eq]
  have h1 : prod / tot ≤ 1 := by
    by_cases h : tot = 0
    · subst h; simp
    · have : 0 < tot := lt_of_le_of_ne (le_trans hp hle) (Ne.symm h)
      exact (div_le_one this).2 hle
  calc cell * (prod / tot) ≤ cell * 1 := mul_le_mul_of_nonneg_left h1 hc
    _ = cell := mul_one _

theorem sumInd_mul_const (f : Ind d → Rat) (c : Rat) :
    sumInd d (fun j => f j * c) = sumInd d f * c := by
  rw [sumInd_eq_sum_prod, sumInd_eq_sum_prod, Finset.sum_mul]

theorem sumFd_mul_const (f : Fd d → Rat) (c : Rat) :
    sumFd d (fun j => f j * c) = sumFd d f * c := by
  rw [sumFd_eq_sum_prod, sumFd_eq_sum_prod, Finset.sum_mul]

theorem sumFd_sub (f g : Fd d → Rat) :
    sumFd d (fun c => f c - g c) = sumFd d f - sumFd d g := by
  rw [sumFd_eq_sum_prod, sumFd_eq_sum_prod, sumFd_eq_sum_prod, Finset.sum_sub_distrib]

theorem sumFd_le_sumFd (f g : Fd d → Rat) (h : ∀ c, f c ≤ g c) : sumFd d f ≤ sumFd d g := by
  rw [sumFd_eq_sum_prod, sumFd_eq_sum_prod]
  exact Finset.sum_le_sum fun c _ => h c

theorem sumFd_nonneg (f : Fd d → Rat) (h : ∀ c, 0 ≤ f c) : 0 ≤ sumFd d f := by
  rw [sumFd_eq_sum_prod]
  exact Finset.sum_nonneg fun c _ => h c

theorem blockTot_deliverBlock (tot prod : Ind d → Rat) (b : RebBlock d) (i : Ind d) :
    blockTot (deliverBlock tot prod b) i = blockTot b i * (prod i / tot i) := by
  unfold blockTot deliverBlock
  simp only [deliverCell_eq]
  rw [sumInd_mul_const, sumFd_mul_const]
  ring

theorem rebTot_deliverBlock (tot prod : Ind d → Rat) (reb : List (RebBlock d)) (i : Ind d) :
    rebTot (reb.map (deliverBlock tot prod)) i = rebTot reb i * (prod i / tot i) := by
  unfold rebTot
  rw [sumList_eq_sum, sumList_eq_sum]
  induction reb with
  | nil => simp
  | cons b bs ih =>
    simp only [List.map_cons, List.sum_cons] at ih ⊢
    rw [ih, blockTot_deliverBlock]
    ring

theorem getD_map_deliverBlock (tot prod : Ind d → Rat) (reb : List (RebBlock d)) (k : Nat)
    (hk : k < reb.length) :
    (reb.map (deliverBlock tot prod)).getD k zeroBlock
      = deliverBlock tot prod (reb.getD k zeroBlock) := by
  simp [List.getD_eq_getElem?_getD, List.getElem?_map, List.getElem?_eq_getElem hk]

theorem getD_mem (reb : List (RebBlock d)) (k : Nat) (hk : k < reb.length) :
    reb.getD k zeroBlock ∈ reb := by
  simp [List.getD_eq_getElem?_getD, List.getElem?_eq_getElem hk]

/-- an `ok` distribution is `distributeFinish` with some stock, either the old one (skipped update)
    or the updated one, which then has no negative tracked cell -/
theorem distribute_ok (p : Params d) (e e' : Econ d) (h : distribute p e = .ok e') :
    (addUseClose p e.prod (deliveries e).orders ∧
        e' = distributeFinish e (deliveries e) e.stock) ∨
    (¬ addUseClose p e.prod (deliveries e).orders ∧
        ¬ stockNegative p (stockUpdated p e (deliveries e).orders) ∧
        e' = distributeFinish e (deliveries e) (stockUpdated p e (deliveries e).orders)) := by
  unfold distribute at h
  split_ifs at h with hc
  · left
    unfold distributeSkip at h
    injection h with h
    exact ⟨hc, h.symm⟩
  · right
    unfold distributeUpdate at h
    simp only at h
    split_ifs at h with hn
    injection h with h
    exact ⟨hc, hn, h.symm⟩

end Boario
