/- helper lemmas for `Boario.Properties.NonVacuity`: sums and quantifiers over the index types of the
   concrete dimensions 1 region × 2 sectors × 1 final-demand category -/
import Boario.Properties.C01
import Boario.Properties.C20
import Boario.Properties.C13Run
import Boario.Lemmas.ShiftRun

namespace Boario.NV

theorem sumFin_one (f : Fin 1 → Rat) : sumFin 1 f = f 0 := by
  simp [sumFin, Fin.foldl_succ_last, Fin.foldl_zero]

theorem sumFin_two (f : Fin 2 → Rat) : sumFin 2 f = f 0 + f 1 := by
  simp [sumFin, Fin.foldl_succ_last, Fin.foldl_zero]

theorem sumInd_121 (f : Ind ⟨1, 2, 1⟩ → Rat) : sumInd ⟨1, 2, 1⟩ f = f (0, 0) + f (0, 1) := by
  show sumFin 1 (fun r => sumFin 2 fun s => f (r, s)) = _
  rw [sumFin_one, sumFin_two]

theorem sumFd_121 (f : Fd ⟨1, 2, 1⟩ → Rat) : sumFd ⟨1, 2, 1⟩ f = f (0, 0) := by
  show sumFin 1 (fun r => sumFin 1 fun s => f (r, s)) = _
  rw [sumFin_one, sumFin_one]

theorem forall_ind_121 {P : Ind ⟨1, 2, 1⟩ → Prop} : (∀ i, P i) ↔ P (0, 0) ∧ P (0, 1) := by
  show (∀ i : Fin 1 × Fin 2, P i) ↔ _
  simp [Prod.forall, Fin.forall_fin_one, Fin.forall_fin_two]

theorem forall_fd_121 {P : Fd ⟨1, 2, 1⟩ → Prop} : (∀ i, P i) ↔ P (0, 0) := by
  show (∀ i : Fin 1 × Fin 1, P i) ↔ _
  simp [Prod.forall, Fin.forall_fin_one]

/-- at the constructed equilibrium without events, the quantities tested by the two closeness tests of the
    first step are equal, so the tests agree in every unit -/
theorem closeAgree_init_gen {d : Dims} {p : Params d} (hp : EqParams p) (hK : ∀ f, 0 ≤ p.K f)
    (c : Rat) (hc : 0 < c) (dt : Nat) : CloseAgree c (initSim p dt []) := by
  have he := initEcon_eqEcon hp
  have h1 : eventsPre (initSim p dt []) = .ok (initSim p dt []) :=
    eventsPre_idle_exact (initSim p dt []) hK rfl (fun _ h => by cases h) (fun _ h => by cases h)
  have hpre : preDistribute (initSim p dt []) = some (initSim p dt [], initEcon p) := by
    unfold preDistribute
    rw [h1]
    show (match productionPhase p (initEcon p) with | .ok e2 => some (initSim p dt [], e2) | _ => none) = _
    rw [productionPhase_initEcon hp]
  have hpo : preOrders (initSim p dt []) = some (initSim p dt []) := by
    unfold preOrders
    rw [hpre]
    show (match distribute p (initEcon p) with
      | .ok e3 => some (eventsPost { initSim p dt [] with econ := e3 }) | _ => none) = _
    rw [distribute_initEcon hp]
    rfl
  apply closeAgree_of_exact c hc
  · intro s1 e2 h sct r t
    rw [hpre] at h
    injection h with h
    injection h with h1 h2
    subst h1 h2
    show stockAdd (deliveries (initEcon p)).orders sct (r, t) = stockUse p (initEcon p).prod sct (r, t)
    unfold stockAdd stockUse
    simp only [he.deliver_orders hp]
    rw [he.prod, hp.use_eq]
  · intro s3 h sct r t _
    rw [hpo] at h
    injection h with h
    subst h
    show stock0 p sct (r, t) = goal p (xOpt p (initEcon p).dTot (initEcon p).deltaTot (initEcon p).alpha) sct (r, t)
    rw [he.xOpt_eq hp]
    rfl

end Boario.NV
