/-
  The demand total the production module reads (`_entire_demand_tot`, field `dTot` of the model) is the
  demand actually addressed to each industry — the row sums of the demand matrix (orders, final demand,
  reconstruction blocks) — at every point where it is read: after the event phase of every step of every
  run.  Serves C03 (`production ≤ demand` is a statement about the true demand), C14 (scarcity) and C06.
-/
import Boario.Properties.C03
import Boario.Init
import Boario.Lemmas.Coherence

namespace Boario
variable {d : Dims}

/-- the cache is coherent -/
def DemandCoherent (e : Econ d) : Prop := ∀ i, e.dTot i = rowTot e.orders e.fd e.reb i

/-- the state `__init__` leaves behind is coherent -/
theorem init_coherent (p : Params d) : DemandCoherent (initEcon p) := by
  intro i
  rfl

/-- every successful step ends coherent, whatever it started from (the order phase recomputes the total) -/
theorem step_coherent (s s' : Sim d) (h : nextStep s = .ok s') : DemandCoherent s'.econ := by
  obtain ⟨s1, e2, e3, e4, _, _, _, h4, _, he⟩ := nextStep_ok s s' h
  rw [he]
  exact coh_orders s1.p e3 e4 h4

/-- from a coherent state whose reconstruction blocks are those of its rebuilding trackers (block count =
    `nBlocks`), the event phase leaves a coherent state: this is the state `calc_overproduction` and
    `calc_production` read -/
theorem eventsPre_coherent (s s1 : Sim d) (h : eventsPre s = .ok s1) (hc : DemandCoherent s.econ) :
    DemandCoherent s1.econ := by
  exact coh_eventsPre s s1 h hc

/-- along every run from the initial state: coherent at the beginning of every step and when production is decided -/
theorem coherent_reach (p : Params d) (dt : Nat) (trs : List (Tracker d)) (k : Nat) (s : Sim d)
    (h : runN k (initSim p dt trs) = some s) :
    DemandCoherent s.econ ∧ ∀ s1, eventsPre s = .ok s1 → DemandCoherent s1.econ := by
  have key : ∀ (k : Nat) (s0 s : Sim d), DemandCoherent s0.econ → runN k s0 = some s →
      DemandCoherent s.econ := by
    intro k
    induction k with
    | zero =>
      intro s0 s h0 hr
      simp only [runN] at hr
      cases hr
      exact h0
    | succ k ih =>
      intro s0 s _ hr
      simp only [runN] at hr
      split at hr
      · rename_i s' hs'
        exact ih s' s (step_coherent s0 s' hs') hr
      · cases hr
  have hs : DemandCoherent s.econ := key k _ s (init_coherent p) h
  exact ⟨hs, fun s1 h1 => eventsPre_coherent s s1 h1 hs⟩

end Boario
