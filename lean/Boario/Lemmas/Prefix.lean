/-
  Helper lemmas for the event-free prefix: while every tracker is pending and not yet due, a step of the
  simulation is the same as a step of the simulation without trackers.
-/
import Boario.Lemmas.Lifecycle

namespace Boario
variable {d : Dims}

/-- the same simulation without events -/
abbrev Sim.forget (s : Sim d) : Sim d := { s with trackers := [] }

theorem advance_idle (t : Nat) : ∀ (trs : List (Tracker d)) (nb : Nat),
    (∀ tr ∈ trs, tr.status ≠ .happening) → advance t trs nb = (trs, nb)
  | [], nb, _ => rfl
  | tr :: rest, nb, h => by
    unfold advance
    have hc : ¬ (tr.status = .happening ∧ tr.occ + tr.dur ≤ t) :=
      fun hc => h tr (List.mem_cons_self ..) hc.1
    rw [if_neg hc, advance_idle t rest nb fun a ha => h a (List.mem_cons_of_mem _ ha)]

theorem lifecycle_idle (t dt : Nat) (trs : List (Tracker d)) (nb : Nat)
    (hp : ∀ tr ∈ trs, tr.status = .pending) (ho : ∀ tr ∈ trs, t < tr.occ) :
    lifecycle t dt trs nb = (trs, nb) := by
  unfold lifecycle
  have hw : trs.map (wake t dt) = trs := by
    conv_rhs => rw [← List.map_id trs]
    apply List.map_congr_left
    intro tr htr
    unfold wake
    rw [if_neg]
    · rfl
    · intro hc
      have := ho tr htr
      omega
  rw [hw]
  apply advance_idle
  intro tr htr
  rw [hp tr htr]
  decide

/-- `eventsPre` with idle pending trackers: same as without trackers -/
theorem eventsPre_idle (s s1 : Sim d) (hp : ∀ tr ∈ s.trackers, tr.status = .pending)
    (ho : ∀ tr ∈ s.trackers, s.t < tr.occ) (h : eventsPre s = .ok s1) :
    eventsPre s.forget = .ok s1.forget ∧ s1.trackers = s.trackers := by
  have hl := lifecycle_idle s.t s.dt s.trackers s.nBlocks hp ho
  obtain ⟨h1, h2, h3⟩ := pending_lost s.trackers hp
  have e1 : lostCapital ([] : List (Tracker d)) = fun _ => 0 := rfl
  have e2 : arbDelta ([] : List (Tracker d)) = fun _ => 0 := rfl
  unfold eventsPre at h ⊢
  have hl0 : lifecycle s.t s.dt ([] : List (Tracker d)) s.nBlocks = ([], s.nBlocks) := rfl
  have h30 : anyRebuilding ([] : List (Tracker d)) = false := rfl
  simp only [hl, h1, h2, h3, Bool.false_eq_true, if_false, ne_eq, not_true_eq_false] at h
  simp only [hl0, e1, e2, h30, Bool.false_eq_true, if_false, ne_eq, not_true_eq_false]
  by_cases hc : lostExceeds s.p fun _ => 0
  · rw [if_pos hc] at h
    cases h
  · rw [if_neg hc] at h
    rw [if_neg hc]
    injection h with h
    subst h
    exact ⟨rfl, rfl⟩

/-- the phases after `eventsPre` never look at the trackers, except to update them -/
theorem nextStep_forget_of_pre (s s0 s1 s' : Sim d) (h : nextStep s = .ok s')
    (h1 : eventsPre s = .ok s1) (h0 : eventsPre s0 = .ok s1.forget) :
    nextStep s0 = .ok s'.forget := by
  unfold nextStep at h
  obtain ⟨s1', h1', h⟩ := bind_ok _ _ _ h
  rw [h1] at h1'
  injection h1' with h1'
  subst h1'
  simp only at h
  obtain ⟨e2, h2, h⟩ := bind_ok _ _ _ h
  split at h
  · cases h
  · cases h
  · cases h
  · rename_i e3 h3
    obtain ⟨e4, h4, h⟩ := bind_ok _ _ _ h
    injection h with h
    subst h
    have h2' : productionPhase s1.forget.p
        (if 1 < s1.forget.t then overprodPhase s1.forget.p s1.forget.econ else s1.forget.econ) = .ok e2 := h2
    have h3' : distribute s1.forget.p e2 = .ok e3 := h3
    have h4' : orders (eventsPost { s1.forget with econ := e3 }).p
        (eventsPost { s1.forget with econ := e3 }).econ = .ok e4 := h4
    unfold nextStep
    rw [h0]
    simp only [Outcome.bind]
    rw [h2']
    simp only
    rw [h3']
    simp only
    rw [h4']
    rfl

/-- one step before every occurrence: identical to the event-free step, and the trackers stay pending -/
theorem prefix_step (s s' : Sim d) (hp : ∀ tr ∈ s.trackers, tr.status = .pending)
    (ho : ∀ tr ∈ s.trackers, s.t < tr.occ) (h : nextStep s = .ok s') :
    nextStep s.forget = .ok s'.forget ∧ s'.t = s.t + s.dt ∧ s'.dt = s.dt ∧
    ∀ b ∈ s'.trackers, b.status = .pending ∧ ∃ a ∈ s.trackers, b.occ = a.occ := by
  obtain ⟨s1, rp, h1, htr, ht, hdt, -⟩ := nextStep_trackers s s' h
  obtain ⟨-, -, e3, e4⟩ := eventsPre_trackers s s1 h1
  obtain ⟨h0, hsame⟩ := eventsPre_idle s s1 hp ho h1
  refine ⟨nextStep_forget_of_pre s s.forget s1 s' h h1 h0, by rw [ht, e3, e4], by rw [hdt, e4], ?_⟩
  intro b hb
  have hrel := post_rel s1.t rp s1.trackers
  rw [← htr, hsame] at hrel
  obtain ⟨a, ha, -, hocc, -, -, hst⟩ := forall₂_mem_right hrel b hb
  refine ⟨?_, a, ha, hocc⟩
  rw [hp a ha] at hst
  rcases hst with hst | ⟨hst | hst, -⟩
  · exact hst
  · cases hst
  · cases hst

theorem prefix_run (k : Nat) : ∀ (s s' : Sim d), s.dt = 1 →
    (∀ tr ∈ s.trackers, tr.status = .pending) → (∀ tr ∈ s.trackers, s.t + k ≤ tr.occ) →
    runN k s = some s' → runN k s.forget = some s'.forget := by
  induction k with
  | zero =>
    intro s s' _ _ _ h
    simp only [runN, Option.some.injEq] at h ⊢
    rw [h]
  | succ k ih =>
    intro s s' hdt hp ho h
    unfold runN at h ⊢
    split at h
    · rename_i s1 h1
      obtain ⟨hf, ht, hdt1, htr⟩ := prefix_step s s1 hp
        (fun tr htr => by have := ho tr htr; omega) h1
      rw [hf]
      simp only
      refine ih s1 s' (by rw [hdt1, hdt]) (fun b hb => (htr b hb).1) ?_ h
      intro b hb
      obtain ⟨-, a, ha, hocc⟩ := htr b hb
      have := ho a ha
      rw [ht, hdt, hocc]
      omega
    · cases h

end Boario
