/-
  C19 for every step length: `Properties/C19Run.lean` proves shift invariance for `dt = 1`.  With a step of
  `dt` temporal units the simulation visits the times 0, dt, 2·dt, …; delaying every event by `j` steps
  means adding `j · dt` to every occurrence, and the delayed run, observed from step `j` on, is the
  original run delayed by `j · dt` temporal units — exactly.
-/
import Boario.Properties.C19Run
import Boario.Lemmas.ShiftDt

namespace Boario
variable {d : Dims}

/-- an event-free step at the initial equilibrium returns exactly the same state, one step later, for
    every step length (all events pending and not yet due) -/
theorem equilibrium_step_exact_dt (tb : Table d) (c : Config d) (ht : ValidTable tb) (hc : ValidConfig c)
    (hK : ∀ f, 0 ≤ capitalOf tb c f) (s : Sim d)
    (hp : s.p = mkParams tb c) (he : s.econ = initEcon s.p) (hnb : s.nBlocks = 0)
    (hidle : ∀ tr ∈ s.trackers, tr.status = .pending ∧ s.t < tr.occ) :
    nextStep s = .ok { s with t := s.t + s.dt } :=
  sd_equilibrium_step_exact_gen (eqParams_of_valid tb c ht hc) hK s hp he hnb hidle

/-- SHIFT INVARIANCE, every step length: events all pending at t = 0 (occurrences and durations ≥ 1),
    delayed by `j` steps (`j * dt` temporal units), horizon `n` steps -/
theorem shift_invariance_dt (tb : Table d) (c : Config d) (ht : ValidTable tb) (hc : ValidConfig c)
    (hK : ∀ f, 0 ≤ capitalOf tb c f) (trs : List (Tracker d))
    (hpend : ∀ tr ∈ trs, tr.status = .pending ∧ 0 < tr.occ ∧ 0 < tr.dur) (dt : Nat) (hdt : 0 < dt) (j n : Nat) :
    runN (j + n) (initSim (mkParams tb c) dt (trs.map (shiftTracker (j * dt))))
      = (runN n (initSim (mkParams tb c) dt trs)).map (shiftSim (j * dt)) := by
  -- step length 1: the statement of `C19Run`
  rcases Nat.lt_or_ge dt 2 with h1 | h2
  · obtain rfl : dt = 1 := by omega
    rw [Nat.mul_one]
    exact shift_invariance tb c ht hc hK trs hpend j n
  have hP := eqParams_of_valid tb c ht hc
  -- the delayed run rests at the equilibrium for `j` steps …
  have hpre : runN j (initSim (mkParams tb c) dt (trs.map (shiftTracker (j * dt))))
      = some (shiftSim (j * dt) (initSim (mkParams tb c) dt trs)) := by
    rw [sd_equilibrium_run_exact hP hK dt hdt j _ rfl rfl rfl rfl]
    · rfl
    · intro w hw
      obtain ⟨tr, htr, rfl⟩ := List.mem_map.mp hw
      exact ⟨(hpend tr htr).1, by show 0 + j * dt ≤ tr.occ + j * dt; omega⟩
  rw [runN_add, hpre]
  show runN n (shiftSim (j * dt) (initSim (mkParams tb c) dt trs)) = _
  -- … and from there on it is the delayed original run
  cases n with
  | zero => rfl
  | succ n =>
    -- step at t = 0: nothing is due in the original run either; the next visited time is dt ≥ 2
    have h0 : nextStep (initSim (mkParams tb c) dt trs)
        = .ok { initSim (mkParams tb c) dt trs with t := 0 + dt } :=
      equilibrium_step_exact_dt tb c ht hc hK _ rfl rfl rfl
        fun tr htr => ⟨(hpend tr htr).1, (hpend tr htr).2.1⟩
    have hs0 := shift_step_early (j * dt) (initSim (mkParams tb c) dt trs)
      (overprod_id_early hP _ rfl rfl fun tr htr =>
        ⟨(hpend tr htr).1, by have := (hpend tr htr).2.1; show 0 < tr.occ + tr.dur; omega⟩)
    simp only [runN]
    rw [hs0, h0]
    simp only [Outcome.mapOk]
    exact shift_run_partial (j * dt) n _ (by show 2 ≤ 0 + dt; omega) hdt

/-- the `dt = 1` statement of `C19Run` is the instance `dt = 1` -/
theorem shift_invariance_of_dt (tb : Table d) (c : Config d) (ht : ValidTable tb) (hc : ValidConfig c)
    (hK : ∀ f, 0 ≤ capitalOf tb c f) (trs : List (Tracker d))
    (hpend : ∀ tr ∈ trs, tr.status = .pending ∧ 0 < tr.occ ∧ 0 < tr.dur) (k n : Nat) :
    runN (k + n) (initSim (mkParams tb c) 1 (trs.map (shiftTracker k)))
      = (runN n (initSim (mkParams tb c) 1 trs)).map (shiftSim k) := by
  have h := shift_invariance_dt tb c ht hc hK trs hpend 1 (by omega) k n
  simpa using h

end Boario
