"""Exploration for one property: corpus triggers, generated scenarios, construction and per-phase
correspondence obligations of the property, its oracles on every trace, its paired-run oracles."""
from __future__ import annotations

import json
import copy
import random

from harness.common import Driver, NonFinite, np
from harness import capture, corpus, corr, known, oracles, oracles_ev, paired, props, scen

STEP_FUNCS = dict(oracles.PER_STEP)
STEP_FUNCS.update({"C08": oracles_ev.c08_step, "C09": oracles_ev.c09_step, "C10": oracles_ev.c10_step, "C11": oracles_ev.c11_step})
RUN_FUNCS = {"c01": oracles.c01, "c05_run": oracles.c05_run, "c05_run_c20": oracles.c05_run_c20, "c07_capital": oracles.c07_capital,
             "c08_init": oracles_ev.c08_init, "c11_run": oracles_ev.c11_run}


def nontrivial_step(pid, sc, st, c):
    """is this step non-trivial for the property (rule text in props.NONTRIVIAL)"""
    ph = st["phases"]
    try:
        if pid == "C01":
            tb, cfg = sc["table"], sc["model"]
            return tb["kind"] != "dense" or bool(cfg.get("inf_sect")) or cfg.get("psi") in (1, 1.0) or bool(cfg.get("inventory_dict"))
        if pid == "C03":
            p = ph.get("production")
            if not p or p["post"] is None:
                return False
            e0, e1 = p["pre"]["econ"], p["post"]["econ"]
            cap = oracles.capacity(c, e0)
            return bool((e1["prod"] < np.fmin(e0["dTot"], cap) * (1 - 1e-12)).any() or (cap < e0["dTot"]).any())
        if pid == "C04":
            p = ph.get("distribute")
            if not p or p["post"] is None:
                return False
            e0 = p["pre"]["econ"]
            return bool((e0["prod"] < e0["dTot"] * (1 - 1e-12)).any())
        if pid == "C05":
            p = ph.get("distribute")
            if not p or p["post"] is None:
                return False
            fin = c["fin"]
            return bool(p.get("exc")) or not np.array_equal(p["pre"]["econ"]["stock"][fin], p["post"]["econ"]["stock"][fin])
        if pid == "C06":
            p = ph.get("orders")
            if not p or p["post"] is None:
                return False
            e0 = p["pre"]["econ"]
            used = e0["prod"][None, :] * c["a"]
            agg = p["post"]["econ"]["orders"].reshape(c["m"], c["n"], -1).sum(axis=0)
            return bool((agg > used * (1 + 1e-9)).any())
        if pid == "C07":
            p = ph.get("events_pre")
            if not p or p["post"] is None:
                return False
            dlt = p["post"]["econ"]["deltaTot"]
            return bool(p.get("exc")) or (dlt is not None and bool((dlt > 0).any()))
        if pid == "C14":
            p = ph.get("overprod")
            if not p or p["post"] is None:
                return False
            return not np.array_equal(p["pre"]["econ"]["alpha"], p["post"]["econ"]["alpha"])
        if pid in ("C08", "C09", "C10", "C11"):
            p = ph.get("events_post")
            q = ph.get("events_pre")
            ch = False
            for x in (p, q):
                if x and x["post"] is not None:
                    for a, b in zip(x["pre"]["trackers"], x["post"]["trackers"]):
                        if a["status"] != b["status"]:
                            ch = True
                        for f in ("dmg", "arb", "remI", "remH", "hdmg"):
                            if (a[f] is None) != (b[f] is None) or (a[f] is not None and not np.array_equal(a[f], b[f])):
                                ch = True
            if pid == "C11":
                act = [t_ for t_ in (q["post"]["trackers"] if q and q["post"] else []) if t_["status"] in ("happening", "rebuilding", "recovering")]
                return len(act) >= 2
            return ch
        if pid == "C19":
            return bool(sc["events"]) and st["t"] >= min(e["occ"] for e in sc["events"])
        if pid == "C02":
            p = ph.get("distribute")
            if not p or p["post"] is None:
                return False
            e0 = p["pre"]["econ"]
            return bool((e0["prod"] < e0["dTot"] * (1 - 1e-12)).any()) or bool(p.get("exc")) or not np.array_equal(
                p["pre"]["econ"]["stock"][c["fin"]], p["post"]["econ"]["stock"][c["fin"]])
        if pid == "C13":
            mf = sc["model"]["monetary_factor"]
            return any(e.get("emf", mf) != mf for e in sc["events"])
    except Exception:
        return False
    return True


def gen_for(stream, seed):
    """scenario of a stream; the stream-specific edits may move impacts or household columns, so the avoidance of the
    inputs of known finding F13 (a rebuilding sector without supplier) is applied again at the end"""
    sc = _gen_for(stream, seed)
    if sc.get("events") and stream not in ("excess",):
        scen.avoid_f13(sc, random.Random(seed ^ 0xF13))
    return sc


def _gen_for(stream, seed):
    rng = random.Random(seed)
    if stream == "excess":
        sc = scen.gen_scenario(seed, "shocked", allow_excess=True, types=["recovery", "rebuild"])
        for ev in sc["events"]:
            if ev["type"] != "arbitrary":
                for kk in ev["impact"]:
                    ev["impact"][kk] *= rng.choice([3.0, 8.0, 20.0])
        if rng.random() < 0.5:
            # an industry without capital hit by a capital-destroying event: must be rejected, not divided away
            tb, cfg = sc["table"], sc["model"]
            N = tb["m"] * tb["n"]
            x = [sum(tb["Z"][i]) + sum(tb["Y"][i]) for i in range(N)]
            vals = [xi * rng.uniform(0.5, 4.0) for xi in x]
            z = rng.randrange(N)
            vals[z] = 0.0
            cfg["capital"] = {"kind": rng.choice(["ndarray", "series", "dataframe"]), "values": vals}
            if cfg["capital"]["kind"] == "ndarray" and random.Random(seed ^ 0x115).random() < 0.5:
                cfg["capital"]["as_list"] = True
            regs, secs, cats = scen.labels(tb)
            key = f"{regs[z // tb['n']]}|{secs[z % tb['n']]}"
            sc["events"] = [{"type": "recovery", "occ": rng.randint(1, 3), "dur": 2, "name": None, "emf": cfg["monetary_factor"],
                             "impact": {key: max(1.0, x[z] * 0.01)}, "house": None, "recovery_tau": 3, "curve": "linear"}]
        sc["stream"] = "excess"
        return sc
    if stream == "rebuild":
        sc = scen.gen_scenario(seed, "shocked", types=["rebuild"], nev=rng.choice([1, 1, 2, 3]), T=rng.choice([20, 30]))
        for ev in sc["events"]:
            if ev["type"] == "rebuild" and rng.random() < 0.5:
                ev["rebuild_tau"] = rng.choice([1, 1, 2])
        rebs_ = [ev for ev in sc["events"] if ev["type"] == "rebuild"]
        if rebs_ and rng.random() < 0.4:
            # negligible industrial damage next to a large household damage: the industrial ledger is settled within a
            # few steps while households are still being served (rationed by their own demand)
            regs, secs, cats = scen.labels(sc["table"])
            ev0 = rebs_[0]
            tot = sum(ev0["impact"].values())
            f = rng.choice([1e-5, 1e-7])
            ev0["impact"] = {k: v * f for k, v in ev0["impact"].items()}
            ev0["house"] = {f"{rng.choice(regs)}|{rng.choice(cats)}": tot * rng.choice([0.3, 1.0])}
            ev0["rebuild_tau"] = rng.choice([1, 2])
            ev0["occ"], ev0["dur"] = min(ev0["occ"], 4), 1
        sc["stream"] = "rebuild"
        return sc
    if stream == "recover":
        sc = scen.gen_scenario(seed, "shocked", types=["recovery", "arbitrary"], nev=rng.choice([1, 2, 3]), T=rng.choice([20, 30]))
        if sc["events"]:
            # every built-in curve in turn on the first event, with recovery times of either parity (and 2, the smallest for which
            # the concave curve is a decreasing curve)
            cyc = ["linear", "convexe", "convexe noscale", "concave", "concave"]
            if seed % 2 == 1:
                e0 = sc["events"][0]
                e0["curve"] = cyc[(seed // 2) % len(cyc)]
                e0["recovery_tau"] = [3, 4, 5, 7, 2, 9, 6][(seed // 10) % 7]
                if int(sc["model"].get("dt", 1)) > e0["recovery_tau"]:
                    e0["recovery_tau"] = int(sc["model"]["dt"]) + (0 if e0["recovery_tau"] % 2 == int(sc["model"]["dt"]) % 2 else 1)
        sc["stream"] = "recover"
        return sc
    if stream == "multi":
        sc = scen.gen_scenario(seed, "shocked", nev=rng.choice([2, 3, 3, 4]), T=30, max_occ=8)
        for ev in sc["events"]:
            if ev["type"] == "rebuild" and rng.random() < 0.6:
                ev["rebuild_tau"] = rng.choice([1, 1, 2])
            if ev["type"] != "arbitrary" and rng.random() < 0.5:
                # small events finish while others are active
                f = rng.choice([1e-3, 1e-5, 1e-7])
                ev["impact"] = {k: v * f for k, v in ev["impact"].items()}
        caps = [ev for ev in sc["events"] if ev["type"] != "arbitrary"]
        if len(caps) >= 2 and rng.random() < 0.4:
            big, small = caps[0], caps[1]
            big["dur"] = max(big["dur"], 4)
            small["occ"] = big["occ"] + rng.randint(1, 2)
            small["dur"] = 1
            small["emf"] = big["emf"]
            small["impact"] = {k: v * rng.choice([1e-6, 3e-7]) for k, v in big["impact"].items()}
            small["house"] = None
        r3 = random.Random(seed ^ 0x7157)
        if sc["events"] and (r3.random() < 0.2 or seed % 4 == 2):
            # two events identical in every respect (same damage, same dates, no name)
            caps_ = [e_ for e_ in sc["events"] if e_["type"] != "arbitrary"]
            sc["events"].append(copy.deepcopy(caps_[0] if caps_ else sc["events"][0]))
        rebs_ = [ev for ev in sc["events"] if ev["type"] == "rebuild"]
        if rebs_ and r3.random() < 0.3:
            # an industry of a rebuilding sector is itself damaged by the event it has to rebuild
            regs_, secs_, _c = scen.labels(sc["table"])
            ev_ = rebs_[0]
            rs_ = next(iter(ev_["reb_sectors"]))
            key_ = f"{r3.choice(regs_)}|{rs_}"
            if key_ not in ev_["impact"]:
                ev_["impact"][key_] = min(ev_["impact"].values()) * 0.05
        sc["stream"] = "multi"
        return sc
    if stream == "early":
        # first occurrences 1..3 so that the steps in which the overproduction module is skipped matter
        sc = scen.gen_scenario(seed, "shocked", nev=rng.choice([1, 2, 3]), T=rng.choice([16, 24]), max_occ=3)
        sc["stream"] = "early"
        return sc
    if stream == "tinyind":
        # an industry nine orders of magnitude smaller than the others (its total demand per step is far below NumPy's
        # absolute tolerance 1e-8, and not zero), in a run with events
        sc = scen.gen_scenario(seed, "shocked", tiny=True, scale=1.0, T=rng.choice([10, 16]), max_occ=4)
        sc["stream"] = "tinyind"
        return sc
    if stream == "handover":
        # one event finishes recovering (linear curve: zero after exactly tau recovery steps) and another one occurs in
        # the very next step, one step earlier or one step later, possibly while a third one is happening all along
        sc = scen.gen_scenario(seed, "shocked", types=["recovery", "arbitrary"], nev=rng.choice([2, 2, 3]), T=40, max_occ=4)
        evs = sc["events"]
        if len(evs) >= 2:
            a, b = evs[0], evs[1]
            a["curve"] = "linear"
            a["occ"], a["dur"], a["recovery_tau"] = rng.randint(1, 3), rng.randint(1, 3), rng.randint(2, 6)
            done = a["occ"] + a["dur"] + a["recovery_tau"]
            b["occ"] = done + rng.choice([0, 1, 1, 1, 2])
            b["dur"] = rng.randint(3, 10)
            b["occ"] = min(b["occ"], sc["T"] - b["dur"] - 1)
            for c_ in evs[2:]:
                c_["occ"], c_["dur"] = 1, sc["T"] - 3          # happening from start to end
            if seed % 2 == 0:
                a["type"], b["type"] = "recovery", "recovery"
                for e_ in (a, b):
                    e_.setdefault("emf", sc["model"]["monetary_factor"])
                    e_.setdefault("house", None)
                    e_.setdefault("recovery_tau", 3)
                    e_["curve"] = "linear"
                    for k_ in ("rebuild_tau", "reb_sectors", "factor", "shares_series", "np_factor"):
                        e_.pop(k_, None)
            if a["type"] == "recovery" and b["type"] == "recovery" and (random.Random(seed ^ 0xB16).random() < 0.5 or seed % 2 == 0):
                # A destroys half of an industry's capital and is completely recovered when B destroys 90 % of the same
                # industry's capital: together they would exceed the stock, one after the other they do not
                try:
                    Kh = np.asarray(scen.build_model(sc["table"], sc["model"]).productive_capital, dtype=float).ravel()
                    regs_h, secs_h, _ch = scen.labels(sc["table"])
                    key_h = next(iter(a["impact"]))
                    ih = regs_h.index(key_h.split("|")[0]) * len(secs_h) + secs_h.index(key_h.split("|")[1])
                    if Kh[ih] > 0:
                        mf_h = sc["model"]["monetary_factor"]
                        a["impact"] = {key_h: 0.5 * Kh[ih] * mf_h / a["emf"]}
                        b["impact"] = {key_h: 0.9 * Kh[ih] * mf_h / b["emf"]}
                        a["house"] = b["house"] = None
                        a.pop("int_dtype", None)
                        b.pop("int_dtype", None)
                        b["occ"] = done + 1
                        if len(evs) > 2:
                            del evs[2:]
                except Exception:
                    pass
        sc["stream"] = "handover"
        return sc
    if stream == "finishing":
        # several rebuilding events at once, the ones registered first small and quickly rebuilt: they finish (and give
        # their block id back) while later ones are still being served
        sc = scen.gen_scenario(seed, "shocked", types=["rebuild"], nev=rng.choice([2, 3]), T=rng.choice([16, 24]), max_occ=4)
        evs = sc["events"]
        for i, ev in enumerate(evs):
            if ev["type"] != "rebuild":
                continue
            ev["dur"] = rng.choice([1, 2])
            if i < len(evs) - 1:
                f = rng.choice([1e-4, 1e-6, 1e-8])
                ev["impact"] = {k: v * f for k, v in ev["impact"].items()}
                if ev.get("house"):
                    ev["house"] = {k: v * f for k, v in ev["house"].items()}
                ev["rebuild_tau"] = 1
            else:
                ev["rebuild_tau"] = rng.choice([5, 30])
        rebs = [ev for ev in evs if ev["type"] == "rebuild"]
        if rebs and rng.random() < 0.5:
            # household reconstruction much larger than the industrial one: the industrial ledger empties first
            regs, secs, cats = scen.labels(sc["table"])
            ev0 = rebs[0]
            tot = sum(ev0["impact"].values())
            ev0["house"] = {f"{regs[0]}|{cats[0]}": tot * rng.choice([1e3, 1e6])}
            ev0["rebuild_tau"] = rng.choice([1, 2])
        if len(rebs) >= 2 and rng.random() < 0.5:
            # one shares Series (and a rebuilding factor below 1) used for every event
            for ev in rebs:
                ev["reb_sectors"] = dict(rebs[0]["reb_sectors"])
                ev["shares_series"] = True
                ev["factor"] = rebs[0]["factor"] if rebs[0]["factor"] != 1.0 else 0.5
        r4 = random.Random(seed ^ 0x4F1)
        if rebs and seed % 3 == 0:
            # four overlapping rebuilding events: the two registered first are identical, tiny and rebuilt in one step (they
            # finish in the very same step and free the two lowest block ids), the two others are still being served
            a_ = copy.deepcopy(rebs[0])
            f_ = r4.choice([1e-3, 1e-4])
            a_["impact"] = {k: v * f_ for k, v in rebs[-1]["impact"].items()}
            a_["house"] = None
            a_["emf"] = rebs[-1]["emf"]
            a_["reb_sectors"] = dict(rebs[-1]["reb_sectors"])
            a_["rebuild_tau"], a_["occ"], a_["dur"] = 1, 1, 1
            b_ = copy.deepcopy(a_)
            big1, big2 = copy.deepcopy(rebs[-1]), copy.deepcopy(rebs[-1])
            big1["occ"], big1["dur"], big1["rebuild_tau"] = 1, 1, r4.choice([10, 30])
            big2["occ"], big2["dur"], big2["rebuild_tau"] = 2, 1, r4.choice([5, 20])
            # (small enough not to ration the rebuilding sectors: the two tiny events are then served in full and finish together)
            big1["impact"] = {k: v * 0.05 for k, v in big1["impact"].items()}
            big2["impact"] = {k: v * 0.02 for k, v in big2["impact"].items()}
            for b__ in (big1, big2):
                if b__.get("house"):
                    b__["house"] = {k: v * 0.02 for k, v in b__["house"].items()}
            sc["events"] = [a_, b_, big1, big2]
        sc["stream"] = "finishing"
        return sc
    if stream == "sudden":
        # psi x inventory duration well below 1 (the shortage regime starts only when an inventory is almost empty) and a
        # supplier sector that loses (nearly) all its capacity everywhere at once: inventories run out within one step,
        # without the model having entered the shortage regime first
        sc = scen.gen_scenario(seed, "crash", nev=0, T=rng.choice([10, 14]))
        cfg = sc["model"]
        cfg["class"] = "psi"
        cfg["psi"] = 0.05
        cfg["main_inv_dur"] = 2 * cfg["dt"]
        cfg["inventory_dict"] = None
        cfg["inf_sect"] = None
        cfg["restoration_tau"] = max(90, cfg["dt"])
        regs, secs, cats = scen.labels(sc["table"])
        ssec = rng.choice(secs)
        sc["events"] = [{"type": "arbitrary", "occ": rng.randint(1, 3), "dur": rng.randint(3, 6), "name": None,
                         "impact": {f"{r}|{ssec}": rng.choice([0.9, 0.95, 1.0]) for r in regs}, "recovery_tau": 5, "curve": "linear"}]
        sc["stream"] = "sudden"
        return sc
    if stream == "large":
        # a table with many more industries than the other streams (positional or size-dependent slips), few steps
        m_, n_, k_ = rng.choice([(4, 6, 2), (6, 5, 1), (3, 8, 2)])
        sc = scen.gen_scenario(seed, "shocked", m=m_, n=n_, k=k_, nev=rng.choice([2, 3]), T=8, max_occ=3)
        for ev in sc["events"]:
            ev["dur"] = min(ev["dur"], 2)
            if ev["type"] == "rebuild":
                ev["rebuild_tau"] = rng.choice([1, 2, 5])
        sc["stream"] = "large"
        return sc
    if stream == "fastrebuild":
        # a small rebuilding event whose rebuilding time is shorter than the step: every step presents more than what
        # remains and is served almost in full (the ledger must stop at zero, not below)
        dt = rng.choice([2, 3, 5])
        sc = scen.gen_scenario(seed, "shocked", dt=dt, nev=1, T=rng.choice([8, 10]), max_occ=dt, types=["rebuild"])
        for ev in sc["events"]:
            if ev["type"] == "rebuild":
                ev["rebuild_tau"] = rng.choice([1, dt - 1]) if dt > 2 else 1
                f = rng.choice([1e-3, 1e-4, 1e-5])
                ev["impact"] = {k: v * f for k, v in ev["impact"].items()}
                if ev.get("house"):
                    ev["house"] = {k: v * f for k, v in ev["house"].items()}
                ev["dur"] = 1
        sc["stream"] = "fastrebuild"
        return sc
    if stream == "earlydt":
        # step length > 1 and events that occur (and may even end) within the first step: the second step, at
        # t = dt, already sees their shock / reconstruction demand
        dt = rng.choice([2, 3, 5, 7])
        sc = scen.gen_scenario(seed, "shocked", dt=dt, nev=rng.choice([1, 1, 2]), T=rng.choice([8, 12]), max_occ=dt,
                               types=rng.choice([["rebuild"], ["rebuild", "recovery"], ["recovery", "arbitrary"], ["rebuild", "arbitrary"]]))
        for ev in sc["events"]:
            ev["dur"] = rng.choice([1, 1, 2, dt])
            if ev["type"] == "rebuild" and rng.random() < 0.7:
                ev["rebuild_tau"] = rng.choice([1, 1, 2, dt + 1, 30])
                if ev["rebuild_tau"] < dt and rng.random() < 0.6:
                    # a small event rebuilt faster than one step: what is presented (remaining x dt / tau) exceeds what
                    # remains, and it is served almost in full
                    f = rng.choice([1e-3, 1e-5])
                    ev["impact"] = {k: v * f for k, v in ev["impact"].items()}
                    if ev.get("house"):
                        ev["house"] = {k: v * f for k, v in ev["house"].items()}
        sc["stream"] = "earlydt"
        return sc
    if stream == "negfd":
        # a balanced table with some negative final-demand entries ("changes in inventories")
        sc = scen.gen_scenario(seed, "shocked", nev=rng.choice([1, 2]), T=rng.choice([16, 24]), max_occ=3, kind="dense")
        tb = sc["table"]
        N, F = tb["m"] * tb["n"], tb["m"] * tb["k"]
        for _ in range(rng.randint(1, 3)):
            i, c_ = rng.randrange(N), rng.randrange(F)
            if F >= 2 or True:
                tb["Y"][i][c_] = -0.03 * abs(tb["Y"][i][c_])
        tb["kind"] = "neg_fd"
        sc["stream"] = "negfd"
        return sc
    if stream == "units":
        sc = scen.gen_scenario(seed, "shocked", types=["rebuild", "recovery"], nev=rng.choice([1, 2]), T=rng.choice([12, 20]))
        mf = sc["model"]["monetary_factor"]
        for ev in sc["events"]:
            if ev["type"] == "recovery" and rng.random() < 0.5:
                # a fast geometric recovery: within the run the remaining damage goes through many orders of magnitude,
                # down to the rounding quantum of the model's unit (and nothing but that quantum may cut the tail)
                ev["curve"] = rng.choice(["convexe", "convexe noscale"])
                ev["recovery_tau"] = rng.choice([2, 3])
                ev["dur"] = 1
                ev["occ"] = min(ev["occ"], 3)
        for ev in sc["events"]:
            if ev["type"] == "arbitrary":
                continue
            new = rng.choice([1, 10**3, 10**6, 800, 2_500_000, 921.3, 10**9, 10**12])       # (921.3: thousands of another currency)
            ratio = ev["emf"] / new
            ev["impact"] = {k: v * ratio for k, v in ev["impact"].items()}
            if ev.get("house"):
                ev["house"] = {k: v * ratio for k, v in ev["house"].items()}
            ev["emf"] = new
            if new >= 10**9 and len(ev["impact"]) < sc["table"]["m"] * sc["table"]["n"]:
                # in such a coarse unit a real damage can be a number below 1e-8: one more affected industry with
                # 5e-9 event units (thousands or millions of currency units, far above the model's rounding quantum)
                regs_, secs_, _c = scen.labels(sc["table"])
                free = [f"{r}|{s_}" for r in regs_ for s_ in secs_ if f"{r}|{s_}" not in ev["impact"]]
                ev["impact"][rng.choice(free)] = 5e-9
        # purchases of an affected industry from one of its rebuilding sectors that are tiny in the table's unit
        # (non-zero, below 1e-8 in total, different across regions): the regional split of the reconstruction demand
        # must follow them whatever the unit
        rebs = [ev for ev in sc["events"] if ev["type"] == "rebuild"]
        if rebs and rng.random() < 0.5:
            tb = sc["table"]
            regs, secs, cats = scen.labels(tb)
            ev = rebs[0]
            r_, s_ = next(iter(ev["impact"])).split("|")
            j = regs.index(r_) * tb["n"] + secs.index(s_)
            si = secs.index(next(iter(ev["reb_sectors"])))
            for rr in range(tb["m"]):
                tb["Z"][rr * tb["n"] + si][j] = [4e-9, 2e-9, 1e-9][rr % 3] / tb["m"]
            tb["kind"] = tb["kind"] + "+tiny_supplier"
            tb.pop("dtype", None)          # (no longer a table of whole numbers)
        sc["stream"] = "units"
        return sc
    if stream == "blackout":
        # a sector loses all its capacity in every region at once (an arbitrary loss of exactly 100 % is accepted)
        sc = scen.gen_scenario(seed, "shocked", nev=rng.choice([0, 1]), T=rng.choice([10, 14]), max_occ=4)
        regs, secs, cats = scen.labels(sc["table"])
        ssec = rng.choice(secs)
        sc["events"].append({"type": "arbitrary", "occ": rng.randint(1, 4), "dur": rng.randint(1, 3), "name": None,
                             "impact": {f"{r}|{ssec}": 1.0 for r in regs}, "recovery_tau": rng.choice([1, 3]),
                             "curve": rng.choice(["linear", "convexe"])})
        sc["stream"] = "blackout"
        return sc
    return scen.gen_scenario(seed, stream)


def exhaustive_scenarios(pid):
    """finite sub-spaces enumerated completely in the thorough tier (fixed 2x2x1 table, default psi model):
    C09 / C10: every (type, curve, occurrence, duration, tau) with horizon 14;
    C11: every ordered pair of event types x relative timing x duration x tau, on overlapping industries."""
    from harness import corpus
    out = []
    tb = corpus.base_table(m=2, n=2, k=1, seed=7, scale=1000.0)
    cfg = corpus.base_cfg(main_inv_dur=5)
    regs, secs, cats = scen.labels(tb)

    def mk(kind, occ, dur, tau, curve="linear", ind=("rA", "agri"), frac=0.08):
        if kind == "rebuild":
            return corpus.reb_event(tb, cfg, inds=(ind,), frac=frac, occ=occ, dur=dur, tau=tau, sectors={"build": 1.0})
        if kind == "recovery":
            return corpus.rec_event(tb, cfg, inds=(ind,), frac=frac, occ=occ, dur=dur, tau=tau, curve=curve)
        return corpus.arb_event(inds=(ind,), loss=0.3, occ=occ, dur=dur, tau=tau, curve=curve)

    if pid in ("C09", "C10"):
        kinds = [("recovery", c) for c in ("linear", "convexe", "convexe noscale", "concave")] + [("arbitrary", "linear"), ("arbitrary", "convexe"), ("rebuild", "linear")]
        i = 0
        for kind, curve in kinds:
            for occ in (1, 2, 3):
                for dur in (1, 2, 4):
                    for tau in (1, 2, 3, 5):
                        sc = corpus.mk_sc(tb, cfg, [mk(kind, occ, dur, tau, curve)], T=14)
                        sc["seed"] = 900000 + i
                        sc["stream"] = "exhaustive-schedules"
                        out.append(sc)
                        i += 1
    if pid == "C11":
        i = 0
        kinds = ["rebuild", "recovery", "arbitrary"]
        for k1 in kinds:
            for k2 in kinds:
                for off in (0, 1, 3):
                    for dur in (1, 3):
                        for tau in (1, 3):
                            for same in (True, False):
                                e1 = mk(k1, 2, dur, tau)
                                e2 = mk(k2, 2 + off, 1, 2, ind=("rA", "agri") if same else ("rB", "build"), frac=0.05)
                                sc = corpus.mk_sc(tb, cfg, [e1, e2], T=16)
                                sc["seed"] = 910000 + i
                                sc["stream"] = "exhaustive-pairs"
                                out.append(sc)
                                i += 1
    return out


def explore(pid, tier, seed, replay=None):
    if pid in ("C12", "C15", "C16", "C17"):
        from harness import special
        try:
            return getattr(special, "explore_" + pid.lower())(tier, seed)
        except Exception as e:
            # the exploration itself broke on this tree: on the unchanged tree it does not, so the code no longer behaves
            # as the harness (written against the documented behaviour) expects — a broken correspondence, not an
            # infrastructure failure
            import traceback
            res = special.new_result(pid)
            res["corr_obligations"] = 1
            res["mismatches"].append({"phase": "exploration", "what": f"the exploration raised {type(e).__name__}: {str(e)[:200]}",
                                      "traceback": traceback.format_exc()[-1500:]})
            return res
    res = {"violations": [], "known": [], "mismatches": [], "corr_obligations": 0, "corr_ok": 0, "scenarios": 0, "steps": 0,
           "nontrivial": 0, "rule": "", "samples": [], "distribution": {}, "branches": {}, "ties": {}, "corpus": {},
           "paired_runs": 0}
    tag, rule = props.NONTRIVIAL.get(pid, ("", ""))
    res["rule"] = ("scenarios drawn by harness/scen.py from PRNG(seed, stream, index); one evaluation = one simulated step of the "
                   "real code; non-trivial = " + rule + "; distinct = distinct (scenario, step) pairs")

    def add_violation(v, sc=None, trig=None):
        if len(res["violations"]) < 20:
            res["violations"].append({"violation": v, "scenario": sc, "trigger": trig})

    # ---- corpus first
    cres = corpus.run_all(props=[pid])
    for fid, v in cres.items():
        res["corpus"][fid] = {"holds": v["holds"], "detail": v["detail"][:200]}
        if not v["holds"]:
            kf = known.match_trigger(pid, fid)
            if kf:
                if kf not in res["known"]:
                    res["known"].append(kf)
            else:
                add_violation({"property": pid, "what": f"corpus trigger {fid} fails: {v['doc']}", "detail": v["detail"]}, trig=fid)
    # ---- scenarios
    scenarios = []
    if replay:
        payload = json.loads(open(replay).read())
        if payload.get("scenario"):
            scenarios.append(payload["scenario"])
    else:
        idx = 0
        for stream, nq, nt in props.STREAMS.get(pid, []):
            count = nq if tier != "thorough" else nt
            for i in range(count):
                scenarios.append(gen_for(stream, seed * 1000003 + idx * 7919 + i))
            idx += 1
        if tier == "thorough":
            ex = exhaustive_scenarios(pid)
            scenarios.extend(ex)
            if ex:
                res["exhaustive_subspaces"] = [f"{ex[0]['stream']}: {len(ex)} scenarios enumerated completely"]
    dr = Driver()
    stats = corr.Stats()
    C = corr.Corr(dr, stats)
    dist = {}
    seen_nontrivial = set()
    phases = props.PHASES.get(pid, [])
    try:
        for sc in scenarios:
            kf = known.match_scenario(pid, sc)
            if kf:
                if kf not in res["known"]:
                    res["known"].append(kf)
                continue
            res["scenarios"] += 1
            try:
                one_scenario(pid, sc, res, dr, stats, C, dist, seen_nontrivial, phases, add_violation)
            except NonFinite as e:
                res["mismatches"].append({"scenario_seed": sc["seed"], "phase": "state", "what": f"non-finite value in the implementation state: {e}"})
            except Exception as e:      # the harness could not follow the implementation (unexpected shapes, missing trackers, …)
                import traceback
                res["mismatches"].append({"scenario_seed": sc["seed"], "phase": "harness", "what": f"the harness could not follow the implementation: {type(e).__name__}: {e}",
                                          "traceback": traceback.format_exc().splitlines()[-4:]})
        if pid == "C20" and not replay:
            from harness import special
            special.explore_c20_extra(res, dr, seed)
    finally:
        dr.close()
    res["corr_obligations"] += stats.obligations
    res["corr_ok"] += stats.ok
    res["nontrivial"] = len(seen_nontrivial)
    res["distribution"].update(dist)
    res["branches"].update(stats.branches)
    res["ties"] = stats.ties
    return res


def one_scenario(pid, sc, res, dr, stats, C, dist, seen_nontrivial, phases, add_violation):
    if True:
        if True:
            key = f"{sc['stream']}/{sc['table']['kind']}/{sc['model']['class']}/{sc['model']['order_type']}"
            dist[key] = dist.get(key, 0) + 1
            for e in sc["events"]:
                kk = "event:" + e["type"] + (":" + str(e.get("curve")) if e.get("curve") else "")
                dist[kk] = dist.get(kk, 0) + 1
            tr = capture.run(sc)
            if len(res["samples"]) < 3:
                res["samples"].append(scen.summarize(sc))
            if tr.build_error:
                dist["build_error:" + tr.build_error[0]] = dist.get("build_error:" + tr.build_error[0], 0) + 1
                for oname in props.RUN_ORACLES.get(pid, []):
                    if oname in ("c01", "c11_run"):
                        for v in RUN_FUNCS[oname](tr, None):
                            add_violation(v, sc)
                return
            c = oracles.consts(tr.model, sc["model"], scen.labels(sc["table"])[1])
            mm_all = []
            try:
                # construction obligations are about freshly built objects
                if "mkparams" in props.INIT_OBLIGATIONS.get(pid, []):
                    mm_all += corr.mkparams_obligation(dr, sc, scen.build_model(sc["table"], sc["model"]), stats)
                if "trackerinit" in props.INIT_OBLIGATIONS.get(pid, []) and sc["events"]:
                    mm_all += corr.trackerinit_obligation(dr, sc, scen.build_sim(sc), stats)
                C.set_params(tr.model)
            except NonFinite as e:
                mm_all.append(corr.Mismatch(phase="construction", var="non-finite", what=str(e)))
                for m_ in mm_all:
                    m_["scenario_seed"] = sc["seed"]
                res["mismatches"].extend(dict(x) for x in mm_all[:5])
                return
            if tr.step_error:
                dist["step_error:" + tr.step_error[1]] = dist.get("step_error:" + tr.step_error[1], 0) + 1
            C.declared_events = sc["events"]
            n_tracked = len(getattr(tr.sim, "_event_tracking", []) or [])
            if sc["events"] and not tr.build_error and n_tracked != len(sc["events"]):
                add_violation({"property": pid, "t": 0, "what": f"{len(sc['events'])} valid events were registered, the simulation tracks {n_tracked} "
                                                               "(an event without tracker never happens)"}, sc)
            for st in tr.steps:
                res["steps"] += 1
                try:
                    mm = C.step(st, tr.sim, phases=phases) if phases else []
                except NonFinite as e:
                    mm = [corr.Mismatch(phase="state", var="non-finite", what=str(e), t=st["t"])]
                mm_all += mm
                for oname in props.STEP_ORACLES.get(pid, []):
                    for v in STEP_FUNCS[oname](tr, st, c):
                        if oname != pid:
                            v["property"] = pid
                        add_violation(v, sc)
                if nontrivial_step(pid, sc, st, c):
                    seen_nontrivial.add((sc["seed"], st["t"]))
            for m_ in mm_all:
                m_["scenario_seed"] = sc["seed"]
                m_["stream"] = sc["stream"]
                if len(res["mismatches"]) < 20:
                    res["mismatches"].append(dict(m_))
            for oname in props.RUN_ORACLES.get(pid, []):
                for v in RUN_FUNCS[oname](tr, c):
                    add_violation(v, sc)
            if pid in getattr(props, "REPORTED", {}):
                from harness import special as _sp
                for v in _sp.records_match_trace(tr, pid, props.REPORTED[pid]):
                    add_violation(v, sc)
            if pid == "C07":
                # the capital stock does not depend on the order in which the table / the ratio dict are given
                tbp = sc["table"]
                Np = tbp["m"] * tbp["n"]
                rr = random.Random(sc["seed"])
                perm = {"rows": rr.sample(range(Np), Np), "cols": rr.sample(range(Np), Np), "ycols": None}
                mp = scen.build_model(tbp, sc["model"], io=scen.build_table(tbp, perm=perm), dict_order=sc["seed"] + 1,
                                      capital_perm=rr.sample(range(Np), Np))
                if not np.allclose(np.asarray(mp.productive_capital, dtype=float).ravel(), c["K"], rtol=1e-12, atol=0):
                    add_violation({"property": "C07", "t": 0, "what": "capital stock differs when the table and the ratio dictionary are given in another label order"}, sc)
                # the capital stock is value added (from the flows Z and the output x) times the ratio, also when the
                # technical coefficients supplied with the table are only consistent with them to within the accepted
                # tolerance (published with 8 decimals)
                if sc["model"]["capital"]["kind"] in ("default", "dict") and tbp["scale"] >= 1:
                    import types
                    sc_r = copy.deepcopy(sc)
                    sc_r["table"]["A_round"] = 8
                    jb = sc["seed"] % Np
                    sc_r["table"]["Y"][jb] = [abs(v) * 1e4 + 1.0 for v in sc_r["table"]["Y"][jb]]
                    try:
                        m_r = scen.build_model(sc_r["table"], sc_r["model"])
                        for v in oracles.c07_capital(types.SimpleNamespace(sc=sc_r), oracles.consts(m_r)):
                            v["what"] += " (technical coefficients published with 8 decimals)"
                            add_violation(v, sc_r)
                    except Exception as e:
                        add_violation({"property": "C07", "t": 0, "what": f"a table whose coefficients are rounded to 8 decimals is refused: {type(e).__name__}: {str(e)[:100]}"}, sc_r)
            # paired runs
            pnames = props.PAIRED.get(pid, [])
            if pnames:
                base = paired.run_records(sc)
                for pn in pnames:
                    fn = getattr(paired, pn)
                    res["paired_runs"] += 1
                    if pn in ("c10_prefix",):
                        vs = fn(sc, base)
                    elif pn in ("c18_variants", "c18_orders"):
                        vs = fn(sc, sc["seed"])
                    elif pn in ("c05_loop", "c05_loop_c20"):
                        vs = fn(sc, base, sc["seed"], tr)
                    else:
                        vs = fn(sc, base, sc["seed"])
                    for v in vs:
                        add_violation(v, sc)
