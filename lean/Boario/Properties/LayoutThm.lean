/-
  Layout theorems (serve C04 and C11): the column ranges of the combined demand matrix are pairwise
  disjoint and cover its width; the range written for event `id` is the range read back for it.
-/
import Boario.Layout
import Mathlib.Tactic.Linarith
import Mathlib.Tactic.Ring

namespace Boario.Layout

/-- writer and reader address the same columns, for industrial and household blocks -/
theorem writer_reader_agree (N F nb id : Nat) :
    writeIndus N id = readIndus N id ∧ writeHouse N F nb id = readHouse N F nb id := by
  exact ⟨rfl, rfl⟩

/-- every block lies inside the rebuilding part -/
theorem blocks_inside (N F nb id : Nat) (h : id < nb) :
    (writeIndus N id).hi ≤ N * nb ∧ N * nb ≤ (writeHouse N F nb id).lo ∧
    (writeHouse N F nb id).hi ≤ (N + F) * nb := by
  simp only [writeIndus, writeHouse]
  have h1 : N * (id + 1) ≤ N * nb := Nat.mul_le_mul_left N h
  have h2 : F * (id + 1) ≤ F * nb := Nat.mul_le_mul_left F h
  refine ⟨h1, Nat.le_add_right _ _, ?_⟩
  rw [Nat.add_mul]
  omega

private theorem mul_succ_le_of_lt (N : Nat) {a b : Nat} (h : a < b) : N * (a + 1) ≤ N * b :=
  Nat.mul_le_mul_left N h

/-- blocks of different events never overlap; industrial and household blocks never overlap -/
theorem blocks_disjoint (N F nb id id' : Nat) (h : id < nb) (h' : id' < nb) (hne : id ≠ id') :
    (writeIndus N id).disjoint (writeIndus N id') ∧
    (writeHouse N F nb id).disjoint (writeHouse N F nb id') ∧
    (writeIndus N id).disjoint (writeHouse N F nb id') ∧
    (writeIndus N id).disjoint (writeHouse N F nb id) := by
  simp only [writeIndus, writeHouse, Range.disjoint]
  have _ := h'
  have hN : N * (id + 1) ≤ N * nb := mul_succ_le_of_lt N h
  rcases Nat.lt_or_gt_of_ne hne with hlt | hlt
  · have h1 := mul_succ_le_of_lt N hlt
    have h2 := mul_succ_le_of_lt F hlt
    refine ⟨Or.inl h1, Or.inl (by omega), Or.inl (by omega), Or.inl (by omega)⟩
  · have h1 := mul_succ_le_of_lt N hlt
    have h2 := mul_succ_le_of_lt F hlt
    refine ⟨Or.inr h1, Or.inr (by omega), Or.inl (by omega), Or.inl (by omega)⟩

private theorem div_block (N c : Nat) (hN : 0 < N) : N * (c / N) ≤ c ∧ c < N * (c / N + 1) := by
  constructor
  · exact Nat.mul_div_le c N
  · exact Nat.lt_mul_div_succ c hN

/-- the blocks cover the rebuilding part: every column belongs to the block of some event -/
theorem blocks_cover (N F nb c : Nat) (hc : c < (N + F) * nb) :
    (∃ id, id < nb ∧ (writeIndus N id).mem c) ∨ (∃ id, id < nb ∧ (writeHouse N F nb id).mem c) := by
  simp only [writeIndus, writeHouse, Range.mem]
  rw [Nat.add_mul] at hc
  by_cases h : c < N * nb
  · left
    have hN : 0 < N := by
      rcases Nat.eq_zero_or_pos N with h0 | h0
      · subst h0; simp at h
      · exact h0
    refine ⟨c / N, ?_, div_block N c hN⟩
    exact (Nat.div_lt_iff_lt_mul hN).2 (by rwa [Nat.mul_comm] at h)
  · right
    have hF : 0 < F := by
      rcases Nat.eq_zero_or_pos F with h0 | h0
      · subst h0; simp at hc; omega
      · exact h0
    have hd := div_block F (c - N * nb) hF
    refine ⟨(c - N * nb) / F, ?_, by omega, by omega⟩
    apply (Nat.div_lt_iff_lt_mul hF).2
    rw [Nat.mul_comm nb F]
    omega

/-- the four parts of the whole matrix partition its width -/
theorem blocks_partition (N F nb : Nat) :
    (ordersRange N).hi = (fdRange N F).lo ∧ (fdRange N F).hi = N + F ∧
    (absolute N F ⟨0, (N + F) * nb⟩).lo = N + F ∧ (absolute N F ⟨0, (N + F) * nb⟩).hi = width N F nb := by
  simp [ordersRange, fdRange, absolute, width]

end Boario.Layout
