"""Run registered checks against every seeded change: apply to /repo, run, undo straight afterwards."""
import json, subprocess, sys, os
from pathlib import Path

def sh(c, cwd=None, timeout=3600, env=None):
    return subprocess.run(c, shell=True, cwd=cwd, capture_output=True, text=True, timeout=timeout, env=env)

def main(names, tier="quick", props=None):
    seeded = Path("/verif/seeded")
    results = {}
    assert sh("git -C /repo status --porcelain -- boario").stdout.strip() == "", "repo dirty"
    for d in sorted(seeded.iterdir()):
        if names and d.name not in names and d.name.split("-")[0] not in names:
            continue
        meta = json.loads((d / "meta.json").read_text())
        pid = meta["property"]
        r = sh(f"git -C /repo apply {d/'patch.diff'}")
        if r.returncode != 0:
            results[d.name] = "patch does not apply"; print(d.name, results[d.name]); continue
        try:
            for p in (props or [pid]):
                r = sh(f"./check {p} {tier}", cwd="/verif")
                line = [l for l in r.stdout.splitlines() if l.startswith("VIOLATION")]
                results[f"{d.name}:{p}"] = (r.returncode, line[0][:160] if line else r.stdout.strip().splitlines()[-1][:160])
                print(d.name, p, results[f"{d.name}:{p}"], flush=True)
        finally:
            sh("git -C /repo checkout -- .")
            sh("git -C /verif checkout -- evidence")      # evidence written against a mutated tree is not evidence
    return results

if __name__ == "__main__":
    args = sys.argv[1:]
    tier = "quick"
    if "--thorough" in args:
        tier = "thorough"; args.remove("--thorough")
    props = None
    if "--props" in args:
        i = args.index("--props"); props = args[i+1].split(","); del args[i:i+2]
    main(args, tier, props)
