/-
  C19 (run level) — delaying all events of a simulation by k steps delays every trajectory by exactly
  k steps: the whole-run statement from t = 0, chaining C01 (the economy rests at its equilibrium
  until the first occurrence), C10 (pending events are invisible) and the commutation lemmas of
  `Boario.Properties.C19`.  Step length 1.
-/
import Boario.Properties.C19
import Boario.Properties.C01
import Boario.Properties.C10
import Boario.Lemmas.ShiftRun

namespace Boario
variable {d : Dims}

/-- an event-free step at the initial equilibrium gives back exactly the same state, one step later
    (all events still pending and not yet due) -/
theorem equilibrium_step_exact (tb : Table d) (c : Config d) (ht : ValidTable tb) (hc : ValidConfig c)
    (hK : ∀ f, 0 ≤ capitalOf tb c f) (s : Sim d)
    (hp : s.p = mkParams tb c) (he : s.econ = initEcon s.p) (hnb : s.nBlocks = 0) (hdt : s.dt = 1)
    (hidle : ∀ tr ∈ s.trackers, tr.status = .pending ∧ s.t < tr.occ) :
    nextStep s = .ok { s with t := s.t + 1 } :=
  equilibrium_step_exact_gen (eqParams_of_valid tb c ht hc) hK s hp he hnb hdt hidle

/-- SHIFT INVARIANCE: for every event set (all pending at t = 0, occurrences and durations ≥ 1),
    every shift k and every horizon n, the run with all events delayed by k, observed from step k on,
    is the original run delayed by k — exactly, in the rational model -/
theorem shift_invariance (tb : Table d) (c : Config d) (ht : ValidTable tb) (hc : ValidConfig c)
    (hK : ∀ f, 0 ≤ capitalOf tb c f) (trs : List (Tracker d))
    (hpend : ∀ tr ∈ trs, tr.status = .pending ∧ 0 < tr.occ ∧ 0 < tr.dur) (k n : Nat) :
    runN (k + n) (initSim (mkParams tb c) 1 (trs.map (shiftTracker k)))
      = (runN n (initSim (mkParams tb c) 1 trs)).map (shiftSim k) := by
  have hP := eqParams_of_valid tb c ht hc
  -- the delayed run rests at the equilibrium for `k` steps …
  have hpre : runN k (initSim (mkParams tb c) 1 (trs.map (shiftTracker k)))
      = some (shiftSim k (initSim (mkParams tb c) 1 trs)) := by
    rw [equilibrium_run_exact hP hK k _ rfl rfl rfl rfl]
    · rfl
    · intro w hw
      obtain ⟨tr, htr, rfl⟩ := List.mem_map.mp hw
      exact ⟨(hpend tr htr).1, by show 0 + k ≤ tr.occ + k; omega⟩
  rw [runN_add, hpre]
  show runN n (shiftSim k (initSim (mkParams tb c) 1 trs)) = _
  -- … and from there on it is the delayed original run
  cases n with
  | zero => rfl
  | succ n =>
    -- step at t = 0: nothing is due in the original run either
    have h0 : nextStep (initSim (mkParams tb c) 1 trs)
        = .ok { initSim (mkParams tb c) 1 trs with t := 1 } :=
      equilibrium_step_exact tb c ht hc hK _ rfl rfl rfl rfl
        fun tr htr => ⟨(hpend tr htr).1, (hpend tr htr).2.1⟩
    have hs0 := shift_step_early k (initSim (mkParams tb c) 1 trs)
      (overprod_id_early hP _ rfl rfl fun tr htr =>
        ⟨(hpend tr htr).1, by have := (hpend tr htr).2.1; show 0 < tr.occ + tr.dur; omega⟩)
    simp only [runN]
    rw [hs0, h0]
    simp only [Outcome.mapOk]
    cases n with
    | zero => rfl
    | succ n =>
      -- step at t = 1: events may start but none has ended (durations ≥ 1)
      have hs1 := shift_step_early k { initSim (mkParams tb c) 1 trs with t := 1 }
        (overprod_id_early hP _ rfl rfl fun tr htr =>
          ⟨(hpend tr htr).1, by
            have h1 := (hpend tr htr).2.1
            have h2 := (hpend tr htr).2.2
            show 1 < tr.occ + tr.dur
            omega⟩)
      simp only [runN]
      rw [hs1]
      cases hn : nextStep { initSim (mkParams tb c) 1 trs with t := 1 } with
      | ok s2 =>
        obtain ⟨ht2, hdt2⟩ := nextStep_ok_t _ _ hn
        exact shift_run_partial k n s2 (by rw [ht2]; show 2 ≤ 1 + 1; omega)
          (by rw [hdt2]; show 0 < 1; omega)
      | crashed _ => rfl
      | rejected => rfl
      | internal => rfl

end Boario
