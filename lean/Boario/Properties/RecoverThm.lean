/-
  `EventTracker.recover` of the source = the model's `recoverOne` in what it evaluates and how it rounds (serves C09, C13, C10).

  `Boario.Gen.Recover` is regenerated on every run: for each ledger the recovery function evaluated, the elapsed time it is
  given (as a function of current temporal unit, occurrence, duration) and the number of decimals kept; and where that number
  comes from.  The theorems say: every curve is evaluated at `t − (occurrence + duration)` (the model's `el`); destroyed
  capital and household damage are rounded to `precision` decimals, the arbitrary capacity loss to 6 (the model's
  `roundI tr.prec`, `roundF tr.prec`, `roundI 6`); and `precision` is `log10` of the MODEL's monetary factor plus one (the
  model's `precOf`) — the rounding quantum of an event's damage depends on the model's unit only, never on the event's.
-/
import Boario.Gen.Recover
import Boario.Init

namespace Boario.Gen
open Boario

/-- the three ledgers, in source order, the function each one is refreshed from and the decimals kept. -/
theorem recover_ledgers_is_code :
    recoverLedgers.map (fun r => (r.1, r.2.1, r.2.2.2)) =
      [("_indus_dmg", "_recovery_function_indus", "precision"),
       ("_house_dmg", "_recovery_function_house", "precision"),
       ("_prod_delta_from_arb", "_recovery_function_arb_delta", "6")] := by
  decide

/-- every curve is given the same elapsed time, the model's `el = t − (occ + dur)`. -/
theorem recover_elapsed_is_code (t occ dur : Nat) :
    recoverElapsed0 (t : Int) (occ : Int) (dur : Int) = (t : Int) - ((occ : Int) + (dur : Int)) ∧
    recoverElapsed1 (t : Int) (occ : Int) (dur : Int) = (t : Int) - ((occ : Int) + (dur : Int)) ∧
    recoverElapsed2 (t : Int) (occ : Int) (dur : Int) = (t : Int) - ((occ : Int) + (dur : Int)) := by
  refine ⟨?_, ?_, ?_⟩ <;> (first | rfl | (simp only [recoverElapsed0, recoverElapsed1, recoverElapsed2]; omega))

/-- the number of decimals comes from the model's monetary factor (not the event's), with the offset of the model's `precOf`. -/
theorem recover_precision_is_code (mfLog10 : Nat) :
    recoverPrecision = ("self.sim.model.monetary_factor", 1) ∧ precOf mfLog10 = mfLog10 + recoverPrecision.2 := by
  constructor
  · decide
  · rfl

/-- every ledger update of a tracker — recovery, industrial and household reconstruction — rounds to the number of decimals
    derived from the model's monetary factor, with the same offset: one rounding quantum per model, whatever the event's unit. -/
theorem precision_sources_is_code :
    precisionSources =
      [("recover", "self.sim.model.monetary_factor", 1),
       ("receive_indus_rebuilding", "self.sim.model.monetary_factor", 1),
       ("receive_house_rebuilding", "self.sim.model.monetary_factor", 1)] := by
  decide

end Boario.Gen
