"""Exploration for one property: corpus triggers, generated scenarios, correspondence obligations of
the property's phases, the property oracle on every trace."""
from __future__ import annotations

import json
import random

from harness.common import Driver, NonFinite, np
from harness import capture, corpus, corr, known, oracles, props, scen


def nontrivial_step(pid, st, c):
    """is this step non-trivial for the property (rule text in props.NONTRIVIAL)"""
    ph = st["phases"]
    try:
        if pid == "C03":
            p = ph.get("production")
            if not p or p["post"] is None:
                return False
            e0, e1 = p["pre"]["econ"], p["post"]["econ"]
            cap = oracles.capacity(c, e0)
            return bool((e1["prod"] < np.fmin(e0["dTot"], cap) * (1 - 1e-12)).any() or (cap < e0["dTot"]).any())
        if pid == "C04":
            p = ph.get("distribute")
            if not p or p["post"] is None:
                return False
            e0 = p["pre"]["econ"]
            return bool((e0["prod"] < e0["dTot"] * (1 - 1e-12)).any())
        if pid == "C05":
            p = ph.get("distribute")
            if not p or p["post"] is None:
                return False
            fin = c["fin"]
            return bool(p.get("exc")) or not np.array_equal(p["pre"]["econ"]["stock"][fin], p["post"]["econ"]["stock"][fin])
        if pid == "C06":
            p = ph.get("orders")
            if not p or p["post"] is None:
                return False
            e0 = p["pre"]["econ"]
            used = e0["prod"][None, :] * c["a"]
            agg = p["post"]["econ"]["orders"].reshape(c["m"], c["n"], -1).sum(axis=0)
            return bool((agg > used * (1 + 1e-9)).any())
        if pid == "C07":
            p = ph.get("events_pre")
            if not p or p["post"] is None:
                return False
            dlt = p["post"]["econ"]["deltaTot"]
            return bool(p.get("exc")) or (dlt is not None and bool((dlt > 0).any()))
        if pid == "C14":
            p = ph.get("overprod")
            if not p or p["post"] is None:
                return False
            return not np.array_equal(p["pre"]["econ"]["alpha"], p["post"]["econ"]["alpha"])
    except Exception:
        return False
    return True


def gen_for(stream, seed):
    if stream == "excess":
        sc = scen.gen_scenario(seed, "shocked", allow_excess=True, types=["recovery", "rebuild"])
        for ev in sc["events"]:
            if ev["type"] != "arbitrary":
                for kk in ev["impact"]:
                    ev["impact"][kk] *= random.Random(seed).choice([3.0, 8.0, 20.0])
        sc["stream"] = "excess"
        return sc
    return scen.gen_scenario(seed, stream)


def explore(pid, tier, seed, replay=None):
    res = {"violations": [], "known": [], "mismatches": [], "corr_obligations": 0, "corr_ok": 0, "scenarios": 0, "steps": 0,
           "nontrivial": 0, "rule": "", "samples": [], "distribution": {}, "branches": {}, "ties": {}, "corpus": {}}
    tag, rule = props.NONTRIVIAL.get(pid, ("", ""))
    res["rule"] = ("scenarios drawn by harness/scen.py from PRNG(seed, stream, index); one evaluation = one simulated step of the "
                   "real code; non-trivial = " + rule + "; distinct = distinct (scenario, step) pairs")
    # ---- corpus first
    cres = corpus.run_all(props=[pid])
    for fid, v in cres.items():
        res["corpus"][fid] = {"holds": v["holds"], "detail": v["detail"][:200]}
        if not v["holds"]:
            kf = known.match_trigger(pid, fid)
            if kf:
                res["known"].append(kf)
            else:
                res["violations"].append({"violation": {"property": pid, "what": f"corpus trigger {fid} fails: {v['doc']}", "detail": v["detail"]},
                                          "trigger": fid})
    # ---- scenarios
    scenarios = []
    if replay:
        payload = json.loads(open(replay).read())
        if payload.get("scenario"):
            scenarios.append(payload["scenario"])
    else:
        idx = 0
        for stream, nq, nt in props.STREAMS.get(pid, []):
            count = nq if tier != "thorough" else nt
            for i in range(count):
                scenarios.append(gen_for(stream, seed * 1000003 + idx * 7919 + i))
            idx += 1
    dr = Driver()
    stats = corr.Stats()
    C = corr.Corr(dr, stats)
    dist = {}
    seen_nontrivial = set()
    try:
        for sc in scenarios:
            kf = known.match_scenario(pid, sc)
            if kf:
                if kf not in res["known"]:
                    res["known"].append(kf)
                continue
            res["scenarios"] += 1
            key = f"{sc['stream']}/{sc['table']['kind']}/{sc['model']['class']}/{sc['model']['order_type']}"
            dist[key] = dist.get(key, 0) + 1
            tr = capture.run(sc)
            if len(res["samples"]) < 3:
                res["samples"].append(scen.summarize(sc) if hasattr(scen, "summarize") else {"seed": sc["seed"]})
            if tr.build_error:
                dist["build_error"] = dist.get("build_error", 0) + 1
                continue
            c = oracles.consts(tr.model)
            try:
                C.set_params(tr.model)
            except NonFinite as e:
                res["mismatches"].append({"scenario_seed": sc["seed"], "phase": "params", "what": str(e)})
                continue
            if tr.step_error:
                dist["step_error:" + tr.step_error[1]] = dist.get("step_error:" + tr.step_error[1], 0) + 1
            for st in tr.steps:
                res["steps"] += 1
                try:
                    mm = C.step(st, tr.sim, phases=props.PHASES.get(pid))
                except NonFinite as e:
                    mm = [corr.Mismatch(phase="state", var="non-finite", what=str(e), t=st["t"])]
                for m_ in mm:
                    m_["scenario_seed"] = sc["seed"]
                    m_["stream"] = sc["stream"]
                    if len(res["mismatches"]) < 20:
                        res["mismatches"].append(dict(m_))
                for oname in props.STEP_ORACLES.get(pid, []):
                    for v in oracles.PER_STEP[oname](tr, st, c):
                        if len(res["violations"]) < 20:
                            res["violations"].append({"violation": v, "scenario": sc})
                if nontrivial_step(pid, st, c):
                    seen_nontrivial.add((sc["seed"], st["t"]))
            for v in run_oracles(pid, tr, c):
                if len(res["violations"]) < 20:
                    res["violations"].append({"violation": v, "scenario": sc})
    finally:
        dr.close()
    res["corr_obligations"] = stats.obligations
    res["corr_ok"] = stats.ok
    res["nontrivial"] = len(seen_nontrivial)
    res["distribution"] = dist
    res["branches"] = stats.branches
    res["ties"] = stats.ties
    return res


def run_oracles(pid, tr, c):
    out = []
    if pid == "C05":
        out += oracles.c05_run(tr, c)
    if pid == "C07":
        out += oracles.c07_capital(tr, c)
    return out
