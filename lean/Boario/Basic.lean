/-
  Boario.Basic — core-only numeric helpers of the model (no Mathlib import: the driver links natively).

  All arithmetic of the model is exact `Rat`.  Every division site of the Python code is either
  `safeDiv` (the code guards it with `where=(b != 0)` and pre-fills the output) or a plain `/`
  that is only reached under a non-zero guard visible in the caller.
-/
namespace Boario

/-- Sum over `Fin n` in index order (the order NumPy sums a row). -/
def sumFin (n : Nat) (f : Fin n → Rat) : Rat :=
  Fin.foldl n (fun acc i => acc + f i) 0

/-- `min` folded over `Fin n`, starting from `init`. -/
def minFin (n : Nat) (init : Rat) (f : Fin n → Rat) : Rat :=
  Fin.foldl n (fun acc i => min acc (f i)) init

/-- `max` folded over `Fin n`, starting from `init`. -/
def maxFin (n : Nat) (init : Rat) (f : Fin n → Rat) : Rat :=
  Fin.foldl n (fun acc i => max acc (f i)) init

/-- Sum of a list of rationals, left to right. -/
def sumList (l : List Rat) : Rat := l.foldl (· + ·) 0

/-- `np.divide(a, b, out=fill, where=(b != 0))`. -/
def safeDiv (a b fill : Rat) : Rat := if b = 0 then fill else a / b

/-- absolute value (core `Rat` has no `abs` without Mathlib) -/
def rabs (x : Rat) : Rat := if x < 0 then -x else x

/-- positive part, `x[x < 0] = 0` -/
def pos (x : Rat) : Rat := if x < 0 then 0 else x

/-- NumPy's default `allclose` tolerances. -/
def atol : Rat := 1 / 100000000
def rtol : Rat := 1 / 100000

/-- one cell of `np.isclose(a, b)`: `|a - b| ≤ atol + rtol * |b|` (finite operands). -/
def isClose (a b : Rat) : Prop := rabs (a - b) ≤ atol + rtol * rabs b

instance (a b : Rat) : Decidable (isClose a b) := by unfold isClose; infer_instance

/-- margin of the closeness test of one cell: positive iff *not* close. -/
def closeMargin (a b : Rat) : Rat := rabs (a - b) - (atol + rtol * rabs b)

/-- Round half to even to an integer (what `np.rint` does), on an exact rational. -/
def rintEven (x : Rat) : Int :=
  let fl := x.floor
  let fr := x - (fl : Rat)
  if fr < 1/2 then fl
  else if 1/2 < fr then fl + 1
  else if fl % 2 = 0 then fl else fl + 1

/-- `np.round(x, p)` for `p ≥ 0`: `rint(x * 10^p) / 10^p`. -/
def roundDec (p : Nat) (x : Rat) : Rat :=
  (rintEven (x * (10 : Rat) ^ p) : Rat) / (10 : Rat) ^ p

/-- distance of `x·10^p` from the nearest half-way point (tie margin of `roundDec`). -/
def roundTieMargin (p : Nat) (x : Rat) : Rat :=
  let y := x * (10 : Rat) ^ p
  rabs (y - (y.floor : Rat) - 1/2)

end Boario
