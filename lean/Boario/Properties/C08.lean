/-
  C08 — Reconstruction demand is conserved from creation to completion.
-/
import Boario.Lemmas.Sums
import Boario.Init
import Boario.Lemmas.Round

namespace Boario
variable {d : Dims}

/-- rounding quantum of the ledgers -/
def quantum (prec : Nat) : Rat := 1 / (10 : Rat) ^ prec

/-- a value on the rounding grid of the ledgers -/
def OnGrid (prec : Nat) (x : Rat) : Prop := ∃ k : Int, x = (k : Rat) / (10 : Rat) ^ prec

/-- hypotheses on a rebuilding event: declared shares sum to one over the rebuilding sectors, are zero
    elsewhere, and every (rebuilding sector, affected industry) pair has a supplier (else: finding F13) -/
structure RebuildHyp (tb : Table d) (ev : EventSpec d) : Prop where
  shares_sum : (sumFin d.n fun s => ev.shares s) = 1
  shares_support : ∀ s, ev.isReb s = false → ev.shares s = 0
  supplier : ∀ s j, ev.isReb s = true → ev.impact j ≠ 0 → zC tb s j ≠ 0

structure HouseHyp (tb : Table d) (ev : EventSpec d) (h : Fd d → Rat) : Prop where
  supplier : ∀ s c, ev.isReb s = true → h c ≠ 0 → yC tb s c ≠ 0

section
variable (tb : Table d) (ev : EventSpec d) (mf : Rat)

/-- demand created for one rebuilding sector and one damaged industry, summed over supplying regions,
    is the declared share of impact × conversion × factor -/
theorem rebuild_split (hy : RebuildHyp tb ev) (s : Fin d.n) (j : Ind d) (hs : ev.isReb s = true) :
    (sumFin d.m fun r => rem0I tb ev mf (r, s) j)
      = ev.shares s * (ev.impact j * convFactor ev.emf mf) * ev.factor := by
  rw [sumFin_eq_sum]
  by_cases hj : ev.impact j = 0
  · simp [rem0I, hj]
  · have hz : zC tb s j ≠ 0 := hy.supplier s j hs hj
    have hz' : (∑ r, tb.Z (r, s) j) = zC tb s j := by unfold zC; rw [sumFin_eq_sum]
    simp only [rem0I, hs, hj, distI, ne_eq, not_false_eq_true, and_self, if_true]
    rw [← Finset.mul_sum, ← Finset.sum_div, hz', div_self hz, mul_one]

/-- total demand created for a damaged industry = its impact (model unit) × rebuilding factor,
    whatever the number of rebuilding sectors -/
theorem rebuild_total_industry (hy : RebuildHyp tb ev) (j : Ind d) :
    sumInd d (fun i => rem0I tb ev mf i j) = ev.impact j * convFactor ev.emf mf * ev.factor := by
  rw [sumInd_eq_sum, Finset.sum_comm]
  have hsum : (∑ s, ev.shares s) = 1 := by rw [← sumFin_eq_sum]; exact hy.shares_sum
  have hterm : ∀ s, (∑ r, rem0I tb ev mf (r, s) j)
      = ev.shares s * (ev.impact j * convFactor ev.emf mf * ev.factor) := by
    intro s
    cases hs : ev.isReb s with
    | true =>
      rw [← sumFin_eq_sum, rebuild_split tb ev mf hy s j hs]; ring
    | false =>
      rw [hy.shares_support s hs]
      simp [rem0I, hs]
  rw [Finset.sum_congr rfl fun s _ => hterm s, ← Finset.sum_mul, hsum, one_mul]

/-- … hence the grand total = (Σ impact) × conversion × factor -/
theorem rebuild_total (hy : RebuildHyp tb ev) :
    sumInd d (fun j => sumInd d (fun i => rem0I tb ev mf i j))
      = sumInd d ev.impact * convFactor ev.emf mf * ev.factor := by
  rw [sumInd_eq_sum_prod, sumInd_eq_sum_prod]
  rw [Finset.sum_congr rfl fun j _ => rebuild_total_industry tb ev mf hy j]
  rw [Finset.sum_mul, Finset.sum_mul]

/-- the same for household damage -/
theorem rebuild_split_house (hy : RebuildHyp tb ev) (h : Fd d → Rat) (hh : HouseHyp tb ev h)
    (s : Fin d.n) (c : Fd d) (hs : ev.isReb s = true) :
    (sumFin d.m fun r => rem0H tb ev mf h (r, s) c)
      = ev.shares s * (h c * convFactor ev.emf mf) * ev.factor := by
  have _ := hy
  rw [sumFin_eq_sum]
  by_cases hj : h c = 0
  · simp [rem0H, hj]
  · have hz : yC tb s c ≠ 0 := hh.supplier s c hs hj
    have hz' : (∑ r, tb.Y (r, s) c) = yC tb s c := by unfold yC; rw [sumFin_eq_sum]
    simp only [rem0H, hs, hj, distH, ne_eq, not_false_eq_true, and_self, if_true]
    rw [← Finset.mul_sum, ← Finset.sum_div, hz', div_self hz, mul_one]

theorem rebuild_total_house (hy : RebuildHyp tb ev) (h : Fd d → Rat) (hh : HouseHyp tb ev h) (c : Fd d) :
    sumInd d (fun i => rem0H tb ev mf h i c) = h c * convFactor ev.emf mf * ev.factor := by
  rw [sumInd_eq_sum, Finset.sum_comm]
  have hsum : (∑ s, ev.shares s) = 1 := by rw [← sumFin_eq_sum]; exact hy.shares_sum
  have hterm : ∀ s, (∑ r, rem0H tb ev mf h (r, s) c)
      = ev.shares s * (h c * convFactor ev.emf mf * ev.factor) := by
    intro s
    cases hs : ev.isReb s with
    | true =>
      rw [← sumFin_eq_sum, rebuild_split_house tb ev mf hy h hh s c hs]; ring
    | false =>
      rw [hy.shares_support s hs]
      simp [rem0H, hs]
  rw [Finset.sum_congr rfl fun s _ => hterm s, ← Finset.sum_mul, hsum, one_mul]

/-- only rebuilding sectors ever receive such demand -/
theorem only_rebuilding_sectors (i j : Ind d) (h : rem0I tb ev mf i j ≠ 0) : ev.isReb i.2 = true := by
  unfold rem0I at h
  by_contra hn
  exact h (if_neg fun hc => hn hc.1)

theorem only_rebuilding_sectors_house (hd : Fd d → Rat) (i : Ind d) (c : Fd d)
    (h : rem0H tb ev mf hd i c ≠ 0) : ev.isReb i.2 = true := by
  unfold rem0H at h
  by_contra hn
  exact h (if_neg fun hc => hn hc.1)

end

/-- demand presented to producers = remaining demand × step / tau -/
theorem rebuild_presented (dt : Nat) (tr : Tracker d) (rem : Ind d → Ind d → Rat) (h : tr.remI = some rem)
    (i j : Ind d) : (presented dt tr).indus i j = rem i j * ((dt : Rat) / (tr.tau : Rat)) := by
  simp only [presented, h]

theorem rebuild_presented_house (dt : Nat) (tr : Tracker d) (rem : Ind d → Fd d → Rat) (h : tr.remH = some rem)
    (i : Ind d) (c : Fd d) : (presented dt tr).house i c = rem i c * ((dt : Rat) / (tr.tau : Rat)) := by
  simp only [presented, h]

/-! one ledger cell: `settle prec rem delivered` -/

/-- never negative -/
theorem settle_nonneg (prec : Nat) (rem del : Rat) : 0 ≤ settle prec rem del := by
  exact pos_nonneg _

/-- decreases by exactly what was delivered, up to half a rounding quantum -/
theorem settle_exact (prec : Nat) (rem del : Rat) (h : del ≤ rem) :
    rabs (settle prec rem del - (rem - del)) ≤ quantum prec / 2 := by
  obtain ⟨h1, h2⟩ := roundDec_bounds prec (rem - del)
  have hq : 0 < quantum prec := by unfold quantum; exact one_div_pos.2 (pow10_pos prec)
  unfold settle pos quantum at *
  split_ifs with hneg
  · apply rabs_le <;> linarith
  · apply rabs_le <;> linarith

/-- stays on the rounding grid -/
theorem settle_on_grid (prec : Nat) (rem del : Rat) : OnGrid prec (settle prec rem del) := by
  unfold settle pos
  split_ifs
  · exact ⟨0, by simp⟩
  · exact ⟨_, rfl⟩

/-- never increases once the ledger is on the grid (i.e. from the second step on) -/
theorem settle_le (prec : Nat) (rem del : Rat) (hg : OnGrid prec rem) (hr : 0 ≤ rem) (hd : 0 ≤ del) :
    settle prec rem del ≤ rem := by
  obtain ⟨k, hk⟩ := hg
  unfold settle
  apply pos_le _ hr
  rw [hk]
  apply roundDec_le_grid
  rw [← hk]; linarith

/-- … and by at most half a quantum at the first step -/
theorem settle_le_first (prec : Nat) (rem del : Rat) (hr : 0 ≤ rem) (hd : 0 ≤ del) :
    settle prec rem del ≤ rem + quantum prec / 2 := by
  obtain ⟨h1, h2⟩ := roundDec_bounds prec (rem - del)
  have hq : 0 < quantum prec := by unfold quantum; exact one_div_pos.2 (pow10_pos prec)
  unfold settle
  unfold quantum at *
  apply pos_le <;> linarith

/-- a cell without demand never acquires any -/
theorem settle_zero (prec : Nat) (del : Rat) (hd : 0 ≤ del) : settle prec 0 del = 0 := by
  have h1 : roundDec prec (0 - del) ≤ 0 := roundDec_nonpos _ _ (by linarith)
  unfold settle pos
  split_ifs with hneg
  · rfl
  · exact le_antisymm h1 (not_lt.1 hneg)

/-- destroyed capital reported for a rebuilding event = remaining industrial demand / rebuilding factor -/
theorem damage_eq (tr : Tracker d) (got : RebBlock d) (rem : Ind d → Ind d → Rat) (h : tr.remI = some rem) :
    ((receive tr got).remI = none ∧ (receive tr got).dmg = none) ∨
    ∃ rem', (receive tr got).remI = some rem' ∧
      (∀ i j, rem' i j = settle tr.prec (rem i j) (got.indus i j)) ∧
      (receive tr got).dmg = some (fun j => sumInd d (fun i => rem' i j) / tr.factor) := by
  unfold receive
  simp only [h]
  by_cases hz : allZeroII (fun i j => settle tr.prec (rem i j) (got.indus i j))
  · left
    simp only [hz, if_true]
    constructor
    · split <;> split <;> (try split) <;> rfl
    · split <;> split <;> (try split) <;> rfl
  · right
    refine ⟨fun i j => settle tr.prec (rem i j) (got.indus i j), ?_, fun _ _ => rfl, ?_⟩
    · simp only [hz, if_false]
      split <;> split <;> (try split) <;> rfl
    · simp only [hz, if_false]
      split <;> split <;> (try split) <;> rfl

/-- the remaining demand of every cell is antitone along any sequence of deliveries, non-negative,
    and a cell that never had demand stays at zero -/
theorem rebuild_antitone_reach (prec : Nat) (rem0 : Rat) (dels : List Rat)
    (hg : OnGrid prec rem0) (h0 : 0 ≤ rem0) (hd : ∀ x ∈ dels, 0 ≤ x) :
    0 ≤ dels.foldl (settle prec) rem0 ∧ dels.foldl (settle prec) rem0 ≤ rem0 := by
  induction dels generalizing rem0 with
  | nil => exact ⟨h0, le_refl _⟩
  | cons x xs ih =>
    have hx : 0 ≤ x := hd x (by simp)
    have := ih (settle prec rem0 x) (settle_on_grid prec rem0 x) (settle_nonneg prec rem0 x)
      (fun y hy => hd y (by simp [hy]))
    rw [List.foldl_cons]
    exact ⟨this.1, le_trans this.2 (settle_le prec rem0 x hg h0 hx)⟩

end Boario
