/-
  Helper lemmas for C12: `fromSeries`, `levelDistrib`, `distributeIndustries`, `regionsSectors`.
-/
import Boario.Lemmas.Sums
import Boario.Impact
import Mathlib.Algebra.BigOperators.Group.List.Basic
import Mathlib.Data.List.Basic

namespace Boario.Impact

theorem total_eq (l : Labelled) : total l = (l.map (·.2)).sum := by
  unfold total; rw [sumList_eq_sum]

theorem total_nil : total [] = 0 := by simp [total_eq]

theorem total_cons (p : Nat × Rat) (l : Labelled) : total (p :: l) = p.2 + total l := by
  simp [total_eq]

theorem total_append (l₁ l₂ : Labelled) : total (l₁ ++ l₂) = total l₁ + total l₂ := by
  simp [total_eq]

theorem total_filter_ne_zero (l : Labelled) : total (l.filter fun p => p.2 ≠ 0) = total l := by
  induction l with
  | nil => rfl
  | cons p ps ih =>
    by_cases h : p.2 = 0
    · rw [List.filter_cons_of_neg (by simpa using h), ih, total_cons, h, zero_add]
    · rw [List.filter_cons_of_pos (by simpa using h), total_cons, total_cons, ih]

/-- total of a list of scaled values -/
theorem total_map_mul (c : Rat) (l : Labelled) :
    total (l.map fun p => (p.1, c * p.2)) = c * total l := by
  induction l with
  | nil => simp [total_nil]
  | cons p ps ih => rw [List.map_cons, total_cons, total_cons, ih]; ring

theorem total_map_div (c : Rat) (l : Labelled) :
    total (l.map fun p => (p.1, p.2 / c)) = total l / c := by
  induction l with
  | nil => simp [total_nil]
  | cons p ps ih => rw [List.map_cons, total_cons, total_cons, ih]; ring

theorem total_map_const (c : Rat) (aff : List Nat) :
    total (aff.map fun k => (k, c)) = (aff.length : Rat) * c := by
  induction aff with
  | nil => simp [total_nil]
  | cons p ps ih => rw [List.map_cons, total_cons, ih]; simp; ring

/-- what an accepted series looks like -/
theorem fromSeries_ok {l r : Labelled} (h : fromSeries l = .ok r) :
    r = (l.filter fun p => p.2 ≠ 0) ∧ ∀ p ∈ r, 0 < p.2 := by
  simp only [fromSeries] at h
  split at h
  · cases h
  · split at h
    · cases h
    · split at h
      · cases h
      · rename_i hany
        injection h with h
        subst h
        refine ⟨rfl, ?_⟩
        intro p hp
        by_contra hle
        apply hany
        rw [List.any_eq_true]
        exact ⟨p, hp, by simpa using hle⟩

theorem fromSeries_total {l r : Labelled} (h : fromSeries l = .ok r) : total r = total l := by
  rw [(fromSeries_ok h).1, total_filter_ne_zero]

theorem fromSeries_mem {l r : Labelled} (h : fromSeries l = .ok r) : ∀ p ∈ r, p ∈ l := by
  intro p hp
  rw [(fromSeries_ok h).1] at hp
  exact (List.mem_filter.1 hp).1

/-- a series without zeros is returned unchanged -/
theorem fromSeries_eq_of_ne_zero {l r : Labelled} (h : fromSeries l = .ok r)
    (hnz : ∀ p ∈ l, p.2 ≠ 0) : r = l := by
  rw [(fromSeries_ok h).1]
  exact List.filter_eq_self.2 (fun p hp => by simpa using hnz p hp)

theorem levelDistrib_none (aff : List Nat) :
    levelDistrib aff none = .ok (aff.map fun k => (k, 1 / (aff.length : Rat))) := rfl

theorem levelDistrib_some_ok {aff : List Nat} {w s : Labelled}
    (h : levelDistrib aff (some w) = .ok s) :
    (∀ k ∈ aff, (lookup w k).isSome = true) ∧
    total (aff.map fun k => (k, (lookup w k).getD 0)) ≠ 0 ∧
    s = aff.map fun k => (k, (lookup w k).getD 0 / total (aff.map fun k => (k, (lookup w k).getD 0))) := by
  simp only [levelDistrib] at h
  split at h
  · rename_i hall
    split at h
    · cases h
    · rename_i htot
      injection h with h
      refine ⟨by simpa using hall, htot, ?_⟩
      rw [← h, List.map_map]
      rfl
  · cases h

theorem levelDistrib_total {aff : List Nat} {w : Option Labelled} {s : Labelled} (hne : aff ≠ [])
    (h : levelDistrib aff w = .ok s) : total s = 1 := by
  cases w with
  | none =>
    rw [levelDistrib_none] at h
    injection h with h
    rw [← h, total_map_const]
    have : (aff.length : Rat) ≠ 0 := by
      simpa using hne
    field_simp
  | some w =>
    obtain ⟨_, htot, hs⟩ := levelDistrib_some_ok h
    have : s = (aff.map fun k => (k, (lookup w k).getD 0)).map
        fun p => (p.1, p.2 / total (aff.map fun k => (k, (lookup w k).getD 0))) := by
      rw [hs, List.map_map]; rfl
    rw [this, total_map_div, div_self htot]

theorem distributeIndustries_ok {impact : Rat} {aff : List Nat} {w : Option Labelled} {l : Labelled}
    (h : distributeIndustries impact aff w = .ok l) :
    0 < impact ∧ aff ≠ [] ∧ ∃ s, levelDistrib aff w = .ok s ∧
      fromSeries (s.map fun p => (p.1, impact * p.2)) = .ok l := by
  simp only [distributeIndustries] at h
  split at h
  · cases h
  · rename_i himp
    split at h
    · cases h
    · rename_i hemp
      split at h
      · cases h
      · rename_i s hs
        exact ⟨lt_of_not_ge himp, by simpa using hemp, s, hs, h⟩

theorem total_map_outer_row (c a : Rat) (g : Nat → Nat) (ss : Labelled) :
    total (ss.map fun q => (g q.1, c * (a * q.2))) = c * (a * total ss) := by
  induction ss with
  | nil => simp [total_nil]
  | cons q qs ih => rw [List.map_cons, total_cons, total_cons, ih]; ring

theorem total_flatMap_outer (c : Rat) (f : Nat → Nat → Nat) (sr ss : Labelled) :
    total (sr.flatMap fun pr => ss.map fun ps => (f pr.1 ps.1, c * (pr.2 * ps.2))) =
      c * (total sr * total ss) := by
  induction sr with
  | nil => simp [total_nil]
  | cons p ps ih =>
    rw [List.flatMap_cons, total_append, ih, total_cons, total_map_outer_row c p.2 (f p.1) ss]
    ring

theorem regionsSectors_ok {impact : Rat} {regs secs : List Nat} {nSec : Nat} {wr ws : Option Labelled}
    {l : Labelled} (h : regionsSectors impact regs secs nSec wr ws = .ok l) :
    0 < impact ∧ regs ≠ [] ∧ secs ≠ [] ∧ ∃ sr ss, levelDistrib regs wr = .ok sr ∧
      levelDistrib secs ws = .ok ss ∧
      fromSeries (sr.flatMap fun pr => ss.map fun ps =>
        (pairLabel nSec pr.1 ps.1, impact * (pr.2 * ps.2))) = .ok l := by
  simp only [regionsSectors] at h
  split at h
  · cases h
  · rename_i himp
    split at h
    · cases h
    · rename_i hemp
      split at h
      · rename_i sr ss hsr hss
        refine ⟨lt_of_not_ge himp, ?_, ?_, sr, ss, hsr, hss, h⟩
        · intro h0; apply hemp; left; simp [h0]
        · intro h0; apply hemp; right; simp [h0]
      · cases h
      · cases h

end Boario.Impact
