/-
  The element-wise formulas of the source = the model's definitions, for every value (serves C14, C02, C07,
  C09, C20).

  `Boario.Gen.Formulas` is regenerated from the source on every run (`harness/translate.py`, `Pointwise`):
  `calc_overproduction`, `production_cap` (value and the condition under which it raises), `production_opt`
  and the three closed-form recovery curves, each as a function of one cell's values over `Rat`.  The
  theorems below say that these are the functions the model uses (`Boario.overprod`, `capacity`,
  `capNegative`, `xOpt`, `gLinear`, `gConvexe`, `gConvexeScaled`), for all arguments.  A changed formula in
  the source changes the generated file and the corresponding theorem no longer checks; an algebraically
  equal rewrite still does (the proofs go through `ring`).
-/
import Boario.Gen.Formulas
import Boario.Econ
import Boario.Events
import Mathlib.Tactic.Ring
import Mathlib.Tactic.SplitIfs
import Mathlib.Tactic.Linarith

set_option linter.unusedTactic false
set_option linter.unreachableTactic false

set_option linter.unusedSimpArgs false
set_option linter.unnecessarySeqFocus false

namespace Boario.Gen
open Boario

variable {d : Dims}

/-- close `code expression = model expression` over `Rat`: unfold both, turn `max` / `min` into case splits,
    split every `if`, and close each leaf by a ring identity or by linear arithmetic from the case hypotheses
    (contradictory cases included).  Deliberately insensitive to the order of factors, to `np.where` against
    indicator products and to `np.maximum` against masked assignment. -/
macro "formula_cases" : tactic =>
  `(tactic| (
      (try simp only [max_def, min_def, gt_iff_lt, ge_iff_le, ne_eq, ite_not, mul_ite, ite_mul, mul_one, mul_zero,
        one_mul, zero_mul, add_zero, zero_add]) <;>
      (try split_ifs) <;>
        first
          | rfl
          | ring1
          | linarith
          | (exfalso; linarith)
          | (exfalso; simp_all; done)
          | (simp_all; done)
          | (simp_all; ring1)
          | (simp_all; linarith)))

/-- `calc_overproduction` of the source is the model's `overprod`, industry by industry. -/
theorem overprod_is_code (p : Params d) (alpha dTot prod : Ind d → Rat) (f : Ind d) :
    calc_overproduction (alpha f) p.aMax p.aBase p.aTau (dTot f) (prod f) = overprod p alpha dTot prod f := by
  simp only [calc_overproduction, overprod, alphaChg, scarcity]
  by_cases h0 : dTot f = 0
  · simp only [h0, ne_eq, not_true_eq_false, if_false, not_false_eq_true, if_true, lt_irrefl, le_refl, gt_iff_lt]
    formula_cases
  · simp only [h0, ne_eq, not_true_eq_false, if_false, not_false_eq_true, if_true]
    formula_cases

/-- `production_cap` of the source is the model's `capacity`. -/
theorem capacity_is_code (p : Params d) (deltaTot alpha : Ind d → Rat) (f : Ind d) :
    production_cap (p.x0 f) (deltaTot f) (alpha f) = capacity p deltaTot alpha f := by
  (try simp only [production_cap, capacity]) <;> first | rfl | ring1

/-- `production_cap` raises exactly when the model's step is rejected for a negative capacity. -/
theorem capNegative_is_code (p : Params d) (deltaTot alpha : Ind d → Rat) :
    capNegative p deltaTot alpha ↔ ∃ f : Ind d, production_cap_rejects (p.x0 f) (deltaTot f) (alpha f) := by
  simp only [capNegative, production_cap_rejects, capacity]
  constructor
  · rintro ⟨r, s, h⟩; exact ⟨(r, s), h⟩
  · rintro ⟨⟨r, s⟩, h⟩; exact ⟨r, s, h⟩

/-- `production_opt` of the source is the model's `xOpt`. -/
theorem xOpt_is_code (p : Params d) (dTot deltaTot alpha : Ind d → Rat) (f : Ind d) :
    production_opt (dTot f) (production_cap (p.x0 f) (deltaTot f) (alpha f)) = xOpt p dTot deltaTot alpha f := by
  simp only [production_opt, production_cap, xOpt, capacity] <;>
    (first | rfl | (congr 1; ring1) | (rw [min_comm]; first | rfl | (congr 1; ring1)))

/-- `ARIOPsiModel.calc_inventory_constraints` of the source is the model's `cons`, cell by cell
    (`durOrZero` is `nan_to_num(inv_duration, posinf=0)`). -/
theorem cons_is_code (p : Params d) (x : Ind d → Rat) (s : Fin d.n) (f : Ind d) :
    calc_inventory_constraints_psi (x f) (p.a s f) p.psi (durOrZero p s) = cons p x s f := by
  simp only [calc_inventory_constraints_psi, cons] <;>
    (first | rfl | ring1)

/-- the base class computes the same constraint without the factor psi. -/
theorem cons_base_is_code (p : Params d) (x : Ind d → Rat) (s : Fin d.n) (f : Ind d) (hpsi : p.psi = 1) :
    calc_inventory_constraints_base (x f) (p.a s f) (durOrZero p s) = cons p x s f := by
  simp only [calc_inventory_constraints_base, cons, hpsi] <;>
    (first | rfl | ring1)

/-- one cell of `distributed_production` in the source is the model's `deliverCell` (demand / row total × production,
    0 for a row without demand). -/
theorem deliverCell_is_code (tot prod cell : Rat) : delivery_cell cell tot prod = deliverCell tot prod cell := by
  simp only [delivery_cell, deliverCell, safeDiv] <;>
    formula_cases

/-- every delivery of the step is the code's cell formula applied to the fresh row total. -/
theorem deliveries_are_code (e : Econ d) (i j : Ind d) (c : Fd d) :
    (deliveries e).orders i j = delivery_cell (e.orders i j) (rowTot e.orders e.fd e.reb i) (e.prod i) ∧
    (deliveries e).fd i c = delivery_cell (e.fd i c) (rowTot e.orders e.fd e.reb i) (e.prod i) := by
  constructor <;> (rw [deliverCell_is_code]; rfl)

/-- `stock_use` of the source is the model's `stockUse`. -/
theorem stockUse_is_code (p : Params d) (prod : Ind d → Rat) (s : Fin d.n) (f : Ind d) :
    stock_use_cell (prod f) (p.a s f) = stockUse p prod s f := by
  simp only [stock_use_cell, stockUse] <;>
    (first | rfl | ring1)

/-- the inventory update of the source is the model's `stockUpdated`. -/
theorem stockUpdated_is_code (p : Params d) (e : Econ d) (dl : Ind d → Ind d → Rat) (s : Fin d.n) (f : Ind d) :
    stock_update_cell (e.stock s f) (stock_use_cell (e.prod f) (p.a s f)) (stockAdd dl s f) = stockUpdated p e dl s f := by
  simp only [stock_update_cell, stock_use_cell, stockUpdated, stockUse] <;>
    (first | rfl | ring1)

/-- the reconstruction ledger after delivery is the model's `subBlock`, cell by cell. -/
theorem subBlock_is_code (b c : RebBlock d) (i j : Ind d) (cc : Fd d) :
    (subBlock b c).indus i j = rebuild_demand_cell (b.indus i j) (c.indus i j) ∧
    (subBlock b c).house i cc = rebuild_demand_cell (b.house i cc) (c.house i cc) := by
  constructor <;> (simp only [subBlock, rebuild_demand_cell] <;> (first | rfl | ring1))

/-- `calc_orders`: the need of an input is the model's `needWith`. -/
theorem needWith_is_code (p : Params d) (gap : Fin d.n → Ind d → Rat) (prod : Ind d → Rat) (s : Fin d.n) (f : Ind d) :
    need_cell (gap s f) (prod f) (p.a s f) = needWith p gap prod s f := by
  simp only [need_cell, needWith] <;>
    (first | rfl | ring1)

/-- alt branch: the capacity-weighted flow of the source is the model's `zProd` (relative capacity 1 where x0 = 0). -/
theorem zProd_is_code (p : Params d) (deltaTot alpha : Ind d → Rat) (i j : Ind d) :
    z_prod_cell (production_cap (p.x0 i) (deltaTot i) (alpha i)) (p.x0 i) (p.Z0 i j) = zProd p deltaTot alpha i j := by
  simp only [z_prod_cell, production_cap, zProd, rho, capacity, safeDiv] <;>
    formula_cases

/-- alt branch: the supplier share of the source, given the regional sum of the code's own `Z_prod` cells, is the
    model's `altShare`. -/
theorem altShare_is_code (p : Params d) (deltaTot alpha : Ind d → Rat) (i j : Ind d) :
    alt_share_cell (z_prod_cell (production_cap (p.x0 i) (deltaTot i) (alpha i)) (p.x0 i) (p.Z0 i j))
        (sumFin d.m fun r => z_prod_cell (production_cap (p.x0 (r, i.2)) (deltaTot (r, i.2)) (alpha (r, i.2))) (p.x0 (r, i.2)) (p.Z0 (r, i.2) j))
      = altShare p deltaTot alpha i j := by
  have hz : ∀ a b, z_prod_cell (production_cap (p.x0 a) (deltaTot a) (alpha a)) (p.x0 a) (p.Z0 a b) = zProd p deltaTot alpha a b :=
    fun a b => zProd_is_code p deltaTot alpha a b
  simp only [hz]
  simp only [alt_share_cell, altShare, zCProd, safeDiv] <;>
    formula_cases

/-- the orders of the source, cell by cell, are the model's `ordersFrom` in both variants. -/
theorem ordersFrom_is_code (p : Params d) (e : Econ d) (gap : Fin d.n → Ind d → Rat) (i j : Ind d) :
    ordersFrom p e gap i j =
      if p.alt then alt_order_cell (need_cell (gap i.2 j) (e.prod j) (p.a i.2 j)) (altShare p e.deltaTot e.alpha i j)
      else noalt_order_cell (need_cell (gap i.2 j) (e.prod j) (p.a i.2 j)) (p.Zshare i j) := by
  simp only [ordersFrom, supplierShare, alt_order_cell, noalt_order_cell, needWith_is_code]
  split_ifs <;> first | rfl | ring1

/-- a masked cap `r[r > 1] = 1` is `min 1 r` -/
theorem cap_eq_min (q : Rat) : (if q > 1 then (1 : Rat) else q) = min 1 q := by
  rw [min_def]; split_ifs <;> first | rfl | linarith | (exfalso; linarith)

/-- the shortage branch of `calc_production`: one cell of `production_max` is optimal production times the model's
    `ratio` (stock over constraint, capped at 1, only for inputs above the technology threshold). -/
theorem production_max_is_code (p : Params d) (stock : Fin d.n → Ind d → Rat) (x : Ind d → Rat) (s : Fin d.n) (f : Ind d) :
    production_max_cell (p.thr s f) (stock s f) (cons p x s f) (x f) = x f * ratio p stock x s f := by
  simp only [production_max_cell, ratio]
  by_cases h : p.thr s f = true ∧ cons p x s f ≠ 0
  · simp only [h, and_self, ne_eq, not_false_eq_true, if_true, cap_eq_min] <;>
      (first | rfl | ring1 | (rw [min_comm]; first | rfl | ring1) | formula_cases)
  · have h' : ¬ (p.thr s f = true ∧ ¬ cons p x s f = 0) := h
    simp only [h, h', ne_eq, if_false, cap_eq_min] <;>
      (first | rfl | ring1 | (simp; done) | formula_cases)

/-- `linear_recovery` of the source is the model's linear curve (cell-wise `D · g(elapsed)`). -/
theorem linear_is_code (e : Nat) (D : Rat) (tau : Nat) :
    linear_recovery e D tau = D * gLinear tau (e : Int) := by
  simp only [linear_recovery, gLinear, Int.cast_natCast] <;>
    (first | rfl | ring1)

/-- `convexe_recovery` of the source is the model's geometric curve. -/
theorem convexe_is_code (e : Nat) (D : Rat) (tau : Nat) :
    convexe_recovery e D tau = D * gConvexe tau (e : Int) := by
  simp only [convexe_recovery, gConvexe, Int.toNat_natCast] <;>
    (first | rfl | ring1)

/-- `convexe_recovery_scaled` of the source is the model's scaled geometric curve (default scaling 4). -/
theorem convexe_scaled_is_code (e : Nat) (D : Rat) (tau : Nat) :
    convexe_recovery_scaled e D tau = D * gConvexeScaled tau (e : Int) := by
  simp only [convexe_recovery_scaled, gConvexeScaled, Int.toNat_natCast] <;>
    (first | rfl | ring1)

/-- the curves as the trackers use them (`cellwiseI`): the code's formula applied to each cell. -/
theorem cellwise_linear_is_code (tau : Nat) (e : Nat) (D : Ind d → Rat) (i : Ind d) :
    cellwiseI (gLinear tau) (e : Int) D i = linear_recovery e (D i) tau := by
  rw [linear_is_code]; rfl

theorem cellwise_convexe_is_code (tau : Nat) (e : Nat) (D : Ind d → Rat) (i : Ind d) :
    cellwiseI (gConvexe tau) (e : Int) D i = convexe_recovery e (D i) tau := by
  rw [convexe_is_code]; rfl

theorem cellwise_convexe_scaled_is_code (tau : Nat) (e : Nat) (D : Ind d → Rat) (i : Ind d) :
    cellwiseI (gConvexeScaled tau) (e : Int) D i = convexe_recovery_scaled e (D i) tau := by
  rw [convexe_scaled_is_code]; rfl

end Boario.Gen
