/-
  Helper lemmas for C11 / C20: the life-cycle phase (`wake`, `advance`) and the block-id discipline
  (`advance` hands out fresh ids, `compactIds` renumbers by a strictly monotone map).
-/
import Boario.Lemmas.Sums
import Boario.Invariant
import Mathlib.Data.List.Basic
import Mathlib.Data.List.Nodup
import Mathlib.Data.List.Perm.Subperm
import Mathlib.Data.List.Range

namespace Boario
variable {d : Dims}

/-! ### unfolding `advance` -/

section advance
variable (t : Nat) (tr : Tracker d) (rest : List (Tracker d)) (nb : Nat)

theorem advance_cons_reb (h : tr.status = .happening ∧ tr.occ + tr.dur ≤ t) (hk : tr.kind = .rebuild) :
    advance t (tr :: rest) nb
      = ({ tr with status := .rebuilding, rid := some nb } :: (advance t rest (nb + 1)).1,
          (advance t rest (nb + 1)).2) := by
  simp only [advance, if_pos h, hk]

theorem advance_cons_rec (h : tr.status = .happening ∧ tr.occ + tr.dur ≤ t) (hk : tr.kind ≠ .rebuild) :
    advance t (tr :: rest) nb
      = ({ tr with status := .recovering } :: (advance t rest nb).1, (advance t rest nb).2) := by
  cases hkk : tr.kind with
  | rebuild => exact absurd hkk hk
  | recover => simp only [advance, if_pos h, hkk]
  | arbitrary => simp only [advance, if_pos h, hkk]

theorem advance_cons_skip (h : ¬ (tr.status = .happening ∧ tr.occ + tr.dur ≤ t)) :
    advance t (tr :: rest) nb = (tr :: (advance t rest nb).1, (advance t rest nb).2) := by
  simp only [advance, if_neg h]

end advance

/-- what `advance` does to one tracker, apart from the id -/
def adv1 (t : Nat) (tr : Tracker d) : Tracker d :=
  if tr.status = .happening ∧ tr.occ + tr.dur ≤ t then
    (if tr.kind = .rebuild then { tr with status := .rebuilding } else { tr with status := .recovering })
  else tr

/-- any view of the trackers that ignores the id sees `advance` as a plain `map` -/
theorem advance_map (t : Nat) {α : Type _} (φ : Tracker d → α)
    (hφ : ∀ (tr : Tracker d) r, φ { tr with rid := r } = φ tr) :
    ∀ (trs : List (Tracker d)) (nb : Nat),
      (advance t trs nb).1.map φ = trs.map fun tr => φ (adv1 t tr) := by
  intro trs
  induction trs with
  | nil => intro nb; rfl
  | cons tr rest ih =>
    intro nb
    by_cases h : tr.status = .happening ∧ tr.occ + tr.dur ≤ t
    · by_cases hk : tr.kind = .rebuild
      · rw [advance_cons_reb t tr rest nb h hk]
        simp only [List.map_cons, ih, adv1, if_pos h, if_pos hk]
        congr 1
        exact hφ { tr with status := .rebuilding } (some nb)
      · rw [advance_cons_rec t tr rest nb h hk]
        simp only [List.map_cons, ih, adv1, if_pos h, if_neg hk]
    · rw [advance_cons_skip t tr rest nb h]
      simp only [List.map_cons, ih, adv1, if_neg h]

/-- a property that ignores status and id survives `advance` -/
theorem advance_forall (t : Nat) (P : Tracker d → Prop)
    (hP : ∀ (tr : Tracker d) s r, P tr → P { tr with status := s, rid := r }) :
    ∀ (trs : List (Tracker d)) (nb : Nat), (∀ tr ∈ trs, P tr) → ∀ tr ∈ (advance t trs nb).1, P tr := by
  intro trs
  induction trs with
  | nil => intro nb _ tr htr; cases htr
  | cons x rest ih =>
    intro nb hall tr htr
    have hx := hall x List.mem_cons_self
    have hrest : ∀ tr ∈ rest, P tr := fun tr h => hall tr (List.mem_cons_of_mem _ h)
    by_cases h : x.status = .happening ∧ x.occ + x.dur ≤ t
    · by_cases hk : x.kind = .rebuild
      · rw [advance_cons_reb t x rest nb h hk] at htr
        rcases List.mem_cons.1 htr with rfl | h'
        · exact hP x _ _ hx
        · exact ih _ hrest tr h'
      · rw [advance_cons_rec t x rest nb h hk] at htr
        rcases List.mem_cons.1 htr with rfl | h'
        · exact hP x _ x.rid hx
        · exact ih _ hrest tr h'
    · rw [advance_cons_skip t x rest nb h] at htr
      rcases List.mem_cons.1 htr with rfl | h'
      · exact hx
      · exact ih _ hrest tr h'

/-- a new block implies a rebuilding tracker -/
theorem advance_new_block (t : Nat) : ∀ (trs : List (Tracker d)) (nb : Nat),
    (advance t trs nb).2 ≠ nb → anyRebuilding (advance t trs nb).1 = true := by
  intro trs
  induction trs with
  | nil => intro nb h; exact absurd rfl h
  | cons x rest ih =>
    intro nb hne
    by_cases h : x.status = .happening ∧ x.occ + x.dur ≤ t
    · by_cases hk : x.kind = .rebuild
      · rw [advance_cons_reb t x rest nb h hk]
        simp [anyRebuilding]
      · rw [advance_cons_rec t x rest nb h hk] at hne ⊢
        have := ih nb hne
        simp only [anyRebuilding, List.any_cons] at this ⊢
        rw [this, Bool.or_true]
    · rw [advance_cons_skip t x rest nb h] at hne ⊢
      have := ih nb hne
      simp only [anyRebuilding, List.any_cons] at this ⊢
      rw [this, Bool.or_true]

theorem advance_nb_le (t : Nat) : ∀ (trs : List (Tracker d)) (nb : Nat), nb ≤ (advance t trs nb).2 := by
  intro trs
  induction trs with
  | nil => intro nb; exact le_refl _
  | cons x rest ih =>
    intro nb
    by_cases h : x.status = .happening ∧ x.occ + x.dur ≤ t
    · by_cases hk : x.kind = .rebuild
      · rw [advance_cons_reb t x rest nb h hk]
        exact le_trans (Nat.le_succ nb) (ih (nb + 1))
      · rw [advance_cons_rec t x rest nb h hk]; exact ih nb
    · rw [advance_cons_skip t x rest nb h]; exact ih nb

/-! ### ids handed out by `advance` -/

/-- two trackers of a list with distinct ids that hold the same id are the same tracker -/
theorem rid_unique : ∀ (L : List (Tracker d)), (L.filterMap (·.rid)).Nodup →
    ∀ tr1 ∈ L, ∀ tr2 ∈ L, ∀ id, tr1.rid = some id → tr2.rid = some id → tr1 = tr2 := by
  intro L
  induction L with
  | nil => intro _ tr1 h; cases h
  | cons x xs ih =>
    intro hnd tr1 h1 tr2 h2 id e1 e2
    have hmem : ∀ tr ∈ xs, tr.rid = some id → id ∈ xs.filterMap (·.rid) :=
      fun tr htr e => List.mem_filterMap.2 ⟨tr, htr, e⟩
    have hnd' : (xs.filterMap (·.rid)).Nodup := by
      cases hx : x.rid with
      | none => simpa [List.filterMap_cons, hx] using hnd
      | some k =>
        have : (k :: xs.filterMap (·.rid)).Nodup := by simpa [List.filterMap_cons, hx] using hnd
        exact (List.nodup_cons.1 this).2
    have hhead : x.rid = some id → id ∉ xs.filterMap (·.rid) := by
      intro hx
      have : (id :: xs.filterMap (·.rid)).Nodup := by simpa [List.filterMap_cons, hx] using hnd
      exact (List.nodup_cons.1 this).1
    rcases List.mem_cons.1 h1 with rfl | h1' <;> rcases List.mem_cons.1 h2 with rfl | h2'
    · rfl
    · exact absurd (hmem _ h2' e2) (hhead e1)
    · exact absurd (hmem _ h1' e1) (hhead e2)
    · exact ih hnd' tr1 h1' tr2 h2' id e1 e2

theorem filterMap_rid_cons_some (x : Tracker d) (xs : List (Tracker d)) (k : Nat) (h : x.rid = some k) :
    (x :: xs).filterMap (·.rid) = k :: xs.filterMap (·.rid) := by
  simp [h]

theorem filterMap_rid_cons_none (x : Tracker d) (xs : List (Tracker d)) (h : x.rid = none) :
    (x :: xs).filterMap (·.rid) = xs.filterMap (·.rid) := by
  simp [h]

/-- `advance` started at `nb`, on a list whose ids are below `nb0 ≤ nb`: the new ids are
    `nb, nb+1, …`, hence fresh -/
theorem advance_ids (t : Nat) (nb0 : Nat) : ∀ (trs : List (Tracker d)) (nb : Nat), nb0 ≤ nb →
    (∀ tr ∈ trs, tr.status ≠ .rebuilding → tr.rid = none) →
    (∀ tr ∈ trs, tr.status = .rebuilding → ∃ id, tr.rid = some id) →
    (∀ id ∈ trs.filterMap (·.rid), id < nb0) →
    (trs.filterMap (·.rid)).Nodup →
    (∀ tr ∈ (advance t trs nb).1, tr.status ≠ .rebuilding → tr.rid = none) ∧
    (∀ tr ∈ (advance t trs nb).1, tr.status = .rebuilding → ∃ id, tr.rid = some id) ∧
    (∀ id ∈ (advance t trs nb).1.filterMap (·.rid),
        id ∈ trs.filterMap (·.rid) ∨ (nb ≤ id ∧ id < (advance t trs nb).2)) ∧
    ((advance t trs nb).1.filterMap (·.rid)).Nodup := by
  intro trs
  induction trs with
  | nil =>
    intro nb _ _ _ _ _
    refine ⟨fun tr h => ?_, fun tr h => ?_, fun id h => ?_, List.nodup_nil⟩ <;> cases h
  | cons x rest ih =>
    intro nb hnb hnone hsome hlt hnd
    have hnone' : ∀ tr ∈ rest, tr.status ≠ .rebuilding → tr.rid = none :=
      fun tr h => hnone tr (List.mem_cons_of_mem _ h)
    have hsome' : ∀ tr ∈ rest, tr.status = .rebuilding → ∃ id, tr.rid = some id :=
      fun tr h => hsome tr (List.mem_cons_of_mem _ h)
    -- the tail part, for the two possible starting counters
    have tail : ∀ nb', nb0 ≤ nb' → (rest.filterMap (·.rid)).Nodup →
        (∀ id ∈ rest.filterMap (·.rid), id < nb0) → _ :=
      fun nb' h1 h2 h3 => ih nb' h1 hnone' hsome' h3 h2
    by_cases h : x.status = .happening ∧ x.occ + x.dur ≤ t
    · have hxnone : x.rid = none := hnone x List.mem_cons_self (by rw [h.1]; decide)
      rw [filterMap_rid_cons_none x rest hxnone] at hlt hnd
      by_cases hk : x.kind = .rebuild
      · obtain ⟨i1, i2, i3, i4⟩ := tail (nb + 1) (Nat.le_succ_of_le hnb) hnd hlt
        rw [advance_cons_reb t x rest nb h hk]
        refine ⟨?_, ?_, ?_, ?_⟩
        · intro tr htr hs
          rcases List.mem_cons.1 htr with rfl | h'
          · exact absurd rfl hs
          · exact i1 tr h' hs
        · intro tr htr hs
          rcases List.mem_cons.1 htr with rfl | h'
          · exact ⟨nb, rfl⟩
          · exact i2 tr h' hs
        · intro id hid
          rw [filterMap_rid_cons_some _ _ nb rfl, filterMap_rid_cons_none x rest hxnone] at *
          rcases List.mem_cons.1 hid with rfl | h'
          · exact Or.inr ⟨le_refl _, lt_of_lt_of_le (Nat.lt_succ_self _) (advance_nb_le t rest _)⟩
          · rcases i3 id h' with h'' | ⟨h1, h2⟩
            · exact Or.inl h''
            · exact Or.inr ⟨by omega, h2⟩
        · rw [filterMap_rid_cons_some _ _ nb rfl]
          refine List.nodup_cons.2 ⟨?_, i4⟩
          intro hmem
          rcases i3 nb hmem with h'' | ⟨h1, _⟩
          · have := hlt nb h''; omega
          · omega
      · obtain ⟨i1, i2, i3, i4⟩ := tail nb hnb hnd hlt
        rw [advance_cons_rec t x rest nb h hk]
        have hrid : ({ x with status := Status.recovering } : Tracker d).rid = none := hxnone
        refine ⟨?_, ?_, ?_, ?_⟩
        · intro tr htr hs
          rcases List.mem_cons.1 htr with rfl | h'
          · exact hxnone
          · exact i1 tr h' hs
        · intro tr htr hs
          rcases List.mem_cons.1 htr with rfl | h'
          · cases hs
          · exact i2 tr h' hs
        · intro id hid
          rw [filterMap_rid_cons_none _ _ hrid] at hid
          rw [filterMap_rid_cons_none x rest hxnone]
          exact i3 id hid
        · rw [filterMap_rid_cons_none _ _ hrid]; exact i4
    · rw [advance_cons_skip t x rest nb h]
      cases hx : x.rid with
      | none =>
        rw [filterMap_rid_cons_none x rest hx] at hlt hnd
        obtain ⟨i1, i2, i3, i4⟩ := tail nb hnb hnd hlt
        refine ⟨?_, ?_, ?_, ?_⟩
        · intro tr htr hs
          rcases List.mem_cons.1 htr with rfl | h'
          · exact hx
          · exact i1 tr h' hs
        · intro tr htr hs
          rcases List.mem_cons.1 htr with rfl | h'
          · exact hsome tr List.mem_cons_self hs
          · exact i2 tr h' hs
        · intro id hid
          rw [filterMap_rid_cons_none _ _ hx] at hid ⊢
          exact i3 id hid
        · rw [filterMap_rid_cons_none _ _ hx]; exact i4
      | some k =>
        rw [filterMap_rid_cons_some x rest k hx] at hlt hnd
        obtain ⟨hk1, hnd'⟩ := List.nodup_cons.1 hnd
        have hltk : k < nb0 := hlt k List.mem_cons_self
        obtain ⟨i1, i2, i3, i4⟩ := tail nb hnb hnd' (fun id h => hlt id (List.mem_cons_of_mem _ h))
        refine ⟨?_, ?_, ?_, ?_⟩
        · intro tr htr hs
          rcases List.mem_cons.1 htr with rfl | h'
          · exact hnone tr List.mem_cons_self hs
          · exact i1 tr h' hs
        · intro tr htr hs
          rcases List.mem_cons.1 htr with rfl | h'
          · exact ⟨k, hx⟩
          · exact i2 tr h' hs
        · intro id hid
          rw [filterMap_rid_cons_some _ _ k hx] at hid ⊢
          rcases List.mem_cons.1 hid with rfl | h'
          · exact Or.inl List.mem_cons_self
          · rcases i3 id h' with h'' | h''
            · exact Or.inl (List.mem_cons_of_mem _ h'')
            · exact Or.inr h''
        · rw [filterMap_rid_cons_some _ _ k hx]
          refine List.nodup_cons.2 ⟨?_, i4⟩
          intro hmem
          rcases i3 k hmem with h'' | ⟨h1, _⟩
          · exact hk1 h''
          · omega

/-! ### `wake` -/

theorem wake_rid (t dt : Nat) (tr : Tracker d) : (wake t dt tr).rid = tr.rid := by
  unfold wake; split_ifs <;> rfl

theorem wake_rebuilding (t dt : Nat) (tr : Tracker d) :
    (wake t dt tr).status = .rebuilding ↔ tr.status = .rebuilding := by
  unfold wake
  split_ifs with h
  · simp [h.1]
  · rfl

theorem filterMap_rid_wake (t dt : Nat) (trs : List (Tracker d)) :
    (trs.map (wake t dt)).filterMap (·.rid) = trs.filterMap (·.rid) := by
  rw [List.filterMap_map]
  congr 1
  funext tr
  exact wake_rid t dt tr

/-- the id discipline through the life-cycle phase -/
theorem idsOK_lifecycle (t dt : Nat) (trs : List (Tracker d)) (nb : Nat) (h : IdsOK trs nb) :
    IdsOK (lifecycle t dt trs nb).1 (lifecycle t dt trs nb).2 ∧ nb ≤ (lifecycle t dt trs nb).2 := by
  unfold lifecycle
  have hlt : ∀ id ∈ (trs.map (wake t dt)).filterMap (·.rid), id < nb := by
    rw [filterMap_rid_wake]
    intro id hid
    obtain ⟨tr, htr, e⟩ := List.mem_filterMap.1 hid
    by_cases hs : tr.status = .rebuilding
    · obtain ⟨id', e', hlt⟩ := h.has_id tr htr hs
      rw [e'] at e; cases e; exact hlt
    · rw [h.only_rebuilding tr htr hs] at e; cases e
  obtain ⟨i1, i2, i3, i4⟩ := advance_ids t nb (trs.map (wake t dt)) nb (le_refl _)
    (by
      intro tr htr hs
      obtain ⟨tr0, h0, rfl⟩ := List.mem_map.1 htr
      rw [wake_rid]
      exact h.only_rebuilding tr0 h0 (fun e => hs ((wake_rebuilding t dt tr0).2 e)))
    (by
      intro tr htr hs
      obtain ⟨tr0, h0, rfl⟩ := List.mem_map.1 htr
      rw [wake_rid]
      obtain ⟨id, e, _⟩ := h.has_id tr0 h0 ((wake_rebuilding t dt tr0).1 hs)
      exact ⟨id, e⟩)
    hlt
    (by rw [filterMap_rid_wake]; exact h.distinct)
  have hle := advance_nb_le t (trs.map (wake t dt)) nb
  refine ⟨⟨?_, i1, i4⟩, hle⟩
  intro tr htr hs
  obtain ⟨id, e⟩ := i2 tr htr hs
  refine ⟨id, e, ?_⟩
  rcases i3 id (List.mem_filterMap.2 ⟨tr, htr, e⟩) with h' | ⟨_, h'⟩
  · exact lt_of_lt_of_le (hlt id h') hle
  · exact h'

/-! ### the renumbering map of `compactIds` is strictly monotone off the released ids -/

theorem cnt_le (rel : List Nat) (h : rel.Nodup) (a : Nat) : (rel.filter (· < a)).length ≤ a := by
  have hsub : rel.filter (· < a) ⊆ List.range a := by
    intro x hx
    have := (List.mem_filter.1 hx).2
    exact List.mem_range.2 (by simpa using this)
  have := ((h.filter _).subperm hsub).length_le
  simpa using this

theorem cnt_step (rel : List Nat) (h : rel.Nodup) (a b : Nat) (hab : a < b) (ha : a ∉ rel) :
    (rel.filter (· < b)).length + a + 1 ≤ (rel.filter (· < a)).length + b := by
  have hsub : rel.filter (· < b) ⊆ rel.filter (· < a) ++ List.range' (a + 1) (b - a - 1) := by
    intro x hx
    obtain ⟨hx1, hx2⟩ := List.mem_filter.1 hx
    have hxb : x < b := by simpa using hx2
    by_cases hxa : x < a
    · exact List.mem_append_left _ (List.mem_filter.2 ⟨hx1, by simpa using hxa⟩)
    · have hne : x ≠ a := fun e => ha (e ▸ hx1)
      refine List.mem_append_right _ (List.mem_range'_1.2 ⟨by omega, by omega⟩)
  have := ((h.filter _).subperm hsub).length_le
  simp only [List.length_append, List.length_range'] at this
  omega

theorem renumber_lt (rel : List Nat) (h : rel.Nodup) (a b : Nat) (hab : a < b) (ha : a ∉ rel) :
    a - (rel.filter (· < a)).length < b - (rel.filter (· < b)).length := by
  have h1 := cnt_le rel h a
  have h2 := cnt_le rel h b
  have h3 := cnt_step rel h a b hab ha
  omega

theorem renumber_inj (rel : List Nat) (h : rel.Nodup) (a b : Nat) (ha : a ∉ rel) (hb : b ∉ rel)
    (e : a - (rel.filter (· < a)).length = b - (rel.filter (· < b)).length) : a = b := by
  rcases lt_trichotomy a b with hlt | heq | hgt
  · have := renumber_lt rel h a b hlt ha; omega
  · exact heq
  · have := renumber_lt rel h b a hgt hb; omega

end Boario
