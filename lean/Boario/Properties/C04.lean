/-
  C04 — Proportional rationing hands out exactly what was produced, fairly.
  (The flat column layout of the blocks is `Boario.Layout`; here the abstract layer.)
-/
import Boario.Lemmas.Sums
import Boario.Lemmas.Deliver

namespace Boario
variable {d : Dims}

/-- demand cells are non-negative -/
structure DemandNonneg (e : Econ d) : Prop where
  orders : ∀ i j, 0 ≤ e.orders i j
  fd : ∀ i c, 0 ≤ e.fd i c
  rebI : ∀ b ∈ e.reb, ∀ i j, 0 ≤ b.indus i j
  rebH : ∀ b ∈ e.reb, ∀ i c, 0 ≤ b.house i c

section
variable (e : Econ d)

/-- deliveries to all clients (orders, final demand, every rebuilding block) add up to production -/
theorem deliveries_sum (i : Ind d) (h : rowTot e.orders e.fd e.reb i ≠ 0) :
    sumInd d ((deliveries e).orders i) + sumFd d ((deliveries e).fd i)
      + rebTot (deliveries e).reb i = e.prod i := by
  have ht : rowTot e.orders e.fd e.reb i = sumInd d (e.orders i) + sumFd d (e.fd i) + rebTot e.reb i := rfl
  simp only [deliveries, deliverCell_eq]
  rw [sumInd_mul_const, sumFd_mul_const, rebTot_deliverBlock, ← add_mul, ← add_mul, ← ht]
  field_simp

/-- every client gets the same fraction production / total demand of what it asked -/
theorem deliveries_same_ratio_orders (i j : Ind d) :
    (deliveries e).orders i j = e.orders i j * (e.prod i / rowTot e.orders e.fd e.reb i) := by
  simp only [deliveries, deliverCell_eq]

theorem deliveries_same_ratio_fd (i : Ind d) (c : Fd d) :
    (deliveries e).fd i c = e.fd i c * (e.prod i / rowTot e.orders e.fd e.reb i) := by
  simp only [deliveries, deliverCell_eq]

theorem deliveries_reb_length : (deliveries e).reb.length = e.reb.length := by
  simp only [deliveries, List.length_map]

theorem deliveries_same_ratio_reb (k : Nat) (hk : k < e.reb.length) (i j : Ind d) (c : Fd d) :
    ((deliveries e).reb.getD k zeroBlock).indus i j
        = (e.reb.getD k zeroBlock).indus i j * (e.prod i / rowTot e.orders e.fd e.reb i) ∧
    ((deliveries e).reb.getD k zeroBlock).house i c
        = (e.reb.getD k zeroBlock).house i c * (e.prod i / rowTot e.orders e.fd e.reb i) := by
  simp only [deliveries]
  rw [getD_map_deliverBlock _ _ _ _ hk]
  simp only [deliverBlock, deliverCell_eq, and_self]

/-- hence never more than asked (production never exceeds total demand, C03) -/
theorem deliveries_le_asked (hn : DemandNonneg e) (i : Ind d)
    (hp : 0 ≤ e.prod i) (hle : e.prod i ≤ rowTot e.orders e.fd e.reb i) :
    (∀ j, (deliveries e).orders i j ≤ e.orders i j) ∧ (∀ c, (deliveries e).fd i c ≤ e.fd i c) ∧
    (∀ k, k < e.reb.length → ∀ j c,
        ((deliveries e).reb.getD k zeroBlock).indus i j ≤ (e.reb.getD k zeroBlock).indus i j ∧
        ((deliveries e).reb.getD k zeroBlock).house i c ≤ (e.reb.getD k zeroBlock).house i c) := by
  refine ⟨fun j => ?_, fun c => ?_, fun k hk j c => ?_⟩
  · exact deliverCell_le _ _ _ (hn.orders i j) hp hle
  · exact deliverCell_le _ _ _ (hn.fd i c) hp hle
  · simp only [deliveries]
    rw [getD_map_deliverBlock _ _ _ _ hk]
    have hm := getD_mem e.reb k hk
    exact ⟨deliverCell_le _ _ _ (hn.rebI _ hm i j) hp hle,
      deliverCell_le _ _ _ (hn.rebH _ hm i c) hp hle⟩

/-- reported unmet final demand = final demand − deliveries to final consumers -/
theorem fd_unmet_eq (p : Params d) (e' : Econ d) (h : distribute p e = .ok e') (i : Ind d) :
    e'.fdUnmet i = sumFd d (e.fd i) - sumFd d ((deliveries e).fd i) := by
  have he : e'.fdUnmet = fdUnmetOf e (deliveries e) := by
    rcases distribute_ok p e e' h with ⟨_, rfl⟩ | ⟨_, _, rfl⟩ <;> rfl
  rw [he]
  exact sumFd_sub _ _

/-- … and lies between zero and final demand -/
theorem fd_unmet_range (p : Params d) (e' : Econ d) (h : distribute p e = .ok e') (hn : DemandNonneg e)
    (i : Ind d) (hp : 0 ≤ e.prod i) (hle : e.prod i ≤ rowTot e.orders e.fd e.reb i) :
    0 ≤ e'.fdUnmet i ∧ e'.fdUnmet i ≤ sumFd d (e.fd i) := by
  rw [fd_unmet_eq e p e' h i]
  have h1 := (deliveries_le_asked e hn i hp hle).2.1
  have h2 : sumFd d ((deliveries e).fd i) ≤ sumFd d (e.fd i) := sumFd_le_sumFd _ _ h1
  have h3 : 0 ≤ sumFd d ((deliveries e).fd i) := by
    apply sumFd_nonneg
    intro c
    rw [deliveries_same_ratio_fd]
    exact mul_nonneg (hn.fd i c) (div_nonneg hp (le_trans hp hle))
  constructor <;> linarith

/-- what is credited to rebuilding blocks is exactly what was delivered to them -/
theorem reb_prod_eq (p : Params d) (e' : Econ d) (h : distribute p e = .ok e') :
    e'.rebProd = (deliveries e).reb := by
  rcases distribute_ok p e e' h with ⟨_, rfl⟩ | ⟨_, _, rfl⟩ <;> rfl

end
end Boario
