/-
  Helper lemmas for C20: the constructors (`mkParams`, `initEcon`, `trackerInit`) establish the
  well-formedness predicates of `Boario.Invariant`.
-/
import Boario.Lemmas.Sums
import Boario.Lemmas.Orders
import Boario.Invariant
import Mathlib.Tactic.NormNum

namespace Boario
variable {d : Dims}

/-! ### the constructors establish well-formedness -/

theorem steply_pos' (c : Config d) (hdt : 0 < c.dt) (hyear : 0 < c.yearFactor) : 0 < steply c := by
  unfold steply
  exact div_pos (Nat.cast_pos.2 hdt) (Nat.cast_pos.2 hyear)

theorem coefA_nonneg' (tb : Table d) (hz : ∀ i j, 0 ≤ tb.Z i j) (hx : ∀ f, 0 ≤ tb.x f) (i j : Ind d) :
    0 ≤ coefA tb i j := by
  unfold coefA
  split_ifs
  · exact le_refl _
  · exact mul_nonneg (hz i j) (div_nonneg zero_le_one (hx j))

theorem invDurOf_pos' (c : Config d) (s : Fin d.n) (v : Rat) (h : invDurOf c s = some v) :
    0 < v := by
  unfold invDurOf at h
  split at h
  · cases h
  · simp only at h
    split_ifs at h with hw
    · injection h with h; rw [← h]; norm_num
    · injection h with h; rw [← h]; linarith [not_le.1 hw]

theorem zShare_steply (tb : Table d) (st : Rat) (hst : st ≠ 0) (i j : Ind d) :
    zShare tb i j = safeDiv (tb.Z i j * st) (sumFin d.m fun r => tb.Z (r, i.2) j * st) 0 := by
  have e : (sumFin d.m fun r => tb.Z (r, i.2) j * st) = zC tb i.2 j * st := by
    unfold zC
    rw [sumFin_eq_sum, sumFin_eq_sum, Finset.sum_mul]
  rw [e]
  unfold zShare safeDiv
  by_cases h0 : zC tb i.2 j = 0
  · rw [if_pos h0, if_pos (by rw [h0, zero_mul])]
  · rw [if_neg h0, if_neg (mul_ne_zero h0 hst)]
    field_simp

theorem mkParams_ok (tb : Table d) (c : Config d)
    (hz : ∀ i j, 0 ≤ tb.Z i j) (hy : ∀ i cc, 0 ≤ tb.Y i cc) (hx : ∀ f, 0 ≤ tb.x f)
    (hdt : 0 < c.dt) (hyear : 0 < c.yearFactor) (_hinv : ∀ s v, c.inventories s = some v → 0 < v)
    (hpsi : c.isPsi = true → 0 ≤ c.psi) (hrest : ∀ s, 0 < c.restTau s)
    (hb : 1 ≤ c.aBase ∧ c.aBase ≤ c.aMax) (htau : (c.dt : Rat) ≤ c.alphaTau) :
    ParamsOK (mkParams tb c) := by
  have hst := steply_pos' c hdt hyear
  have hdt' : (0 : Rat) < (c.dt : Rat) := Nat.cast_pos.2 hdt
  have hat : (0 : Rat) < c.alphaTau := lt_of_lt_of_le hdt' htau
  refine ⟨?_, ?_, ?_, ?_, ?_, ?_, ?_, ?_, hb.1, hb.2, ?_, ?_⟩
  · exact fun f => mul_nonneg (hx f) hst.le
  · exact fun i j => mul_nonneg (hz i j) hst.le
  · exact fun i cc => mul_nonneg (hy i cc) hst.le
  · intro s f
    show 0 ≤ techCoef tb s f
    unfold techCoef
    exact sumFin_nonneg _ _ fun r => coefA_nonneg' tb hz hx _ _
  · show 0 ≤ (if c.isPsi then c.psi else 1)
    split_ifs with h
    · exact hpsi h
    · exact zero_le_one
  · intro s
    show 0 ≤ (if c.isPsi then (c.dt : Rat) / c.restTau s else 1)
    split_ifs
    · exact div_nonneg hdt'.le (hrest s).le
    · exact zero_le_one
  · exact fun s v h => invDurOf_pos' c s v h
  · exact fun i j => zShare_steply tb (steply c) hst.ne' i j
  · show 0 ≤ (c.dt : Rat) / c.alphaTau
    exact div_nonneg hdt'.le hat.le
  · show (c.dt : Rat) / c.alphaTau ≤ 1
    exact (div_le_one hat).2 htau

theorem initEcon_ok (p : Params d) (h : ParamsOK p) : EconOK p (initEcon p) := by
  refine ⟨h.z_nonneg, h.y_nonneg, ?_, fun _ => rfl, ?_, h.x0_nonneg, fun _ => ⟨h.one_le_base, h.base_le_max⟩⟩
  · intro b hb; cases hb
  · intro s f _
    show 0 ≤ p.x0 f * p.a s f * durOrZero p s
    refine mul_nonneg (mul_nonneg (h.x0_nonneg f) (h.a_nonneg s f)) ?_
    unfold durOrZero
    split
    · next v hv => exact (h.dur_pos s v hv).le
    · exact le_refl _

theorem convFactor_pos (emf mf : Rat) (he : 0 < emf) (hm : 0 < mf) : 0 < convFactor emf mf := by
  unfold convFactor
  split_ifs
  · exact zero_lt_one
  · exact div_pos he hm

theorem zC_nonneg (tb : Table d) (hz : ∀ i j, 0 ≤ tb.Z i j) (s : Fin d.n) (j : Ind d) : 0 ≤ zC tb s j :=
  sumFin_nonneg _ _ fun _ => hz _ _

theorem yC_nonneg (tb : Table d) (hy : ∀ i cc, 0 ≤ tb.Y i cc) (s : Fin d.n) (c : Fd d) : 0 ≤ yC tb s c :=
  sumFin_nonneg _ _ fun _ => hy _ _

theorem trackerInit_ok (tb : Table d) (mf : Rat) (L : Nat) (ev : EventSpec d)
    (hz : ∀ i j, 0 ≤ tb.Z i j) (hy : ∀ i cc, 0 ≤ tb.Y i cc)
    (himp : ∀ i, 0 ≤ ev.impact i) (hh : ∀ h, ev.house = some h → ∀ c, 0 ≤ h c)
    (hsh : ∀ s, 0 ≤ ev.shares s) (hf : 0 ≤ ev.factor) (hemf : 0 < ev.emf) (hmf : 0 < mf) (htau : 0 < ev.tau) :
    TrackerOK (trackerInit tb mf L ev) := by
  have hcv := (convFactor_pos ev.emf mf hemf hmf).le
  refine ⟨?_, ?_, htau⟩
  · intro r hr i j
    have hr' : (if ev.kind = .rebuild then some (rem0I tb ev mf) else none) = some r := hr
    split_ifs at hr'
    injection hr' with hr'
    subst hr'
    unfold rem0I
    split_ifs
    · exact mul_nonneg (mul_nonneg (mul_nonneg (hsh _) (mul_nonneg (himp j) hcv)) hf)
        (div_nonneg (hz i j) (zC_nonneg tb hz _ _))
    · exact le_refl _
  · intro r hr i c
    have hr' : (if ev.kind = .rebuild then ev.house.map (rem0H tb ev mf) else none) = some r := hr
    split_ifs at hr'
    cases hho : ev.house with
    | none => rw [hho] at hr'; cases hr'
    | some h =>
      rw [hho] at hr'
      injection hr' with hr'
      subst hr'
      unfold rem0H
      split_ifs
      · exact mul_nonneg (mul_nonneg (mul_nonneg (hsh _) (mul_nonneg (hh h hho c) hcv)) hf)
          (div_nonneg (hy i c) (yC_nonneg tb hy _ _))
      · exact le_refl _

end Boario
