"""Event-layer oracles (C08, C09, C10, C11) over real traces, plus reference implementations of the
four built-in recovery curves written from the documentation (not imported from the library)."""
from __future__ import annotations

import math

from harness.common import np
from harness.oracles import R, viol
from harness import corr


def ref_curve(name, el, D, tau):
    el = float(el)
    if name == "linear":
        return D * max(0.0, 1 - el / tau)
    if name == "convexe":
        return D * (1 - 1 / tau) ** (4 * el)
    if name == "convexe noscale":
        return D * (1 - 1 / tau) ** el
    if name == "concave":
        with np.errstate(all="ignore"):
            ex = (np.log(tau) - np.log(0.000001)) / (np.log(tau) - np.log(2))
            return (D * tau) / (tau + 0.000001 * (el ** ex))
    # user-supplied callables of the scenarios (harness/scen.py), written again here from their description
    if name == "user_swapped":
        return D * max(0.0, 1.0 - el / (3 * tau))
    if name == "user_kwonly":
        return D * 0.5 ** (el / tau)
    if name == "user_partial":
        return D * (1 - 1 / tau) ** el
    if name == "user_init_first":
        return D * max(0.0, 1.0 - el / (2.0 * tau))
    if name == "user_allkw":
        return D / (1.0 + el / tau)
    if name == "user_fixed_speed":
        Da = np.asarray(D, dtype=float)
        return np.maximum(0.0, Da - np.max(Da) / (2.0 * tau) * el)
    if name == "user_jump":
        return 0.6 * D * max(0.0, 1.0 - el / tau)
    raise ValueError(name)


def quantum_of(model):
    return 10.0 ** -(int(math.log10(model.monetary_factor)) + 1)


def oracles_quantum(model):
    return quantum_of(model)


def rank(status):
    return {"pending": 0, "happening": 1, "rebuilding": 2, "recovering": 2, "finished": 3}[status]


# ------------------------------------------------------------------ C08


def c08_init(tr, c):
    """creation: totals, split among rebuilding sectors, only rebuilding sectors"""
    out = []
    sc = tr.sc
    from harness import scen
    tb = sc["table"]
    regs, secs, cats = scen.labels(tb)
    m, n, k = tb["m"], tb["n"], tb["k"]
    mf = sc["model"]["monetary_factor"]
    init = tr.init_trackers
    for i, (ev, t0) in enumerate(zip(sc["events"], init)):
        if ev["type"] != "rebuild":
            continue
        conv = ev["emf"] / mf
        fac = ev["factor"]
        remI = t0["remI"]
        if remI is None or not np.isfinite(remI).all():
            out.append(viol("C08", 0, f"event {i}: reconstruction demand missing or not finite at creation"))
            continue
        tot_imp = sum(ev["impact"].values()) * conv
        want = tot_imp * fac
        got = float(remI.sum())
        if abs(got - want) > 1e-9 * max(abs(want), 1e-300):
            out.append(viol("C08", 0, f"event {i}: industrial reconstruction demand created differs from impact x factor",
                            created=got, expected=want))
        rows_by_sector = remI.reshape(m, n, -1).sum(axis=(0, 2))
        for s_idx, sname in enumerate(secs):
            share = ev["reb_sectors"].get(sname, 0.0)
            if abs(rows_by_sector[s_idx] - share * want) > 1e-9 * max(abs(want), 1e-300):
                out.append(viol("C08", 0, f"event {i}: demand addressed to sector {sname} is not its declared share",
                                got=float(rows_by_sector[s_idx]), expected=share * want))
                break
        if ev.get("house"):
            remH = t0["remH"]
            wanth = sum(ev["house"].values()) * conv * fac
            if remH is None or abs(float(remH.sum()) - wanth) > 1e-9 * max(abs(wanth), 1e-300):
                out.append(viol("C08", 0, f"event {i}: household reconstruction demand created differs from impact x factor",
                                created=None if remH is None else float(remH.sum()), expected=wanth))
        if t0["dmg0"] is not None:
            imp = np.zeros(m * n)
            for key, v in ev["impact"].items():
                r, s = key.split("|")
                imp[regs.index(r) * n + secs.index(s)] = v * conv
            if not np.allclose(t0["dmg0"], imp, rtol=1e-9, atol=0):
                out.append(viol("C08", 0, f"event {i}: destroyed capital is not impact x (event factor / model factor)"))
    return out


def c08_step(tr, st, c):
    out = []
    t = st["t"]
    model = tr.model
    q = quantum_of(model)
    N, F = c["m"] * c["n"], c["m"] * c["k"]
    dt = int(model.n_temporal_units_by_step)
    # an event is over only when nothing is left to rebuild, for industries and for households
    post_ph = st["phases"].get("events_post")
    if post_ph and post_ph["post"] is not None and not post_ph.get("exc"):
        for i, trk in enumerate(post_ph["post"]["trackers"]):
            if trk["kind"] == "rebuild" and trk["status"] == "finished":
                left = sum(float(np.nansum(trk[k_])) for k_ in ("remI", "remH") if trk[k_] is not None)
                if left > 0:
                    out.append(viol("C08", t, f"event {i} is finished although reconstruction demand remains", remaining=left,
                                    households=trk["remH"] is not None, industries=trk["remI"] is not None))
    pre_ph = st["phases"].get("events_pre")
    if pre_ph and pre_ph["post"] is not None and not pre_ph.get("exc"):
        post = pre_ph["post"]
        e = post["econ"]
        if e["reb"] is not None and e["nE"] > 0 and np.isfinite(e["reb"]).all():
            try:
                blks = corr.layout_blocks(e["reb"], e["nE"], N, F)
            except ValueError as ex:
                out.append(viol("C08", t, f"layout of the rebuilding demand: {ex}"))
                blks = []
            for i, (trk, ev) in enumerate(zip(post["trackers"], tr.sim._event_tracking)):
                if trk["status"] != "rebuilding" or trk["rid"] is None or not blks:
                    continue
                tau = ev.event.rebuild_tau or model.rebuild_tau
                if trk["rid"] >= len(blks):
                    out.append(viol("C08", t, f"event {i} has block id {trk['rid']} outside the {len(blks)} blocks"))
                    continue
                b = blks[trk["rid"]]
                wantI = (trk["remI"] if trk["remI"] is not None else np.zeros((N, N))) * dt / tau
                if not np.allclose(b["indus"], wantI, rtol=1e-9, atol=0):
                    out.append(viol("C08", t, f"event {i}: demand presented is not remaining demand x step / tau",
                                    presented=float(b["indus"].sum()), expected=float(wantI.sum()), tau=tau))
                wantH = (trk["remH"] if trk["remH"] is not None else np.zeros((N, F))) * dt / tau
                if not np.allclose(b["house"], wantH, rtol=1e-9, atol=0):
                    out.append(viol("C08", t, f"event {i}: household demand presented is not remaining demand x step / tau",
                                    presented=float(b["house"].sum()), expected=float(wantH.sum()), tau=tau))
    ph = st["phases"].get("events_post")
    if not ph or ph["post"] is None or ph.get("exc"):
        return out
    pre, post = ph["pre"], ph["post"]
    e = pre["econ"]
    blks = []
    if e["rebProd"] is not None and e["nE"] > 0 and e["rebProd"].size:
        try:
            blks = corr.layout_blocks(e["rebProd"], e["nE"], N, F)
        except ValueError:
            blks = []
    for i, (a, b, ev) in enumerate(zip(pre["trackers"], post["trackers"], tr.sim._event_tracking)):
        if a["status"] != "rebuilding":
            continue
        # (the factor the caller declared, not what the event object holds)
        decl = tr.sc["events"][i] if i < len(tr.sc["events"]) and tr.sc.get("sim", {}).get("events_order") is None else None
        fac = float(decl["factor"]) if decl is not None and decl.get("type") == "rebuild" and decl.get("factor") is not None \
            else float(ev.event.rebuilding_factor)
        for fld, part in (("remI", "indus"), ("remH", "house")):
            r0 = a[fld]
            r1 = b[fld]
            if r0 is None:
                if r1 is not None:
                    out.append(viol("C08", t, f"event {i}: an emptied ledger ({fld}) acquired demand again"))
                continue
            got = blks[a["rid"]][part] if (a["rid"] is not None and a["rid"] < len(blks)) else np.zeros_like(r0)
            want = np.maximum(0.0, r0 - got)
            r1v = r1 if r1 is not None else np.zeros_like(r0)
            if not np.isfinite(r1v).all():
                out.append(viol("C08", t, f"event {i}: non-finite remaining demand"))
                continue
            if (np.abs(r1v - want) > q / 2 * (1 + 1e-6) + 1e-9 * np.abs(want)).any():
                j = np.unravel_index(int(np.argmax(np.abs(r1v - want))), want.shape)
                out.append(viol("C08", t, f"event {i}: remaining demand did not decrease by what was delivered (beyond the rounding quantum)",
                                cell=[int(x) for x in j], before=float(r0[j]), delivered=float(got[j]), after=float(r1v[j]), quantum=q))
            if (r1v < 0).any():
                out.append(viol("C08", t, f"event {i}: negative remaining demand"))
            if (r1v > r0 + q / 2 * (1 + 1e-6) + 1e-12 * np.abs(r0)).any():
                out.append(viol("C08", t, f"event {i}: remaining demand increased"))
            if fld == "remI":
                # only rebuilding sectors hold demand
                rs = getattr(ev.event, "rebuilding_sectors", None)
                if rs is not None:
                    secs = list(tr.model.sectors)
                    mask = np.array([s in rs.index for s in secs] * c["m"])
                    if (r1v[~mask, :] != 0).any():
                        out.append(viol("C08", t, f"event {i}: a non-rebuilding sector holds reconstruction demand"))
                # destroyed capital reported = remaining industrial demand / factor
                d1 = b["dmg"]
                wantd = r1v.sum(axis=0) / fac if r1 is not None else None
                if (d1 is None) != (wantd is None) or (d1 is not None and not np.allclose(d1, wantd, rtol=1e-9, atol=1e-12)):
                    out.append(viol("C08", t, f"event {i}: destroyed capital reported is not remaining industrial demand / factor"))
    return out


# ------------------------------------------------------------------ C09


def c09_step(tr, st, c):
    out = []
    t = st["t"]
    model = tr.model
    q = quantum_of(model)
    pre_ph = st["phases"].get("events_pre")
    if pre_ph and pre_ph["post"] is not None and not pre_ph.get("exc"):
        # an event only finishes through its recovery function reaching zero (ledger phase), never by the calendar
        for i, (a, b) in enumerate(zip(pre_ph["pre"]["trackers"], pre_ph["post"]["trackers"])):
            if a["status"] == "recovering" and b["status"] != "recovering":
                out.append(viol("C09", t, f"event {i} left the recovering stage outside its recovery function ({b['status']})",
                                damage_left=None if b["dmg"] is None else float(np.max(b["dmg"]))))
        # capacity loss in force = largest arbitrary loss of the events in force; nothing once they are finished
        N = c["K"].shape[0]
        arb = np.zeros(N)
        for trk in pre_ph["post"]["trackers"]:
            if trk["status"] in ("happening", "recovering") and trk["arb"] is not None:
                arb = np.maximum(arb, trk["arb"])
        got = pre_ph["post"]["econ"]["arbDelta"]
        if got is not None and not np.allclose(got, arb, rtol=1e-9, atol=1e-15):
            j = int(np.argmax(np.abs(got - arb)))
            out.append(viol("C09", t, "arbitrary capacity loss in force differs from the damages of the events in force (a finished event contributes no loss)",
                            cell=j, in_force=float(got[j]), expected=float(arb[j])))
    ph = st["phases"].get("events_post")
    if not ph or ph["post"] is None or ph.get("exc"):
        return out
    dt = int(model.n_temporal_units_by_step)
    for i, (a, b, trk, ev) in enumerate(zip(ph["pre"]["trackers"], ph["post"]["trackers"], tr.sim._event_tracking, tr.sc["events"])):
        if ev["type"] == "rebuild":
            continue
        kind = a["kind"]
        fld, d0fld, qq = ("arb", "arb0", 1e-6) if kind == "arbitrary" else ("dmg", "dmg0", q)
        D0 = a[d0fld]
        if a["status"] in ("pending", "happening"):
            # damage in force = initial damage until recovery starts
            if b[fld] is None or not np.array_equal(b[fld], D0):
                out.append(viol("C09", t, f"event {i}: damage differs from the initial damage before recovery starts"))
            continue
        if a["status"] != "recovering":
            continue
        el = t - (a["occ"] + a["dur"])
        tau = ev["recovery_tau"]
        fields = [(fld, d0fld, qq)] + ([("hdmg", "hdmg0", q)] if kind == "recover" and a["hdmg0"] is not None else [])
        for f_, d0_, q_ in fields:
            if a[f_] is None:
                if b[f_] is not None:
                    out.append(viol("C09", t, f"event {i}: {f_} recovered to zero and came back"))
                continue
            D = a[d0_]
            with np.errstate(all="ignore"):
                want = ref_curve(ev["curve"], el, D, tau)
            want = np.where(np.isfinite(want), want, 0.0)
            got = b[f_] if b[f_] is not None else np.zeros_like(D)
            if (np.abs(got - want) > q_ / 2 * (1 + 1e-6) + 1e-9 * np.abs(want)).any():
                j = int(np.argmax(np.abs(got - want)))
                out.append(viol("C09", t, f"event {i}: {f_} is not the recovery function at {el} completed recovery steps (beyond the rounding quantum)",
                                cell=j, got=float(got[j]), expected=float(want[j]), curve=ev["curve"], tau=tau, elapsed=el, initial=float(D[j])))
            if (got < 0).any():
                out.append(viol("C09", t, f"event {i}: negative {f_}", min=float(got.min())))
            if (got > D + q_ / 2 * (1 + 1e-6) + 1e-12 * np.abs(D)).any():
                out.append(viol("C09", t, f"event {i}: {f_} exceeds the initial damage"))
            if (got > a[f_] + q_ * (1 + 1e-6) + 1e-12 * np.abs(D)).any():
                out.append(viol("C09", t, f"event {i}: {f_} increased during recovery (built-in curve)"))
        if ev["curve"] == "linear" and dt == 1 and el >= tau and b["status"] != "finished":
            out.append(viol("C09", t, f"event {i}: linear recovery not finished after tau = {tau} recovery steps", status=b["status"]))
        if b["status"] == "finished" and (b["dmg"] is not None or b["arb"] is not None or b["hdmg"] is not None):
            out.append(viol("C09", t, f"event {i}: finished with damage left"))
        if b["dmg"] is None and b["arb"] is None and b["hdmg"] is None and b["status"] != "finished":
            out.append(viol("C09", t, f"event {i}: no damage left but not finished"))
    return out


# ------------------------------------------------------------------ C10


def c10_step(tr, st, c):
    out = []
    t = st["t"]
    dt = int(tr.model.n_temporal_units_by_step)
    ph = st["phases"].get("events_pre")
    last = None
    for name in ("orders", "events_post", "events_pre"):
        p_ = st["phases"].get(name)
        if p_ and p_["post"] is not None and "trackers" in p_["post"]:
            last = p_["post"]["trackers"]
            break
    # the schedule is the one the caller asked for (scenario), not what the Event object ended up holding.
    # For every step length: steps are taken at times 0, dt, 2 dt, ...; after the life-cycle phase of the step at
    # time t an event is pending iff t < occ, happening iff occ <= t < occ + dur, in a later stage iff t >= occ + dur
    # (the first step whose time reaches the occurrence applies the shock; C10Dt.shock_in_force_dt)
    spec = tr.sc["events"] if len(tr.sc["events"]) == len(ph["pre"]["trackers"] if ph and ph.get("pre") else []) else None
    if ph and ph["post"] is not None and not ph.get("exc"):
        for i, (a, b) in enumerate(zip(ph["pre"]["trackers"], ph["post"]["trackers"])):
            occ, dur = (spec[i]["occ"], spec[i]["dur"]) if spec is not None else (a["occ"], a["dur"])
            if (a["occ"], a["dur"]) != (occ, dur):
                out.append(viol("C10", t, f"event {i} was requested with occurrence {occ} and duration {dur} but holds occurrence {a['occ']} and duration {a['dur']}"))
                continue
            st_b = b["status"]
            if t < occ and st_b != "pending":
                out.append(viol("C10", t, f"event {i} acts before its occurrence {occ}", status=st_b))
            if occ <= t < occ + dur and st_b != "happening":
                out.append(viol("C10", t, f"event {i} (occurrence {occ}, duration {dur}) is not in force at step {t}", status=st_b))
            if t >= occ + dur and rank(st_b) < 2:
                out.append(viol("C10", t, f"event {i}: reconstruction / recovery has not started at step occurrence + duration = {occ + dur}", status=st_b))
            if t >= occ + dur and st_b == "rebuilding" and a["kind"] != "rebuild":
                out.append(viol("C10", t, f"event {i}: wrong stage {st_b} for kind {a['kind']}"))
            if t >= occ + dur and st_b == "recovering" and a["kind"] == "rebuild":
                out.append(viol("C10", t, f"event {i}: wrong stage {st_b} for kind {a['kind']}"))
    # the shock of an event is not in force before its occurrence: destroyed capital and arbitrary loss
    # seen by the economy are those of the events in force only
    if ph and ph["post"] is not None and not ph.get("exc"):
        post = ph["post"]
        N = c["K"].shape[0]
        lost = np.zeros(N)
        for trk in post["trackers"]:
            if trk["status"] in ("happening", "rebuilding", "recovering") and trk["dmg"] is not None:
                lost += trk["dmg"]
        got = post["econ"]["lost"]
        if got is not None and not np.allclose(got, lost, rtol=1e-9, atol=1e-12):
            j = int(np.argmax(np.abs(got - lost)))
            pend = [i for i, trk in enumerate(post["trackers"]) if trk["status"] == "pending"]
            out.append(viol("C10", t, "destroyed capital in force differs from the damages of the events in force (pending events: "
                            f"{pend})", cell=j, in_force=float(got[j]), expected=float(lost[j])))
    # recovery starts at occurrence + duration: at the end of that step the damage is the recovery
    # function at zero completed steps, i.e. still the initial damage
    pp = st["phases"].get("events_post")
    if pp and pp["post"] is not None and not pp.get("exc") and dt == 1:
        for i, (a, b) in enumerate(zip(pp["pre"]["trackers"], pp["post"]["trackers"])):
            if a["kind"] == "rebuild" or t != a["occ"] + a["dur"]:
                continue
            fld, d0 = ("arb", "arb0") if a["kind"] == "arbitrary" else ("dmg", "dmg0")
            D = a[d0]
            evd = tr.sc["events"][i] if i < len(tr.sc["events"]) else None
            if evd is not None and evd.get("curve") in ("linear", "convexe", "convexe noscale", "concave", "user_swapped", "user_kwonly", "user_fixed_speed", "user_jump", "user_init_first", "user_allkw", "user_partial"):
                with np.errstate(all="ignore"):
                    D = ref_curve(evd["curve"], 0, a[d0], evd["recovery_tau"])     # concave with tau = 1 is 0 at once
                D = np.where(np.isfinite(D), D, 0.0)
            qq = 1e-6 if a["kind"] == "arbitrary" else oracles_quantum(tr.model)
            gotd = b[fld] if b[fld] is not None else np.zeros_like(D)
            if (np.abs(gotd - D) > qq / 2 * (1 + 1e-6) + 1e-12 * np.abs(D)).any():
                j = int(np.argmax(np.abs(gotd - D)))
                out.append(viol("C10", t, f"event {i}: recovery did not start at occurrence + duration = {t} (damage at the end of that step is not the initial damage)",
                                cell=j, damage=float(gotd[j]), initial=float(D[j])))
    # never backwards within the step
    seq = []
    for name in ("events_pre", "events_post"):
        p_ = st["phases"].get(name)
        if p_ and p_["post"] is not None:
            seq.append(p_["pre"]["trackers"])
            seq.append(p_["post"]["trackers"])
    for x, y in zip(seq, seq[1:]):
        for i, (a, b) in enumerate(zip(x, y)):
            if rank(b["status"]) < rank(a["status"]):
                out.append(viol("C10", t, f"event {i} went backwards: {a['status']} -> {b['status']}"))
    return out


def c10_prefix(tr, twin, c):
    """everything before the earliest occurrence equals the run without events (bitwise)"""
    out = []
    if not tr.sc["events"]:
        return out
    first = min(e["occ"] for e in tr.sc["events"])
    for k, (a, b) in enumerate(zip(tr.steps, twin.steps)):
        if a["t"] >= first:
            break
        ea = a["phases"].get("orders")
        eb = b["phases"].get("orders")
        if not ea or not eb or ea["post"] is None or eb["post"] is None:
            out.append(viol("C10", a["t"], "a step before the first occurrence did not complete"))
            break
        for var in ("prod", "orders", "stock", "alpha", "fdUnmet", "dTot"):
            if not np.array_equal(ea["post"]["econ"][var], eb["post"]["econ"][var], equal_nan=True):
                out.append(viol("C10", a["t"], f"{var} differs from the event-free run before the earliest occurrence ({first})"))
                return out
    return out


# ------------------------------------------------------------------ C11


def c11_run(tr, c):
    out = []
    if tr.build_error:
        out.append(viol("C11", 0, f"valid events refused / construction failed: {tr.build_error[0]}: {tr.build_error[1][:200]}"))
        return out
    if tr.step_error:
        k, typ, msg, tb = tr.step_error
        if not (typ == "ValueError" and "capital lost" in msg):
            out.append(viol("C11", tr.steps[-1]["t"] if tr.steps else k, f"internal error while simulating valid events: {typ}: {msg[:200]}",
                            traceback=tb.splitlines()[-6:]))
    return out


def c11_step(tr, st, c):
    out = []
    t = st["t"]
    ph = st["phases"].get("events_pre")
    if ph and ph["post"] is not None and not ph.get("exc"):
        post = ph["post"]
        N = c["K"].shape[0]
        lost = np.zeros(N)
        ids = []
        for trk in post["trackers"]:
            if trk["status"] in ("happening", "rebuilding", "recovering") and trk["dmg"] is not None:
                lost += trk["dmg"]
            if trk["status"] == "rebuilding":
                ids.append(trk["rid"])
            if trk["status"] == "finished" and trk["rid"] is not None:
                out.append(viol("C11", t, "a finished event still holds a demand block"))
        if post["econ"]["lost"] is not None and not np.allclose(post["econ"]["lost"], lost, rtol=1e-9, atol=1e-12):
            out.append(viol("C11", t, "destroyed capital is not the sum over active events"))
        if None in ids or len(set(ids)) != len(ids) or any(i >= post["nBlocks"] for i in ids if i is not None):
            out.append(viol("C11", t, f"rebuilding events do not hold distinct valid block ids: {ids} / {post['nBlocks']} blocks"))
    return out
