"""Per-property configuration of `./check`: which theorems are owed, which correspondence obligations
and oracles decide the property, which scenario streams feed it."""

LEVEL_TEXT = {}

# theorem names (in namespace Boario) each property owes; every one must exist in the built
# environment, be free of sorry, and depend on standard axioms only.
THEOREMS = {
    "C03": ["production_branches_agree", "production_nonneg", "production_le_demand", "production_le_capacity",
            "production_le_stock_support", "production_eq_min3", "production_tight"],
    "C04": ["deliveries_sum", "deliveries_same_ratio_orders", "deliveries_same_ratio_fd", "deliveries_reb_length",
            "deliveries_same_ratio_reb", "deliveries_le_asked", "fd_unmet_eq", "fd_unmet_range", "reb_prod_eq"],
    "C05": ["stock_update", "stock_negative_crashes", "stock_nonneg_distribute", "infinite_never_binds",
            "production_ignores_infinite", "stock_nonneg_step", "loop_stops_on_crash", "stock_nonneg_reach"],
    "C06": ["orders_no_internal", "orders_nonneg", "orders_eq", "orders_sum_noalt", "orders_sum_alt",
            "orders_only_initial_suppliers", "shares_noalt", "shares_alt", "need_eq", "gap_nonneg"],
    "C07": ["lost_is_sum_of_active", "lost_ignores_inactive", "delta_eq", "delta_range", "delta_zero_unaffected",
            "arb_is_max", "excess_loss_rejected", "capacity_nonneg", "eventsPre_delta"],
    "C14": ["alpha_bounds", "alpha_increase_only_if_scarce", "alpha_increase_amount", "alpha_no_increase_when_met",
            "alpha_drift_to_base"],
}

# Lean modules holding them
MODULES = {pid: [f"Boario.Properties.{pid}"] for pid in THEOREMS}

# scenario streams: (stream name, number of scenarios quick, thorough)
STREAMS = {
    "C03": [("shortage", 24, 300), ("shocked", 16, 200)],
    "C04": [("shocked", 24, 300), ("shortage", 16, 200)],
    "C05": [("shocked", 12, 200), ("shortage", 8, 150), ("crash", 10, 150), ("starve", 8, 60), ("mild", 8, 100)],
    "C06": [("shocked", 16, 300), ("shortage", 12, 200), ("mild", 16, 200)],
    "C07": [("shocked", 30, 400), ("excess", 10, 100)],
    "C14": [("shocked", 20, 300), ("shortage", 20, 200)],
}

# phases whose correspondence obligations can fail this property's check
PHASES = {
    "C03": ["production"],
    "C04": ["distribute"],
    "C05": ["distribute"],
    "C06": ["orders"],
    "C07": ["events_pre"],
    "C14": ["overprod"],
}

# per-step oracles (names in harness.oracles.PER_STEP) and per-run oracles
STEP_ORACLES = {pid: [pid] for pid in ("C03", "C04", "C05", "C06", "C07", "C14")}

NONTRIVIAL = {
    "C03": ("production.shortage", "a step in which some input binds or capacity is below demand"),
    "C04": ("rationing", "a step in which production is below total demand for some supplier"),
    "C05": ("distribute.update", "a step in which inventories really change (or the run crashes)"),
    "C06": ("orders.open", "a step with a positive inventory gap"),
    "C07": ("delta>0", "a step with a positive capacity loss"),
    "C14": ("alpha moves", "a step in which some overproduction factor changes"),
}

TITLES = {}

_NOTE = ("Trusted: Lean kernel; the hand-written model and theorem statements; the Python correspondence harness "
         "(relative 1e-9 per phase, ties of the model's threshold tests accepted) whose generator bounds what it sees. "
         "Not verified: float rounding, NumPy/pandas primitives, overflow.")

CLAIMS = {
    "C03": {"text": "Theorems production_nonneg / _le_demand / _le_capacity / _le_stock_support / _eq_min3 / _tight / _branches_agree hold for every table size, parameter value and state (Lean 4, no bound); the production phase of the model is checked against calc_production on every explored step.",
            "note": _NOTE, "technique": "Lean 4 theorems on an exact-rational model + per-step correspondence of calc_production"},
    "C04": {"text": "Theorems deliveries_sum / _same_ratio_* / _le_asked / fd_unmet_eq / fd_unmet_range / reb_prod_eq for every demand matrix with any number of rebuilding blocks; the full delivery matrix (hook) is compared cell by cell on every explored step.",
            "note": _NOTE, "technique": "Lean 4 theorems + per-step correspondence of distribute_production (delivery matrix via hook)"},
    "C05": {"text": "Theorems stock_update, stock_negative_crashes, stock_nonneg_distribute/_step/_reach (induction over the loop), loop_stops_on_crash, infinite_never_binds, production_ignores_infinite; stock update, skip and crash path compared with the code per step.",
            "note": _NOTE, "technique": "Lean 4 theorems (invariant by induction over steps) + per-step correspondence of distribute_production"},
    "C06": {"text": "Theorems orders_sum_noalt/_alt, orders_only_initial_suppliers, shares_noalt/_alt, orders_nonneg, orders_no_internal, need_eq, gap_nonneg for both classes and variants; calc_orders compared per step incl. both allclose branches.",
            "note": _NOTE, "technique": "Lean 4 theorems + per-step correspondence of calc_orders"},
    "C07": {"text": "Theorems delta_eq, delta_range, delta_zero_unaffected, lost_is_sum_of_active, arb_is_max, excess_loss_rejected, capacity_nonneg, eventsPre_delta; the capacity-loss update of _check_happening_events compared per step, capital ingestion checked by oracle.",
            "note": _NOTE, "technique": "Lean 4 theorems + per-step correspondence of the event/capacity update"},
    "C14": {"text": "Theorems alpha_bounds, alpha_increase_only_if_scarce, alpha_increase_amount, alpha_no_increase_when_met, alpha_drift_to_base; calc_overproduction compared per step.",
            "note": _NOTE, "technique": "Lean 4 theorems + per-step correspondence of calc_overproduction"},
}

NOT_CLAIMED = {}
