/-
  Shared preamble of the `Formulas*` modules: the closing tactic for `code expression = model expression`.
-/
import Boario.Gen.Formulas
import Boario.Econ
import Boario.Events
import Mathlib.Tactic.Ring
import Mathlib.Tactic.SplitIfs
import Mathlib.Tactic.Linarith

namespace Boario.Gen

/-- close `code expression = model expression` over `Rat`: unfold both, turn `max` / `min` into case splits,
    split every `if`, and close each leaf by a ring identity or by linear arithmetic from the case hypotheses
    (contradictory cases included).  Deliberately insensitive to the order of factors, to `np.where` against
    indicator products and to `np.maximum` against masked assignment. -/
macro "formula_cases" : tactic =>
  `(tactic| (
      (try simp only [max_def, min_def, gt_iff_lt, ge_iff_le, ne_eq, ite_not, mul_ite, ite_mul, mul_one, mul_zero,
        one_mul, zero_mul, add_zero, zero_add]) <;>
      (try split_ifs) <;>
        first
          | rfl
          | ring1
          | linarith
          | (exfalso; linarith)
          | (exfalso; simp_all; done)
          | (simp_all; done)
          | (simp_all; ring1)
          | (simp_all; linarith)))

end Boario.Gen
