/-
  Element-wise formulas of the source = the model's definitions: the reconstruction ledger of a rebuilding event
  (demand presented to producers, what remains after a delivery) (C08, C04, C11).
  See `Boario/Properties/Formulas.lean` for the approach.
-/
import Boario.Properties.FormulaTactics

set_option linter.unusedTactic false
set_option linter.unreachableTactic false
set_option linter.unusedSimpArgs false
set_option linter.unnecessarySeqFocus false

namespace Boario.Gen
open Boario

variable {d : Dims}

/-- what remains of a ledger cell after a delivery, in the source (`receive_indus_rebuilding`): the model's `settle`
    (subtract, round to the model's precision, floor at 0). -/
theorem settle_indus_is_code (prec : Nat) (rem delivered : Rat) :
    settle_indus_cell prec rem delivered = settle prec rem delivered := by
  simp only [settle_indus_cell, settle, pos] <;>
    formula_cases

/-- the household ledger is updated by the same rule. -/
theorem settle_house_is_code (prec : Nat) (rem delivered : Rat) :
    settle_house_cell prec rem delivered = settle prec rem delivered := by
  simp only [settle_house_cell, settle, pos] <;>
    formula_cases

/-- both ledgers of the source follow one and the same rule. -/
theorem settle_same_rule (prec : Nat) (rem delivered : Rat) :
    settle_indus_cell prec rem delivered = settle_house_cell prec rem delivered := by
  rw [settle_indus_is_code, settle_house_is_code]

/-- the demand a rebuilding tracker presents to producers is the code's cell formula `remaining · dt / tau`, for the
    industrial and the household ledger alike. -/
theorem presented_is_code (dt : Nat) (tr : Tracker d) (i j : Ind d) (c : Fd d) :
    (presented dt tr).indus i j = (match tr.remI with
      | some r => presented_indus_cell (r i j) dt tr.tau
      | none => 0) ∧
    (presented dt tr).house i c = (match tr.remH with
      | some r => presented_house_cell (r i c) dt tr.tau
      | none => 0) := by
  constructor
  · simp only [presented, presented_indus_cell]
    cases tr.remI <;> first | rfl | (simp only []; first | rfl | ring1)
  · simp only [presented, presented_house_cell]
    cases tr.remH <;> first | rfl | (simp only []; first | rfl | ring1)

end Boario.Gen
