/-
  Boario.Sim — one call of `Simulation.next_step()` as the composition of the phases, and `loop`.

  Phase order (regenerated from the source into `Boario.Gen.NextStep` and checked there):
    _check_happening_events → [t > 1] calc_overproduction → calc_production →
    try { distribute_production → rebuild_events → recover_events } except RuntimeError → return 1
    → calc_orders → t += dt
-/
import Boario.Events

namespace Boario

variable {d : Dims}

structure Sim (d : Dims) where
  p : Params d
  dt : Nat                      -- n_temporal_units_by_step
  econ : Econ d
  trackers : List (Tracker d)
  nBlocks : Nat                 -- model._n_rebuilding_events
  t : Nat                       -- current_temporal_unit

/-- `_check_happening_events`: statuses, capacity losses, rebuilding demand.  `rejected` is the
    `ValueError` of the capital check. -/
def eventsPre (s : Sim d) : Outcome (Sim d) :=
  let (trs, nb) := lifecycle s.t s.dt s.trackers s.nBlocks
  let lost := lostCapital trs
  if lostExceeds s.p lost then .rejected else
  let arb := arbDelta trs
  let delta : Ind d → Rat := deltaTotOf s.p lost arb
  let e := s.econ
  let e1 : Econ d :=
    if anyRebuilding trs then
      let reb := rebuildDemand s.dt trs nb
      { e with deltaTot := delta, reb := reb, dTot := rowTot e.orders e.fd reb }
    else if nb ≠ s.nBlocks then
      -- unreachable (a new block implies a rebuilding tracker); mirrors `_chg_events_number`
      { e with deltaTot := delta, reb := (List.range nb).map fun _ => zeroBlock }
    else { e with deltaTot := delta }
  .ok { s with trackers := trs, nBlocks := nb, econ := e1 }

/-- `rebuild_events` then `recover_events` -/
def eventsPost (s : Sim d) : Sim d :=
  { s with trackers := recoverAll s.t (receiveAll s.econ.rebProd s.trackers) }

def Outcome.bind {α β : Type} (o : Outcome α) (f : α → Outcome β) : Outcome β :=
  match o with
  | .ok a => f a
  | .crashed _ => .internal     -- only `distribute` crashes, and it is handled explicitly below
  | .rejected => .rejected
  | .internal => .internal

/-- `Simulation.next_step()` -/
def nextStep (s : Sim d) : Outcome (Sim d) :=
  (eventsPre s).bind fun s1 =>
  let e1 := if 1 < s1.t then overprodPhase s1.p s1.econ else s1.econ
  (productionPhase s1.p e1).bind fun e2 =>
  match distribute s1.p e2 with
  | .crashed e3 => .crashed { s1 with econ := e3 }
  | .rejected => .rejected
  | .internal => .internal
  | .ok e3 =>
    let s3 := eventsPost { s1 with econ := e3 }
    (orders s3.p s3.econ).bind fun e4 =>
    .ok { s3 with econ := e4, t := s3.t + s3.dt }

/-- result of `loop()`: final state and the `has_crashed` flag; an exception aborts the loop. -/
inductive LoopResult (d : Dims) where
  | done (s : Sim d) (crashed : Bool)
  | raised (s : Sim d)          -- state at the beginning of the step that raised

/-- `loop()` over `steps` iterations (the equilibrium early-exit is never taken: `_monotony_checker`
    is never incremented by the code). -/
def loopN : Nat → Sim d → LoopResult d
  | 0, s => .done s false
  | k + 1, s =>
    match nextStep s with
    | .ok s' => loopN k s'
    | .crashed s' => .done s' true
    | .rejected => .raised s
    | .internal => .raised s

/-- `k` successful steps (driving the simulation by hand with `next_step()`); `none` if one of them
    does not return 0 -/
def runN : Nat → Sim d → Option (Sim d)
  | 0, s => some s
  | k + 1, s =>
    match nextStep s with
    | .ok s' => runN k s'
    | _ => none

end Boario
