"""Shared plumbing of the correspondence harness: locating the implementation under test, exact
number transport, and the pipe to the Lean driver."""
from __future__ import annotations

import json
import logging
import os
import subprocess
import sys
import warnings
from fractions import Fraction
from pathlib import Path

VERIF = Path(__file__).resolve().parent.parent
REPO = Path(os.environ.get("BOARIO_REPO", "/repo"))
DRIVER = VERIF / "lean" / ".lake" / "build" / "bin" / "driver"

# hooks on, implementation imported from the working tree under test (never a stale install)
os.environ["BOARIO_VERIF"] = "1"
if str(REPO) not in sys.path:
    sys.path.insert(0, str(REPO))
for _m in [k for k in sys.modules if k == "boario" or k.startswith("boario.")]:
    del sys.modules[_m]

warnings.filterwarnings("ignore")
logging.disable(logging.CRITICAL)

import numpy as np  # noqa: E402


def import_boario():
    import boario  # noqa: F401

    assert Path(boario.__file__).resolve().parent.parent == REPO.resolve(), (
        f"boario imported from {boario.__file__}, expected {REPO}"
    )
    logging.disable(logging.CRITICAL)
    return boario


# ---------------------------------------------------------------- exact numbers


class NonFinite(Exception):
    """a value that should be a finite number is NaN / inf in the implementation"""


def q(x) -> str:
    """float -> exact 'num/den' string (floats are dyadic rationals)."""
    x = float(x)
    if x != x or x in (float("inf"), float("-inf")):
        raise NonFinite(f"non-finite value {x}")
    fr = Fraction(x)
    return str(fr.numerator) if fr.denominator == 1 else f"{fr.numerator}/{fr.denominator}"


def qarr(a) -> list:
    return [q(v) for v in np.asarray(a, dtype=float).ravel()]


def unq(s: str) -> float:
    return float(Fraction(s))


def unqarr(lst, shape=None) -> np.ndarray:
    a = np.array([float(Fraction(s)) for s in lst], dtype=float)
    return a.reshape(shape) if shape is not None else a


# ---------------------------------------------------------------- driver


class Driver:
    """Line protocol to the compiled Lean model (`lean/Main.lean`)."""

    def __init__(self):
        if not DRIVER.exists():
            raise RuntimeError(f"driver not built: {DRIVER}")
        self.p = subprocess.Popen(
            [str(DRIVER)], stdin=subprocess.PIPE, stdout=subprocess.PIPE, text=True, bufsize=1
        )
        self.n_requests = 0

    def ask(self, req: dict) -> dict:
        self.p.stdin.write(json.dumps(req) + "\n")
        self.p.stdin.flush()
        line = self.p.stdout.readline()
        if not line:
            raise RuntimeError("driver died")
        self.n_requests += 1
        ans = json.loads(line)
        if "bad-op" in ans:
            raise RuntimeError(f"driver rejected request {req.get('op')}: {ans['bad-op']}")
        return ans

    def close(self):
        try:
            self.p.stdin.close()
            self.p.wait(timeout=5)
        except Exception:
            self.p.kill()


def quiet_loop(sim):
    """`sim.loop()` with the progress bar (option show_progress) kept off the check's output"""
    import contextlib, io
    if getattr(sim, "_show_progress", False):
        with contextlib.redirect_stdout(io.StringIO()), contextlib.redirect_stderr(io.StringIO()):
            return sim.loop()
    return sim.loop()
