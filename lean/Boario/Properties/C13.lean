/-
  C13 — Monetary units are handled consistently.
  Partial where stated: the closeness tests of the model use a fixed absolute tolerance and the
  ledgers a fixed decimal quantum, so exact homogeneity holds for the phases and branches below; the
  residue (bounded by those constants) is checked differentially, not proved.
-/
import Boario.Lemmas.Sums
import Boario.Init
import Boario.Lemmas.Scale

namespace Boario
variable {d : Dims}

section
variable (tb : Table d) (mf : Rat) (L : Nat)

/-- the conversion ratio is event factor / model factor -/
theorem conv_eq (emf : Rat) (hmf : mf ≠ 0) : convFactor emf mf = emf / mf := by
  unfold convFactor
  split_ifs with h
  · rw [h, div_self hmf]
  · rfl

/-- destroyed capital, household damage and both reconstruction ledgers are all built from
    impact × (event factor / model factor) -/
theorem conversion_uniform (ev : EventSpec d) (hk : ev.kind = .rebuild ∨ ev.kind = .recover) :
    (∀ i, (trackerInit tb mf L ev).dmg0 i = ev.impact i * convFactor ev.emf mf) ∧
    (∀ h, ev.house = some h → ∃ h0, (trackerInit tb mf L ev).hdmg0 = some h0 ∧
        ∀ c, h0 c = h c * convFactor ev.emf mf) ∧
    (ev.kind = .rebuild → ∃ r, (trackerInit tb mf L ev).remI = some r ∧
        ∀ i j, r i j = (if ev.isReb i.2 = true ∧ ev.impact j ≠ 0 then
            ev.shares i.2 * (ev.impact j * convFactor ev.emf mf) * ev.factor * distI tb i j else 0)) ∧
    (ev.kind = .rebuild → ∀ h, ev.house = some h → ∃ r, (trackerInit tb mf L ev).remH = some r ∧
        ∀ i c, r i c = (if ev.isReb i.2 = true ∧ h c ≠ 0 then
            ev.shares i.2 * (h c * convFactor ev.emf mf) * ev.factor * distH tb i c else 0)) := by
  refine ⟨?_, ?_, ?_, ?_⟩
  · intro i
    simp only [trackerInit, hk, if_true]
  · intro h hh
    refine ⟨fun c => h c * convFactor ev.emf mf, ?_, fun _ => rfl⟩
    simp only [trackerInit, hk, if_true, hh, Option.map_some]
  · intro hr
    refine ⟨rem0I tb ev mf, ?_, fun _ _ => rfl⟩
    simp only [trackerInit, hr, if_true]
  · intro hr h hh
    refine ⟨rem0H tb ev mf h, ?_, fun _ _ => rfl⟩
    simp only [trackerInit, hr, if_true, hh, Option.map_some]

/-- the same event expressed with another monetary factor (impacts × c, factor ÷ c) gives the same
    ledgers; the rounding precision `L` depends on the model's unit only -/
def reexpress (ev : EventSpec d) (c : Rat) : EventSpec d :=
  { ev with impact := fun i => ev.impact i * c, house := ev.house.map (fun h x => h x * c), emf := ev.emf / c }

theorem reexpression_invariant (ev : EventSpec d) (c : Rat) (hc : c ≠ 0) (hmf : mf ≠ 0) :
    let t1 := trackerInit tb mf L ev
    let t2 := trackerInit tb mf L (reexpress ev c)
    (∀ i, t2.dmg0 i = t1.dmg0 i) ∧
    (∀ i, (t2.dmg.map fun f => f i) = (t1.dmg.map fun f => f i)) ∧
    (∀ x, (t2.hdmg0.map fun f => f x) = (t1.hdmg0.map fun f => f x)) ∧
    (∀ i j, (t2.remI.map fun f => f i j) = (t1.remI.map fun f => f i j)) ∧
    (∀ i x, (t2.remH.map fun f => f i x) = (t1.remH.map fun f => f i x)) ∧
    t2.prec = t1.prec := by
  have hcv := convFactor_reexpress ev.emf mf c hc hmf
  have e1 : ∀ a : Rat, a * c * convFactor (ev.emf / c) mf = a * convFactor ev.emf mf := by
    intro a; rw [← hcv]; ring
  have e2 : ∀ a : Rat, (a * c ≠ 0) = (a ≠ 0) := by
    intro a; simp [hc]
  intro t1 t2
  refine ⟨?_, ?_, ?_, ?_, ?_, rfl⟩
  · intro i
    by_cases hk : ev.kind = .rebuild ∨ ev.kind = .recover
    · simp only [t1, t2, trackerInit, reexpress, hk, if_true, e1]
    · simp only [t1, t2, trackerInit, reexpress, hk, if_false]
  · intro i
    by_cases hk : ev.kind = .rebuild ∨ ev.kind = .recover
    · simp only [t1, t2, trackerInit, reexpress, hk, if_true, e1]
    · simp only [t1, t2, trackerInit, reexpress, hk, if_false]
  · intro x
    by_cases hk : ev.kind = .rebuild ∨ ev.kind = .recover
    · simp only [t1, t2, trackerInit, reexpress, hk, if_true]
      cases ev.house <;> simp [e1]
    · simp only [t1, t2, trackerInit, reexpress, hk, if_false]
  · intro i j
    by_cases hk : ev.kind = .rebuild
    · simp only [t1, t2, trackerInit, reexpress, hk, if_true, Option.map_some, rem0I, e1, e2]
    · simp only [t1, t2, trackerInit, reexpress, hk, if_false]
  · intro i x
    by_cases hk : ev.kind = .rebuild
    · simp only [t1, t2, trackerInit, reexpress, hk, if_true]
      cases ev.house <;> simp [rem0H, e1, e2]
    · simp only [t1, t2, trackerInit, reexpress, hk, if_false]

end

/-! ### homogeneity of the step map -/

/-- parameters of the same economy expressed in a unit `c` times smaller (all monetary constants × c) -/
def scaleParams (c : Rat) (p : Params d) : Params d :=
  { p with x0 := fun f => p.x0 f * c, Z0 := fun i j => p.Z0 i j * c, Y0 := fun i x => p.Y0 i x * c,
           K := fun f => p.K f * c }

def scaleBlock (c : Rat) (b : RebBlock d) : RebBlock d :=
  { indus := fun i j => b.indus i j * c, house := fun i x => b.house i x * c }

/-- monetary state × c; ratios (overproduction, capacity-loss share) unchanged -/
def scaleEcon (c : Rat) (e : Econ d) : Econ d :=
  { e with orders := fun i j => e.orders i j * c, fd := fun i x => e.fd i x * c,
           reb := e.reb.map (scaleBlock c), dTot := fun f => e.dTot f * c,
           stock := fun s f => e.stock s f * c, prod := fun f => e.prod f * c,
           fdUnmet := fun f => e.fdUnmet f * c, rebProd := e.rebProd.map (scaleBlock c) }

/-! helper lemmas: each primitive of the step under the change of unit, for arbitrary arguments
    (they need `scaleParams` / `scaleBlock`, hence live here; the purely numeric ones are in
    `Boario.Lemmas.Scale`) -/
section
variable (p : Params d) (c : Rat)

theorem capacity_scale (dl al : Ind d → Rat) (f : Ind d) :
    capacity (scaleParams c p) dl al f = capacity p dl al f * c := by
  simp only [capacity, scaleParams]; ring

theorem xOpt_scale (hc : 0 < c) (dTot dl al : Ind d → Rat) :
    xOpt (scaleParams c p) (fun f => dTot f * c) dl al = fun f => xOpt p dTot dl al f * c := by
  funext f
  simp only [xOpt, capacity_scale, min_scale _ _ _ hc.le]

theorem cons_scale (x : Ind d → Rat) (s : Fin d.n) (f : Ind d) :
    cons (scaleParams c p) (fun f => x f * c) s f = cons p x s f * c := by
  simp only [cons, durOrZero, scaleParams]; ring

theorem goal_scale (x : Ind d → Rat) (s : Fin d.n) (f : Ind d) :
    goal (scaleParams c p) (fun f => x f * c) s f = goal p x s f * c := by
  simp only [goal, durOrZero, scaleParams]; ring

theorem stockConstraint_scale (hc : 0 < c) (stock : Fin d.n → Ind d → Rat) (x : Ind d → Rat)
    (s : Fin d.n) (f : Ind d) :
    stockConstraint (scaleParams c p) (fun s f => stock s f * c) (fun f => x f * c) s f
      = stockConstraint p stock x s f := by
  unfold stockConstraint
  rw [cons_scale]
  have : (stock s f * c < cons p x s f * c) ↔ (stock s f < cons p x s f) :=
    mul_lt_mul_iff_of_pos_right hc
  simp only [this]
  rfl

theorem anyConstraint_scale (hc : 0 < c) (stock : Fin d.n → Ind d → Rat) (x : Ind d → Rat) :
    anyConstraint (scaleParams c p) (fun s f => stock s f * c) (fun f => x f * c)
      ↔ anyConstraint p stock x := by
  unfold anyConstraint
  simp only [stockConstraint_scale p c hc]

theorem ratio_scale (hc : 0 < c) (stock : Fin d.n → Ind d → Rat) (x : Ind d → Rat)
    (s : Fin d.n) (f : Ind d) :
    ratio (scaleParams c p) (fun s f => stock s f * c) (fun f => x f * c) s f
      = ratio p stock x s f := by
  unfold ratio
  rw [cons_scale]
  have h1 : (cons p x s f * c ≠ 0) ↔ (cons p x s f ≠ 0) := by simp [hc.ne']
  have h2 : (scaleParams c p).thr s f = p.thr s f := rfl
  simp only [h1, h2, mul_div_mul_right _ _ hc.ne']

theorem production_scale (hc : 0 < c) (stock : Fin d.n → Ind d → Rat) (x : Ind d → Rat) (f : Ind d) :
    production (scaleParams c p) (fun s f => stock s f * c) (fun f => x f * c) f
      = production p stock x f * c := by
  unfold production
  by_cases h : anyConstraint p stock x
  · rw [if_pos h, if_pos ((anyConstraint_scale p c hc stock x).2 h)]
    unfold prodShortage
    simp only [ratio_scale p c hc]
    rw [← minFin_scale _ _ _ _ hc.le]
    congr 1
    funext s; ring
  · rw [if_neg h, if_neg (fun h' => h ((anyConstraint_scale p c hc stock x).1 h'))]

theorem scarcity_scale (hc : 0 < c) (dTot prod : Ind d → Rat) (f : Ind d) :
    scarcity (fun f => dTot f * c) (fun f => prod f * c) f = scarcity dTot prod f := by
  unfold scarcity
  by_cases h : dTot f = 0
  · simp [h]
  · have h' : dTot f * c ≠ 0 := mul_ne_zero h hc.ne'
    rw [if_pos h, if_pos h', ← sub_mul, mul_div_mul_right _ _ hc.ne']

theorem blockTot_scale (b : RebBlock d) (i : Ind d) :
    blockTot (scaleBlock c b) i = blockTot b i * c := by
  unfold blockTot scaleBlock
  simp only
  rw [sumInd_mul_const, sumFd_mul_const]; ring

theorem rebTot_scale (reb : List (RebBlock d)) (i : Ind d) :
    rebTot (reb.map (scaleBlock c)) i = rebTot reb i * c := by
  unfold rebTot
  rw [sumList_eq_sum, sumList_eq_sum]
  induction reb with
  | nil => simp
  | cons b bs ih =>
    simp only [List.map_cons, List.sum_cons] at ih ⊢
    rw [ih, blockTot_scale]; ring

theorem rowTot_scale (o : Ind d → Ind d → Rat) (fd : Ind d → Fd d → Rat) (reb : List (RebBlock d))
    (i : Ind d) :
    rowTot (fun i j => o i j * c) (fun i x => fd i x * c) (reb.map (scaleBlock c)) i
      = rowTot o fd reb i * c := by
  unfold rowTot
  rw [rebTot_scale, sumInd_mul_const, sumFd_mul_const]; ring

theorem rho_scale (hc : 0 < c) (dl al : Ind d → Rat) (i : Ind d) :
    rho (scaleParams c p) dl al i = rho p dl al i := by
  unfold rho
  rw [capacity_scale]
  exact safeDiv_scale _ _ _ _ hc.ne'

theorem zProd_scale (hc : 0 < c) (dl al : Ind d → Rat) (i j : Ind d) :
    zProd (scaleParams c p) dl al i j = zProd p dl al i j * c := by
  unfold zProd
  rw [rho_scale p c hc]
  simp only [scaleParams]; ring

theorem supplierShare_scale (hc : 0 < c) (dl al : Ind d → Rat) (i j : Ind d) :
    supplierShare (scaleParams c p) dl al i j = supplierShare p dl al i j := by
  unfold supplierShare altShare zCProd
  simp only [zProd_scale p c hc, sumFin_mul_const, safeDiv_scale _ _ _ _ hc.ne']
  rfl

theorem gapOpen_scale (hc : 0 < c) (stock : Fin d.n → Ind d → Rat) (x : Ind d → Rat)
    (s : Fin d.n) (f : Ind d) :
    gapOpen (scaleParams c p) (fun s f => stock s f * c) (fun f => x f * c) s f
      = gapOpen p stock x s f * c := by
  unfold gapOpen
  have h : (scaleParams c p).invDur s = p.invDur s := rfl
  rw [h]
  cases p.invDur s with
  | none => simp
  | some v =>
    simp only
    rw [goal_scale, ← sub_mul, pos_scale _ _ hc]
    simp only [scaleParams]; ring

end

section
variable (p : Params d) (e : Econ d) (c : Rat)

theorem capacity_homogeneous (f : Ind d) :
    capacity (scaleParams c p) e.deltaTot e.alpha f = capacity p e.deltaTot e.alpha f * c := by
  exact capacity_scale p c e.deltaTot e.alpha f

/-- realised production scales with the unit -/
theorem production_homogeneous (hc : 0 < c) (f : Ind d) :
    production (scaleParams c p) (scaleEcon c e).stock
        (xOpt (scaleParams c p) (scaleEcon c e).dTot e.deltaTot e.alpha) f
      = production p e.stock (xOpt p e.dTot e.deltaTot e.alpha) f * c := by
  have h1 : (scaleEcon c e).stock = fun s f => e.stock s f * c := rfl
  have h2 : (scaleEcon c e).dTot = fun f => e.dTot f * c := rfl
  rw [h1, h2, xOpt_scale p c hc, production_scale p c hc]

/-- the overproduction factor does not depend on the unit -/
theorem overprod_homogeneous (hc : 0 < c) (f : Ind d) :
    overprod (scaleParams c p) e.alpha (scaleEcon c e).dTot (scaleEcon c e).prod f
      = overprod p e.alpha e.dTot e.prod f := by
  have h1 : (scaleEcon c e).prod = fun f => e.prod f * c := rfl
  have h2 : (scaleEcon c e).dTot = fun f => e.dTot f * c := rfl
  rw [h1, h2]
  unfold overprod alphaChg
  rw [scarcity_scale c hc]
  rfl

/-- deliveries scale with the unit -/
theorem deliveries_homogeneous (hc : 0 < c) (i j : Ind d) (x : Fd d) :
    (deliveries (scaleEcon c e)).orders i j = (deliveries e).orders i j * c ∧
    (deliveries (scaleEcon c e)).fd i x = (deliveries e).fd i x * c := by
  simp only [deliveries, scaleEcon, rowTot_scale, deliverCell_scale _ _ _ _ hc.ne', and_self]

/-- orders scale with the unit when the closeness shortcut takes the same branch (it uses a fixed
    absolute tolerance, which is the part of the claim that is not exact) -/
theorem orders_homogeneous_same_branch (hc : 0 < c) (gap : Fin d.n → Ind d → Rat) (i j : Ind d) :
    ordersFrom (scaleParams c p) (scaleEcon c e) (fun s f => gap s f * c) i j
      = ordersFrom p e gap i j * c := by
  unfold ordersFrom
  have h1 : (scaleEcon c e).deltaTot = e.deltaTot := rfl
  have h2 : (scaleEcon c e).alpha = e.alpha := rfl
  rw [h1, h2, supplierShare_scale p c hc]
  simp only [needWith, scaleEcon, scaleParams]; ring

theorem gapOpen_homogeneous (hc : 0 < c) (s : Fin d.n) (f : Ind d) :
    gapOpen (scaleParams c p) (scaleEcon c e).stock
        (xOpt (scaleParams c p) (scaleEcon c e).dTot e.deltaTot e.alpha) s f
      = gapOpen p e.stock (xOpt p e.dTot e.deltaTot e.alpha) s f * c := by
  have h1 : (scaleEcon c e).stock = fun s f => e.stock s f * c := rfl
  have h2 : (scaleEcon c e).dTot = fun f => e.dTot f * c := rfl
  rw [h1, h2, xOpt_scale p c hc, gapOpen_scale p c hc]

/-- the share of capacity lost does not depend on the unit -/
theorem deltaCap_homogeneous (hc : 0 < c) (lost : Ind d → Rat) (i : Ind d) :
    deltaCap (scaleParams c p) (fun f => lost f * c) i = deltaCap p lost i := by
  unfold deltaCap
  exact safeDiv_scale _ _ _ _ hc.ne'

end
end Boario
