/-
  C07 — Capacity loss equals the share of capital destroyed, only where it was destroyed.
  (`capital_ingest`, about how the capital stock is obtained, is in `Boario.Properties.C07Init`.)
-/
import Boario.Lemmas.Sums
import Boario.Lemmas.Capacity
import Boario.Sim

namespace Boario
variable {d : Dims}

section
variable (p : Params d)

/-- destroyed capital = sum over active capital-destroying events -/
theorem lost_is_sum_of_active (trs : List (Tracker d)) (i : Ind d) :
    lostCapital trs i = (trs.map fun tr => tr.lostContribution i).sum := by
  unfold lostCapital
  exact sumList_eq_sum _

/-- … only events that are happening, rebuilding or recovering count -/
theorem lost_ignores_inactive (tr : Tracker d) (i : Ind d)
    (h : tr.status = .pending ∨ tr.status = .finished) : tr.lostContribution i = 0 := by
  unfold Tracker.lostContribution Tracker.active
  rcases h with h | h <;> simp [h]

/-- share of capacity lost = destroyed capital / capital stock, or the largest arbitrary loss if larger -/
theorem delta_eq (lost arb : Ind d → Rat) (i : Ind d) :
    deltaTotOf p lost arb i = max (if p.K i = 0 then 0 else lost i / p.K i) (arb i) := by
  rfl

theorem delta_range (lost arb : Ind d → Rat) (i : Ind d)
    (hl : 0 ≤ lost i) (hk : lost i ≤ p.K i) (ha : 0 ≤ arb i ∧ arb i ≤ 1) :
    0 ≤ deltaTotOf p lost arb i ∧ deltaTotOf p lost arb i ≤ 1 := by
  have hc := deltaCap_range p lost i hl hk
  unfold deltaTotOf
  exact ⟨le_max_of_le_right ha.1, max_le hc.2 ha.2⟩

/-- zero for industries that no active event affects -/
theorem delta_zero_unaffected (trs : List (Tracker d)) (i : Ind d)
    (hl : ∀ tr ∈ trs, tr.lostContribution i = 0) (ha : ∀ tr ∈ trs, tr.arbContribution i = 0) :
    deltaTotOf p (lostCapital trs) (arbDelta trs) i = 0 := by
  have h1 : lostCapital trs i = 0 := by
    rw [lost_is_sum_of_active]
    apply List.sum_eq_zero
    intro x hx
    obtain ⟨tr, htr, rfl⟩ := List.mem_map.1 hx
    exact hl tr htr
  have h2 : arbDelta trs i = 0 := by
    unfold arbDelta
    apply foldl_max_zero_of_all_zero
    intro x hx
    obtain ⟨tr, htr, rfl⟩ := List.mem_map.1 hx
    exact ha tr htr
  unfold deltaTotOf deltaCap safeDiv
  rw [h1, h2]
  split_ifs <;> simp

/-- the arbitrary part is the largest arbitrary reduction in force -/
theorem arb_is_max (trs : List (Tracker d)) (i : Ind d)
    (hn : ∀ tr ∈ trs, 0 ≤ tr.arbContribution i) :
    (∀ tr ∈ trs, tr.arbContribution i ≤ arbDelta trs i) ∧
    (arbDelta trs i = 0 ∨ ∃ tr ∈ trs, arbDelta trs i = tr.arbContribution i) := by
  have _ := hn  -- not needed: the fold starts from 0
  unfold arbDelta
  constructor
  · intro tr htr
    exact le_foldl_max _ _ _ (List.mem_map.2 ⟨tr, htr, rfl⟩)
  · rcases foldl_max_eq (trs.map fun tr => tr.arbContribution i) 0 with h | ⟨x, hx, h⟩
    · exact Or.inl h
    · obtain ⟨tr, htr, rfl⟩ := List.mem_map.1 hx
      exact Or.inr ⟨tr, htr, h⟩

/-- destroying more capital than an industry owns is rejected, not truncated -/
theorem excess_loss_rejected (s : Sim d)
    (h : ∃ i, s.p.K i < lostCapital (lifecycle s.t s.dt s.trackers s.nBlocks).1 i) :
    eventsPre s = .rejected := by
  obtain ⟨⟨r, t⟩, hi⟩ := h
  have hex : lostExceeds s.p (lostCapital (lifecycle s.t s.dt s.trackers s.nBlocks).1) := ⟨r, t, hi⟩
  unfold eventsPre
  simp only [hex, if_true]

/-- an accepted update never yields negative capacity -/
theorem capacity_nonneg (deltaTot alpha : Ind d → Rat)
    (hx : ∀ f, 0 ≤ p.x0 f) (hd : ∀ f, 0 ≤ deltaTot f ∧ deltaTot f ≤ 1) (ha : ∀ f, 0 ≤ alpha f) :
    ¬ capNegative p deltaTot alpha := by
  rintro ⟨r, s, h⟩
  exact absurd (capacity_nonneg_cell p deltaTot alpha (r, s) (hx _) (hd _).2 (ha _)) (not_le.2 h)

/-- what `eventsPre` leaves in the economy is this total -/
theorem eventsPre_delta (s s' : Sim d) (h : eventsPre s = .ok s') (i : Ind d) :
    s'.econ.deltaTot i = deltaTotOf s.p (lostCapital s'.trackers) (arbDelta s'.trackers) i := by
  unfold eventsPre at h
  simp only at h
  split_ifs at h <;> (injection h with h; subst h; rfl)

end
end Boario
