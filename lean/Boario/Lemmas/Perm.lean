/-
  Helper lemmas for C11: order independence of what the economy sees of the tracker list.
-/
import Boario.Lemmas.Blocks
import Boario.Lemmas.Inv

namespace Boario
variable {d : Dims}

/-! ### order independence -/

theorem IdsOK.perm {trs trs' : List (Tracker d)} {nb : Nat} (h : trs.Perm trs') (hi : IdsOK trs nb) :
    IdsOK trs' nb :=
  ⟨fun tr htr => hi.has_id tr (h.mem_iff.2 htr), fun tr htr => hi.only_rebuilding tr (h.mem_iff.2 htr),
    (h.filterMap _).nodup_iff.1 hi.distinct⟩

theorem lostCapital_perm {trs trs' : List (Tracker d)} (h : trs.Perm trs') (i : Ind d) :
    lostCapital trs i = lostCapital trs' i := by
  unfold lostCapital
  rw [sumList_eq_sum, sumList_eq_sum]
  exact (h.map _).sum_eq

theorem foldl_max_perm {l l' : List Rat} (h : l.Perm l') (a : Rat) : l.foldl max a = l'.foldl max a :=
  h.foldl_eq' (fun x _ y _ z => max_right_comm z x y) a

theorem arbDelta_perm {trs trs' : List (Tracker d)} (h : trs.Perm trs') (i : Ind d) :
    arbDelta trs i = arbDelta trs' i := by
  unfold arbDelta
  exact foldl_max_perm (h.map _) 0

theorem anyRebuilding_perm {trs trs' : List (Tracker d)} (h : trs.Perm trs') :
    anyRebuilding trs = anyRebuilding trs' := by
  unfold anyRebuilding
  rw [Bool.eq_iff_iff]
  simp only [List.any_eq_true]
  exact ⟨fun ⟨x, hx, hp⟩ => ⟨x, h.mem_iff.1 hx, hp⟩, fun ⟨x, hx, hp⟩ => ⟨x, h.mem_iff.2 hx, hp⟩⟩

theorem rebTot_perm (dt : Nat) {trs trs' : List (Tracker d)} (nb : Nat) (h : trs.Perm trs')
    (hi : IdsOK trs nb) (i : Ind d) :
    rebTot (rebuildDemand dt trs nb) i = rebTot (rebuildDemand dt trs' nb) i := by
  have hi' := hi.perm h
  rw [rebTot_rebuildDemand dt nb i trs hi.distinct hi.has_id,
    rebTot_rebuildDemand dt nb i trs' hi'.distinct hi'.has_id]
  exact (h.map _).sum_eq

/-- any view that ignores the id sees the life-cycle phase as a plain `map` -/
theorem lifecycle_map (t dt : Nat) {α : Type _} (φ : Tracker d → α)
    (hφ : ∀ (tr : Tracker d) r, φ { tr with rid := r } = φ tr) (trs : List (Tracker d)) (nb : Nat) :
    (lifecycle t dt trs nb).1.map φ = trs.map fun tr => φ (adv1 t (wake t dt tr)) := by
  unfold lifecycle
  rw [advance_map t φ hφ, List.map_map]
  rfl

theorem lifecycle_map_perm (t dt : Nat) {α : Type _} (φ : Tracker d → α)
    (hφ : ∀ (tr : Tracker d) r, φ { tr with rid := r } = φ tr) {trs trs' : List (Tracker d)}
    (h : trs.Perm trs') (nb nb' : Nat) :
    ((lifecycle t dt trs nb).1.map φ).Perm ((lifecycle t dt trs' nb').1.map φ) := by
  rw [lifecycle_map t dt φ hφ, lifecycle_map t dt φ hφ]
  exact h.map _

theorem lostCapital_lifecycle_perm (t dt : Nat) {trs trs' : List (Tracker d)} (h : trs.Perm trs')
    (nb nb' : Nat) (i : Ind d) :
    lostCapital (lifecycle t dt trs nb).1 i = lostCapital (lifecycle t dt trs' nb').1 i := by
  unfold lostCapital
  rw [sumList_eq_sum, sumList_eq_sum]
  exact (lifecycle_map_perm t dt (fun tr => tr.lostContribution i) (fun _ _ => rfl) h nb nb').sum_eq

theorem arbDelta_lifecycle_perm (t dt : Nat) {trs trs' : List (Tracker d)} (h : trs.Perm trs')
    (nb nb' : Nat) (i : Ind d) :
    arbDelta (lifecycle t dt trs nb).1 i = arbDelta (lifecycle t dt trs' nb').1 i := by
  unfold arbDelta
  exact foldl_max_perm (lifecycle_map_perm t dt (fun tr => tr.arbContribution i) (fun _ _ => rfl) h nb nb') 0

theorem anyRebuilding_lifecycle_perm (t dt : Nat) {trs trs' : List (Tracker d)} (h : trs.Perm trs')
    (nb nb' : Nat) :
    anyRebuilding (lifecycle t dt trs nb).1 = anyRebuilding (lifecycle t dt trs' nb').1 := by
  have hp := lifecycle_map_perm t dt (fun tr : Tracker d => decide (tr.status = .rebuilding))
    (fun _ _ => rfl) h nb nb'
  have e : ∀ L : List (Tracker d), anyRebuilding L
      = (L.map fun tr : Tracker d => decide (tr.status = .rebuilding)).any id := by
    intro L; unfold anyRebuilding; rw [List.any_map]; rfl
  rw [e, e, Bool.eq_iff_iff]
  simp only [List.any_eq_true]
  exact ⟨fun ⟨x, hx, hp'⟩ => ⟨x, hp.mem_iff.1 hx, hp'⟩, fun ⟨x, hx, hp'⟩ => ⟨x, hp.mem_iff.2 hx, hp'⟩⟩

theorem rebContribution_lifecycle_perm (t dt dt' : Nat) {trs trs' : List (Tracker d)} (h : trs.Perm trs')
    (nb nb' : Nat) (i : Ind d) :
    ((lifecycle t dt trs nb).1.map (rebContribution dt' i)).sum
      = ((lifecycle t dt trs' nb').1.map (rebContribution dt' i)).sum :=
  (lifecycle_map_perm t dt (rebContribution dt' i) (fun _ _ => rfl) h nb nb').sum_eq

theorem advance_nb_count (t : Nat) : ∀ (trs : List (Tracker d)) (nb : Nat),
    (advance t trs nb).2 = nb + trs.countP fun tr =>
      decide (tr.status = .happening ∧ tr.occ + tr.dur ≤ t) && decide (tr.kind = .rebuild) := by
  intro trs
  induction trs with
  | nil => intro nb; rfl
  | cons x rest ih =>
    intro nb
    by_cases h : x.status = .happening ∧ x.occ + x.dur ≤ t
    · by_cases hk : x.kind = .rebuild
      · rw [advance_cons_reb t x rest nb h hk, List.countP_cons_of_pos (by simp [h, hk])]
        show (advance t rest (nb + 1)).2 = _
        rw [ih]; omega
      · rw [advance_cons_rec t x rest nb h hk, List.countP_cons_of_neg (by simp [hk])]
        exact ih nb
    · rw [advance_cons_skip t x rest nb h, List.countP_cons_of_neg (by simp [h])]
      exact ih nb

theorem lifecycle_nb_perm (t dt : Nat) {trs trs' : List (Tracker d)} (h : trs.Perm trs') (nb : Nat) :
    (lifecycle t dt trs nb).2 = (lifecycle t dt trs' nb).2 := by
  unfold lifecycle
  rw [advance_nb_count, advance_nb_count, (h.map (wake t dt)).countP_eq]


/-- what `eventsPre` shows to the economy does not depend on the order of the trackers -/
theorem preEcon_perm (s s2 : Sim d)
    (hp : s.p = s2.p) (he : s.econ = s2.econ) (ht : s.t = s2.t) (hdt : s.dt = s2.dt)
    (hnb : s.nBlocks = s2.nBlocks) (hperm : s.trackers.Perm s2.trackers)
    (hids : IdsOK s.trackers s.nBlocks) :
    (∀ i, (preEcon s).deltaTot i = (preEcon s2).deltaTot i) ∧
    (∀ i, (preEcon s).dTot i = (preEcon s2).dTot i) := by
  obtain ⟨p, dt, econ, trs, nb, t⟩ := s
  obtain ⟨p2, dt2, econ2, trs2, nb2, t2⟩ := s2
  simp only at hp he ht hdt hnb hperm hids
  subst hp he ht hdt hnb
  have hids2 : IdsOK trs2 nb := hids.perm hperm
  have hL := (idsOK_lifecycle t dt trs nb hids).1
  have hL2 := (idsOK_lifecycle t dt trs2 nb hids2).1
  have hnbeq := lifecycle_nb_perm t dt hperm nb
  have hany := anyRebuilding_lifecycle_perm t dt hperm nb nb
  constructor
  · intro i
    rw [preEcon_deltaTot, preEcon_deltaTot]
    simp only [deltaTotOf, deltaCap]
    rw [lostCapital_lifecycle_perm t dt hperm nb nb i, arbDelta_lifecycle_perm t dt hperm nb nb i]
  · intro i
    unfold preEcon
    simp only
    rw [← hany, ← hnbeq]
    split_ifs
    · show rowTot econ.orders econ.fd _ i = rowTot econ.orders econ.fd _ i
      unfold rowTot
      congr 1
      rw [rebTot_rebuildDemand dt _ i _ hL.distinct hL.has_id]
      rw [hnbeq] at hL ⊢
      rw [rebTot_rebuildDemand dt _ i _ hL2.distinct hL2.has_id]
      exact rebContribution_lifecycle_perm t dt dt hperm nb nb i
    · rfl
    · rfl

end Boario
