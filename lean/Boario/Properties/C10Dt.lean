/-
  C10 for every step length: the timeline of `Properties/C10.lean` is stated for `dt = 1` (the documented
  value); the code accepts any `n_temporal_units_by_step ≥ 1`, steps are then taken at times
  0, dt, 2·dt, …  The invariant at the beginning of the step at time `t` (steps at times < t done):

      pending     iff  t < occ + dt              (no step at a time ≥ occ has been taken)
      happening   iff  occ + dt ≤ t < occ + dur + dt
      later stage iff  occ + dur + dt ≤ t        (a step at a time ≥ occ + dur has been taken)

  i.e. the shock is in force from the first step whose time reaches the occurrence, reconstruction or
  recovery starts at the first step whose time reaches occurrence + duration.
-/
import Boario.Properties.C10
import Boario.Lemmas.TimelineDt

namespace Boario
variable {d : Dims}

def OnScheduleDt (dt t : Nat) (tr : Tracker d) : Prop :=
  (t < tr.occ + dt → tr.status = .pending) ∧
  (tr.occ + dt ≤ t ∧ t < tr.occ + tr.dur + dt → tr.status = .happening) ∧
  (tr.occ + tr.dur + dt ≤ t → 2 ≤ tr.status.rank)

/-- with `dt = 1` this is the invariant of `Properties/C10.lean` -/
theorem onScheduleDt_one (t : Nat) (tr : Tracker d) : OnScheduleDt 1 t tr ↔ OnSchedule t tr := by
  unfold OnScheduleDt OnSchedule
  simp only [Nat.lt_succ_iff, Nat.succ_le_iff]

/-- preserved by every step, for every step length -/
theorem status_timeline_step_dt (s s' : Sim d) (hdt : 0 < s.dt) (h : nextStep s = .ok s')
    (hocc : ∀ tr ∈ s.trackers, 0 < tr.occ ∧ 0 < tr.dur)
    (hinv : ∀ tr ∈ s.trackers, OnScheduleDt s.dt s.t tr) :
    s'.t = s.t + s.dt ∧ s'.dt = s.dt ∧ ∀ tr ∈ s'.trackers, OnScheduleDt s'.dt s'.t tr := by
  obtain ⟨hrel, ht, hdt'⟩ := nextStep_rel s s' h
  refine ⟨ht, hdt', ?_⟩
  intro b hb
  obtain ⟨a, ha, hab⟩ := forall₂_mem_right hrel b hb
  obtain ⟨i1, i2, i3⟩ := hinv a ha
  rw [ht, hdt']
  exact dt_stepRel_schedule s.dt s.t a b hdt hab (hocc a ha) i1 i2 i3

/-- the invariant along a run of `k` successful steps from any on-schedule state -/
theorem dt_run_timeline (k : Nat) : ∀ (s s' : Sim d), 0 < s.dt → runN k s = some s' →
    (∀ tr ∈ s.trackers, 0 < tr.occ ∧ 0 < tr.dur) → (∀ tr ∈ s.trackers, OnScheduleDt s.dt s.t tr) →
    s'.t = s.t + k * s.dt ∧ s'.dt = s.dt ∧ ∀ tr ∈ s'.trackers, OnScheduleDt s'.dt s'.t tr := by
  induction k with
  | zero =>
    intro s s' _ h _ hinv
    simp only [runN, Option.some.injEq] at h
    subst h
    exact ⟨by omega, rfl, hinv⟩
  | succ k ih =>
    intro s s' hdt h hocc hinv
    unfold runN at h
    split at h
    · rename_i s1 h1
      obtain ⟨ht1, hdt1, hinv1⟩ := status_timeline_step_dt s s1 hdt h1 hocc hinv
      obtain ⟨ht', hdt', hinv'⟩ := ih s1 s' (by rw [hdt1]; exact hdt) h
        (dt_step_occ_pos s s1 h1 hocc) hinv1
      refine ⟨?_, by rw [hdt', hdt1], hinv'⟩
      rw [ht', ht1, hdt1, Nat.succ_mul]
      omega
    · cases h

/-- … hence at every step of every run that starts with all events pending at `t = 0` -/
theorem status_timeline_dt (k : Nat) (s s' : Sim d) (hdt : 0 < s.dt) (ht : s.t = 0)
    (h : runN k s = some s')
    (hocc : ∀ tr ∈ s.trackers, 0 < tr.occ ∧ 0 < tr.dur)
    (hpend : ∀ tr ∈ s.trackers, tr.status = .pending) :
    s'.t = k * s.dt ∧ s'.dt = s.dt ∧ ∀ tr ∈ s'.trackers, OnScheduleDt s.dt (k * s.dt) tr := by
  have hinv : ∀ tr ∈ s.trackers, OnScheduleDt s.dt s.t tr := by
    intro tr htr
    rw [ht]
    have := hocc tr htr
    refine ⟨fun _ => hpend tr htr, fun h0 => ?_, fun h0 => ?_⟩ <;> omega
  obtain ⟨h1, h2, h3⟩ := dt_run_timeline k s s' hdt h hocc hinv
  rw [ht, Nat.zero_add] at h1
  rw [h1, h2] at h3
  exact ⟨h1, h2, h3⟩

/-- during the step at time `t` itself (after the life-cycle phase): in force iff `occ ≤ t` -/
theorem shock_in_force_dt (dt t : Nat) (tr : Tracker d) (hdt : 0 < dt) (hocc : 0 < tr.occ ∧ 0 < tr.dur)
    (h : OnScheduleDt dt t tr) :
    (t < tr.occ → lifeStatus t dt tr = .pending) ∧
    (tr.occ ≤ t ∧ t < tr.occ + tr.dur → lifeStatus t dt tr = .happening) ∧
    (tr.occ + tr.dur ≤ t ∧ t < tr.occ + tr.dur + dt →
      lifeStatus t dt tr = (match tr.kind with | .rebuild => Status.rebuilding | _ => Status.recovering)) := by
  obtain ⟨i1, i2, i3⟩ := h
  unfold lifeStatus
  cases hs : tr.status <;> simp only [hs, Status.rank] at i1 i2 i3 ⊢ <;> grind

/-- everything before the earliest occurrence is identical to the same simulation without events,
    for every step length: `k` steps, all taken at times before every occurrence -/
theorem prefix_event_free_dt (k : Nat) (s s' : Sim d) (hdt : 0 < s.dt) (ht : s.t = 0)
    (hpend : ∀ tr ∈ s.trackers, tr.status = .pending)
    (hocc : ∀ tr ∈ s.trackers, ∀ j, j < k → j * s.dt < tr.occ)
    (h : runN k s = some s') :
    ∃ s0, runN k { s with trackers := [] } = some s0 ∧ s'.econ = s0.econ ∧ s'.t = s0.t := by
  have _ := hdt   -- not needed: the prefix argument does not use `0 < dt`
  have hrun := dt_prefix_run k s s' hpend
    (fun tr htr j hj => by rw [ht, Nat.zero_add]; exact hocc tr htr j hj) h
  exact ⟨s'.forget, hrun, rfl, rfl⟩

end Boario
