/-
  Element-wise formulas of the source = the model's definitions: orders (C06, C18, C02).
  See `Boario/Properties/Formulas.lean` for the approach; one module per topic so that a changed formula breaks only the
  theorems about it.
-/
import Boario.Properties.FormulaTactics

set_option linter.unusedTactic false
set_option linter.unreachableTactic false
set_option linter.unusedSimpArgs false
set_option linter.unnecessarySeqFocus false

namespace Boario.Gen
open Boario

variable {d : Dims}

/-- `calc_matrix_stock_gap` of the source (psi class over the base class; for the base class the restoration rate is 1)
    is the model's `gapOpen`: goal minus stock where positive, times the restoration rate, nothing for an input with
    infinite inventories. -/
theorem gapOpen_is_code (p : Params d) (stock : Fin d.n → Ind d → Rat) (x : Ind d → Rat) (s : Fin d.n) (f : Ind d) :
    stock_gap_psi_cell (p.rest s) (stock_gap_base_cell (p.invDur s).isSome (goal p x s f) (stock s f))
      = gapOpen p stock x s f := by
  simp only [stock_gap_psi_cell, stock_gap_base_cell, gapOpen, pos]
  cases h : p.invDur s <;> simp only [Option.isSome] <;> formula_cases

/-- the goal inventory is the constraint without psi (`matrix_stock_goal = tile(production_opt) · tech_mat · inv_duration`,
    0 where the duration is infinite in the model's convention). -/
theorem goal_is_code (p : Params d) (x : Ind d → Rat) (s : Fin d.n) (f : Ind d) :
    calc_inventory_constraints_base (x f) (p.a s f) (durOrZero p s) = goal p x s f := by
  simp only [calc_inventory_constraints_base, goal] <;>
    (first | rfl | ring1)

/-- `calc_orders`: the need of an input is the model's `needWith`. -/
theorem needWith_is_code (p : Params d) (gap : Fin d.n → Ind d → Rat) (prod : Ind d → Rat) (s : Fin d.n) (f : Ind d) :
    need_cell (gap s f) (prod f) (p.a s f) = needWith p gap prod s f := by
  simp only [need_cell, needWith] <;>
    (first | rfl | ring1)

/-- alt branch: the capacity-weighted flow of the source is the model's `zProd` (relative capacity 1 where x0 = 0). -/
theorem zProd_is_code (p : Params d) (deltaTot alpha : Ind d → Rat) (i j : Ind d) :
    z_prod_cell (production_cap (p.x0 i) (deltaTot i) (alpha i)) (p.x0 i) (p.Z0 i j) = zProd p deltaTot alpha i j := by
  simp only [z_prod_cell, production_cap, zProd, rho, capacity, safeDiv] <;>
    formula_cases

/-- alt branch: the supplier share of the source, given the regional sum of the code's own `Z_prod` cells, is the
    model's `altShare`. -/
theorem altShare_is_code (p : Params d) (deltaTot alpha : Ind d → Rat) (i j : Ind d) :
    alt_share_cell (z_prod_cell (production_cap (p.x0 i) (deltaTot i) (alpha i)) (p.x0 i) (p.Z0 i j))
        (sumFin d.m fun r => z_prod_cell (production_cap (p.x0 (r, i.2)) (deltaTot (r, i.2)) (alpha (r, i.2))) (p.x0 (r, i.2)) (p.Z0 (r, i.2) j))
      = altShare p deltaTot alpha i j := by
  have hz : ∀ a b, z_prod_cell (production_cap (p.x0 a) (deltaTot a) (alpha a)) (p.x0 a) (p.Z0 a b) = zProd p deltaTot alpha a b :=
    fun a b => zProd_is_code p deltaTot alpha a b
  simp only [hz]
  simp only [alt_share_cell, altShare, zCProd, safeDiv] <;>
    formula_cases

/-- the orders of the source, cell by cell, are the model's `ordersFrom` in both variants. -/
theorem ordersFrom_is_code (p : Params d) (e : Econ d) (gap : Fin d.n → Ind d → Rat) (i j : Ind d) :
    ordersFrom p e gap i j =
      if p.alt then alt_order_cell (need_cell (gap i.2 j) (e.prod j) (p.a i.2 j)) (altShare p e.deltaTot e.alpha i j)
      else noalt_order_cell (need_cell (gap i.2 j) (e.prod j) (p.a i.2 j)) (p.Zshare i j) := by
  simp only [ordersFrom, supplierShare, alt_order_cell, noalt_order_cell, needWith_is_code]
  split_ifs <;> first | rfl | ring1

/-- the order phase as a whole when inventories are away from their goals, in terms of the code's own cells: goal from the
    constraint formula without psi, gap from `calc_matrix_stock_gap` of both classes, need = gap + use, times the supplier
    share of the variant in force. -/
theorem ordersOpen_is_code (p : Params d) (e e' : Econ d) (h : ordersOpen p e = .ok e') (i j : Ind d) :
    e'.orders i j =
      (let x := xOpt p e.dTot e.deltaTot e.alpha
       let gap := stock_gap_psi_cell (p.rest i.2)
                    (stock_gap_base_cell (p.invDur i.2).isSome
                      (calc_inventory_constraints_base (x j) (p.a i.2 j) (durOrZero p i.2)) (e.stock i.2 j))
       let need := need_cell gap (e.prod j) (p.a i.2 j)
       if p.alt then alt_order_cell need (altShare p e.deltaTot e.alpha i j) else noalt_order_cell need (p.Zshare i j)) := by
  unfold ordersOpen ordersFinish at h
  simp only at h
  split at h
  · cases h
  · cases h
    simp only [goal_is_code, gapOpen_is_code]
    exact ordersFrom_is_code p e _ i j

end Boario.Gen
