/-
  Helper lemmas for C07: `foldl max`, range of the capital share, sign of one capacity cell.
-/
import Boario.Lemmas.Sums
import Boario.Events

namespace Boario

/-- every element is below the running maximum -/
theorem le_foldl_max (l : List Rat) (a x : Rat) (hx : x ∈ l) : x ≤ l.foldl max a := by
  induction l generalizing a with
  | nil => cases hx
  | cons y ys ih =>
    rw [List.foldl_cons]
    rcases List.mem_cons.1 hx with rfl | h
    · exact le_trans (le_max_right _ _) (init_le_foldl_max ys _)
    · exact ih _ h
where
  init_le_foldl_max (l : List Rat) (a : Rat) : a ≤ l.foldl max a := by
    induction l generalizing a with
    | nil => exact le_refl _
    | cons y ys ih =>
      rw [List.foldl_cons]
      exact le_trans (le_max_left _ _) (ih _)

/-- the running maximum is the initial value or one of the elements -/
theorem foldl_max_eq (l : List Rat) (a : Rat) :
    l.foldl max a = a ∨ ∃ x ∈ l, l.foldl max a = x := by
  induction l generalizing a with
  | nil => exact Or.inl rfl
  | cons y ys ih =>
    rw [List.foldl_cons]
    rcases ih (max a y) with h | ⟨x, hx, h⟩
    · rcases max_choice a y with h' | h'
      · left; rw [h, h']
      · right; exact ⟨y, List.mem_cons_self, by rw [h, h']⟩
    · right; exact ⟨x, List.mem_cons_of_mem _ hx, h⟩

theorem foldl_max_zero_of_all_zero (l : List Rat) (h : ∀ x ∈ l, x = 0) : l.foldl max 0 = 0 := by
  rcases foldl_max_eq l 0 with h' | ⟨x, hx, h'⟩
  · exact h'
  · rw [h', h x hx]

variable {d : Dims}

theorem deltaCap_range (p : Params d) (lost : Ind d → Rat) (i : Ind d)
    (hl : 0 ≤ lost i) (hk : lost i ≤ p.K i) : 0 ≤ deltaCap p lost i ∧ deltaCap p lost i ≤ 1 := by
  unfold deltaCap safeDiv
  split_ifs with h0
  · exact ⟨le_refl _, zero_le_one⟩
  · have hK : 0 < p.K i := lt_of_le_of_ne (le_trans hl hk) (Ne.symm h0)
    exact ⟨div_nonneg hl hK.le, (div_le_one hK).2 hk⟩

theorem capacity_nonneg_cell (p : Params d) (deltaTot alpha : Ind d → Rat) (f : Ind d)
    (hx : 0 ≤ p.x0 f) (hd : deltaTot f ≤ 1) (ha : 0 ≤ alpha f) : 0 ≤ capacity p deltaTot alpha f := by
  unfold capacity
  exact mul_nonneg (mul_nonneg hx (sub_nonneg.2 hd)) ha

end Boario
