/-
  Shared lemmas of C11 / C20: the well-formedness invariant `Inv` is preserved by every phase of
  `nextStep`, and a step from a well-formed state never ends in `.internal`.
-/
import Boario.Lemmas.Blocks
import Boario.Lemmas.Step
import Boario.Lemmas.Capacity
import Boario.Properties.C03
import Boario.Properties.C04
import Boario.Properties.C06
import Boario.Properties.C14

namespace Boario
variable {d : Dims}

/-! ### the phases of `nextStep` -/

/-- the economy `eventsPre` leaves behind -/
def preEcon (s : Sim d) : Econ d :=
  if anyRebuilding (lifecycle s.t s.dt s.trackers s.nBlocks).1 then
    { s.econ with
      deltaTot := deltaTotOf s.p (lostCapital (lifecycle s.t s.dt s.trackers s.nBlocks).1)
        (arbDelta (lifecycle s.t s.dt s.trackers s.nBlocks).1)
      reb := rebuildDemand s.dt (lifecycle s.t s.dt s.trackers s.nBlocks).1
        (lifecycle s.t s.dt s.trackers s.nBlocks).2
      dTot := rowTot s.econ.orders s.econ.fd
        (rebuildDemand s.dt (lifecycle s.t s.dt s.trackers s.nBlocks).1
          (lifecycle s.t s.dt s.trackers s.nBlocks).2) }
  else if (lifecycle s.t s.dt s.trackers s.nBlocks).2 ≠ s.nBlocks then
    { s.econ with
      deltaTot := deltaTotOf s.p (lostCapital (lifecycle s.t s.dt s.trackers s.nBlocks).1)
        (arbDelta (lifecycle s.t s.dt s.trackers s.nBlocks).1)
      reb := (List.range (lifecycle s.t s.dt s.trackers s.nBlocks).2).map fun _ => zeroBlock }
  else
    { s.econ with
      deltaTot := deltaTotOf s.p (lostCapital (lifecycle s.t s.dt s.trackers s.nBlocks).1)
        (arbDelta (lifecycle s.t s.dt s.trackers s.nBlocks).1) }

theorem eventsPre_eq (s : Sim d) :
    eventsPre s =
      if lostExceeds s.p (lostCapital (lifecycle s.t s.dt s.trackers s.nBlocks).1) then .rejected
      else .ok { s with trackers := (lifecycle s.t s.dt s.trackers s.nBlocks).1
                        nBlocks := (lifecycle s.t s.dt s.trackers s.nBlocks).2
                        econ := preEcon s } := rfl

theorem sumInd_nonneg' (f : Ind d → Rat) (h : ∀ j, 0 ≤ f j) : 0 ≤ sumInd d f := by
  rw [sumInd_eq_sum_prod]
  exact Finset.sum_nonneg fun j _ => h j

theorem blockTot_nonneg (b : RebBlock d) (hb : BlockNonneg b) (i : Ind d) : 0 ≤ blockTot b i :=
  add_nonneg (sumInd_nonneg' _ (hb.1 i)) (sumFd_nonneg _ (hb.2 i))

theorem rebTot_nonneg (reb : List (RebBlock d)) (hr : ∀ b ∈ reb, BlockNonneg b) (i : Ind d) :
    0 ≤ rebTot reb i := by
  unfold rebTot
  rw [sumList_eq_sum]
  apply List.sum_nonneg
  intro x hx
  obtain ⟨b, hb, rfl⟩ := List.mem_map.1 hx
  exact blockTot_nonneg b (hr b hb) i

theorem rowTot_nonneg (o : Ind d → Ind d → Rat) (fd : Ind d → Fd d → Rat) (reb : List (RebBlock d))
    (ho : ∀ i j, 0 ≤ o i j) (hf : ∀ i c, 0 ≤ fd i c) (hr : ∀ b ∈ reb, BlockNonneg b) (i : Ind d) :
    0 ≤ rowTot o fd reb i :=
  add_nonneg (add_nonneg (sumInd_nonneg' _ (ho i)) (sumFd_nonneg _ (hf i))) (rebTot_nonneg reb hr i)

theorem EconOK.dTot_nonneg {p : Params d} {e : Econ d} (he : EconOK p e) (i : Ind d) : 0 ≤ e.dTot i := by
  rw [he.dTot_fresh]
  exact rowTot_nonneg _ _ _ he.orders_nonneg he.fd_nonneg he.reb_nonneg i

theorem EconOK.demandNonneg {p : Params d} {e : Econ d} (he : EconOK p e) : DemandNonneg e :=
  ⟨he.orders_nonneg, he.fd_nonneg, fun b hb => (he.reb_nonneg b hb).1, fun b hb => (he.reb_nonneg b hb).2⟩

theorem ParamsOK.alphaHyp {p : Params d} (hp : ParamsOK p) : AlphaHyp p :=
  ⟨le_trans hp.one_le_base hp.base_le_max, hp.base_le_max, hp.tau_nonneg, hp.tau_le_one⟩

theorem ParamsOK.shareSpec {p : Params d} (hp : ParamsOK p) : ShareSpec p := ⟨hp.z_nonneg, hp.zshare⟩

/-- `_check_happening_events` keeps the economy well-formed -/
theorem econOK_pre (s : Sim d) (hi : Inv s) : EconOK s.p (preEcon s) := by
  have he := hi.econ
  unfold preEcon
  split_ifs with h1 h2
  · exact ⟨he.orders_nonneg, he.fd_nonneg,
      rebuildDemand_nonneg _ _ _ (trackerOK_lifecycle _ _ _ _ hi.trackers),
      fun _ => rfl, he.stock_nonneg, he.prod_nonneg, he.alpha_range⟩
  · exfalso
    unfold lifecycle at h1 h2
    exact h1 (advance_new_block _ _ _ h2)
  · exact ⟨he.orders_nonneg, he.fd_nonneg, he.reb_nonneg, he.dTot_fresh, he.stock_nonneg,
      he.prod_nonneg, he.alpha_range⟩

theorem preEcon_deltaTot (s : Sim d) :
    (preEcon s).deltaTot = deltaTotOf s.p (lostCapital (lifecycle s.t s.dt s.trackers s.nBlocks).1)
        (arbDelta (lifecycle s.t s.dt s.trackers s.nBlocks).1) := by
  unfold preEcon
  split_ifs <;> rfl

theorem arbDelta_nonneg (trs : List (Tracker d)) (i : Ind d) : 0 ≤ arbDelta trs i :=
  le_foldl_max.init_le_foldl_max _ _

theorem deltaTotOf_nonneg (p : Params d) (lost : Ind d → Rat) (trs : List (Tracker d)) (i : Ind d) :
    0 ≤ deltaTotOf p lost (arbDelta trs) i :=
  le_max_of_le_right (arbDelta_nonneg trs i)

theorem econOK_overprod (p : Params d) (e : Econ d) (hp : ParamsOK p) (he : EconOK p e) :
    EconOK p (overprodPhase p e) :=
  ⟨he.orders_nonneg, he.fd_nonneg, he.reb_nonneg, he.dTot_fresh, he.stock_nonneg, he.prod_nonneg,
    fun f => alpha_bounds p e.alpha e.dTot e.prod hp.alphaHyp f (he.alpha_range f) (he.dTot_nonneg f)
      (he.prod_nonneg f)⟩

theorem not_capNegative_iff (p : Params d) (dl al : Ind d → Rat) :
    ¬ capNegative p dl al ↔ ∀ f, 0 ≤ capacity p dl al f := by
  unfold capNegative
  constructor
  · intro h f
    by_contra hlt
    exact h ⟨f.1, f.2, lt_of_not_ge hlt⟩
  · rintro h ⟨r, s, hlt⟩
    exact absurd (h (r, s)) (not_le.2 hlt)

theorem econOK_production (p : Params d) (e e2 : Econ d) (hp : ParamsOK p) (he : EconOK p e)
    (h : productionPhase p e = .ok e2) :
    EconOK p e2 ∧ (∀ f, e2.prod f ≤ e2.dTot f) ∧ (∀ f, 0 ≤ capacity p e2.deltaTot e2.alpha f) := by
  unfold productionPhase at h
  split_ifs at h with hc
  injection h with h
  subst h
  have hcap := (not_capNegative_iff _ _ _).1 hc
  have hyp : ProdHyp p e.stock e.dTot e.deltaTot e.alpha :=
    ⟨he.stock_nonneg, he.dTot_nonneg, hcap, hp.a_nonneg, hp.psi_nonneg, hp.dur_pos⟩
  exact ⟨⟨he.orders_nonneg, he.fd_nonneg, he.reb_nonneg, he.dTot_fresh, he.stock_nonneg,
    fun f => production_nonneg p e.stock e.dTot e.deltaTot e.alpha hyp f, he.alpha_range⟩,
    fun f => production_le_demand p e.stock e.dTot e.deltaTot e.alpha hyp f, hcap⟩

theorem productionPhase_deltaTot (p : Params d) (e e2 : Econ d) (h : productionPhase p e = .ok e2) :
    e2.deltaTot = e.deltaTot := by
  unfold productionPhase at h
  split_ifs at h
  injection h with h
  subst h
  rfl

theorem subBlocks_map (f : RebBlock d → RebBlock d) : ∀ l : List (RebBlock d),
    subBlocks l (l.map f) = l.map fun b => subBlock b (f b) := by
  intro l
  induction l with
  | nil => rfl
  | cons b bs ih => simp only [List.map_cons, subBlocks, ih]

theorem deliverCell_nonneg (tot prod cell : Rat) (hc : 0 ≤ cell) (hp : 0 ≤ prod) (ht : 0 ≤ tot) :
    0 ≤ deliverCell tot prod cell := by
  rw [deliverCell_eq]
  exact mul_nonneg hc (div_nonneg hp ht)

theorem econOK_distribute (p : Params d) (e e3 : Econ d) (he : EconOK p e)
    (hle : ∀ f, e.prod f ≤ e.dTot f) (h : distribute p e = .ok e3) :
    EconOK p e3 ∧ (∀ f, 0 ≤ e3.fdUnmet f) ∧ (∀ b ∈ e3.rebProd, BlockNonneg b) ∧
    e3.deltaTot = e.deltaTot ∧ e3.alpha = e.alpha := by
  have hstock := distribute_ok_stock_nonneg p e e3 h he.stock_nonneg
  have hfd : ∀ f, 0 ≤ e3.fdUnmet f := fun f =>
    (fd_unmet_range e p e3 h he.demandNonneg f (he.prod_nonneg f) (by rw [← he.dTot_fresh]; exact hle f)).1
  have hle' : ∀ f, e.prod f ≤ rowTot e.orders e.fd e.reb f := fun f => by rw [← he.dTot_fresh]; exact hle f
  have htot : ∀ f, 0 ≤ rowTot e.orders e.fd e.reb f := fun f => le_trans (he.prod_nonneg f) (hle' f)
  have hshape : ∃ st, e3 = distributeFinish e (deliveries e) st := by
    rcases distribute_ok p e e3 h with ⟨_, rfl⟩ | ⟨_, _, rfl⟩ <;> exact ⟨_, rfl⟩
  obtain ⟨st, rfl⟩ := hshape
  have hreb : (distributeFinish e (deliveries e) st).reb
      = e.reb.map fun b => subBlock b (deliverBlock (rowTot e.orders e.fd e.reb) e.prod b) :=
    subBlocks_map _ e.reb
  have hrebnn : ∀ b ∈ (distributeFinish e (deliveries e) st).reb, BlockNonneg b := by
    rw [hreb]
    intro b' hb'
    obtain ⟨b, hb, rfl⟩ := List.mem_map.1 hb'
    have hbn := he.reb_nonneg b hb
    constructor
    · intro i j
      exact sub_nonneg.2 (deliverCell_le _ _ _ (hbn.1 i j) (he.prod_nonneg i) (hle' i))
    · intro i c
      exact sub_nonneg.2 (deliverCell_le _ _ _ (hbn.2 i c) (he.prod_nonneg i) (hle' i))
  refine ⟨⟨he.orders_nonneg, he.fd_nonneg, hrebnn, ?_, hstock, he.prod_nonneg, he.alpha_range⟩,
    hfd, ?_, rfl, rfl⟩
  · intro i
    show (if e.reb.isEmpty then e.dTot else rowTot e.orders e.fd (subBlocks e.reb (deliveries e).reb)) i = _
    split_ifs with hem
    · have : e.reb = [] := List.isEmpty_iff.1 hem
      rw [he.dTot_fresh]
      show _ = rowTot e.orders e.fd (subBlocks e.reb (deliveries e).reb) i
      simp only [deliveries, this, List.map_nil, subBlocks]
    · rfl
  · intro b' hb'
    change b' ∈ e.reb.map (deliverBlock (rowTot e.orders e.fd e.reb) e.prod) at hb'
    obtain ⟨b, hb, rfl⟩ := List.mem_map.1 hb'
    have hbn := he.reb_nonneg b hb
    exact ⟨fun i j => deliverCell_nonneg _ _ _ (hbn.1 i j) (he.prod_nonneg i) (htot i),
      fun i c => deliverCell_nonneg _ _ _ (hbn.2 i c) (he.prod_nonneg i) (htot i)⟩

theorem orders_shape (p : Params d) (e e4 : Econ d) (h : orders p e = .ok e4) :
    ∃ o, e4 = { e with orders := o, dTot := rowTot o e.fd e.reb } := by
  unfold orders at h
  split_ifs at h
  · unfold ordersClosed ordersFinish at h
    simp only at h
    split_ifs at h
    injection h with h
    exact ⟨_, h.symm⟩
  · unfold ordersOpen ordersFinish at h
    simp only at h
    split_ifs at h
    injection h with h
    exact ⟨_, h.symm⟩

theorem econOK_orders (p : Params d) (e e4 : Econ d) (he : EconOK p e) (h : orders p e = .ok e4) :
    EconOK p e4 ∧ e4.fdUnmet = e.fdUnmet ∧ e4.rebProd = e.rebProd ∧ e4.deltaTot = e.deltaTot := by
  have hn := orders_nonneg p e e4 h
  obtain ⟨o, rfl⟩ := orders_shape p e e4 h
  exact ⟨⟨hn, he.fd_nonneg, he.reb_nonneg, fun _ => rfl, he.stock_nonneg, he.prod_nonneg,
    he.alpha_range⟩, rfl, rfl, rfl⟩

theorem orders_not_internal (p : Params d) (e : Econ d) (hp : ParamsOK p) (he : EconOK p e) :
    orders p e ≠ .internal := by
  by_cases hc : capNegative p e.deltaTot e.alpha
  · unfold orders; rw [if_pos hc]; simp
  · exact orders_no_internal p e hp.shareSpec
      ⟨hp.a_nonneg, he.prod_nonneg, hp.rest_nonneg, hp.x0_nonneg, (not_capNegative_iff _ _ _).1 hc⟩

theorem orders_not_crashed (p : Params d) (e e' : Econ d) : orders p e ≠ .crashed e' := by
  unfold orders ordersClosed ordersOpen ordersFinish
  simp only
  split_ifs <;> simp

theorem productionPhase_cases (p : Params d) (e : Econ d) :
    productionPhase p e = .rejected ∨ ∃ e2, productionPhase p e = .ok e2 := by
  unfold productionPhase
  split_ifs
  · exact Or.inl rfl
  · exact Or.inr ⟨_, rfl⟩

theorem distribute_cases (p : Params d) (e : Econ d) :
    (∃ e3, distribute p e = .crashed e3) ∨ ∃ e3, distribute p e = .ok e3 := by
  unfold distribute distributeSkip distributeUpdate
  simp only
  split_ifs
  · exact Or.inr ⟨_, rfl⟩
  · exact Or.inl ⟨_, rfl⟩
  · exact Or.inr ⟨_, rfl⟩

/-! ### the whole step -/

/-- decomposition of an `ok` step, with the final state spelled out -/
theorem nextStep_ok_full (s s' : Sim d) (h : nextStep s = .ok s') :
    ∃ (s1 : Sim d) (e2 e3 e4 : Econ d),
      eventsPre s = .ok s1 ∧
      productionPhase s1.p (if 1 < s1.t then overprodPhase s1.p s1.econ else s1.econ) = .ok e2 ∧
      distribute s1.p e2 = .ok e3 ∧
      orders s1.p e3 = .ok e4 ∧
      s' = { eventsPost { s1 with econ := e3 } with econ := e4, t := s1.t + s1.dt } := by
  unfold nextStep at h
  obtain ⟨s1, h1, h⟩ := bind_ok _ _ _ h
  simp only at h
  obtain ⟨e2, h2, h⟩ := bind_ok _ _ _ h
  split at h
  · cases h
  · cases h
  · cases h
  · rename_i e3 h3
    obtain ⟨e4, h4, h⟩ := bind_ok _ _ _ h
    injection h with h
    subst h
    exact ⟨s1, e2, e3, e4, h1, h2, h3, h4, rfl⟩

/-- the state after `_check_happening_events` is well-formed -/
theorem inv_pre (s s1 : Sim d) (h : eventsPre s = .ok s1) (hi : Inv s) : Inv s1 := by
  rw [eventsPre_eq] at h
  split_ifs at h
  injection h with h
  subst h
  exact ⟨hi.params, econOK_pre s hi, trackerOK_lifecycle _ _ _ _ hi.trackers,
    (idsOK_lifecycle _ _ _ _ hi.ids).1⟩

theorem eventsPre_deltaTot_nonneg (s s1 : Sim d) (h : eventsPre s = .ok s1) (f : Ind d) :
    0 ≤ s1.econ.deltaTot f := by
  rw [eventsPre_eq] at h
  split_ifs at h
  injection h with h
  subst h
  show 0 ≤ (preEcon s).deltaTot f
  rw [preEcon_deltaTot]
  exact deltaTotOf_nonneg _ _ _ _

/-- everything an `ok` step establishes -/
theorem inv_step_full (s s' : Sim d) (h : nextStep s = .ok s') (hi : Inv s) :
    Inv s' ∧ (∀ f, 0 ≤ s'.econ.fdUnmet f) ∧ (∀ b ∈ s'.econ.rebProd, BlockNonneg b) ∧
    (∀ f, 0 ≤ s'.econ.deltaTot f) := by
  obtain ⟨s1, e2, e3, e4, h1, h2, h3, h4, rfl⟩ := nextStep_ok_full s s' h
  have hi1 := inv_pre s s1 h1 hi
  have hd1 := eventsPre_deltaTot_nonneg s s1 h1
  have he1 : EconOK s1.p (if 1 < s1.t then overprodPhase s1.p s1.econ else s1.econ) := by
    split_ifs
    · exact econOK_overprod _ _ hi1.params hi1.econ
    · exact hi1.econ
  have hd1' : (if 1 < s1.t then overprodPhase s1.p s1.econ else s1.econ).deltaTot = s1.econ.deltaTot := by
    split_ifs <;> rfl
  obtain ⟨he2, hle2, _⟩ := econOK_production _ _ _ hi1.params he1 h2
  have hd2 : e2.deltaTot = s1.econ.deltaTot := by
    rw [← hd1']
    exact productionPhase_deltaTot _ _ _ h2
  obtain ⟨he3, hfd3, hrp3, hd3, _⟩ := econOK_distribute _ _ _ he2 hle2 h3
  obtain ⟨he4, hfd4, hrp4, hd4⟩ := econOK_orders _ _ _ he3 h4
  obtain ⟨htr, hids⟩ := trackers_post s1.t e3.rebProd s1.trackers s1.nBlocks hi1.trackers hi1.ids
  refine ⟨⟨hi1.params, he4, htr, hids⟩, ?_, ?_, ?_⟩
  · intro f
    show 0 ≤ e4.fdUnmet f
    rw [hfd4]; exact hfd3 f
  · show ∀ b ∈ e4.rebProd, BlockNonneg b
    rw [hrp4]; exact hrp3
  · intro f
    show 0 ≤ e4.deltaTot f
    rw [hd4, hd3, hd2]; exact hd1 f

theorem bind_internal {α β : Type} (o : Outcome α) (f : α → Outcome β) (h : o.bind f = .internal) :
    o = .internal ∨ (∃ a, o = .crashed a) ∨ ∃ a, o = .ok a ∧ f a = .internal := by
  cases o with
  | ok a => exact Or.inr (Or.inr ⟨a, rfl, h⟩)
  | crashed a => exact Or.inr (Or.inl ⟨a, rfl⟩)
  | rejected => simp [Outcome.bind] at h
  | internal => exact Or.inl rfl

/-- no step from a well-formed state ends in an unexpected exception -/
theorem nextStep_not_internal (s : Sim d) (hi : Inv s) : nextStep s ≠ .internal := by
  intro h
  unfold nextStep at h
  rcases bind_internal _ _ h with h1 | ⟨a, h1⟩ | ⟨s1, h1, h⟩
  · rw [eventsPre_eq] at h1; split_ifs at h1
  · rw [eventsPre_eq] at h1; split_ifs at h1
  · have hi1 := inv_pre s s1 h1 hi
    have he1 : EconOK s1.p (if 1 < s1.t then overprodPhase s1.p s1.econ else s1.econ) := by
      split_ifs
      · exact econOK_overprod _ _ hi1.params hi1.econ
      · exact hi1.econ
    simp only at h
    rcases bind_internal _ _ h with h2 | ⟨a, h2⟩ | ⟨e2, h2, h⟩
    · rcases productionPhase_cases s1.p (if 1 < s1.t then overprodPhase s1.p s1.econ else s1.econ)
        with h' | ⟨_, h'⟩ <;> rw [h'] at h2 <;> cases h2
    · rcases productionPhase_cases s1.p (if 1 < s1.t then overprodPhase s1.p s1.econ else s1.econ)
        with h' | ⟨_, h'⟩ <;> rw [h'] at h2 <;> cases h2
    · obtain ⟨he2, hle2, _⟩ := econOK_production _ _ _ hi1.params he1 h2
      rcases distribute_cases s1.p e2 with ⟨e3, h3⟩ | ⟨e3, h3⟩
      · rw [h3] at h; cases h
      · rw [h3] at h
        simp only at h
        obtain ⟨he3, _⟩ := econOK_distribute _ _ _ he2 hle2 h3
        rcases bind_internal _ _ h with h4 | ⟨a, h4⟩ | ⟨e4, _, h⟩
        · exact orders_not_internal _ _ hi1.params he3 h4
        · exact orders_not_crashed _ _ _ h4
        · cases h

end Boario
