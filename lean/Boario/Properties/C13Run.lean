/-
  C13 (run level) — the same economy expressed in another monetary unit gives the same simulation.

  `unit_change_run`: take a simulation state and express every monetary quantity in a unit `10^k`
  times smaller (table, capital, demands, inventories, ledgers × 10^k; the ledgers then keep `k` fewer
  decimals, because the number of decimals is ⌊log10 of the model's monetary factor⌋ + 1: the quantum
  is the same amount of money).  Then every run of `n` steps of one is the run of the other, scaled —
  exactly — *provided the two closeness tests of each step take the same branch in both units*
  (`CloseAgree`): NumPy's `allclose` has an absolute tolerance (1e-8) that is not a monetary amount and
  does not follow the unit.  `closeAgree_of_decisive` gives the sufficient condition: no tested pair
  falls in the band where only the absolute tolerance decides.

  `scale_run_dimensionless`: for any positive factor `c` (not only powers of ten), when no event
  carries a monetary ledger (event-free runs, capacity-loss events), the run scales exactly.

  `unit_change_simulation`: the same from the table and the event specifications (model factor ÷ 10^k).

  The definitions of the statements (`scaleTracker`, `scaleSim`, `CurveHomog`, `preDistribute`,
  `preOrders`, `CloseAgree`, `Decisive`, `Dimensionless`, `scaleTable`, `scaleConfig`) are at the top of
  `Boario/Lemmas/UnitRun.lean`, with the phase-by-phase commutation lemmas (`u_*`) used below.
-/
import Boario.Properties.C13
import Boario.Properties.C19
import Boario.Lemmas.UnitRun

namespace Boario
variable {d : Dims}

/-- on a decisive pair the test gives the same answer in every unit at least as small -/
theorem isClose_scale_of_decisive (a b c : Rat) (hc : 1 ≤ c) (h : Decisive a b) :
    isClose (a * c) (b * c) ↔ isClose a b :=
  u_isClose_decisive a b c hc h

/-- without that, the answer can change with the unit: 1e-8 apart around 0 is close, the same pair
    expressed in a unit a million times smaller is not -/
theorem isClose_not_unit_free :
    isClose (1 / 100000000) 0 ∧ ¬ isClose (1 / 100000000 * 1000000) (0 * 1000000) :=
  u_isClose_not_unit_free

/-- rounding to `p − k` decimals in the small unit is rounding to `p` decimals in the large one -/
theorem roundDec_unit (p k : Nat) (hk : k ≤ p) (x : Rat) :
    roundDec (p - k) (x * (10 : Rat) ^ k) = roundDec p x * (10 : Rat) ^ k :=
  u_roundDec_pow p k hk x

/-- ONE STEP, change of unit by a power of ten -/
theorem unit_change_step (k : Nat) (s : Sim d)
    (hprec : ∀ tr ∈ s.trackers, k ≤ tr.prec) (hcurve : ∀ tr ∈ s.trackers, CurveHomog tr)
    (hclose : CloseAgree ((10 : Rat) ^ k) s) :
    nextStep (scaleSim ((10 : Rat) ^ k) k s) = (nextStep s).mapOk (scaleSim ((10 : Rat) ^ k) k) :=
  u_step _ (pow10_pos k) k s
    (fun tr htr => Or.inr ⟨hcurve tr htr, u_roundDec_pow tr.prec k (hprec tr htr)⟩) hclose

/-- the hypotheses on the trackers are kept by every step -/
theorem unit_hyps_step (k : Nat) (s s' : Sim d) (h : nextStep s = .ok s')
    (hprec : ∀ tr ∈ s.trackers, k ≤ tr.prec) (hcurve : ∀ tr ∈ s.trackers, CurveHomog tr) :
    (∀ tr ∈ s'.trackers, k ≤ tr.prec) ∧ (∀ tr ∈ s'.trackers, CurveHomog tr) := by
  constructor
  · intro b hb
    obtain ⟨a, ha, hab⟩ := u_same_step s s' h b hb
    rw [hab.1]; exact hprec a ha
  · intro b hb
    obtain ⟨a, ha, hab⟩ := u_same_step s s' h b hb
    exact hab.curveHomog (hcurve a ha)

/-- THE RUN, change of unit by a power of ten -/
theorem unit_change_run (k n : Nat) (s : Sim d)
    (hprec : ∀ tr ∈ s.trackers, k ≤ tr.prec) (hcurve : ∀ tr ∈ s.trackers, CurveHomog tr)
    (hclose : ∀ i s', i < n → runN i s = some s' → CloseAgree ((10 : Rat) ^ k) s') :
    runN n (scaleSim ((10 : Rat) ^ k) k s) = (runN n s).map (scaleSim ((10 : Rat) ^ k) k) :=
  u_run _ (pow10_pos k) k n s
    (fun tr htr => Or.inr ⟨hcurve tr htr, u_roundDec_pow tr.prec k (hprec tr htr)⟩) hclose

/-- THE RUN, any positive factor, no monetary ledgers: multiplying the whole table by `c` multiplies
    every monetary result by `c` and leaves ratios unchanged -/
theorem scale_run_dimensionless (c : Rat) (hc : 0 < c) (n : Nat) (s : Sim d)
    (hdim : ∀ tr ∈ s.trackers, Dimensionless tr)
    (hclose : ∀ i s', i < n → runN i s = some s' → CloseAgree c s') :
    runN n (scaleSim c 0 s) = (runN n s).map (scaleSim c 0) :=
  u_run c hc 0 n s (fun tr htr => Or.inl (hdim tr htr)) hclose

/-! ### from the table and the event specifications -/

theorem mkParams_scale (c : Rat) (hc : 0 < c) (tb : Table d) (cfg : Config d) :
    mkParams (scaleTable c tb) (scaleConfig c cfg) = scaleParams c (mkParams tb cfg) :=
  u_mkParams c hc tb cfg

theorem initEcon_scale (c : Rat) (p : Params d) :
    initEcon (scaleParams c p) = scaleEcon c (initEcon p) :=
  u_initEcon c p

/-- the same event (same impacts, same event factor) seen by the model in the smaller unit
    (model factor ÷ 10^k, hence `L − k` for ⌊log10⌋) -/
theorem trackerInit_unit (k L : Nat) (hk : k ≤ L) (tb : Table d) (mf : Rat) (hmf : mf ≠ 0)
    (ev : EventSpec d) :
    trackerInit (scaleTable ((10 : Rat) ^ k) tb) (mf / (10 : Rat) ^ k) (L - k) ev
      = scaleTracker ((10 : Rat) ^ k) k (trackerInit tb mf L ev) :=
  u_trackerInit _ (pow10_pos k).ne' k L hk tb mf hmf ev

theorem trackerInit_curveHomog (tb : Table d) (mf : Rat) (L : Nat) (ev : EventSpec d)
    (h : ev.curve ≠ .other) : CurveHomog (trackerInit tb mf L ev) :=
  u_trackerInit_curveHomog tb mf L ev h

/-- THE SIMULATION: table in a unit 10^k times smaller, model factor ÷ 10^k, same events -/
theorem unit_change_simulation (k L n : Nat) (hk : k ≤ L) (tb : Table d) (cfg : Config d)
    (mf : Rat) (hmf : mf ≠ 0) (evs : List (EventSpec d)) (hcv : ∀ ev ∈ evs, ev.curve ≠ .other)
    (hclose : ∀ i s', i < n →
      runN i (initSim (mkParams tb cfg) cfg.dt (evs.map (trackerInit tb mf L))) = some s' →
      CloseAgree ((10 : Rat) ^ k) s') :
    runN n (initSim (mkParams (scaleTable ((10 : Rat) ^ k) tb) (scaleConfig ((10 : Rat) ^ k) cfg)) cfg.dt
              (evs.map (trackerInit (scaleTable ((10 : Rat) ^ k) tb) (mf / (10 : Rat) ^ k) (L - k))))
      = (runN n (initSim (mkParams tb cfg) cfg.dt (evs.map (trackerInit tb mf L)))).map
          (scaleSim ((10 : Rat) ^ k) k) := by
  have hinit : initSim (mkParams (scaleTable ((10 : Rat) ^ k) tb) (scaleConfig ((10 : Rat) ^ k) cfg)) cfg.dt
        (evs.map (trackerInit (scaleTable ((10 : Rat) ^ k) tb) (mf / (10 : Rat) ^ k) (L - k)))
      = scaleSim ((10 : Rat) ^ k) k (initSim (mkParams tb cfg) cfg.dt (evs.map (trackerInit tb mf L))) := by
    unfold initSim scaleSim
    simp only [mkParams_scale _ (pow10_pos k), initEcon_scale, List.map_map]
    congr 1
    apply List.map_congr_left
    intro ev _
    exact trackerInit_unit k L hk tb mf hmf ev
  rw [hinit]
  apply unit_change_run k n _ _ _ hclose
  · intro tr htr
    obtain ⟨ev, _, rfl⟩ := List.mem_map.mp htr
    show k ≤ precOf L
    unfold precOf; omega
  · intro tr htr
    obtain ⟨ev, hev, rfl⟩ := List.mem_map.mp htr
    exact trackerInit_curveHomog tb mf L ev (hcv ev hev)

/-- sufficient condition 1: every tested pair is decisive (and the unit gets smaller) -/
theorem closeAgree_of_decisive (c : Rat) (hc : 1 ≤ c) (s : Sim d)
    (hadd : ∀ s1 e2, preDistribute s = some (s1, e2) →
      ∀ sct r t, Decisive (stockAdd (deliveries e2).orders sct (r, t)) (stockUse s1.p e2.prod sct (r, t)))
    (hgoal : ∀ s3, preOrders s = some s3 → ∀ sct r t, (s3.p.invDur sct).isSome →
      Decisive (s3.econ.stock sct (r, t))
        (goal s3.p (xOpt s3.p s3.econ.dTot s3.econ.deltaTot s3.econ.alpha) sct (r, t))) :
    CloseAgree c s := by
  have hc0 : 0 < c := lt_of_lt_of_le one_pos hc
  constructor
  · intro s1 e2 h
    exact u_addUseClose_iff s1.p c hc0 e2 fun sct r t =>
      u_isClose_decisive _ _ c hc (hadd s1 e2 h sct r t)
  · intro s3 h
    exact u_ordersClose_iff s3.p c hc0 s3.econ fun sct r t hs =>
      u_isClose_decisive _ _ c hc (hgoal s3 h sct r t hs)

/-- sufficient condition 2 (the economy at rest): the tested quantities are equal -/
theorem closeAgree_of_exact (c : Rat) (hc : 0 < c) (s : Sim d)
    (hadd : ∀ s1 e2, preDistribute s = some (s1, e2) →
      ∀ sct r t, stockAdd (deliveries e2).orders sct (r, t) = stockUse s1.p e2.prod sct (r, t))
    (hgoal : ∀ s3, preOrders s = some s3 → ∀ sct r t, (s3.p.invDur sct).isSome →
      s3.econ.stock sct (r, t) = goal s3.p (xOpt s3.p s3.econ.dTot s3.econ.deltaTot s3.econ.alpha) sct (r, t)) :
    CloseAgree c s := by
  constructor
  · intro s1 e2 h
    refine u_addUseClose_iff s1.p c hc e2 fun sct r t => ?_
    rw [hadd s1 e2 h sct r t]
    exact u_isClose_exact _ c
  · intro s3 h
    refine u_ordersClose_iff s3.p c hc s3.econ fun sct r t hs => ?_
    rw [hgoal s3 h sct r t hs]
    exact u_isClose_exact _ c

end Boario
