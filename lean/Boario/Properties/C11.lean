/-
  C11 — Any mix of overlapping events composes without interference.
  (The flat column arithmetic of the blocks is `Boario.Layout` / property file C11Layout.)
  `perm_observables_step_partial` is the one-step form of order independence; the run-level theorem
  `perm_invariant_run` (simulation relation up to block renaming) is in `Boario.Properties.C11Run`.
-/
import Boario.Lemmas.Sums
import Boario.Invariant
import Boario.Lemmas.Inv
import Boario.Lemmas.Perm

namespace Boario
variable {d : Dims}

/-- any set of well-formed events is simulated without internal error -/
theorem no_internal_error (s : Sim d) (hi : Inv s) : nextStep s ≠ .internal := by
  exact nextStep_not_internal s hi

/-- the block-id discipline is established by the life-cycle phase … -/
theorem ids_lifecycle (t dt : Nat) (trs : List (Tracker d)) (nb : Nat) (h : IdsOK trs nb) :
    IdsOK (lifecycle t dt trs nb).1 (lifecycle t dt trs nb).2 ∧ nb ≤ (lifecycle t dt trs nb).2 := by
  exact idsOK_lifecycle t dt trs nb h

/-- … and kept when events finish (ids released, larger ids shifted down) -/
theorem ids_receive (rebProd : List (RebBlock d)) (trs : List (Tracker d)) (nb : Nat) (h : IdsOK trs nb) :
    IdsOK (receiveAll rebProd trs) nb := by
  exact idsOK_receive rebProd trs nb h

/-- each rebuilding event's demand sits in its own block … -/
theorem demand_own_block (dt : Nat) (trs : List (Tracker d)) (nb : Nat) (h : IdsOK trs nb)
    (tr : Tracker d) (htr : tr ∈ trs) (hs : tr.status = .rebuilding) (id : Nat) (hid : tr.rid = some id) :
    (rebuildDemand dt trs nb).getD id zeroBlock = presented dt tr := by
  obtain ⟨id', hid', hlt⟩ := h.has_id tr htr hs
  rw [hid] at hid'
  cases hid'
  rw [rebuildDemand_getD dt trs nb id hlt]
  exact blockOfId_of_mem dt trs h.distinct tr htr hs id hid

/-- … blocks that belong to no rebuilding event are empty (a finished event asks nothing further) … -/
theorem other_blocks_empty (dt : Nat) (trs : List (Tracker d)) (nb id : Nat)
    (h : ∀ tr ∈ trs, tr.status = .rebuilding → tr.rid ≠ some id) :
    blockOfId dt trs id = zeroBlock := by
  have _ := nb  -- the block count plays no role here
  exact blockOfId_of_none dt trs id h

/-- … and it is credited exactly the production delivered against that block -/
theorem credit_own_block (e : Econ d) (id : Nat) (hid : id < e.reb.length) :
    gotOfId (deliveries e).reb id
      = deliverBlock (rowTot e.orders e.fd e.reb) e.prod (e.reb.getD id zeroBlock) := by
  unfold gotOfId
  simp only [deliveries]
  exact getD_map_deliverBlock _ _ _ _ hid

/-- a finished event contributes nothing further -/
theorem finished_no_more (tr : Tracker d) (h : tr.status = .finished) (rebProd : List (RebBlock d)) (t : Nat) (i : Ind d) :
    tr.lostContribution i = 0 ∧ tr.arbContribution i = 0 ∧
    receiveOne rebProd tr = tr ∧ recoverOne t tr = tr := by
  refine ⟨?_, ?_, ?_, ?_⟩
  · simp [Tracker.lostContribution, Tracker.active, h]
  · simp [Tracker.arbContribution, h]
  · simp [receiveOne, h]
  · simp [recoverOne, h]

/-- destroyed capital and arbitrary losses do not depend on the order in which events were added -/
theorem aggregates_perm (trs trs' : List (Tracker d)) (h : trs.Perm trs') (i : Ind d) :
    lostCapital trs i = lostCapital trs' i ∧ arbDelta trs i = arbDelta trs' i ∧
    anyRebuilding trs = anyRebuilding trs' := by
  exact ⟨lostCapital_perm h i, arbDelta_perm h i, anyRebuilding_perm h⟩

/-- the total reconstruction demand addressed to each supplier does not depend on that order either
    (the blocks are a renaming of one another) -/
theorem rebuild_total_perm (dt : Nat) (trs trs' : List (Tracker d)) (nb : Nat) (h : trs.Perm trs')
    (hi : IdsOK trs nb) (i : Ind d) :
    rebTot (rebuildDemand dt trs nb) i = rebTot (rebuildDemand dt trs' nb) i := by
  exact rebTot_perm dt nb h hi i

/-- one-step order independence of everything the economy sees: capacity loss and total demand -/
theorem perm_observables_step_partial (s s2 s' s2' : Sim d)
    (hp : s.p = s2.p) (he : s.econ = s2.econ) (ht : s.t = s2.t) (hdt : s.dt = s2.dt) (hnb : s.nBlocks = s2.nBlocks)
    (hperm : s.trackers.Perm s2.trackers) (hids : IdsOK s.trackers s.nBlocks)
    (hnew : ∀ tr ∈ s.trackers, ¬ (tr.status = .happening ∧ tr.kind = .rebuild))  -- no block is allocated in this step
    (h1 : eventsPre s = .ok s') (h2 : eventsPre s2 = .ok s2') :
    (∀ i, s'.econ.deltaTot i = s2'.econ.deltaTot i) ∧ (∀ i, s'.econ.dTot i = s2'.econ.dTot i) := by
  have _ := hnew  -- not needed: the total demand is a sum over the rebuilding trackers, whatever their ids
  rw [eventsPre_eq] at h1 h2
  split_ifs at h1 h2
  injection h1 with h1
  injection h2 with h2
  subst h1 h2
  exact preEcon_perm s s2 hp he ht hdt hnb hperm hids

end Boario
