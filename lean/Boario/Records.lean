/-
  Boario.Records — the record layer of `Simulation` (model of `_init_records`, the `_write_*` helpers
  and the write guards of `next_step`), abstract in the recorded values.

  Python                                   | here
  -----------------------------------------+--------------------------------
  __possible_records                       | `Rec`, `allRecs`
  position of each write in next_step      | `phaseOf`  (checked against `Gen.nextStepSkeleton`)
  _init_records (register_stocks, save)    | `Cfg`, `tracked`
  one call of next_step                    | `writeStep` (ending `ok`, crash flag, or exception)
  loop() / repeated next_step()            | `runLog`
-/
import Boario.Basic

namespace Boario.Records

inductive Rec where
  | productionRealised | productionCapacity | finalDemand | intermediateDemand | rebuildDemand
  | overproduction | finalDemandUnmet | rebuildProd | inputsStocks | limitingInputs | capitalToRecover
  deriving DecidableEq, Repr

def allRecs : List Rec :=
  [.productionRealised, .productionCapacity, .finalDemand, .intermediateDemand, .rebuildDemand,
   .overproduction, .finalDemandUnmet, .rebuildProd, .inputsStocks, .limitingInputs, .capitalToRecover]

/-- the phase of a step after which a record is written -/
inductive Phase where
  | events | overprod | production | distribution
  deriving DecidableEq, Repr

def Phase.idx : Phase → Nat
  | .events => 0 | .overprod => 1 | .production => 2 | .distribution => 3

def phaseOf : Rec → Phase
  | .inputsStocks => .events
  | .overproduction | .rebuildDemand | .finalDemand | .intermediateDemand => .overprod
  | .limitingInputs | .productionRealised | .productionCapacity | .capitalToRecover => .production
  | .finalDemandUnmet | .rebuildProd => .distribution

/-- name of the record in `__possible_records` -/
def Rec.name : Rec → String
  | .productionRealised => "production_realised" | .productionCapacity => "production_capacity"
  | .finalDemand => "final_demand" | .intermediateDemand => "intermediate_demand"
  | .rebuildDemand => "rebuild_demand" | .overproduction => "overproduction"
  | .finalDemandUnmet => "final_demand_unmet" | .rebuildProd => "rebuild_prod"
  | .inputsStocks => "inputs_stocks" | .limitingInputs => "limiting_inputs"
  | .capitalToRecover => "productive_capital_to_recover"

structure Cfg where
  saved : Rec → Bool            -- kept in a file (`save_records`) rather than in memory
  registerStocks : Bool

/-- the record exists (in a file or in memory): all but the stocks record, which needs `register_stocks` -/
def tracked (c : Cfg) (r : Rec) : Bool := r ≠ .inputsStocks || c.registerStocks

/-- how one call of `next_step` ends -/
inductive StepEnd where
  | ok                          -- returns 0, step counter advanced
  | crash                       -- RuntimeError in the distribution block: returns 1
  | excIn (ph : Phase)          -- an exception raised by the phase `ph` (before the writes that follow it)
  deriving DecidableEq, Repr

/-- are the writes that follow phase `ph` executed when the step ends as `e` -/
def written : StepEnd → Phase → Bool
  | .ok, _ => true
  | .crash, ph => ph.idx < 3
  | .excIn q, ph => ph.idx < q.idx

/-- a record array: `none` is the fill value -/
abbrev Log (V : Type) := Rec → Nat → Option V

def emptyLog {V : Type} : Log V := fun _ _ => none

/-- the writes of one step at row `t` -/
def writeStep {V : Type} (c : Cfg) (t : Nat) (v : Rec → V) (e : StepEnd) (log : Log V) : Log V :=
  fun r row => if row = t ∧ tracked c r = true ∧ written e (phaseOf r) = true then some (v r) else log r row

/-- a run: the values of every record at every step, and how each step ends; the run stops at the
    first step that does not end `ok`.  Rows are indexed by temporal unit: a step at time `t` writes row
    `t` and the next step is at time `t + dt` (`dt = n_temporal_units_by_step`; rows in between keep the
    fill value).  Returns the log and the time reached. -/
def runLog {V : Type} (c : Cfg) (dt : Nat) : List ((Rec → V) × StepEnd) → Nat → Log V → Log V × Nat
  | [], t, log => (log, t)
  | (v, e) :: rest, t, log =>
    let log' := writeStep c t v e log
    match e with
    | .ok => runLog c dt rest (t + dt) log'
    | _ => (log', t)

end Boario.Records
