"""Translator: regenerates `lean/Boario/Gen/*.lean` from /repo's current source (Python `ast`).

Three purely structural facts of the code base are tables or skeletons rather than arithmetic; they are
re-extracted on every run so that the `decide` / `rfl` theorems about them are re-checked against what
the code says now:

  Gen/NextStep.lean     the ordered statements of `Simulation.next_step` (calls, record-write guards,
                        the `t > 1` guard, the try/except around distribution, the increment)
  Gen/RecordSpecs.lean  `__possible_records`, `__file_save_array_specs`, and which attribute each
                        `_write_*` helper writes (and at which row index)
  Gen/Defaults.lean     for every parameter of the public constructors: the syntactic kind of its
                        default and whether the parameter is the target of an in-place operation

Syntax the translator does not understand is emitted as an `unknown` item, which makes the theorems
fail (never a default that passes)."""
from __future__ import annotations

import ast
import os
from pathlib import Path

VERIF = Path(__file__).resolve().parent.parent
REPO = Path(os.environ.get("BOARIO_REPO", "/repo"))
GEN = VERIF / "lean" / "Boario" / "Gen"


def lstr(s: str) -> str:
    return '"' + s.replace("\\", "\\\\").replace('"', '\\"') + '"'


def find_class(tree, name):
    for n in tree.body:
        if isinstance(n, ast.ClassDef) and n.name == name:
            return n
    raise KeyError(name)


def find_func(node, name):
    for n in node.body:
        if isinstance(n, (ast.FunctionDef, ast.AsyncFunctionDef)) and n.name == name:
            return n
    raise KeyError(name)


def attr_chain(e):
    """self.model.calc_orders -> 'self.model.calc_orders'"""
    parts = []
    while isinstance(e, ast.Attribute):
        parts.append(e.attr)
        e = e.value
    if isinstance(e, ast.Name):
        parts.append(e.id)
        return ".".join(reversed(parts))
    return None


# ------------------------------------------------------------------ next_step skeleton


def guard_of(test):
    """(A in self.L1) or (B in self.L2)  ->  (A, L1, B, L2)"""
    if isinstance(test, ast.BoolOp) and isinstance(test.op, ast.Or) and len(test.values) == 2:
        out = []
        for v in test.values:
            if (isinstance(v, ast.Compare) and len(v.ops) == 1 and isinstance(v.ops[0], ast.In)
                    and isinstance(v.left, ast.Constant) and isinstance(v.left.value, str)):
                lst = attr_chain(v.comparators[0])
                out.append((v.left.value, lst))
            else:
                return None
        return out[0] + out[1]
    return None


def stmt_items(stmts):
    items = []
    for s in stmts:
        if isinstance(s, ast.Expr) and isinstance(s.value, ast.Call):
            name = attr_chain(s.value.func)
            if name and (name.startswith("logger.") or name.startswith("logging.") or name in ("warnings.warn", "print")):
                continue          # diagnostics do not take part in the step
            items.append(f".call {lstr(name or '?')}")
        elif isinstance(s, ast.Expr) and isinstance(s.value, ast.Constant):
            continue  # docstring / bare string
        elif isinstance(s, ast.Assign) and isinstance(s.value, ast.Call):
            name = attr_chain(s.value.func)
            if name and name.startswith("self.model.calc_"):
                items.append(f".call {lstr(name)}")
            elif len(s.targets) == 1 and isinstance(s.targets[0], ast.Name):
                items.append(f".assign {lstr(s.targets[0].id)}")          # a local variable
            else:
                items.append(f".unknown {lstr('assignment to ' + ast.unparse(s.targets[0])[:50])}")
        elif isinstance(s, ast.Assign):
            if len(s.targets) == 1 and isinstance(s.targets[0], ast.Name):
                items.append(f".assign {lstr(s.targets[0].id)}")          # a local variable
            else:
                # assigning to an attribute or an item changes the state of the simulation: control
                items.append(f".unknown {lstr('assignment to ' + ast.unparse(s.targets[0])[:50])}")
        elif isinstance(s, ast.If):
            g = guard_of(s.test)
            if g and len(s.body) == 1 and isinstance(s.body[0], ast.Expr) and isinstance(s.body[0].value, ast.Call) and not s.orelse:
                helper = attr_chain(s.body[0].value.func)
                items.append(f".write {lstr(g[0])} {lstr(g[1])} {lstr(g[2])} {lstr(g[3])} {lstr(helper or '?')}")
            elif (isinstance(s.test, ast.Compare) and len(s.test.ops) == 1 and isinstance(s.test.ops[0], ast.Gt)
                  and attr_chain(s.test.left) == "self.current_temporal_unit" and isinstance(s.test.comparators[0], ast.Constant)
                  and len(s.body) == 1 and isinstance(s.body[0], ast.Expr) and isinstance(s.body[0].value, ast.Call) and not s.orelse):
                items.append(f".ifStepGt {s.test.comparators[0].value} {lstr(attr_chain(s.body[0].value.func) or '?')}")
            elif (isinstance(s.test, ast.Compare) and isinstance(s.test.ops[0], ast.Is) and isinstance(s.test.comparators[0], ast.Constant)
                  and s.test.comparators[0].value is None):
                items.append(f".defaultArg {lstr(attr_chain(s.test.left) or '?')}")
            elif (isinstance(s.test, ast.Compare) and isinstance(s.test.ops[0], ast.Gt) and isinstance(s.test.left, ast.Name)
                  and s.test.left.id == "n_checks"):
                items.append(".equilibriumCheck")
            else:
                items.append(f".unknown {lstr(ast.unparse(s.test)[:60])}")
        elif isinstance(s, ast.Try):
            handlers = [attr_chain(h.type) if h.type is not None else "bare" for h in s.handlers]
            items.append(".tryBegin")
            items.extend(stmt_items(s.body))
            returns = []
            for h in s.handlers:
                for hs in h.body:
                    if isinstance(hs, ast.Return) and isinstance(hs.value, ast.Constant):
                        returns.append(str(hs.value.value))
                    if isinstance(hs, ast.Raise):
                        returns.append("raise")
            items.append(f".tryEnd {lstr(','.join(str(h) for h in handlers))} {lstr(','.join(returns))}")
        elif isinstance(s, ast.AugAssign) and isinstance(s.op, ast.Add):
            items.append(f".incr {lstr(attr_chain(s.target) or '?')} {lstr(ast.unparse(s.value))}")
        elif isinstance(s, ast.Return):
            items.append(f".ret {lstr(ast.unparse(s.value) if s.value is not None else 'None')}")
        else:
            items.append(f".unknown {lstr(type(s).__name__)}")
    return items


def gen_next_step(tree):
    sim = find_class(tree, "Simulation")
    fn = find_func(sim, "next_step")
    items = stmt_items(fn.body)
    body = ",\n  ".join(items)
    return f"""/- GENERATED by harness/translate.py from boario/simulation.py (Simulation.next_step). Do not edit. -/
import Boario.GenTypes

namespace Boario.Gen

def nextStepSkeleton : List Item := [
  {body}
]

end Boario.Gen
"""


# ------------------------------------------------------------------ record specs


def gen_record_specs(tree):
    sim = find_class(tree, "Simulation")
    possible, specs = [], []
    for n in sim.body:
        if isinstance(n, ast.Assign) and isinstance(n.targets[0], ast.Name):
            nm = n.targets[0].id
            if nm.endswith("__possible_records") and isinstance(n.value, ast.List):
                possible = [e.value for e in n.value.elts if isinstance(e, ast.Constant)]
            if nm.endswith("__file_save_array_specs") and isinstance(n.value, ast.Dict):
                for k, v in zip(n.value.keys, n.value.values):
                    if isinstance(k, ast.Constant) and isinstance(v, ast.Tuple) and len(v.elts) == 4:
                        fill = ast.unparse(v.elts[3])
                        specs.append((k.value, v.elts[0].value, v.elts[1].value, v.elts[2].value, fill))
                    else:
                        specs.append(("?", "?", "?", "?", "?"))
    # helpers: which attribute is indexed by current_temporal_unit and assigned
    helpers = []
    for n in sim.body:
        if isinstance(n, ast.FunctionDef) and n.name.startswith("_write_"):
            targets = []
            for s in ast.walk(n):
                if isinstance(s, ast.Assign) and isinstance(s.targets[0], ast.Subscript):
                    sub = s.targets[0]
                    base = attr_chain(sub.value)
                    idx = attr_chain(sub.slice) if not isinstance(sub.slice, ast.Constant) else str(sub.slice.value)
                    targets.append((base or "?", idx or ast.unparse(sub.slice)))
            tset = sorted(set(targets))
            if len(tset) == 1:
                helpers.append((n.name, tset[0][0], tset[0][1]))
            else:
                helpers.append((n.name, "?" + ";".join(t[0] for t in tset), "?"))
    pl = ", ".join(lstr(p) for p in possible)
    sl = ",\n  ".join(f"({lstr(a)}, {lstr(b)}, {lstr(c)}, {lstr(d_)}, {lstr(e)})" for a, b, c, d_, e in specs)
    hl = ",\n  ".join(f"({lstr(a)}, {lstr(b)}, {lstr(c)})" for a, b, c in helpers)
    return f"""/- GENERATED by harness/translate.py from boario/simulation.py (record tables and _write_* helpers). Do not edit. -/
import Boario.GenTypes

namespace Boario.Gen

def possibleRecords : List String := [{pl}]

/-- (record, dtype, attribute, shape kind, fill value) -/
def recordSpecs : List (String × String × String × String × String) := [
  {sl}
]

/-- (helper, attribute it assigns, row index expression) -/
def writeHelpers : List (String × String × String) := [
  {hl}
]

end Boario.Gen
"""


# ------------------------------------------------------------------ defaults


def default_kind(node):
    if node is None:
        return "none"
    if isinstance(node, ast.Constant):
        return "immutable"          # None, numbers, strings, bools
    if isinstance(node, (ast.List, ast.Dict, ast.Set)):
        return "mutableLiteral"
    if isinstance(node, ast.Tuple):
        return "immutable" if all(isinstance(e, ast.Constant) for e in node.elts) else "mutableLiteral"
    if isinstance(node, ast.BinOp) and isinstance(node.left, ast.Constant) and isinstance(node.right, ast.Constant):
        return "immutable"          # 10**6
    if isinstance(node, ast.UnaryOp) and isinstance(node.operand, ast.Constant):
        return "immutable"
    if isinstance(node, ast.Call):
        return "callAtDefinition"
    return "other"


INPLACE_METHODS = {"append", "extend", "insert", "pop", "remove", "clear", "sort", "reverse", "update", "setdefault",
                   "popitem", "add", "discard", "fill", "sort_index", "rename_axis", "rename", "fillna", "drop", "reindex"}


def mutated_params(fn, names):
    """parameters that are the receiver of an in-place operation inside fn (syntactic, conservative)"""
    hit = set()
    for s in ast.walk(fn):
        if isinstance(s, ast.Call) and isinstance(s.func, ast.Attribute) and isinstance(s.func.value, ast.Name):
            nm = s.func.value.id
            if nm in names:
                inplace_kw = any(k.arg == "inplace" and isinstance(k.value, ast.Constant) and k.value.value is True for k in s.keywords)
                if s.func.attr in {"append", "extend", "insert", "pop", "remove", "clear", "sort", "reverse", "update", "setdefault",
                                   "popitem", "add", "discard", "fill"} or inplace_kw:
                    hit.add(nm)
        if isinstance(s, (ast.Assign, ast.AugAssign)):
            tgts = s.targets if isinstance(s, ast.Assign) else [s.target]
            for t in tgts:
                if isinstance(t, ast.Subscript) and isinstance(t.value, ast.Name) and t.value.id in names:
                    hit.add(t.value.id)
                if isinstance(s, ast.AugAssign) and isinstance(t, ast.Name) and t.id in names:
                    pass  # rebinding for immutables; in-place for lists: flagged only via default kind below
    return hit


def params_of(fn):
    a = fn.args
    pos = a.posonlyargs + a.args
    defaults = [None] * (len(pos) - len(a.defaults)) + list(a.defaults)
    out = [(p.arg, d) for p, d in zip(pos, defaults)]
    out += [(p.arg, d) for p, d in zip(a.kwonlyargs, a.kw_defaults)]
    return [(n, d) for n, d in out if n not in ("self", "cls")]


def gen_defaults(trees):
    rows = []
    targets = [
        ("simulation", "Simulation", "__init__"), ("simulation", "EventTracker", "__init__"),
        ("model_base", "ARIOBaseModel", "__init__"), ("extended_models", "ARIOPsiModel", "__init__"),
        ("event", "Event", "__init__"), ("event", "EventKapitalDestroyed", "__init__"), ("event", "EventKapitalRebuild", "__init__"),
        ("event", "EventKapitalRecover", "__init__"), ("event", "EventArbitraryProd", "__init__"),
        ("event", None, "from_series"), ("event", None, "from_scalar_industries"), ("event", None, "from_scalar_regions_sectors"),
        ("simulation", "Simulation", "next_step"),
    ]
    for mod, cls, fname in targets:
        tree = trees[mod]
        try:
            holder = find_class(tree, cls) if cls else tree
            fn = find_func(holder, fname)
        except KeyError:
            rows.append((f"{mod}.{cls}.{fname}", "?", "missing", False))
            continue
        ps = params_of(fn)
        mut = mutated_params(fn, {n for n, _ in ps})
        for n, dflt in ps:
            rows.append((f"{mod}.{cls or ''}.{fname}", n, default_kind(dflt), n in mut))
    body = ",\n  ".join(f"({lstr(a)}, {lstr(b)}, DefaultKind.{c}, {'true' if m else 'false'})" for a, b, c, m in rows)
    return f"""/- GENERATED by harness/translate.py: default arguments of the public constructors. Do not edit. -/
import Boario.GenTypes

namespace Boario.Gen

/-- (function, parameter, kind of its default, is the parameter mutated in place inside the function) -/
def defaults : List (String × String × DefaultKind × Bool) := [
  {body}
]

end Boario.Gen
"""


# ------------------------------------------------------------------ column slices of the demand matrix

DIM_NAMES = {"n_regions": "m", "n_sectors": "n", "n_fd_cat": "k", "_n_rebuilding_events": "nb"}
ID_NAMES = {"ev_id", "_rebuild_id"}
# functions whose column arithmetic addresses the combined demand / delivery matrix
SLICE_FUNCS = [
    ("model_base", "ARIOBaseModel", ["_chg_events_number", "intermediate_demand", "final_demand", "rebuild_demand",
                                     "rebuild_demand_house", "rebuild_demand_indus", "rebuild_prod_indus",
                                     "rebuild_prod_house", "rebuild_prod_indus_event", "rebuild_prod_house_event",
                                     "distribute_production"]),
    ("simulation", "Simulation", ["update_rebuild_demand"]),
]


class Untranslatable(Exception):
    pass


def local_assignments(fn):
    """names assigned exactly once in the function by a plain `name = expr`"""
    seen = {}
    for node in ast.walk(fn):
        if isinstance(node, ast.Assign) and len(node.targets) == 1 and isinstance(node.targets[0], ast.Name):
            seen.setdefault(node.targets[0].id, []).append(node.value)
        elif isinstance(node, (ast.AugAssign, ast.AnnAssign)) and isinstance(getattr(node, "target", None), ast.Name):
            seen.setdefault(node.target.id, []).append(None)
    return {k: v[0] for k, v in seen.items() if len(v) == 1 and v[0] is not None}


def nat_expr(e, local, depth=0):
    """Python integer expression over the dimensions -> Lean `Nat` expression over (m n k nb id)"""
    if depth > 8:
        raise Untranslatable("recursion")
    if isinstance(e, ast.Constant) and isinstance(e.value, int) and not isinstance(e.value, bool) and e.value >= 0:
        return str(e.value)
    if isinstance(e, ast.BinOp) and isinstance(e.op, (ast.Add, ast.Mult)):
        op = "+" if isinstance(e.op, ast.Add) else "*"
        return f"({nat_expr(e.left, local, depth)} {op} {nat_expr(e.right, local, depth)})"
    if isinstance(e, ast.Attribute):
        if e.attr in DIM_NAMES and attr_chain(e) in (f"self.{e.attr}", f"self.model.{e.attr}"):
            return DIM_NAMES[e.attr]
        if e.attr in ID_NAMES and isinstance(e.value, ast.Name):
            return "id"
    if isinstance(e, ast.Name):
        if e.id in ID_NAMES:
            return "id"
        if e.id in local:
            return nat_expr(local[e.id], local, depth + 1)
    raise Untranslatable(ast.unparse(e))


def slice_bound(e, local):
    if e is None:
        return "none"
    try:
        return f"some {nat_expr(e, local)}"
    except Untranslatable as u:
        # an identifier that does not exist: the generated file does not compile, nothing passes by default
        return f"some (untranslatable_expression {lstr(str(u))})"


def fn_label(cls, f):
    kind = ""
    for d in f.decorator_list:
        t = ast.unparse(d)
        if t == "property":
            kind = ".getter"
        elif t.endswith(".setter"):
            kind = ".setter"
    return f"{cls}.{f.name}{kind}"


def gen_slices(trees):
    rows, shapes = [], []
    for mod, cls, names in SLICE_FUNCS:
        c = find_class(trees[mod], cls)
        for f in c.body:
            if not isinstance(f, ast.FunctionDef) or f.name not in names:
                continue
            local = local_assignments(f)
            label = fn_label(cls, f)
            idx = 0
            for node in ast.walk(f):
                if (isinstance(node, ast.Subscript) and isinstance(node.slice, ast.Tuple) and len(node.slice.elts) == 2
                        and isinstance(node.slice.elts[1], ast.Slice)):
                    row_sel = node.slice.elts[0]
                    full_rows = isinstance(row_sel, ast.Slice) and row_sel.lower is None and row_sel.upper is None and row_sel.step is None
                    sl = node.slice.elts[1]
                    base = attr_chain(node.value) or ast.unparse(node.value)
                    step = "true" if sl.step is None else "false"
                    rows.append(f"  ⟨{lstr(label)}, {idx}, {lstr(base)}, {'true' if full_rows else 'false'}, {step}, "
                                f"fun m n k nb id => {slice_bound(sl.lower, local)}, fun m n k nb id => {slice_bound(sl.upper, local)}⟩")
                    idx += 1
                # widths: second component of `np.zeros(shape=(rows, cols))`
                if (isinstance(node, ast.Call) and attr_chain(node.func) == "np.zeros"):
                    for kw in node.keywords:
                        if kw.arg == "shape" and isinstance(kw.value, ast.Tuple) and len(kw.value.elts) == 2:
                            shapes.append(f"  ⟨{lstr(label)}, fun m n k nb id => {slice_bound(kw.value.elts[0], local)}, "
                                          f"fun m n k nb id => {slice_bound(kw.value.elts[1], local)}⟩")
    return f"""/- GENERATED by harness/translate.py from boario/model_base.py and boario/simulation.py: every column
   slice `base[:, lo:hi]` and every `np.zeros(shape=(rows, cols))` of the functions that address the combined
   demand / delivery matrix, as functions of (n_regions, n_sectors, n_fd_cat, _n_rebuilding_events, event id).
   Do not edit. -/
import Boario.GenTypes

namespace Boario.Gen
set_option linter.unusedVariables false

def colSlices : List ColSlice := [
{(',' + chr(10)).join(rows)}
]

def zerosShapes : List ZerosShape := [
{(',' + chr(10)).join(shapes)}
]

end Boario.Gen
"""


# ------------------------------------------------------------------ loop(): the equilibrium early exit


def gen_loop(tree):
    """every statement of boario/simulation.py that writes `self._monotony_checker` (the counter whose value > 3
    makes loop() stop early), and the iteration range of loop()"""
    writes = []
    for node in ast.walk(tree):
        if isinstance(node, ast.Assign):
            for t in node.targets:
                if attr_chain(t) == "self._monotony_checker":
                    writes.append("= " + ast.unparse(node.value))
        elif isinstance(node, ast.AugAssign) and attr_chain(node.target) == "self._monotony_checker":
            writes.append(type(node.op).__name__ + "= " + ast.unparse(node.value))
        elif isinstance(node, ast.AnnAssign) and attr_chain(node.target) == "self._monotony_checker":
            writes.append("= " + (ast.unparse(node.value) if node.value is not None else "?"))
        elif isinstance(node, ast.Call) and attr_chain(node.func) in ("setattr",) and node.args[1:2] and isinstance(node.args[1], ast.Constant) \
                and node.args[1].value == "_monotony_checker":
            writes.append("setattr " + ast.unparse(node.args[2]) if len(node.args) > 2 else "setattr ?")
    sim = find_class(tree, "Simulation")
    loop = find_func(sim, "loop")
    ranges = []
    for node in ast.walk(loop):
        if isinstance(node, ast.Call) and attr_chain(node.func) == "range":
            ranges.append([ast.unparse(a) for a in node.args])
    rl = ",\n  ".join("[" + ", ".join(lstr(a) for a in r) + "]" for r in ranges)
    wl = ", ".join(lstr(w) for w in writes)
    return f"""/- GENERATED by harness/translate.py from boario/simulation.py. Do not edit. -/
namespace Boario.Gen

/-- right-hand sides of every write to `self._monotony_checker` in the module -/
def monotonyWrites : List String := [{wl}]

/-- arguments of every `range(...)` in `Simulation.loop` -/
def loopRanges : List (List String) := [
  {rl}
]

end Boario.Gen
"""


# ------------------------------------------------------------------ pointwise formulas
#
# Element-wise NumPy code (every array has the same shape and every operation acts cell by cell) is a
# function of one cell's values.  `Pointwise` re-expresses such a function as a Lean function over `Rat`:
#   x = np.full(shape, c)            let x := c
#   x[M] = E                         let x := if M then E else x        (every `[M]` inside E is the same mask)
#   x[np.isnan(x)] = c               skipped: there is no NaN over the rationals (recorded in the docstring)
#   x = E / x += E / x.flatten() / x.copy()
#   (a > b) inside arithmetic        the 0/1 indicator
#   np.maximum / np.minimum / np.fmin / np.fmax / np.where
#   a ** n                           n must be an expression over `int` parameters and integer literals
#   if (v < c).any(): raise          a separate Boolean function `<name>_rejects`
# Anything else makes the generated definition `unknownFormula "<what>"` (an opaque constant: no theorem about
# it can be proved, nothing passes by default).

from fractions import Fraction


class Pointwise:
    def __init__(self, fn, nat_params=(), inline=None, self_attrs_are_params=True, drop_params=("self",)):
        self.fn = fn
        self.natp = set(nat_params)
        self.inline = dict(inline or {})
        self.params = []           # (name, "Rat" | "Nat") in order of first read
        self.bound = set()
        self.lines = []
        self.notes = []
        self.guards = []
        self.declared = [a.arg for a in fn.args.args if a.arg not in drop_params]
        self.masks = {}

    # -- names
    def var(self, name, kind="Rat"):
        if name in self.inline:
            return self.inline[name]
        if name not in self.bound and name not in [p for p, _ in self.params]:
            self.params.append((name, "Nat" if name in self.natp else "Rat"))
        return name

    def name_of(self, e):
        if isinstance(e, ast.Name):
            return e.id
        if isinstance(e, ast.Attribute) and isinstance(e.value, ast.Name) and e.value.id == "self":
            return e.attr.lstrip("_")
        if isinstance(e, ast.Attribute):
            ch = attr_chain(e)
            if ch and ch.split(".")[0] in ("self", "sim", "source_event") and all(p_ in ("sim", "model", "event") for p_ in ch.split(".")[1:-1]):
                return e.attr.lstrip("_")          # self.sim.model.x / self.event.x / source_event.x: the named quantity
        return None

    # -- expressions
    def lit(self, v):
        fr = Fraction(str(v))
        if fr.denominator == 1:
            return f"({fr.numerator} : Rat)"
        return f"(({fr.numerator} : Rat) / {fr.denominator})"

    def nat(self, e):
        if isinstance(e, ast.Constant) and isinstance(e.value, int) and not isinstance(e.value, bool) and e.value >= 0:
            return str(e.value)
        if isinstance(e, ast.Constant) and isinstance(e.value, float) and e.value >= 0 and float(e.value).is_integer():
            return str(int(e.value))
        n = self.name_of(e)
        if n is not None:
            if n in self.inline_nat:
                return self.inline_nat[n]
            if n in self.natp:
                self.var(n)
                return n
        if isinstance(e, ast.BinOp) and isinstance(e.op, (ast.Add, ast.Mult)):
            op = "+" if isinstance(e.op, ast.Add) else "*"
            return f"({self.nat(e.left)} {op} {self.nat(e.right)})"
        raise Untranslatable("exponent " + ast.unparse(e))

    inline_nat = {}
    UFUNCS = {"np.divide": "/", "np.multiply": "*", "np.add": "+", "np.subtract": "-"}

    bool_params = ()
    finite_param = None

    def cond(self, e):
        if isinstance(e, ast.Name) and e.id in self.masks:
            return self.masks[e.id]
        nb = self.name_of(e)
        if nb is not None and nb in self.bool_params:
            if nb not in [q for q, _ in self.params]:
                self.params.append((nb, "Bool"))
            return f"({nb} = true)"
        if isinstance(e, ast.Call) and attr_chain(e.func) == "np.isfinite" and len(e.args) == 1 and self.finite_param:
            # every `np.isfinite(..)` mask of the function is the same set of cells (the inputs declared infinite)
            if self.finite_param not in [q for q, _ in self.params]:
                self.params.append((self.finite_param, "Bool"))
            note = f"every `np.isfinite(…)` mask is the Boolean parameter `{self.finite_param}` (the arrays are infinite at the same cells)"
            if note not in self.notes:
                self.notes.append(note)
            return f"({self.finite_param} = true)"
        if isinstance(e, ast.BinOp) and isinstance(e.op, ast.Mult):
            # product of Boolean arrays = conjunction
            return f"({self.cond(e.left)} ∧ {self.cond(e.right)})"
        if isinstance(e, ast.Compare) and len(e.ops) == 1:
            a, b = self.expr(e.left), self.expr(e.comparators[0])
            op = {ast.Gt: ">", ast.GtE: "≥", ast.Lt: "<", ast.LtE: "≤", ast.NotEq: "≠", ast.Eq: "="}.get(type(e.ops[0]))
            if op:
                return f"({a} {op} {b})"
        if isinstance(e, ast.UnaryOp) and isinstance(e.op, ast.Invert):
            return f"(¬ {self.cond(e.operand)})"
        if isinstance(e, ast.BinOp) and isinstance(e.op, (ast.BitAnd, ast.BitOr)):
            return f"({self.cond(e.left)} {'∧' if isinstance(e.op, ast.BitAnd) else '∨'} {self.cond(e.right)})"
        raise Untranslatable("condition " + ast.unparse(e))

    def expr(self, e, mask=None):
        if isinstance(e, ast.Constant) and isinstance(e.value, (int, float)) and not isinstance(e.value, bool):
            return self.lit(e.value)
        n = self.name_of(e)
        if n is not None:
            v = self.var(n)
            return f"({v} : Rat)" if n in self.natp and n not in self.inline else v
        if isinstance(e, ast.UnaryOp) and isinstance(e.op, ast.USub):
            return f"(-{self.expr(e.operand, mask)})"
        if isinstance(e, ast.BinOp):
            if isinstance(e.op, ast.Pow):
                return f"({self.expr(e.left, mask)} ^ {self.nat(e.right)})"
            op = {ast.Add: "+", ast.Sub: "-", ast.Mult: "*", ast.Div: "/"}.get(type(e.op))
            if op:
                return f"({self.expr(e.left, mask)} {op} {self.expr(e.right, mask)})"
        if isinstance(e, ast.Compare):
            return f"(if {self.cond(e)} then (1 : Rat) else 0)"
        if isinstance(e, ast.Subscript) and mask is not None and self._mask_key(e.slice) == mask:
            return self.expr(e.value, mask)
        if isinstance(e, ast.Subscript) and isinstance(e.slice, ast.Tuple) and all(
                (isinstance(x, ast.Slice) and x.lower is None and x.upper is None and x.step is None)
                or attr_chain(x) == "np.newaxis" or (isinstance(x, ast.Constant) and x.value is None) for x in e.slice.elts):
            return self.expr(e.value, mask)                # x[:, np.newaxis]: the same cell value
        if isinstance(e, ast.Call):
            f = e.func
            if isinstance(f, ast.Attribute) and f.attr in ("flatten", "copy", "ravel") and not e.args:
                return self.expr(f.value, mask)
            if isinstance(f, ast.Attribute) and f.attr == "round" and len(e.args) == 1 and not e.keywords:
                # decimal rounding to a number of places held in an `int` parameter: the model's `roundDec`
                return f"(Boario.roundDec {self.nat(e.args[0])} {self.expr(f.value, mask)})"
            ch = attr_chain(f)
            if ch in ("np.maximum", "np.fmax") and len(e.args) == 2 and not e.keywords:
                return f"(max {self.expr(e.args[0], mask)} {self.expr(e.args[1], mask)})"
            if ch in ("np.minimum", "np.fmin") and len(e.args) == 2 and not e.keywords:
                return f"(min {self.expr(e.args[0], mask)} {self.expr(e.args[1], mask)})"
            if ch == "np.where" and len(e.args) == 3 and not e.keywords:
                return f"(if {self.cond(e.args[0])} then {self.expr(e.args[1], mask)} else {self.expr(e.args[2], mask)})"
            if isinstance(f, ast.Attribute) and isinstance(f.value, ast.Call) and isinstance(f.value.func, ast.Name) \
                    and f.value.func.id == "super" and not f.value.args:
                self.notes.append(f"`{ast.unparse(e)}` is the parameter `super_{f.attr}` (the base class's cell)")
                return self.var("super_" + f.attr)
            if ch == "np.expand_dims" and len(e.args) == 1 and [k.arg for k in e.keywords] == ["axis"]:
                return self.expr(e.args[0], mask)
            if ch == "np.expand_dims" and len(e.args) == 2 and not e.keywords:
                return self.expr(e.args[0], mask)          # broadcasting: the same cell value
            if ch == "np.sum" and len(e.args) == 1 and {k.arg for k in e.keywords} <= {"axis", "keepdims"} \
                    and any(k.arg == "axis" and isinstance(k.value, ast.Constant) and k.value.value == 1 for k in e.keywords):
                n0 = self.name_of(e.args[0])
                if n0 is not None:
                    self.notes.append(f"`{ast.unparse(e)}` is the parameter `{n0}_rowsum` (the sum of the cell's row)")
                    return self.var(n0 + "_rowsum")
            if ch == "np.tile" and len(e.args) == 2 and not e.keywords:
                return self.expr(e.args[0], mask)          # broadcasting: the same cell value
            if ch == "np.nan_to_num" and len(e.args) == 1 and [k.arg for k in e.keywords] == ["posinf"] \
                    and isinstance(e.keywords[0].value, ast.Constant) and e.keywords[0].value.value == 0:
                n0 = self.name_of(e.args[0])
                if n0 is not None:
                    self.notes.append(f"`{ast.unparse(e)}` is the parameter `{n0}_posinf0` (an infinite value replaced by 0)")
                    return self.var(n0 + "_posinf0")
            if ch == "np.nan_to_num" and len(e.args) == 1:
                self.notes.append("`np.nan_to_num` is the identity (no NaN over the rationals)")
                return self.expr(e.args[0], mask)
            if ch in self.UFUNCS and len(e.args) == 2 and not e.keywords:
                return f"({self.expr(e.args[0], mask)} {self.UFUNCS[ch]} {self.expr(e.args[1], mask)})"
            if ch in self.UFUNCS and len(e.args) == 2 and {k.arg for k in e.keywords} == {"out", "where"}:
                # y = np.divide(a, b, out=np.zeros_like(a), where=M): the `out=` array created in place by a filling constructor
                kws = {k.arg: k.value for k in e.keywords}
                if isinstance(kws["out"], ast.Call) and attr_chain(kws["out"].func) in FILLED_CTORS:
                    val = f"({self.expr(e.args[0], mask)} {self.UFUNCS[ch]} {self.expr(e.args[1], mask)})"
                    return f"(if {self.cond(kws['where'])} then {val} else {self.expr(kws['out'], mask)})"
            if ch in ("np.full", "np.full_like") and len(e.args) == 2:
                return self.expr(e.args[1], mask)
            if ch in ("np.zeros", "np.zeros_like"):
                return "(0 : Rat)"
            if ch in ("np.ones", "np.ones_like"):
                return "(1 : Rat)"
        raise Untranslatable(ast.unparse(e))

    def _mask_key(self, m):
        try:
            return self.cond(m)
        except Untranslatable:
            return ast.dump(m)

    # -- statements
    def let(self, name, rhs):
        self.lines.append(f"  let {name} : Rat := {rhs}")
        self.bound.add(name)

    def stmt(self, st):
        if isinstance(st, ast.Expr) and isinstance(st.value, ast.Constant) and isinstance(st.value.value, str):
            return None
        if isinstance(st, ast.Assign) and len(st.targets) == 1:
            tg = st.targets[0]
            n = self.name_of(tg)
            if n is not None and isinstance(tg, ast.Name) and isinstance(st.value, (ast.Compare, ast.UnaryOp)) \
                    and not (isinstance(st.value, ast.UnaryOp) and isinstance(st.value.op, ast.USub)):
                # a mask kept in a local name
                self.masks[n] = self.cond(st.value)
                return None
            if n is not None:
                self.masks.pop(n, None)
                self.let(n, self.expr(st.value))
                return None
            if isinstance(tg, ast.Subscript):
                n = self.name_of(tg.value)
                m = tg.slice
                if n is not None:
                    if isinstance(m, ast.Call) and attr_chain(m.func) == "np.isnan":
                        self.notes.append(f"`{ast.unparse(st)}` skipped (no NaN over the rationals)")
                        return None
                    cur = self.expr(tg.value)
                    c = self.cond(m)
                    self.let(n, f"if {c} then {self.expr(st.value, self._mask_key(m))} else {cur}")
                    return None
        if isinstance(st, ast.Expr) and isinstance(st.value, ast.Call) and attr_chain(st.value.func) in self.UFUNCS \
                and len(st.value.args) == 2:
            # np.divide(a, b, out=x, where=M): x := if M then a / b else x
            kws = {k.arg: k.value for k in st.value.keywords}
            if set(kws) <= {"out", "where"} and "out" in kws and self.name_of(kws["out"]) is not None:
                n = self.name_of(kws["out"])
                cur = self.expr(kws["out"])
                val = f"({self.expr(st.value.args[0])} {self.UFUNCS[attr_chain(st.value.func)]} {self.expr(st.value.args[1])})"
                if "where" in kws:
                    val = f"if {self.cond(kws['where'])} then {val} else {cur}"
                self.let(n, val)
                return None
        if isinstance(st, ast.AugAssign):
            n = self.name_of(st.target)
            op = {ast.Add: "+", ast.Sub: "-", ast.Mult: "*", ast.Div: "/"}.get(type(st.op))
            if n is not None and op:
                cur = self.expr(st.target)
                self.let(n, f"({cur} {op} {self.expr(st.value)})")
                return None
        if isinstance(st, ast.If) and not st.orelse and len(st.body) == 1 and isinstance(st.body[0], ast.Raise) \
                and ast.unparse(st.test).startswith("np.isnan(") and ast.unparse(st.test).endswith(".any()"):
            self.notes.append(f"`if {ast.unparse(st.test)}: raise` skipped (no NaN over the rationals)")
            return None
        if isinstance(st, ast.If) and isinstance(st.test, ast.Name) and st.test.id == "DEBUG_TRACE":
            return None
        if isinstance(st, ast.If) and not st.orelse and isinstance(st.test, ast.Compare) and len(st.test.ops) == 1 \
                and isinstance(st.test.ops[0], (ast.NotEq, ast.Eq, ast.Lt, ast.Gt, ast.LtE, ast.GtE)) \
                and all(isinstance(b, ast.Assign) and len(b.targets) == 1 and isinstance(b.targets[0], ast.Name) for b in st.body):
            # `if a != b: x = E` on scalars: x := if a ≠ b then E else x
            c = self.cond(st.test)
            for b in st.body:
                n = b.targets[0].id
                cur = self.expr(b.targets[0])
                self.let(n, f"if {c} then {self.expr(b.value)} else {cur}")
            return None
        if isinstance(st, ast.If) and not st.orelse and len(st.body) == 1 and isinstance(st.body[0], ast.Raise):
            t = st.test
            if isinstance(t, ast.Call) and isinstance(t.func, ast.Attribute) and t.func.attr == "any" and not t.args:
                self.guards.append((list(self.lines), self.cond(t.func.value)))
                return None
        if isinstance(st, ast.Return) and st.value is not None:
            return self.expr(st.value)
        if isinstance(st, ast.If) and isinstance(st.test, ast.Compare) and len(st.test.ops) == 1 and \
                isinstance(st.test.ops[0], ast.Is) and isinstance(st.test.comparators[0], ast.Constant) and \
                st.test.comparators[0].value is None and self.name_of(st.test.left) in self.inline_none:
            # `if p is None: A else: B` for a parameter the simulation never passes: the `None` branch
            for s2 in st.body:
                r = self.stmt(s2)
                if r is not None:
                    return r
            return None
        raise Untranslatable(ast.unparse(st).splitlines()[0])

    inline_none = ()

    def run(self, result=None, body=None):
        ret = None
        for st in (self.fn.body if body is None else body):
            ret = self.stmt(st)
            if ret is not None:
                break
        if ret is None:
            if result is None:
                raise Untranslatable("no result")
            ret = result
        return ret


def lean_formula(name, fn, doc, nat_params=(), inline=None, inline_nat=None, inline_none=(), result=None, fixed_params=None,
                 bool_params=(), body=None, finite_param=None):
    pw = Pointwise(fn, nat_params=nat_params, inline=inline)
    pw.finite_param = finite_param
    pw.inline_nat = dict(inline_nat or {})
    pw.inline_none = tuple(inline_none)
    pw.bool_params = tuple(bool_params)
    try:
        if fixed_params:
            for q in fixed_params:
                if q in pw.bool_params or q == finite_param:
                    pw.params.append((q, "Bool"))
                else:
                    pw.var(q)
        ret = pw.run(result, body=body(fn) if callable(body) else body)
        body = "\n".join(pw.lines + [f"  {ret}"])
        notes = "".join(f"\n    {n}" for n in pw.notes)
        sig = " ".join(f"({q} : {k})" for q, k in pw.params)
        out = f"/-- {doc}{notes} -/\ndef {name} {sig} : Rat :=\n{body}\n"
        for gi, (lines, c) in enumerate(pw.guards):
            gname = f"{name}_rejects" + ("" if gi == 0 else str(gi))
            out += f"\n/-- the condition under which `{name}` raises -/\ndef {gname} {sig} : Prop :=\n" + \
                   "\n".join(lines + [f"  {c}"]) + "\n"
        return out
    except Untranslatable as u:
        return f"/-- {doc} (NOT TRANSLATED: {str(u)[:120]}) -/\ndef {name} : Rat := unknownFormula {lstr(str(u)[:120])}\n"


def gen_formulas(trees, rec_tree):
    base = find_class(trees["model_base"], "ARIOBaseModel")
    parts = []
    parts.append(lean_formula(
        "calc_overproduction", find_func(base, "calc_overproduction"),
        "`ARIOBaseModel.calc_overproduction`, one industry: the new overproduction factor.",
        result="overprod", fixed_params=["overprod", "overprod_max", "overprod_base", "overprod_tau", "entire_demand_tot", "production"]))
    parts.append(lean_formula(
        "production_cap", find_func(base, "production_cap"),
        "`ARIOBaseModel.production_cap`, one industry.",
        fixed_params=["X_0", "prod_cap_delta_tot", "overprod"]))
    parts.append(lean_formula(
        "production_opt", find_func(base, "production_opt"),
        "`ARIOBaseModel.production_opt`, one industry (capacity given).",
        fixed_params=["entire_demand_tot", "production_cap"]))
    psi_cls = find_class(trees["extended_models"], "ARIOPsiModel")
    parts.append(lean_formula(
        "calc_inventory_constraints_base", find_func(base, "calc_inventory_constraints"),
        "`ARIOBaseModel.calc_inventory_constraints`, one (input, industry) cell.",
        fixed_params=["production", "tech_mat", "inv_duration_posinf0"]))
    parts.append(lean_formula(
        "calc_inventory_constraints_psi", find_func(psi_cls, "calc_inventory_constraints"),
        "`ARIOPsiModel.calc_inventory_constraints`, one (input, industry) cell.",
        fixed_params=["production", "tech_mat", "psi", "inv_duration_posinf0"]))

    def shortage_branch(fn):
        """the statements of `calc_production` that build `production_max` (inside `if stock_constraint.any():`)"""
        for st in fn.body:
            if isinstance(st, ast.If):
                sel = []
                for s2 in st.body:
                    tg = s2.targets[0] if isinstance(s2, ast.Assign) and len(s2.targets) == 1 else None
                    if isinstance(tg, ast.Attribute) or (isinstance(s2, ast.If)) or isinstance(s2, ast.Assert):
                        continue          # flags, logging, assertions
                    sel.append(s2)
                    if isinstance(tg, ast.Name) and tg.id == "production_max":
                        return sel
        raise Untranslatable("shortage branch of calc_production not found")
    def between(first, last, skip_targets=()):
        """the top-level statements of a function from the one assigning `first` to the one assigning / writing `last`,
        without debug logging, verification hooks and `raise` guards"""
        def tgt(st):
            if isinstance(st, ast.Assign) and len(st.targets) == 1:
                return Pointwise.name_of(None, st.targets[0])
            if isinstance(st, ast.Expr) and isinstance(st.value, ast.Call):
                for k in st.value.keywords:
                    if k.arg == "out":
                        return Pointwise.name_of(None, k.value)
            return None

        def sel(fn):
            out, on = [], False
            for st in fn.body:
                t = tgt(st)
                if t == first:
                    on = True
                if on and not isinstance(st, ast.If) and t not in skip_targets:
                    out.append(st)
                if on and t == last and (first != last or len(out) >= 1):
                    if not any(tgt(x) == last for x in fn.body[fn.body.index(st) + 1:] if not isinstance(x, ast.If)):
                        return out
            raise Untranslatable(f"statements {first} .. {last} not found")
        return sel
    dist = find_func(base, "distribute_production")
    parts.append(lean_formula(
        "delivery_cell", dist,
        "`ARIOBaseModel.distribute_production`, one cell of `distributed_production` (what a client column receives).",
        fixed_params=["entire_demand", "entire_demand_rowsum", "production"], body=between("demand_shares", "distributed_production"),
        result="distributed_production"))
    parts.append(lean_formula(
        "stock_use_cell", dist, "`distribute_production`, one (input, industry) cell of `stock_use`.",
        fixed_params=["production", "tech_mat"], body=between("stock_use", "stock_use"), result="stock_use"))
    def inside_if(marker, target):
        """the single assignment to `target` inside the top-level `if` whose test mentions `marker`"""
        def sel(fn):
            for st in fn.body:
                if isinstance(st, ast.If) and marker in ast.unparse(st.test):
                    got = [s2 for s2 in st.body if isinstance(s2, ast.Assign) and len(s2.targets) == 1
                           and Pointwise.name_of(None, s2.targets[0]) == target]
                    if len(got) == 1:
                        return got
            raise Untranslatable(f"assignment to {target} under `if … {marker} …` not found")
        return sel
    def branch_range(marker, first, last, orelse=False):
        """inside the top-level `if` whose test mentions `marker` (its `else` branch when `orelse`): the statements from the
        one writing `first` to the one writing `last`"""
        def tgt(st):
            if isinstance(st, ast.Assign) and len(st.targets) == 1:
                return Pointwise.name_of(None, st.targets[0])
            if isinstance(st, ast.Expr) and isinstance(st.value, ast.Call):
                for k in st.value.keywords:
                    if k.arg == "out":
                        return Pointwise.name_of(None, k.value)
            return None

        def sel(fn):
            for st in fn.body:
                if isinstance(st, ast.If) and marker in ast.unparse(st.test):
                    body = st.orelse if orelse else st.body
                    names = [tgt(x) for x in body]
                    if first in names and last in names:
                        i0 = names.index(first)
                        i1 = len(names) - 1 - names[::-1].index(last)
                        if i0 <= i1:
                            return body[i0:i1 + 1]
            raise Untranslatable(f"statements {first} .. {last} under `if … {marker} …` not found")
        return sel
    orders_fn = find_func(base, "calc_orders")
    def aug_of(target):
        def sel(fn):
            got = [st for st in fn.body if isinstance(st, ast.AugAssign) and Pointwise.name_of(None, st.target) == target]
            if len(got) == 1:
                return got
            raise Untranslatable(f"single augmented assignment to {target} not found")
        return sel
    parts.append(lean_formula(
        "stock_gap_base_cell", find_func(base, "calc_matrix_stock_gap"),
        "`ARIOBaseModel.calc_matrix_stock_gap`, one (input, industry) cell.",
        fixed_params=["is_finite", "matrix_stock_goal", "inputs_stock"], finite_param="is_finite"))
    parts.append(lean_formula(
        "stock_gap_psi_cell", find_func(psi_cls, "calc_matrix_stock_gap"),
        "`ARIOPsiModel.calc_matrix_stock_gap`, one (input, industry) cell.",
        fixed_params=["restoration_tau", "super_calc_matrix_stock_gap"]))
    tracker = find_class(trees["simulation"], "EventTracker")

    def ledger_update(target):
        """the statements of `receive_*_rebuilding` that update the ledger `target` (subtraction, rounding, floor at 0)"""
        def sel(fn):
            out = []
            for st in fn.body:
                t = None
                if isinstance(st, ast.AugAssign):
                    t = Pointwise.name_of(None, st.target)
                elif isinstance(st, ast.Assign) and len(st.targets) == 1:
                    tg = st.targets[0]
                    t = Pointwise.name_of(None, tg.value if isinstance(tg, ast.Subscript) else tg)
                if t == target:
                    out.append(st)
            if len(out) >= 2:
                return out
            raise Untranslatable(f"ledger update of {target} not found")
        return sel
    for which in ("indus", "house"):
        parts.append(lean_formula(
            f"settle_{which}_cell", find_func(tracker, f"receive_{which}_rebuilding"),
            f"`EventTracker.receive_{which}_rebuilding`, one cell of the remaining reconstruction demand after a delivery "
            "(`precision` = number of decimals kept, computed from the model's monetary factor).",
            nat_params=("precision",), fixed_params=["precision", f"distributed_reb_dem_{which}", "reb_prod"],
            body=ledger_update(f"distributed_reb_dem_{which}"), result=f"distributed_reb_dem_{which}"))

        def only_return(fn):
            got = [st for st in fn.body if isinstance(st, ast.Return)]
            if len(got) == 1:
                return got
            raise Untranslatable("single return not found")
        parts.append(lean_formula(
            f"presented_{which}_cell", find_func(tracker, f"distributed_reb_dem_{which}_tau"),
            f"`EventTracker.distributed_reb_dem_{which}_tau`, one cell of the demand presented to producers "
            "(`reb_tau` is the event's rebuilding time, or the model's when the event has none).",
            nat_params=("n_temporal_units_by_step", "reb_tau"),
            fixed_params=[f"distributed_reb_dem_{which}", "n_temporal_units_by_step", "reb_tau"], body=only_return))
    def conversion(var, source_attr):
        """in `EventTracker.__init__`: `var = source_event.<source_attr>.copy()` and the conversion `if factors differ: var = var * (…)`
        that follows (possibly under an `isinstance` test)"""
        def find(stmts):
            for k, st in enumerate(stmts):
                if isinstance(st, ast.Assign) and len(st.targets) == 1 and isinstance(st.targets[0], ast.Name) \
                        and st.targets[0].id == var and source_attr in ast.unparse(st.value):
                    for nxt in stmts[k + 1:k + 3]:
                        node = nxt
                        if isinstance(node, ast.If) and "isinstance" in ast.unparse(node.test) and node.body and isinstance(node.body[0], ast.If):
                            node = node.body[0]
                        if isinstance(node, ast.If) and "monetary_factor" in ast.unparse(node.test):
                            start = ast.Assign(targets=[ast.Name(id=var, ctx=ast.Store())], value=ast.Name(id=var + "_given", ctx=ast.Load()), lineno=0)
                            return [start, node]
                if isinstance(st, ast.If):
                    got = find(st.body)
                    if got:
                        return got
            return None

        def sel(fn):
            got = find(fn.body)
            if got:
                return got
            raise Untranslatable(f"conversion of {var} not found")
        return sel
    def find_setter(cls, name):
        for n_ in cls.body:
            if isinstance(n_, ast.FunctionDef) and n_.name == name and any(
                    isinstance(dd, ast.Attribute) and dd.attr == "setter" for dd in n_.decorator_list):
                return n_
        raise KeyError(name)
    parts.append(lean_formula(
        "delta_capital_cell", find_setter(base, "productive_capital_lost"),
        "`ARIOBaseModel.productive_capital_lost` (setter): the share of production capacity lost to destroyed capital, one industry.",
        fixed_params=["productive_capital_lost", "productive_capital"],
        body=branch_range("productive_capital_lost is not None", "tmp", "tmp"), result="tmp"))
    tinit = find_func(tracker, "__init__")
    parts.append(lean_formula(
        "convert_impact_cell", tinit, "`EventTracker.__init__`: one entry of the industrial impact converted to the model's monetary unit.",
        fixed_params=["impact_given", "event_monetary_factor", "monetary_factor"], body=conversion("impact", "impact"), result="impact"))
    parts.append(lean_formula(
        "convert_house_cell", tinit, "`EventTracker.__init__`: one entry of the household impact converted to the model's monetary unit.",
        fixed_params=["impact_house_given", "event_monetary_factor", "monetary_factor"], body=conversion("impact_house", "impact_households"),
        result="impact_house"))
    parts.append(lean_formula(
        "need_cell", orders_fn, "`calc_orders`: one (input, industry) cell of the need = inventory gap + input used by realised production.",
        fixed_params=["matrix_stock_gap", "production", "tech_mat"], body=aug_of("matrix_stock_gap"), result="matrix_stock_gap"))
    parts.append(lean_formula(
        "z_prod_cell", orders_fn, "`calc_orders`, alt branch: one cell of `Z_prod` (initial flow weighted by the supplier's relative capacity).",
        fixed_params=["production_cap", "X_0", "Z_0"], body=branch_range("order_type", "prod_ratio", "Z_prod"), result="Z_prod"))
    parts.append(lean_formula(
        "alt_share_cell", orders_fn, "`calc_orders`, alt branch: one cell of the supplier shares `out` (`Z_Cprod` is the sum of `Z_prod` "
        "over the regions supplying the same input).",
        fixed_params=["Z_prod", "Z_Cprod"], body=branch_range("order_type", "out", "out"), result="out"))
    parts.append(lean_formula(
        "alt_order_cell", orders_fn, "`calc_orders`, alt branch: one cell of the orders.",
        fixed_params=["matrix_stock_gap", "out"], body=branch_range("order_type", "tmp", "tmp"), result="tmp"))
    parts.append(lean_formula(
        "noalt_order_cell", orders_fn, "`calc_orders`, noalt branch: one cell of the orders.",
        fixed_params=["matrix_stock_gap", "Z_distrib"], body=branch_range("order_type", "tmp", "tmp", orelse=True), result="tmp"))
    parts.append(lean_formula(
        "stock_update_cell", dist, "`distribute_production`, one (input, industry) cell of the inventory update "
        "(made unless `np.allclose(stock_add, stock_use)`).",
        fixed_params=["inputs_stock", "stock_use", "stock_add"], body=inside_if("allclose", "inputs_stock"), result="inputs_stock"))
    parts.append(lean_formula(
        "rebuild_demand_cell", dist, "`distribute_production`, one cell of the reconstruction-demand ledger after delivery.",
        fixed_params=["rebuild_demand", "rebuild_prod"], body=inside_if("rebuild_demand is not None", "rebuild_demand"), result="rebuild_demand"))
    parts.append(lean_formula(
        "production_max_cell", find_func(base, "calc_production"),
        "`ARIOBaseModel.calc_production`, shortage branch, one (input, industry) cell of `production_max` "
        "(`production_opt` and `inventory_constraints` are the local copies made at the top of the function).",
        fixed_params=["threshold_not_input", "inputs_stock", "inventory_constraints", "production_opt"],
        bool_params=("threshold_not_input",), body=shortage_branch, result="production_max"))
    rec = dict(nat_params=("elapsed_temporal_unit", "recovery_tau"))
    sim_passes = "the simulation binds `init_impact_stock` and `recovery_tau` and passes `elapsed_temporal_unit`; other parameters keep their defaults"
    for fname in ("linear_recovery", "convexe_recovery", "convexe_recovery_scaled"):
        fn = find_func(rec_tree, fname)
        inl_nat = {}
        for a, dflt in zip(reversed(fn.args.args), reversed(fn.args.defaults)):
            if isinstance(dflt, ast.Constant) and isinstance(dflt.value, (int, float)) and float(dflt.value).is_integer() and dflt.value >= 0:
                inl_nat[a.arg] = str(int(dflt.value))
        parts.append(lean_formula(
            fname, fn, f"`recovery_functions.{fname}`, one cell ({sim_passes}).",
            inline_nat=inl_nat, fixed_params=["elapsed_temporal_unit", "init_impact_stock", "recovery_tau"], **rec))
    return ("/- GENERATED by harness/translate.py: element-wise formulas of the source as functions of one cell. Do not edit. -/\n"
            "import Boario.GenTypes\nimport Boario.Basic\n\nnamespace Boario.Gen\n\n" + "\n".join(parts) + "\nend Boario.Gen\n")


def gen_aggregation(tree):
    """which trackers the simulation aggregates, what it takes from them and how it combines them"""
    sim = find_class(tree, "Simulation")
    rows = []
    for fname in ("update_productive_capital_lost", "update_prod_cap_delta_arb"):
        fn = find_func(sim, fname)
        statuses, attrs, reducers = None, [], []
        for node in ast.walk(fn):
            if isinstance(node, ast.Compare) and len(node.ops) == 1 and isinstance(node.ops[0], ast.In) \
                    and isinstance(node.comparators[0], (ast.List, ast.Tuple)) and ast.unparse(node.left).endswith(".status"):
                vals = [e.value for e in node.comparators[0].elts if isinstance(e, ast.Constant)]
                statuses = vals if statuses is None else statuses + ["<second status test>"]
            if isinstance(node, ast.ListComp) and isinstance(node.elt, ast.Attribute) and node.elt.attr.startswith("_"):
                attrs.append(node.elt.attr)
            if isinstance(node, ast.Call):
                ch = attr_chain(node.func)
                if ch and ch.endswith(".reduce"):
                    reducers.append(ch)
        rows.append((fname, statuses or [], sorted(set(attrs)), sorted(set(reducers))))
    body = ",\n".join(
        f"  ({lstr(f)}, [{', '.join(lstr(x) for x in st)}], [{', '.join(lstr(x) for x in at)}], [{', '.join(lstr(x) for x in rd)}])"
        for f, st, at, rd in rows)
    return ("/- GENERATED by harness/translate.py: how the simulation aggregates the damages of its trackers. Do not edit. -/\n"
            "namespace Boario.Gen\n\n"
            "/-- (function, statuses of the trackers taken into account, attribute collected from each, reducer) -/\n"
            "def aggregations : List (String × List String × List String × List String) := [\n" + body + "\n]\n\nend Boario.Gen\n")


def gen_lifecycle(tree):
    """the status transitions of `Simulation._check_happening_events`: for each loop over the trackers, the status it tests,
    its guard as a proposition over integers, and the status given to each class of event"""
    sim = find_class(tree, "Simulation")
    fn = find_func(sim, "_check_happening_events")
    names = {"current_temporal_unit": "t", "n_temporal_units_by_step": "dt", "occurrence": "occ", "duration": "dur"}

    def iexpr(e):
        if isinstance(e, ast.Constant) and isinstance(e.value, int) and not isinstance(e.value, bool):
            return f"({e.value} : Int)"
        if isinstance(e, ast.Attribute) and e.attr in names:
            return names[e.attr]
        if isinstance(e, ast.BinOp) and isinstance(e.op, (ast.Add, ast.Sub, ast.Mult)):
            op = {ast.Add: "+", ast.Sub: "-", ast.Mult: "*"}[type(e.op)]
            return f"({iexpr(e.left)} {op} {iexpr(e.right)})"
        raise Untranslatable(ast.unparse(e))

    def guard(e):
        if isinstance(e, ast.Compare):
            ops = {ast.LtE: "≤", ast.Lt: "<", ast.GtE: "≥", ast.Gt: ">", ast.Eq: "=", ast.NotEq: "≠"}
            terms = [e.left] + list(e.comparators)
            parts_ = []
            for a_, op_, b_ in zip(terms, e.ops, terms[1:]):
                if type(op_) not in ops:
                    raise Untranslatable(ast.unparse(e))
                parts_.append(f"({iexpr(a_)} {ops[type(op_)]} {iexpr(b_)})")
            return "(" + " ∧ ".join(parts_) + ")"
        if isinstance(e, ast.BoolOp):
            j = " ∧ " if isinstance(e.op, ast.And) else " ∨ "
            return "(" + j.join(guard(v) for v in e.values) + ")"
        raise Untranslatable(ast.unparse(e))

    def assignments(stmts, cls="*"):
        out = []
        for st in stmts:
            if isinstance(st, ast.Assign) and len(st.targets) == 1 and isinstance(st.targets[0], ast.Attribute) \
                    and st.targets[0].attr == "_status" and isinstance(st.value, ast.Constant):
                out.append((cls, st.value.value))
            elif isinstance(st, ast.If):
                t = ast.unparse(st.test)
                if t.startswith("isinstance("):
                    c_ = t[t.index(",") + 1:].strip(" ()").replace(" ", "")
                    out += assignments(st.body, c_)
                    out += assignments(st.orelse, cls if cls != "*" else "else")
                else:
                    out += assignments(st.body, cls) + assignments(st.orelse, cls)
        return out

    loops, defs = [], []
    k = 0
    for st in fn.body:
        if isinstance(st, ast.For) and "_event_tracking" in ast.unparse(st.iter):
            for inner in st.body:
                if isinstance(inner, ast.If) and isinstance(inner.test, ast.Compare) and ast.unparse(inner.test.left).endswith(".status") \
                        and isinstance(inner.test.comparators[0], ast.Constant):
                    tested = inner.test.comparators[0].value
                    g, asg = "unknown", []
                    for s2 in inner.body:
                        if isinstance(s2, ast.If):
                            try:
                                g = guard(s2.test)
                            except Untranslatable as u:
                                g = f"(untranslatable_guard {lstr(str(u))})"
                            asg = assignments(s2.body)
                    name = f"guard{k}"
                    defs.append(f"/-- guard of loop {k} (trackers whose status is {tested!r}): `{ast.unparse(s2.test) if isinstance(s2, ast.If) else ''}` -/\n"
                                f"def {name} (t dt occ dur : Int) : Prop := {g}\n\n"
                                f"instance (t dt occ dur : Int) : Decidable ({name} t dt occ dur) := by unfold {name}; infer_instance\n")
                    loops.append((k, tested, asg))
                    k += 1
                else:
                    loops.append((k, "<unrecognised statement in the loop>", []))
                    k += 1
    body = ",\n".join(f"  ({i}, {lstr(t)}, [{', '.join('(' + lstr(c) + ', ' + lstr(v) + ')' for c, v in a)}])" for i, t, a in loops)
    return ("/- GENERATED by harness/translate.py: status transitions of Simulation._check_happening_events. Do not edit. -/\n"
            "namespace Boario.Gen\n\n" + "\n".join(defs) +
            "\n/-- the loops over the trackers, in source order: (ordinal, status tested, [(event class, status given)]) -/\n"
            "def lifecycleLoops : List (Nat × String × List (String × String)) := [\n" + body + "\n]\n\nend Boario.Gen\n")


def gen_recover(tree):
    """`EventTracker.recover`: for each ledger, the recovery function evaluated, at which elapsed time, and to how many decimals
    the result is rounded; and how the number of decimals is obtained"""
    tracker = find_class(tree, "EventTracker")
    fn = find_func(tracker, "recover")
    names = {"current_temporal_unit": "t", "occurrence": "occ", "duration": "dur"}

    def iexpr(e):
        if isinstance(e, ast.Constant) and isinstance(e.value, int) and not isinstance(e.value, bool):
            return f"({e.value} : Int)"
        if isinstance(e, ast.Attribute) and e.attr in names:
            return names[e.attr]
        if isinstance(e, ast.Name) and e.id in local_el:
            return local_el[e.id]
        if isinstance(e, ast.BinOp) and isinstance(e.op, (ast.Add, ast.Sub, ast.Mult)):
            op = {ast.Add: "+", ast.Sub: "-", ast.Mult: "*"}[type(e.op)]
            return f"({iexpr(e.left)} {op} {iexpr(e.right)})"
        raise Untranslatable(ast.unparse(e))

    local_el = {}
    rows, defs, prec = [], [], ("unknown", 0)
    for node in ast.walk(fn):
        if isinstance(node, ast.Assign) and len(node.targets) == 1 and isinstance(node.targets[0], ast.Name):
            nm, v = node.targets[0].id, node.value
            if nm == "precision":
                # int(math.log10(<x>.monetary_factor)) + k
                if isinstance(v, ast.BinOp) and isinstance(v.op, ast.Add) and isinstance(v.right, ast.Constant) \
                        and isinstance(v.left, ast.Call) and getattr(v.left.func, "id", "") == "int" and len(v.left.args) == 1 \
                        and isinstance(v.left.args[0], ast.Call) and attr_chain(v.left.args[0].func) == "math.log10":
                    prec = (ast.unparse(v.left.args[0].args[0]), int(v.right.value))
                else:
                    prec = ("untranslatable: " + ast.unparse(v), 0)
            else:
                try:
                    local_el[nm] = iexpr(v)
                except Untranslatable:
                    pass
    k = 0
    for node in sorted((n_ for n_ in ast.walk(fn) if isinstance(n_, ast.Assign)), key=lambda n_: n_.lineno):
        if isinstance(node, ast.Assign) and len(node.targets) == 1 and isinstance(node.targets[0], ast.Attribute) \
                and isinstance(node.value, ast.Call) and isinstance(node.value.func, ast.Attribute) and node.value.func.attr == "round" \
                and isinstance(node.value.func.value, ast.Call):
            ledger = node.targets[0].attr
            inner = node.value.func.value
            fname = inner.func.attr if isinstance(inner.func, ast.Attribute) else ast.unparse(inner.func)
            try:
                if len(inner.args) == 1 and not inner.keywords:
                    el = iexpr(inner.args[0])
                elif not inner.args and [k_.arg for k_ in inner.keywords] == ["elapsed_temporal_unit"]:
                    el = iexpr(inner.keywords[0].value)          # (the elapsed time passed by keyword)
                else:
                    el = "untranslatable_elapsed"
            except Untranslatable as u:
                el = f"(untranslatable_elapsed {lstr(str(u))})"
            arg = node.value.args[0] if node.value.args else None
            rnd = "precision" if isinstance(arg, ast.Name) and arg.id == "precision" else (str(arg.value) if isinstance(arg, ast.Constant) else "unknown")
            defs.append(f"/-- elapsed time given to `{fname}` -/\ndef recoverElapsed{k} (t occ dur : Int) : Int := {el}\n")
            rows.append((ledger, fname, k, rnd))
            k += 1
    body = ",\n".join(f"  ({lstr(a)}, {lstr(b)}, {c}, {lstr(d_)})" for a, b, c, d_ in rows)
    return ("/- GENERATED by harness/translate.py: EventTracker.recover. Do not edit. -/\nnamespace Boario.Gen\n\n" + "\n".join(defs) +
            "\n/-- (ledger attribute, recovery function evaluated, ordinal of its elapsed-time expression, decimals kept: `precision` or a literal) -/\n"
            "def recoverLedgers : List (String × String × Nat × String) := [\n" + body + "\n]\n\n"
            "/-- `precision = int(math.log10(<source>)) + <offset>` -/\n"
            f"def recoverPrecision : String × Nat := ({lstr(prec[0])}, {prec[1]})\n\n"
            "/-- every `precision = int(math.log10(<source>)) + <offset>` of the tracker's ledger updates: (function, source, offset) -/\n"
            "def precisionSources : List (String × String × Nat) := [\n" + ",\n".join(
                f"  ({lstr(f_)}, {lstr(src_)}, {off_})" for f_, src_, off_ in precision_sources(tracker)) + "\n]\n\nend Boario.Gen\n")


def precision_sources(tracker):
    out = []
    for fname in ("recover", "receive_indus_rebuilding", "receive_house_rebuilding"):
        fn = find_func(tracker, fname)
        found = False
        for node in sorted((n_ for n_ in ast.walk(fn) if isinstance(n_, ast.Assign)), key=lambda n_: n_.lineno):
            if len(node.targets) == 1 and isinstance(node.targets[0], ast.Name) and node.targets[0].id == "precision":
                v = node.value
                found = True
                if isinstance(v, ast.BinOp) and isinstance(v.op, ast.Add) and isinstance(v.right, ast.Constant) \
                        and isinstance(v.left, ast.Call) and getattr(v.left.func, "id", "") == "int" and len(v.left.args) == 1 \
                        and isinstance(v.left.args[0], ast.Call) and attr_chain(v.left.args[0].func) == "math.log10":
                    out.append((fname, ast.unparse(v.left.args[0].args[0]), int(v.right.value)))
                else:
                    out.append((fname, "untranslatable: " + ast.unparse(v), 0))
        if not found:
            out.append((fname, "no precision assignment found", 0))
    return out


# ------------------------------------------------------------------ masked ufuncs and raw allocations (C17, C20)

FILLED_CTORS = {"np.zeros", "np.zeros_like", "np.ones", "np.ones_like", "np.full", "np.full_like"}
RAW_CTORS = {"np.empty", "np.empty_like", "np.ndarray"}


def _functions(tree):
    """(label, FunctionDef) for module-level functions and methods"""
    for node in tree.body:
        if isinstance(node, ast.FunctionDef):
            yield node.name, node
        elif isinstance(node, ast.ClassDef):
            for f in node.body:
                if isinstance(f, ast.FunctionDef):
                    yield fn_label(node.name, f), f


def _out_init(fn, call, name):
    """how the array `name`, given as `out=` of `call`, was created: the last plain assignment to it before the call"""
    best = None
    for node in ast.walk(fn):
        if isinstance(node, ast.Assign) and len(node.targets) == 1 and isinstance(node.targets[0], ast.Name) \
                and node.targets[0].id == name and node.lineno < call.lineno:
            if best is None or node.lineno > best.lineno:
                best = node
    if best is None:
        return ".unknown"
    v = best.value
    if isinstance(v, ast.Call):
        ch = attr_chain(v.func)
        if ch in FILLED_CTORS:
            return ".filled"
        if ch in RAW_CTORS:
            return ".raw"
    return ".computed"


def gen_masked(trees):
    calls, allocs = [], []
    for mod, tree in trees.items():
        for label, fn in _functions(tree):
            ci = ai = 0
            body_nodes = sorted((n for n in ast.walk(fn) if isinstance(n, ast.Call)), key=lambda n: (n.lineno, n.col_offset))
            for node in body_nodes:
                ch = attr_chain(node.func) or ""
                if ch.startswith("np.") and any(kw.arg == "where" for kw in node.keywords):
                    out = next((kw.value for kw in node.keywords if kw.arg == "out"), None)
                    if out is None:
                        kind = ".missing"
                    elif isinstance(out, ast.Name):
                        kind = _out_init(fn, node, out.id)
                    elif isinstance(out, ast.Call) and attr_chain(out.func) in FILLED_CTORS:
                        kind = ".filled"          # `out=np.zeros_like(a)` written in place
                    elif isinstance(out, ast.Call) and attr_chain(out.func) in RAW_CTORS:
                        kind = ".raw"
                    elif isinstance(out, ast.Attribute):
                        kind = ".computed"        # an array the object already holds
                    else:
                        kind = ".unknown"
                    calls.append(f"  ⟨{lstr(mod + '.' + label)}, {ci}, {lstr(ch)}, {kind}⟩")
                    ci += 1
                if ch in RAW_CTORS:
                    # the statement that follows the allocation in the same block must fill the array
                    filled = False
                    for blk in ast.walk(fn):
                        for field in ("body", "orelse", "finalbody"):
                            stmts = getattr(blk, field, None)
                            if not isinstance(stmts, list):
                                continue
                            for i, st in enumerate(stmts):
                                if isinstance(st, ast.Assign) and st.value is node and len(st.targets) == 1 and isinstance(st.targets[0], ast.Name):
                                    nm = st.targets[0].id
                                    # the first later statement that mentions the array (rest of this block, then what
                                    # follows the enclosing compound statements) must be `<name>.fill(v)`
                                    rest, cur = list(stmts[i + 1:]), blk
                                    while cur is not None and cur is not fn:
                                        nxt = _following(fn, cur)
                                        if nxt is None:
                                            cur = _parent_stmt(fn, cur)
                                            continue
                                        rest.append(nxt)
                                        break
                                    for st2 in rest:
                                        if any(isinstance(x, ast.Name) and x.id == nm for x in ast.walk(st2)):
                                            filled = (isinstance(st2, ast.Expr) and isinstance(st2.value, ast.Call)
                                                      and attr_chain(st2.value.func) == f"{nm}.fill")
                                            break
                    allocs.append(f"  ⟨{lstr(mod + '.' + label)}, {ai}, {lstr(ch)}, {'true' if filled else 'false'}⟩")
                    ai += 1
    return f"""/- GENERATED by harness/translate.py from boario/*.py and boario/utils/misc.py: every NumPy ufunc call with a `where=`
   mask (with how the array given as `out=` was created) and every allocation that NumPy leaves uninitialised
   (with whether the first later statement that mentions the array fills it).  Do not edit. -/
import Boario.GenTypes

namespace Boario.Gen

def maskedCalls : List MaskedCall := [
{(',' + chr(10)).join(calls)}
]

def rawAllocs : List RawAlloc := [
{(',' + chr(10)).join(allocs)}
]

end Boario.Gen
"""


def _parent_stmt(fn, blk):
    for outer in ast.walk(fn):
        for field in ("body", "orelse", "finalbody"):
            stmts = getattr(outer, field, None)
            if isinstance(stmts, list) and blk in stmts:
                return outer
    return None


def _following(fn, blk):
    """the statement executed after the compound statement `blk` (one level up), or None"""
    for outer in ast.walk(fn):
        for field in ("body", "orelse", "finalbody"):
            stmts = getattr(outer, field, None)
            if isinstance(stmts, list) and blk in stmts:
                i = stmts.index(blk)
                return stmts[i + 1] if i + 1 < len(stmts) else None
    return None


def regenerate():
    GEN.mkdir(parents=True, exist_ok=True)
    trees = {}
    for mod in ("simulation", "model_base", "extended_models", "event"):
        trees[mod] = ast.parse((REPO / "boario" / f"{mod}.py").read_text())
    outs = {
        "NextStep.lean": gen_next_step(trees["simulation"]),
        "RecordSpecs.lean": gen_record_specs(trees["simulation"]),
        "Defaults.lean": gen_defaults(trees),
        "Slices.lean": gen_slices(trees),
        "Loop.lean": gen_loop(trees["simulation"]),
        "Aggregation.lean": gen_aggregation(trees["simulation"]),
        "Lifecycle.lean": gen_lifecycle(trees["simulation"]),
        "Recover.lean": gen_recover(trees["simulation"]),
        "Masked.lean": gen_masked({**trees, "utils.misc": ast.parse((REPO / "boario" / "utils" / "misc.py").read_text()),
                                   "utils.recovery_functions": ast.parse((REPO / "boario" / "utils" / "recovery_functions.py").read_text())}),
        "Formulas.lean": gen_formulas(trees, ast.parse((REPO / "boario" / "utils" / "recovery_functions.py").read_text())),
    }
    changed = []
    for name, text in outs.items():
        f = GEN / name
        if not f.exists() or f.read_text() != text:
            f.write_text(text)
            changed.append(name)
    return {"regenerated": sorted(outs), "changed": changed}


if __name__ == "__main__":
    print(regenerate())
